#!/usr/bin/env python3
"""seedrun.py [ID ...] — run the registered quick checks against the seeded changes kept under seeded/<id>/.

For each seeded change: git -C /repo apply seeded/<id>/patch.diff, run the quick check of the property the change
breaks (and, with --all, every claimed check), record exit code and VIOLATION lines in seeded/<id>/detection.json,
then git -C /repo checkout -- . (always, also on error).  Evidence written during these runs is diverted to a scratch
directory so that evidence/ keeps describing the unchanged tree.  Nothing is ever committed to /repo."""
import json
import os
import shutil
import subprocess
import sys
import tempfile
import time

VERIF = os.path.dirname(os.path.dirname(os.path.abspath(__file__)))
REPO = os.environ.get('REPO', '/repo')


def claimed():
    m = json.load(open(os.path.join(VERIF, 'MANIFEST.json')))
    return [c['property_id'] for c in m['checks']]


def run_check(pid, evdir, tier='quick'):
    env = dict(os.environ, VERIF_EVIDENCE_DIR=evdir)
    t0 = time.time()
    p = subprocess.run(['python3', 'tools/check.py', pid, '--tier', tier], cwd=VERIF, env=env, stdout=subprocess.PIPE,
                       stderr=subprocess.STDOUT, text=True, timeout=3600)
    out = p.stdout
    vio = [l for l in out.splitlines() if l.startswith('VIOLATION')]
    why = [l for l in out.splitlines() if l.startswith('# ')][:6]
    return dict(property=pid, exit=p.returncode, violations=vio, detail=why, wall_s=round(time.time() - t0, 1),
                summary=out.strip().splitlines()[-1] if out.strip() else '')


def main():
    args = [a for a in sys.argv[1:] if not a.startswith('--')]
    do_all = '--all' in sys.argv
    tier = 'thorough' if '--thorough' in sys.argv else 'quick'
    sdir = os.path.join(VERIF, 'seeded')
    ids = args or sorted(d for d in os.listdir(sdir) if os.path.isfile(os.path.join(sdir, d, 'patch.diff')))
    dirty = subprocess.run(['git', '-C', REPO, 'status', '--porcelain', '--untracked-files=no'], stdout=subprocess.PIPE, text=True).stdout.strip()
    if dirty:
        sys.exit('refusing to run: %s has local changes:\n%s' % (REPO, dirty))
    cl = claimed()
    rows = []
    for sid in ids:
        d = os.path.join(sdir, sid)
        meta = json.load(open(os.path.join(d, 'meta.json')))
        evdir = tempfile.mkdtemp(prefix='seedrun-')
        res = []
        try:
            subprocess.run(['git', '-C', REPO, 'apply', os.path.join(d, 'patch.diff')], check=True)
            pids = [meta['property']] + ([p for p in cl if p != meta['property']] if do_all else [])
            for pid in pids:
                if pid not in cl and not os.path.exists(os.path.join(VERIF, 'tools', 'props', pid + '.py')):
                    res.append(dict(property=pid, exit=None, violations=[], detail=['no check for this property'], summary=''))
                    continue
                r = run_check(pid, evdir, tier)
                r['claimed_in_manifest'] = pid in cl     # an unclaimed property's check is run all the same
                res.append(r)
        finally:
            subprocess.run(['git', '-C', REPO, 'checkout', '--', '.'], check=True)
            # the generated rule table follows lexer.l: bring it back to the unchanged source
            subprocess.run([sys.executable, os.path.join(VERIF, 'tools', 'lex2coq.py'), os.path.join(REPO, 'src', 'lexer.l'),
                            os.path.join(REPO, 'src', 'confuse.h'), os.path.join(VERIF, 'coq')], stdout=subprocess.DEVNULL)
            # keep the replay files of the detecting run next to the seeded change
            rp = os.path.join(evdir, 'replays')
            if os.path.isdir(rp):
                dst = os.path.join(d, 'replays')
                shutil.rmtree(dst, ignore_errors=True)
                shutil.copytree(rp, dst)
            shutil.rmtree(evdir, ignore_errors=True)
        own = res[0]
        caught_by = [r['property'] for r in res if r['exit'] == 1 and r['violations']]
        det = dict(seeded=sid, property=meta['property'], tier=tier, caught=bool(own['exit'] == 1 and own['violations']),
                   caught_by=caught_by, runs=res, repo_head=subprocess.run(['git', '-C', REPO, 'rev-parse', '--short', 'HEAD'], stdout=subprocess.PIPE, text=True).stdout.strip())
        json.dump(det, open(os.path.join(d, 'detection.json'), 'w'), indent=1)
        rows.append(det)
        print('%-8s %s own-check=%s caught_by=%s  %s' % (sid, meta['property'], 'CAUGHT' if det['caught'] else 'missed', ','.join(caught_by) or '-',
                                                       (own['violations'] or [''])[0][:110]), flush=True)
    return 0


if __name__ == '__main__':
    sys.exit(main())
