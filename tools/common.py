"""common.py — shared pieces of the check machinery: PRNG, hex, schema/text builders,
scenario objects, building the model and the harness, running both, comparing."""
import fcntl
import hashlib
import json
import os
import re
import shutil
import subprocess
import sys
import time

VERIF = os.path.dirname(os.path.dirname(os.path.abspath(__file__)))
REPO = os.environ.get('REPO', '/repo')
BUILD = os.path.join(VERIF, 'build')
COQ = os.path.join(VERIF, 'coq')
NCPU = min(16, os.cpu_count() or 4)

# ---------------------------------------------------------------- PRNG (splitmix64)


class Rng:
    def __init__(self, seed):
        self.s = (seed * 0x9E3779B97F4A7C15 + 0x1234567) & 0xFFFFFFFFFFFFFFFF

    def next(self):
        self.s = (self.s + 0x9E3779B97F4A7C15) & 0xFFFFFFFFFFFFFFFF
        z = self.s
        z = ((z ^ (z >> 30)) * 0xBF58476D1CE4E5B9) & 0xFFFFFFFFFFFFFFFF
        z = ((z ^ (z >> 27)) * 0x94D049BB133111EB) & 0xFFFFFFFFFFFFFFFF
        return z ^ (z >> 31)

    def below(self, n):
        return self.next() % n

    def chance(self, num, den):
        return self.below(den) < num

    def pick(self, seq):
        return seq[self.below(len(seq))]

    def shuffle(self, l):
        l = list(l)
        for i in range(len(l) - 1, 0, -1):
            j = self.below(i + 1)
            l[i], l[j] = l[j], l[i]
        return l

    def fork(self, tag):
        h = int.from_bytes(hashlib.sha256(('%d/%s' % (self.s, tag)).encode()).digest()[:8], 'big')
        return Rng(h)


# ---------------------------------------------------------------- hex and formats

def hx(b):
    """bytes/str/None -> HEX token"""
    if b is None:
        return '-'
    if isinstance(b, str):
        b = b.encode('latin-1')
    return b.hex() if b else '.'


def unhx(t):
    if t == '-':
        return None
    if t == '.':
        return b''
    return bytes.fromhex(t)


CFGF = dict(MULTI=1, LIST=2, NOCASE=4, TITLE=8, NODEFAULT=16, NO_TITLE_DUPES=32, RESET=64, DEFINIT=128,
            IGNORE_UNKNOWN=256, DEPRECATED=512, DROP=1024, COMMENTS=2048, MODIFIED=4096, KEYSTRVAL=8192)


def dbits(x):
    import struct
    return struct.pack('>d', x).hex()


class Opt:
    """a declared option; kind in int intl flt fltl bool booll str strl sec func ptr ptrl"""

    def __init__(self, kind, name, flags=0, default=None, sub=None, cbs=(), func=None):
        self.kind, self.name, self.flags, self.default, self.sub, self.cbs, self.func = kind, name, flags, default, sub, tuple(cbs), func

    def sexpr(self):
        n = hx(self.name)
        cb = ''.join(' ' + c for c in self.cbs)
        k = self.kind
        if k == 'sint':       # CFG_SIMPLE_INT (library only: the model has no user variables)
            return '(sint %s %d %d%s)' % (n, self.flags, self.default or 0, cb)
        if k == 'int':
            return '(int %s %d %d%s)' % (n, self.flags, self.default or 0, cb)
        if k == 'flt':
            return '(flt %s %d %s%s)' % (n, self.flags, dbits(self.default or 0.0), cb)
        if k == 'bool':
            return '(bool %s %d %d%s)' % (n, self.flags, 1 if self.default else 0, cb)
        if k == 'str':
            return '(str %s %d %s%s)' % (n, self.flags, hx(self.default), cb)
        if k in ('intl', 'fltl', 'booll', 'strl', 'ptrl'):
            return '(%s %s %d %s%s)' % (k, n, self.flags, hx(self.default), cb)
        if k == 'ptr':
            return '(ptr %s %d%s)' % (n, self.flags, cb)
        if k == 'sec':
            return '(sec %s %d (%s)%s)' % (n, self.flags, ' '.join(o.sexpr() for o in self.sub), cb)
        if k == 'func':
            return '(func %s %s)' % (n, self.func)
        raise ValueError(k)

    def is_list(self):
        return self.kind.endswith('l') and self.kind != 'bool' or bool(self.flags & CFGF['LIST'])

    def base(self):
        return {'intl': 'int', 'fltl': 'flt', 'booll': 'bool', 'strl': 'str', 'ptrl': 'ptr'}.get(self.kind, self.kind)


def schema_sexpr(opts):
    return '(' + ' '.join(o.sexpr() for o in opts) + ')'


class Scn:
    def __init__(self, sid, lines, meta=None):
        self.id, self.lines, self.meta = sid, list(lines), meta or {}

    def text(self):
        return '=== %s\n%s\n' % (self.id, '\n'.join(self.lines))


# ---------------------------------------------------------------- builds

class Lock:
    def __init__(self, name):
        os.makedirs(BUILD, exist_ok=True)
        self.path = os.path.join(BUILD, name + '.lock')

    def __enter__(self):
        self.f = open(self.path, 'w')
        fcntl.flock(self.f, fcntl.LOCK_EX)

    def __exit__(self, *a):
        fcntl.flock(self.f, fcntl.LOCK_UN)
        self.f.close()


def sh(cmd, timeout=3600, cwd=None, env=None):
    p = subprocess.run(cmd, shell=isinstance(cmd, str), cwd=cwd, env=env, stdout=subprocess.PIPE,
                       stderr=subprocess.STDOUT, timeout=timeout)
    return p.returncode, p.stdout.decode('utf-8', 'replace')


def src_hash():
    h = hashlib.sha256()
    for f in ('src/confuse.c', 'src/confuse.h', 'src/lexer.l', 'src/compat.h', 'config.h'):
        try:
            h.update(open(os.path.join(REPO, f), 'rb').read())
        except OSError:
            h.update(b'?')
    for f in ('implrun.c', 'allocwrap.c', 'allocwrap.h', 'build.sh'):
        h.update(open(os.path.join(VERIF, 'harness', f), 'rb').read())
    return h.hexdigest()[:16]


def build_harness(variant):
    """build (once per source state) the C harness variant from /repo's working tree; returns the executable or raises"""
    key = src_hash()
    out = os.path.join(BUILD, 'impl', key, variant)
    exe = os.path.join(out, 'implrun')
    with Lock('impl-' + variant):
        if os.path.exists(exe):
            return exe
        # drop builds of older source states, keeping the three most recent (scratch trees may be checked side by side)
        base = os.path.join(BUILD, 'impl')
        if os.path.isdir(base):
            others = sorted((d for d in os.listdir(base) if d != key), key=lambda d: os.path.getmtime(os.path.join(base, d)), reverse=True)
            for d in others[3:]:
                shutil.rmtree(os.path.join(base, d), ignore_errors=True)
        benv = dict(os.environ, REPO=REPO)
        bvariant = variant
        if variant == 'dyn':        # dynamically linked plain build, for valgrind
            bvariant, benv['STATIC'] = 'plain', '0'
        if variant == 'countasan':  # failable/counting allocator under AddressSanitizer
            bvariant, benv['STATIC'] = 'count', '0'
            benv['EXTRA_CFLAGS'] = '-fsanitize=address,undefined -fno-sanitize-recover=all -fno-omit-frame-pointer'
        rc, out_txt = sh([os.path.join(VERIF, 'harness', 'build.sh'), bvariant, out], env=benv)
        if rc != 0:
            raise BuildError('harness build failed (%s):\n%s' % (variant, out_txt[-3000:]))
    return exe


class BuildError(Exception):
    pass


# Properties whose theorems and oracles do not speak about the CONTENT of the scanner's rule table.  When lexer.l no
# longer translates (an action the translator does not know), their checks go on with the frozen last-good rule table
# (tools/selftest/LexRules.v): the model then scans with the old rules, and any visible difference still shows up as a
# model/library disagreement on their own scenarios.  All other properties report the broken tie.
RULE_TABLE_INDEPENDENT = {'C04', 'C07', 'C09', 'C10', 'C11', 'C12', 'C14', 'C16', 'C17', 'C18', 'C19'}
FALLBACK_OK = False        # set by tools/check.py for the property being checked
FALLBACK_USED = False


def regen_lexrules():
    global FALLBACK_USED
    rc, out = sh([sys.executable, os.path.join(VERIF, 'tools', 'lex2coq.py'),
                  os.path.join(REPO, 'src', 'lexer.l'), os.path.join(REPO, 'src', 'confuse.h'), COQ])
    if rc != 0:
        # the executable model always gets a rule table (the frozen last-good one), so that oracles which run the
        # model's scanner (C01's reference meaning) do not turn a translator failure into bogus failing inputs
        gold = os.path.join(VERIF, 'tools', 'selftest', 'LexRules.v')
        dst = os.path.join(COQ, 'LexRules.v')
        if not os.path.exists(dst) or open(dst).read() != open(gold).read():
            shutil.copy(gold, dst)
        FALLBACK_USED = True
        if FALLBACK_OK:
            return 0, out + '\nlex2coq failed; this property does not depend on the rule table: frozen tools/selftest/LexRules.v used\n'
        return rc, out + '\nlex2coq failed: the tie between lexer.l and the rule table is broken (the model runs on the frozen table)\n'
    return rc, out


def coq_make(targets, timeout=3000):
    """make the given .vo targets (keep going); returns (rc, output)"""
    if not os.path.exists(os.path.join(COQ, 'Makefile')):
        sh('coq_makefile -f _CoqProject -o Makefile', cwd=COQ)
    return sh(['make', '-k', '-j%d' % NCPU] + targets, cwd=COQ, timeout=timeout)


def build_model():
    """regenerate the rule table, compile the model, extract, build the OCaml driver; returns (exe, log)"""
    with Lock('model'):
        rc, log = regen_lexrules()       # on failure the frozen rule table is in place: the model still builds
        rc, out = coq_make(['Extract.vo'])
        log += out
        if rc != 0:
            raise BuildError('model does not compile:\n' + out[-4000:])
        exe = os.path.join(BUILD, 'model', 'modelrun')
        ml = os.path.join(COQ, 'model.ml')
        srcs = [ml, os.path.join(VERIF, 'ocaml', 'driver.ml'), os.path.join(VERIF, 'ocaml', 'stubs.c')]
        if not os.path.exists(exe) or any(os.path.getmtime(s) > os.path.getmtime(exe) for s in srcs):
            rc, out = sh([os.path.join(VERIF, 'ocaml', 'build.sh'), os.path.join(BUILD, 'model')])
            log += out
            if rc != 0:
                raise BuildError('driver build failed:\n' + out[-3000:])
        return exe, log


def oom_table():
    """the table extracted from the explicit-heap allocation-failure model (coq/Oom.v, coq/OomExtract.v):
    {instance: set of fault indices k for which the model reports failure through the return value}"""
    with Lock('model'):
        rc, out = coq_make(['Oom.vo'])
        if rc != 0:
            raise BuildError('Oom.v does not compile:\n' + out[-3000:])
        d = os.path.join(BUILD, 'oom')
        os.makedirs(d, exist_ok=True)
        exe = os.path.join(d, 'oomtab')
        srcs = [os.path.join(COQ, 'Oom.vo'), os.path.join(COQ, 'OomExtract.v'), os.path.join(VERIF, 'ocaml', 'oom_main.ml')]
        if not os.path.exists(exe) or any(os.path.getmtime(x) > os.path.getmtime(exe) for x in srcs):
            rc, out = sh(['coqc', '-Q', COQ, 'LC', os.path.join(COQ, 'OomExtract.v'), '-o', os.path.join(d, 'OomExtract.vo')], cwd=d)
            if rc != 0:
                raise BuildError('extraction of the OOM table failed:\n' + out[-3000:])
            shutil.copy(os.path.join(VERIF, 'ocaml', 'oom_main.ml'), d)
            rc, out = sh('ocamlfind ocamlopt -w -a oom_table.mli oom_table.ml oom_main.ml -o oomtab', cwd=d)
            if rc != 0:
                raise BuildError('OOM table program does not build:\n' + out[-3000:])
        rc, out = sh([exe])
        if rc != 0:
            raise BuildError('OOM table program failed:\n' + out[-1000:])
    tab = {}
    for line in out.split('\n'):
        m = re.match(r'(\d+):((?: \d+)*)$', line.strip())
        if m:
            tab[int(m.group(1))] = set(int(x) for x in m.group(2).split())
    return tab


# ---------------------------------------------------------------- running

def parse_results(text):
    """result text -> {id: [lines..., trailer]}"""
    res = {}
    cur = None
    for line in text.split('\n'):
        if line.startswith('=== '):
            cur = line[4:]
            res[cur] = []
        elif cur is not None and line:
            res[cur].append(line)
    return res


def _big_stack():
    import resource
    try:
        resource.setrlimit(resource.RLIMIT_STACK, (resource.RLIM_INFINITY, resource.RLIM_INFINITY))
    except (ValueError, OSError):
        pass


def run_chunks(exe, scns, tag, root_arg, nchunks=None, timeout=1200, env=None, wrapper=None):
    """run scenarios through exe in parallel chunks; returns {id: lines}"""
    rundir = os.path.join(BUILD, 'run', '%s-%d' % (tag, os.getpid()))
    os.makedirs(rundir, exist_ok=True)
    n = nchunks or NCPU
    chunks = [scns[i::n] for i in range(n)]
    procs = []
    for i, ch in enumerate(chunks):
        if not ch:
            continue
        fn = os.path.join(rundir, 'c%d.scn' % i)
        with open(fn, 'w') as f:
            for s in ch:
                f.write(s.text())
        outf = open(fn + '.out', 'wb')
        root = root_arg if root_arg else os.path.join(rundir, 'fs%d' % i)
        if not root_arg:
            os.makedirs(root, exist_ok=True)
        p = subprocess.Popen((wrapper or []) + [exe, fn, root], stdout=outf, stderr=subprocess.DEVNULL, env=env,
                             preexec_fn=_big_stack)
        procs.append((p, fn, outf))
    res = {}
    deadline = time.time() + timeout
    for p, fn, outf in procs:
        try:
            p.wait(timeout=max(1, deadline - time.time()))
        except subprocess.TimeoutExpired:
            p.kill()
        outf.close()
        res.update(parse_results(open(fn + '.out', 'r', errors='replace').read()))
    shutil.rmtree(rundir, ignore_errors=True)
    return res


VALGRIND = ['valgrind', '-q', '--error-exitcode=97', '--trace-children=no', '--child-silent-after-fork=no',
            '--errors-for-leak-kinds=none', '--undef-value-errors=yes']


def run_impl(variant, scns, timeout=1200):
    wrapper = None
    if variant == 'valgrind':
        variant, wrapper = 'dyn', VALGRIND
    exe = build_harness(variant)
    env = dict(os.environ)
    env.setdefault('VERIF_CMD_TIMEOUT', '10' if not wrapper else '60')
    return run_chunks(exe, scns, 'impl-' + variant, None, timeout=timeout, env=env, wrapper=wrapper)


def run_model(scns, timeout=1200):
    exe, _ = build_model()
    return run_chunks(exe, scns, 'model', '/R', timeout=timeout)


def status_equiv(impl_tr, model_tr):
    """compare trailer lines: model crash kinds against process outcomes"""
    mi = re.search(r'status=(\S+) san=(\S+)', impl_tr or '')
    mm = re.search(r'status=(\S+)', model_tr or '')
    if not mi or not mm:
        return False
    ist, isan, mst = mi.group(1), mi.group(2), mm.group(1)
    if mst == 'exit:0':
        return ist == 'exit:0' and isan == '-'
    if mst.startswith('crash:abort'):
        return ist == 'signal:6' or (ist.startswith('exit:') and ist != 'exit:0')
    if mst.startswith('crash:'):
        return ist != 'exit:0' or isan != '-'
    return False
