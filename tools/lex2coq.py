#!/usr/bin/env python3
"""lex2coq.py — translate /repo/src/lexer.l into coq/LexRules.v (+ Consts.v).

Every rule's pattern becomes a term of Flex.re; its action text is normalised
(comments and white space removed) and looked up in tools/lex_actions.tbl,
giving a constructor of LexAct.action (A_unrecognised n when unknown).
Usage: lex2coq.py LEXER_L CONFUSE_H OUTDIR     (rewrites files only when changed)
       lex2coq.py --selftest
"""
import os
import re as _re
import sys

HERE = os.path.dirname(os.path.abspath(__file__))


class LexError(Exception):
    pass


# ---------------------------------------------------------------- pattern parser

POSIX = {
    'alpha': [(65, 90), (97, 122)], 'digit': [(48, 57)], 'alnum': [(48, 57), (65, 90), (97, 122)],
    'upper': [(65, 90)], 'lower': [(97, 122)], 'xdigit': [(48, 57), (65, 70), (97, 102)],
    'space': [(9, 13), (32, 32)], 'blank': [(9, 9), (32, 32)], 'punct': [(33, 47), (58, 64), (91, 96), (123, 126)],
    'print': [(32, 126)], 'graph': [(33, 126)], 'cntrl': [(0, 31), (127, 127)],
}
SIMPLE_ESC = {'n': 10, 't': 9, 'r': 13, 'b': 8, 'f': 12, 'a': 7, 'v': 11}


def norm_ranges(rs):
    rs = sorted(rs)
    out = []
    for a, b in rs:
        if out and a <= out[-1][1] + 1:
            out[-1] = (out[-1][0], max(out[-1][1], b))
        else:
            out.append((a, b))
    return out


class P:
    def __init__(self, s):
        self.s = s
        self.i = 0

    def peek(self):
        return self.s[self.i] if self.i < len(self.s) else None

    def eat(self):
        c = self.s[self.i]
        self.i += 1
        return c

    def escape(self):
        """after a backslash: returns byte value"""
        c = self.eat()
        if c in SIMPLE_ESC:
            return SIMPLE_ESC[c]
        if c == 'x':
            j = self.i
            while j < len(self.s) and j - self.i < 2 and self.s[j] in '0123456789abcdefABCDEF':
                j += 1
            if j == self.i:
                return ord('x')
            v = int(self.s[self.i:j], 16)
            self.i = j
            return v
        if c in '01234567':
            j = self.i
            while j < len(self.s) and j - self.i < 2 and self.s[j] in '01234567':
                j += 1
            v = int(c + self.s[self.i:j], 8)
            self.i = j
            return v & 255
        return ord(c)

    def cclass(self):
        neg = False
        if self.peek() == '^':
            self.eat()
            neg = True
        rs = []
        first = True
        while True:
            c = self.peek()
            if c is None:
                raise LexError('unterminated class')
            if c == ']' and not first:
                self.eat()
                break
            first = False
            if c == '[' and self.s.startswith('[:', self.i):
                j = self.s.index(':]', self.i)
                name = self.s[self.i + 2:j]
                if name not in POSIX:
                    raise LexError('unknown class ' + name)
                rs += POSIX[name]
                self.i = j + 2
                continue
            self.eat()
            lo = self.escape() if c == '\\' else ord(c)
            if self.peek() == '-' and self.i + 1 < len(self.s) and self.s[self.i + 1] != ']':
                self.eat()
                d = self.eat()
                hi = self.escape() if d == '\\' else ord(d)
                if hi < lo:
                    raise LexError('bad range')
                rs.append((lo, hi))
            else:
                rs.append((lo, lo))
        return ('cls', neg, norm_ranges(rs))

    def alt(self):
        l = self.cat()
        while self.peek() == '|':
            self.eat()
            l = ('alt', l, self.cat())
        return l

    def cat(self):
        items = []
        while self.peek() is not None and self.peek() not in '|)':
            items.append(self.post())
        if not items:
            return ('eps',)
        r = items[-1]
        for x in reversed(items[:-1]):
            r = ('seq', x, r)
        return r

    def post(self):
        a = self.atom()
        while True:
            c = self.peek()
            if c == '*':
                self.eat()
                a = ('star', a)
            elif c == '+':
                self.eat()
                a = ('plus', a)
            elif c == '?':
                self.eat()
                a = ('opt', a)
            elif c == '{':
                j = self.s.index('}', self.i)
                body = self.s[self.i + 1:j]
                m = _re.fullmatch(r'(\d+)(,(\d*))?', body)
                if not m:
                    raise LexError('definition reference {%s} not supported' % body)
                lo = int(m.group(1))
                if m.group(2) is None:
                    hi = lo
                elif m.group(3) == '':
                    hi = None
                else:
                    hi = int(m.group(3))
                    if hi < lo:
                        raise LexError('bad repeat')
                a = ('rep', lo, hi, a)
                self.i = j + 1
            else:
                return a

    def atom(self):
        c = self.eat()
        if c == '(':
            r = self.alt()
            if self.peek() != ')':
                raise LexError('missing )')
            self.eat()
            return r
        if c == '[':
            return self.cclass()
        if c == '.':
            return ('dot',)
        if c == '"':
            bs = []
            while True:
                d = self.peek()
                if d is None:
                    raise LexError('unterminated string')
                self.eat()
                if d == '"':
                    break
                bs.append(self.escape() if d == '\\' else ord(d))
            return ('lit', bs)
        if c == '\\':
            return ('lit', [self.escape()])
        if c == '/':
            raise LexError('trailing context not supported')
        if c == '$' and self.i == len(self.s):
            raise LexError('end-of-line anchor not supported')
        if c == '^' and self.i == 1:
            raise LexError('beginning-of-line anchor not supported')
        return ('lit', [ord(c)])


def parse_pattern(s):
    p = P(s)
    r = p.alt()
    if p.i != len(s):
        raise LexError('trailing garbage in pattern %r at %d' % (s, p.i))
    return r


def coq_re(t):
    k = t[0]
    if k == 'eps':
        return 'Eps'
    if k == 'dot':
        return 'dot'
    if k == 'lit':
        if len(t[1]) == 1:
            return '(ch %d)' % t[1][0]
        return '(lit [%s])' % ';'.join(str(b) for b in t[1])
    if k == 'cls':
        rs = '[%s]' % ';'.join('(%d,%d)' % r for r in t[2])
        return '(%s %s)' % ('ncls' if t[1] else 'cls', rs)
    if k == 'seq':
        return '(Seq %s %s)' % (coq_re(t[1]), coq_re(t[2]))
    if k == 'alt':
        return '(Alt %s %s)' % (coq_re(t[1]), coq_re(t[2]))
    if k == 'star':
        return '(Star %s)' % coq_re(t[1])
    if k == 'plus':
        return '(plus %s)' % coq_re(t[1])
    if k == 'opt':
        return '(optional %s)' % coq_re(t[1])
    if k == 'rep':
        hi = 'None' if t[2] is None else '(Some %d%%nat)' % t[2]
        return '(rep %d%%nat %s %s)' % (t[1], hi, coq_re(t[3]))
    raise LexError('bad node ' + k)


# ---------------------------------------------------------------- lexer.l splitter

def split_pattern_action(line):
    """line starts with the pattern (after an optional <sc> prefix); the pattern ends at the
    first white space outside quotes, classes and escapes."""
    i = 0
    n = len(line)
    inq = False
    incls = False
    while i < n:
        c = line[i]
        if c == '\\':
            i += 2
            continue
        if inq:
            if c == '"':
                inq = False
        elif incls:
            if c == ']':
                incls = False
        else:
            if c == '"':
                inq = True
            elif c == '[':
                incls = True
                # a ']' directly after '[' or '[^' is literal
                if line[i + 1:i + 2] == '^':
                    i += 1
                if line[i + 1:i + 2] == ']':
                    i += 1
            elif c in ' \t':
                break
        i += 1
    return line[:i], line[i:]


def balanced_end(text, start):
    """text[start] == '{'; return index just past the matching '}' skipping C literals/comments"""
    depth = 0
    i = start
    n = len(text)
    while i < n:
        c = text[i]
        if text.startswith('/*', i):
            i = text.index('*/', i) + 2
            continue
        if c == '"' or c == "'":
            q = c
            i += 1
            while text[i] != q:
                if text[i] == '\\':
                    i += 1
                i += 1
            i += 1
            continue
        if c == '{':
            depth += 1
        elif c == '}':
            depth -= 1
            if depth == 0:
                return i + 1
        i += 1
    raise LexError('unbalanced action')


def norm_action(a):
    """remove comments, `const` qualifiers and all white space outside literals; strip outer braces"""
    out = []
    i = 0
    n = len(a)
    while i < n:
        c = a[i]
        if a.startswith('/*', i):
            i = a.index('*/', i) + 2
            continue
        if a.startswith('//', i):
            j = a.find('\n', i)
            i = n if j < 0 else j
            continue
        if c == '"' or c == "'":
            j = i + 1
            while a[j] != c:
                if a[j] == '\\':
                    j += 1
                j += 1
            out.append(a[i:j + 1])
            i = j + 1
            continue
        if c.isspace():
            i += 1
            continue
        if c.isalpha() or c == '_':
            j = i
            while j < n and (a[j].isalnum() or a[j] == '_'):
                j += 1
            if a[i:j] != 'const':           # a const qualifier changes nothing the model could see
                out.append(a[i:j])
            i = j
            continue
        out.append(c)
        i += 1
    s = ''.join(out)
    while s.startswith('{') and s.endswith('}') and balanced_end(s, 0) == len(s):
        s = s[1:-1]
    return s


def parse_lexer(text):
    parts = text.split('\n%%\n')
    if len(parts) < 2:
        raise LexError('no rules section')
    defs, rules_txt = parts[0], parts[1]
    scs = ['INITIAL']
    for line in defs.split('\n'):
        m = _re.match(r'%[xs]\s+(.*)', line)
        if m:
            if line[1] == 's':
                raise LexError('inclusive start conditions not supported')
            scs += m.group(1).split()
    consts = dict(_re.findall(r'^#define\s+(\w+)\s+(\d+)\s*$', defs, _re.M))
    rules = []
    eofs = []
    i = 0
    lines = rules_txt.split('\n')
    pos = 0
    text2 = rules_txt
    # walk through rules_txt by offset so multi-line actions work
    off = 0
    n = len(text2)
    while off < n:
        eol = text2.find('\n', off)
        if eol < 0:
            eol = n
        line = text2[off:eol]
        if not line.strip() or line[0] in ' \t':
            off = eol + 1
            continue
        # optional start-condition prefix
        cond = None
        rest_off = off
        if line.startswith('<') and not line.startswith('<<EOF>>'):
            j = line.index('>')
            cond = [x.strip() for x in line[1:j].split(',')]
            for c in cond:
                if c not in scs:
                    raise LexError('unknown start condition ' + c)
            rest_off = off + j + 1
            line = line[j + 1:]
        pat, _ = split_pattern_action(line)
        act_off = rest_off + len(pat)
        # action: skip blanks; '{' => balanced; else to end of line
        k = act_off
        while k < n and text2[k] in ' \t':
            k += 1
        if k < n and text2[k] == '{':
            end = balanced_end(text2, k)
            action = text2[k:end]
            nl = text2.find('\n', end)
            off = n if nl < 0 else nl + 1
        else:
            action = text2[k:eol]
            off = eol + 1
        if action.strip() == '|':
            raise LexError("'|' actions not supported")
        if pat == '<<EOF>>':
            eofs.append((cond, norm_action(action)))
        else:
            rules.append((cond if cond is not None else ['INITIAL'], pat, parse_pattern(pat), norm_action(action)))
    return scs, consts, rules, eofs


def load_table(path):
    tbl = {}
    etbl = {}
    cur = None
    body = []

    def flush():
        if cur is not None:
            key = norm_action('\n'.join(body))
            (etbl if cur.startswith('E_') else tbl)[key] = cur
    for line in open(path):
        line = line.rstrip('\n')
        if line.startswith('@@ '):
            flush()
            cur = line[3:].strip()
            body = []
        elif line.startswith('##'):
            continue
        else:
            body.append(line)
    flush()
    return tbl, etbl


def gen_rules(lexer_l, table):
    scs, consts, rules, eofs = parse_lexer(open(lexer_l).read())
    if scs != ['INITIAL', 'comment', 'dq_str', 'sq_str']:
        raise LexError('start conditions changed: %r (LexAct.sc must be regenerated by hand)' % scs)
    tbl, etbl = load_table(table)
    out = ['(* GENERATED by tools/lex2coq.py from src/lexer.l — do not edit *)',
           'From Coq Require Import List NArith.',
           'From LC Require Import Bytes Flex LexAct.',
           'Import ListNotations.',
           'Local Open Scope N_scope.',
           '',
           'Definition rules : list rule := [']
    items = []
    unrec = []
    for n, (cond, pat, tree, act) in enumerate(rules):
        a = tbl.get(act)
        if a is None:
            a = '(A_unrecognised %d)' % n
            unrec.append((n, pat, act))
        items.append('  (* %2d  %s *)\n  {| r_sc := [%s]; r_re := %s; r_act := %s |}' % (
            n, pat.replace('"', "'").replace('(*', '( *').replace('*)', '* )'), '; '.join(cond), coq_re(tree), a))
    out.append(';\n'.join(items))
    out.append('].')
    out.append('')
    out.append('Definition eof_rules : list eof_rule := [')
    items = []
    for n, (cond, act) in enumerate(eofs):
        a = etbl.get(act)
        if a is None:
            a = '(E_unrecognised %d)' % n
            unrec.append((1000 + n, '<<EOF>>', act))
        c = cond if cond is not None else []   # [] = every start condition without its own EOF rule
        items.append('  {| e_sc := [%s]; e_act := %s |}' % ('; '.join(c), a))
    out.append(';\n'.join(items))
    out.append('].')
    out.append('')
    out.append('Definition n_unrecognised : nat := %d.' % len(unrec))
    out.append('')
    return '\n'.join(out), consts, unrec


def gen_consts(consts, confuse_h):
    h = open(confuse_h).read()
    out = ['(* GENERATED by tools/lex2coq.py from src/confuse.h and src/lexer.l — do not edit *)',
           'From Coq Require Import NArith ZArith.', 'Local Open Scope N_scope.', '']
    for name, shift in _re.findall(r'^#define\s+(CFGF_\w+)\s+\(1\s*<<\s*(\d+)\)', h, _re.M):
        out.append('Definition %s : N := %d.' % (name, 1 << int(shift)))
    for name, val in _re.findall(r'^#define\s+(CFG_(?:SUCCESS|FAIL|FILE_ERROR|PARSE_ERROR))\s+(-?\d+)', h, _re.M):
        out.append('Definition %s : Z := (%s)%%Z.' % (name, val))
    for name in ('MAX_INCLUDE_DEPTH', 'CFG_QSTRING_BUFSIZ'):
        if name not in consts:
            raise LexError('constant %s not found in lexer.l' % name)
        out.append('Definition %s : nat := %s%%nat.' % (name, consts[name]))
    out.append('')
    return '\n'.join(out)


def write_if_changed(path, text):
    try:
        if open(path).read() == text:
            return False
    except OSError:
        pass
    with open(path, 'w') as f:
        f.write(text)
    return True


def main(argv):
    if argv[1:] == ['--selftest']:
        golden = os.path.join(HERE, 'selftest')
        txt, consts, unrec = gen_rules(os.path.join(golden, 'lexer.l'), os.path.join(HERE, 'lex_actions.tbl'))
        ok = txt == open(os.path.join(golden, 'LexRules.v')).read() and not unrec
        # an equivalent rewrite of a class must give the same term
        a = coq_re(parse_pattern(r'"\\x"[0-9A-Fa-f]{1,2}'))
        b = coq_re(parse_pattern(r'"\\x"[[:xdigit:]]{1,2}'))
        ok = ok and a == b
        print('selftest', 'ok' if ok else 'FAILED')
        return 0 if ok else 1
    lexer_l, confuse_h, outdir = argv[1:4]
    txt, consts, unrec = gen_rules(lexer_l, os.path.join(HERE, 'lex_actions.tbl'))
    c1 = write_if_changed(os.path.join(outdir, 'LexRules.v'), txt)
    c2 = write_if_changed(os.path.join(outdir, 'Consts.v'), gen_consts(consts, confuse_h))
    for n, pat, act in unrec:
        print('lex2coq: UNRECOGNISED action of rule %d (%s): %s' % (n, pat, act))
    print('lex2coq: %d rules, LexRules.v %s, Consts.v %s' % (txt.count('r_sc :='), 'rewritten' if c1 else 'unchanged',
                                                               'rewritten' if c2 else 'unchanged'))
    return 0


if __name__ == '__main__':
    try:
        sys.exit(main(sys.argv))
    except LexError as e:
        print('lex2coq: ERROR: %s' % e)
        sys.exit(2)
