#!/usr/bin/env python3
"""mkmanifest.py — writes MANIFEST.json from the table below (claimed properties = those with a props module
and a Properties_Cxx.v; everything else is listed under not_applicable with the reason it is not claimed yet)."""
import json
import os
import subprocess

VERIF = os.path.dirname(os.path.dirname(os.path.abspath(__file__)))
CLAIMS = json.load(open(os.path.join(VERIF, 'tools', 'claims.json')))
props = [json.loads(l) for l in open(os.path.join(VERIF, 'properties.jsonl'))]
hooks_commits = []
checks = []
na = []
for p in props:
    pid = p['id']
    c = CLAIMS.get(pid)
    if c and c.get('claimed'):
        checks.append(dict(
            property_id=pid,
            quick_cmd='python3 tools/check.py %s --tier quick' % pid,
            thorough_cmd='python3 tools/check.py %s --tier thorough' % pid,
            evidence_file='evidence/%s.json' % pid,
            replay_cmd_template='python3 tools/check.py %s --replay {path}' % pid,
            engine='coq-proof+correspondence',
            level_claimed=dict(category='proof', text=c['text'], design_ref=c.get('design_ref', 'DESIGN.md section 6 (%s)' % pid)),
            level_note=c['note'],
            technique=c['technique']))
    else:
        na.append(dict(property_id=pid, reason=(c or {}).get('reason', 'not claimed yet: model/theorems for this property are not built')))
m = dict(
    version=1,
    setup_cmd='python3 tools/setup.py',
    hooks=dict(guard='LIBCONFUSE_VERIF',
               enable='none needed: the harness links the unmodified library objects (cfg_yylex, cfg_scan_fp_begin/end, cfg_include_stack_ptr are external symbols already); the count variant force-includes harness/allocwrap.h when compiling confuse.c (a compiler flag, no source change)',
               baseline_off_cmd='make -C /repo -j8 check',
               source_commits=hooks_commits, add_only=True),
    engines=[dict(name='coq-proof+correspondence', path='tools/check.py',
                  serves_properties=[c['property_id'] for c in checks],
                  kind_free_text='Coq 8.16 theorems over an executable Gallina model (coq/), rule table regenerated from lexer.l by tools/lex2coq.py on every run, model extracted to OCaml and run against the C library built from /repo on generated scenarios (correspondence + direct oracles)')],
    checks=checks,
    notes='See DESIGN.md. Fix commits in /repo are recorded in known_findings.json as kind=fixed.',
    not_applicable=na)
json.dump(m, open(os.path.join(VERIF, 'MANIFEST.json'), 'w'), indent=1)
print('MANIFEST.json: %d checks, %d not claimed' % (len(checks), len(na)))
