"""C14 — user callbacks see exactly the parsed items, and their verdict binds.

Texts built from item descriptors over a schema whose options carry value-parsing, validation and function callbacks;
the generator derives the expected invocation log (one entry per value with the decoded text, a validation entry after
every stored value / list end / section end, function calls with their decoded arguments).  For every k the k-th
invocation is made to fail: the log must be the length-k prefix, the parse must fail, and options assigned only by
later items must still hold their defaults.  A pre-set validation callback vetoes or rewrites by-name setters."""
import re
from common import Scn, hx, unhx, Opt, CFGF
import gen

VARIANT = 'plain'
RULE = ('item sequences x callback-carrying schema x every failing invocation k; non-trivial = the expected log has at '
        'least 3 entries; distinct by scenario text')
F = CFGF

SCHEMA = [Opt('int', b'i', 0, 7, cbs=('parse:0', 'valid:0')), Opt('int', b'j', 0, 1, cbs=('valid:1',)),
          Opt('str', b's', 0, b'd', cbs=('parse:1',)), Opt('intl', b'il', 0, b'{1}', cbs=('parse:2', 'valid:2')),
          Opt('strl', b'sl', 0, None, cbs=('valid:3',)), Opt('bool', b'b', 0, 0, cbs=('parse:0',)),
          Opt('sec', b'sec', 0, None, [Opt('int', b'a', 0, 1, cbs=('valid:1',))], cbs=('valid:0',)),
          Opt('sec', b'm', F['MULTI'], None, [Opt('int', b'a', 0, 1, cbs=('parse:1',)), Opt('strl', b'l', 0, None, cbs=('valid:2',)), Opt('int', b'u', 0, 0)], cbs=('valid:2',)),
          Opt('func', b'fn', func='user:1'), Opt('func', b'g', func='user:2'), Opt('flt', b'f', 0, 0.5, cbs=('parse:3',)),
          # deprecated options (one of them dropped after the parse) are validated like any other
          Opt('int', b'od', F['DEPRECATED'] | F['DROP'], 1, cbs=('valid:1',)), Opt('int', b'dp', F['DEPRECATED'], 2, cbs=('parse:0', 'valid:2')),
          Opt('int', b'late', 0, 5), Opt('ptr', b'p', 0, cbs=('parse:1',)), Opt('ptrl', b'pl', 0, None, cbs=('parse:2',))]

TOK = {b'5': b'5', b'0x10': b'0x10', b'"a b"': b'a b', b'word': b'word', b'"q\\"r"': b'q"r', b"'s q'": b's q', b'${V}': b'env', b'""': b''}


def cb(o, kind):
    for c in o.cbs:
        if c.startswith(kind + ':'):
            return int(c.split(':')[1])
    return None


def find(schema, name):
    return next(o for o in schema if o.name == name)


def item_text_and_log(it, schema, sizes):
    """returns (text, [log entries]); sizes tracks the value count of list/section options for the validate entries"""
    kind = it[0]
    if kind == 'scalar':
        _, name, tok = it
        o = find(schema, name)
        log = []
        if cb(o, 'parse') is not None:
            log.append('p%d:%s:%s' % (cb(o, 'parse'), hx(name), hx(TOK[tok])))
        if cb(o, 'valid') is not None:
            log.append('v%d:%s:1' % (cb(o, 'valid'), hx(name)))
        return name + b' = ' + tok, log
    if kind == 'list':
        _, name, toks, braced, op = it
        o = find(schema, name)
        key = id(o)
        n = sizes.get(key, None)
        if n is None:
            n = {b'il': 1}.get(name, 0)
        if op == b'=':
            n = 0
        log = []
        for t in toks:
            if cb(o, 'parse') is not None:
                log.append('p%d:%s:%s' % (cb(o, 'parse'), hx(name), hx(TOK[t])))
            n += 1
            if cb(o, 'valid') is not None:
                log.append('v%d:%s:%d' % (cb(o, 'valid'), hx(name), n))
        if braced and toks and cb(o, 'valid') is not None:
            log.append('v%d:%s:%d' % (cb(o, 'valid'), hx(name), n))     # at the closing brace
        sizes[key] = n
        if braced:
            return name + b' ' + op + b' {' + b', '.join(toks) + b'}', log
        return name + b' ' + op + b' ' + toks[0], log
    if kind == 'func':
        name, args = it[1], it[2]
        o = find(schema, name)
        k = int(o.func.split(':')[1])
        trailing = len(it) > 3 and it[3] and args
        return name + b'(' + b', '.join(args) + (b',' if trailing else b'') + b')', ['f%d:%s:%d:%s' % (k, hx(name), len(args), ','.join(hx(TOK[a]) for a in args))]
    if kind == 'sec':
        _, name, body = it
        o = find(schema, name)
        texts, log = [], []
        sub_sizes = {}
        for b in body:
            t, l = item_text_and_log(b, o.sub, sub_sizes)
            texts.append(t)
            log += l
        key = id(o)
        n = sizes.get(key, 1 if not (o.flags & F['MULTI']) else 0)
        if o.flags & F['MULTI']:
            n += 1
        sizes[key] = n
        if cb(o, 'valid') is not None:
            log.append('v%d:%s:%d' % (cb(o, 'valid'), hx(name), n))
        return name + b' { ' + b' '.join(texts) + b' }', log
    raise ValueError(kind)


def rand_items(r):
    items = []
    for _ in range(1 + r.below(5)):
        c = r.below(10)
        t = lambda: r.pick(list(TOK))
        if c == 0:
            items.append(('scalar', r.pick([b'i', b'j', b's', b'b', b'f', b'p', b'od', b'dp', b'od']), t()))
        elif c in (1, 2):
            nm = r.pick([b'il', b'sl', b'pl'])
            items.append(('list', nm, [t() for _ in range(r.below(4))], True, r.pick([b'=', b'+='])))
        elif c == 3:
            items.append(('list', r.pick([b'il', b'sl']), [t()], False, r.pick([b'=', b'+='])))
        elif c in (4, 5):
            items.append(('func', r.pick([b'fn', b'g']), [t() for _ in range(r.below(4))], r.chance(1, 3)))
            if r.chance(1, 2):      # directly followed by another call: its arguments are its own
                items.append(('func', r.pick([b'fn', b'g']), [t() for _ in range(r.below(3))], r.chance(1, 4)))
        elif c == 6:
            items.append(('sec', b'sec', [('scalar', b'a', t()) for _ in range(r.below(3))]))
        else:
            body = []
            for _ in range(r.below(3)):
                body.append(r.pick([('scalar', b'a', t()), ('list', b'l', [t(), t()], True, b'+=')]))
            items.append(('sec', b'm', body))
    return items


def valid_for(o, tok):
    """without a parse callback the token must convert"""
    if cb(o, 'parse') is not None or o.base() == 'str':
        return True
    return TOK[tok] in (b'5', b'0x10') if o.base() == 'int' else False


def clean(items, schema):
    out = []
    for it in items:
        if it[0] == 'scalar':
            if valid_for(find(schema, it[1]), it[2]):
                out.append(it)
        elif it[0] == 'list':
            o = find(schema, it[1])
            toks = [t for t in it[2] if valid_for(o, t)]
            if toks or it[3]:
                if not it[3] and not toks:
                    continue
                out.append((it[0], it[1], toks, it[3], it[4]))
        elif it[0] == 'sec':
            out.append(('sec', it[1], clean(it[2], find(schema, it[1]).sub)))
        else:
            out.append(it)
    return out


def generate(rng, tier):
    r = rng.fork('C14')
    n = 0
    for _ in range(40 if tier == 'quick' else 800):
        items = clean(rand_items(r), SCHEMA)
        sizes = {}
        texts, log = [], []
        for it in items:
            t, l = item_text_and_log(it, SCHEMA, sizes)
            texts.append(t)
            log += l
        text = b'\n'.join(texts) + b'\nlate = 99\n'
        ks = [0] + list(range(1, len(log) + 1))
        if tier == 'quick' and len(ks) > 8:
            ks = [0, 1, 2, len(log) // 2, len(log) - 1, len(log)]
        for k in ks:
            n += 1
            lines = ['env %s %s' % (hx(b'V'), hx(b'env'))] + gen.prelude(SCHEMA, 0)
            if k:
                lines.append('failat %d' % k)
            lines += ['parse_buf 0 ' + hx(text), 'dump 0']
            want = log if k == 0 else log[:k - 1] + [log[k - 1] + '!']
            yield Scn('cb%d' % n, lines, {'class': 'parse/failat=%s' % ('none' if k == 0 else 'k'), 'log': want, 'k': k, 'kind': 'parse'})
    # by-name setters with a pre-set validation callback
    for path, setter, args in ((b'j', 'setint', ['-5']), (b'j', 'setint', ['5']), (b'f', 'setfloat', ['c004000000000000']), (b's', 'setstr', [hx(b'new')]), (b's', 'setstr', ['-']), (b'sl', 'setstr', ['-']),
                               (b'il', 'setint', ['-3']), (b'sec|a', 'setint', ['-9'])):
        for K in (0, 1):
            for fail in (0, 1):
                n += 1
                idx = '1' if path == b'il' else '0'
                lines = gen.prelude(SCHEMA, 0) + ['validate2 0 %s %d' % (hx(path), K), 'dump 0'] + (['failat 1'] if fail else []) + \
                        ['%s 0 %s %s %s' % (setter, hx(path), args[0], idx), 'dump 0']
                yield Scn('v2-%d' % n, lines, {'class': 'validate2', 'kind': 'v2', 'K': K, 'fail': fail, 'path': path, 'arg': args[0], 'setter': setter})


    # "simple" options (the value lives in a user variable, the option counts no values): validated like any other
    # (library only)
    SIMPLE = [Opt('sint', b'si', 0, 1, cbs=('valid:1',)), Opt('int', b'late', 0, 5)]
    for k in (0, 1, 2):
        n += 1
        lines = gen.prelude(SIMPLE, 0) + (['failat %d' % k] if k else []) + ['parse_buf 0 ' + hx(b'si = 8080\nsi = 70000\nlate = 99\n'), 'dump 0']
        full = ['v1:%s:0' % hx(b'si'), 'v1:%s:0' % hx(b'si')]
        want = full if k == 0 else full[:k - 1] + [full[k - 1] + '!']
        yield Scn('simple%d' % n, lines, {'class': 'simple-option', 'log': want, 'k': k, 'kind': 'parse', 'impl_only': True})
    # a by-name setter asks the callback also when the value it is given is the one already stored
    for path, setter, arg, txt in ((b'j', 'setint', '100', b'j = 100'), (b'j', 'setint', '-5', b'j = -5'), (b's', 'setstr', hx(b'same'), b's = same'),
                                   (b'f', 'setfloat', '4004000000000000', b'f = 2.5'), (b'il', 'setint', '7', b'il = {1, 7}')):
        for K in (0, 1):
            for fail in (0, 1):
                n += 1
                idx = '1' if path == b'il' else '0'
                lines = ['env %s %s' % (hx(b'V'), hx(b'env'))] + gen.prelude(SCHEMA, 0) + ['parse_buf 0 ' + hx(txt + b'\n'), 'validate2 0 %s %d' % (hx(path), K), 'dump 0'] + \
                        (['failat 1'] if fail else []) + ['%s 0 %s %s %s' % (setter, hx(path), arg, idx), 'dump 0']
                yield Scn('same%d' % n, lines, {'class': 'validate2/same-value', 'kind': 'v2', 'K': K, 'fail': fail, 'path': path, 'arg': arg, 'setter': setter})
    # callbacks registered by a path through a multi section AFTER instances exist: they bind the option, so every
    # instance created later has them (at parse time and in the by-name setters)
    for ninst in (0, 1, 2):
        for k in (0, 1):
            n += 1
            lines = gen.prelude(SCHEMA, 0) + ['parse_buf 0 ' + hx(b'm { u = 1 }\n' * ninst), 'validate 0 %s 3' % hx(b'm|u'), 'validate2 0 %s 1' % hx(b'm|u')]
            if k:
                lines.append('failat 1')
            lines += ['parse_buf 0 ' + hx(b'm { u = 2 }\nlate = 99\n'), 'dump 0']
            want = ['v3:%s:1' % hx(b'u') + ('!' if k else '')] + ([] if k else ['v2:%s:%d' % (hx(b'm'), ninst + 1)])
            yield Scn('late%d' % n, lines, {'class': 'registered-late/%d' % ninst, 'log': want, 'k': k, 'kind': 'parse'})
            n += 1
            lines = gen.prelude(SCHEMA, 0) + ['parse_buf 0 ' + hx(b'm { u = 1 }\n' * ninst), 'validate2 0 %s 1' % hx(b'm|u'),
                                              'parse_buf 0 ' + hx(b'm { u = 2 }\n'), 'dump 0'] + (['failat 1'] if k else []) + \
                    ['setint 0 %s -7 0' % hx(b'm=%d|u' % ninst), 'dump 0']
            yield Scn('late%d' % n, lines, {'class': 'registered-late/setter', 'kind': 'v2', 'K': 1, 'fail': k, 'path': b'm=%d|u' % ninst, 'arg': '-7', 'setter': 'setint'})


def nontrivial(scn, il):
    return scn.meta['kind'] == 'v2' or len(scn.meta['log']) >= 3 or scn.meta['class'].startswith('registered-late') or scn.meta['class'] == 'simple-option'


def oracle(scn, il):
    body = il[:-1] if il and il[-1].startswith('--- ') else il
    if len(body) < 2:
        return [('no-result', scn.id)]
    res, dump = body[-2], body[-1]
    m = re.search(r'cbs=\[([^\]]*)\]', res)
    got = [x for x in (m.group(1).split(';') if m else []) if x and not x.startswith('x:')]
    out = []
    if scn.meta['kind'] == 'parse':
        want = scn.meta['log']
        if got != want:
            i = next((i for i, (a, b) in enumerate(zip(got, want)) if a != b), min(len(got), len(want)))
            out.append(('log:' + (want[i][0] if i < len(want) else 'extra'), '%s: callback log differs at entry %d:\n got  %s\n want %s' % (
                scn.id, i, got[max(0, i - 2):i + 3], want[max(0, i - 2):i + 3])))
        k = scn.meta['k']
        if k and 'rc=1 ' not in res:
            out.append(('verdict-ignored', '%s: invocation %d failed but the parse returned %s' % (scn.id, k, res[:60])))
        if k and '(opt 6c617465 int 1 1 0 1 - 5)' not in dump:
            out.append(('later-item-applied', '%s: an item after the failing callback was applied: %s' % (scn.id, dump[-300:])))
        if not k and ('rc=0 ' not in res or '(opt 6c617465 int 1 0 1 1 - 99)' not in dump):
            out.append(('parse-failed', '%s: %s' % (scn.id, res[:200])))
        return out
    # validate2
    K, fail, arg = scn.meta['K'], scn.meta['fail'], scn.meta['arg']
    name = scn.meta['path'].split(b'|')[-1]
    want = ['w%d:%s:%s%s' % (K, hx(name), arg, '!' if fail else '')]
    if got != want:
        out.append(('log:w', '%s: validate2 log %s, expected %s' % (scn.id, got, want)))
    if fail and 'rc=-1 ' not in res:
        out.append(('veto-ignored', '%s: vetoed setter returned %s' % (scn.id, res[:60])))
    bi = next((i for i, l in enumerate(scn.lines) if l == 'dump 0'), None)
    before = body[bi] if bi is not None and bi < len(body) - 1 and body[bi].startswith('dump ') else None
    if fail and before is not None and before != dump:
        i = next((i for i, (x, y) in enumerate(zip(before, dump)) if x != y), 0)
        out.append(('veto-changed-state', '%s: the setter was vetoed by the validation callback but the context changed near\n  %s\n  %s' % (
            scn.id, before[max(0, i - 100):i + 60], dump[max(0, i - 100):i + 60])))
    if not fail and 'rc=0 ' not in res:
        out.append(('setter-failed', '%s: %s' % (scn.id, res[:100])))
    if not fail and K == 1 and scn.meta['setter'] == 'setint' and arg.startswith('-'):
        if not re.search(r'\(opt %s int \d+ \d \d \d \S+( -?\d+)* %s[ )]' % (hx(name), arg[1:]), dump):
            out.append(('rewrite-ignored', '%s: value rewritten by the callback to %s is not what was stored: %s' % (scn.id, arg[1:], dump[:400])))
    return out
