"""C13 — including a file equals reading its text in place.

Accepted texts are split at item boundaries into random trees of include files (nesting 1..limit+2), placed directly or
behind the search path; the include-split text is parsed into one context and the flat text into another: trees must be
equal and the include stack pointer 0.  Failing includes (missing file, directory, nesting beyond the limit, self
inclusion, error inside the included file), repeated up to 12 times, must each be a reported parse error and leave the
include capacity intact: a succeeding include afterwards works."""
import re
from common import Scn, hx, Opt, CFGF
import gen

VARIANT = 'asan'
EXTRA_VARIANTS = ['count']      # failing includes: no FILE and no block stays behind
COMPARE_LINES = True      # line numbers in diagnostics are part of this property
RULE = ('accepted item lists x random include trees (depth 1..12) x 3 placements (cwd, search path, absolute); failing includes '
        'x repetitions 1..12 followed by a good one; non-trivial = nesting depth >= 2 or a failing include; distinct by text')
F = CFGF
INC = Opt('func', b'include', func='include')
SUB = [Opt('int', b'a', 0, 1), Opt('strl', b'l', 0, None), INC]
SCHEMA = [Opt('int', b'i', 0, 7), Opt('str', b's', 0, b'd'), Opt('intl', b'il', 0, b'{1}'), Opt('sec', b'sec', 0, None, SUB),
          Opt('sec', b'm', F['MULTI'], None, SUB), INC, Opt('bool', b'b', 0, 0), Opt('func', b'load', func='nest:2')]
LIMIT = 10


def rand_flat(r):
    items = []
    for _ in range(2 + r.below(7)):
        c = r.below(7)
        if c == 0:
            items.append(b'i = %d' % r.below(100))
        elif c == 1:
            items.append(b's = "v%d"' % r.below(100))
        elif c == 2:
            items.append(b'il += {%d, %d}' % (r.below(9), r.below(9)))
        elif c == 3:
            items.append(b'il = {%d}' % r.below(9))
        elif c == 4:
            items.append(b'b = ' + r.pick([b'on', b'off']))
        elif c == 5:
            items.append(('sec', b'sec', [b'a = %d' % r.below(50), b'l += {x%d}' % r.below(9)] * (1 + r.below(2))))
        else:
            items.append(('sec', b'm', [b'a = %d' % r.below(50)] + ([b'l = {p, q}'] if r.chance(1, 2) else [])))
    return items


def flat_text(items):
    out = []
    for it in items:
        if isinstance(it, tuple):
            out.append(it[1] + b' {\n' + b'\n'.join(b'  ' + x for x in it[2]) + b'\n}')
        else:
            out.append(it)
    return b'\n'.join(out) + b'\n'


class Files:
    def __init__(self, prefix):
        self.files = {}
        self.n = 0
        self.prefix = prefix
        self.maxdepth = 0

    def new(self, text):
        self.n += 1
        name = b'f%d.conf' % self.n
        self.files[name] = text
        return name


def split(r, lines, fs, depth, budget):
    """turn a list of single-line item texts into text with some runs moved into include files"""
    fs.maxdepth = max(fs.maxdepth, depth)
    out = []
    i = 0
    while i < len(lines):
        if budget[0] > 0 and depth < 12 and r.chance(1, 3):
            j = i + 1 + r.below(len(lines) - i)
            budget[0] -= 1
            inner = split(r, lines[i:j], fs, depth + 1, budget)
            name = fs.new(inner)
            out.append(b'include("' + fs.prefix + name + b'")')
            i = j
        else:
            out.append(lines[i])
            i += 1
    return b'\n'.join(out) + b'\n'


def split_items(r, items, fs, budget):
    lines = []
    for it in items:
        if isinstance(it, tuple):
            body = split(r, it[2], fs, 1, budget) if r.chance(1, 2) else b'\n'.join(it[2]) + b'\n'
            lines.append(it[1] + b' {\n' + body + b'}')
        else:
            lines.append(it)
    return split(r, lines, fs, 0, budget)


def generate(rng, tier):
    r = rng.fork('C13')
    n = 0
    for _ in range(80 if tier == 'quick' else 2500):
        items = rand_flat(r)
        placement = r.pick(['cwd', 'searchpath', 'absolute', 'symlink', 'tilde'])
        linked = placement == 'symlink'       # the search-path directory holds symbolic links to the files
        if linked:
            placement = 'searchpath'
        prefix = {'cwd': b'', 'searchpath': b'', 'absolute': b'${ROOT}/inc/', 'tilde': b'~bob/inc/'}[placement]      # tilde: `~user/path` names
        sub = b'sub/' if r.chance(1, 3) else b''        # include names with a directory part are resolved like bare ones
        fs = Files(prefix + sub)
        main = split_items(r, items, fs, [1 + r.below(6)])
        lines = ['envroot ' + hx(b'ROOT'), 'passwd %s %s' % (hx(b'bob'), hx(b'@R/home/bob'))] + gen.prelude(SCHEMA, 0) + ['init 1 0 0']
        d = {'cwd': b'', 'searchpath': b'sp/', 'absolute': b'inc/', 'tilde': b'home/bob/inc/'}[placement]
        for name, text in fs.files.items():
            if linked:
                lines += ['file %s file %s' % (hx(b'real/' + name), hx(text)), 'file %s link %s' % (hx(d + sub + name), hx(b'real/' + name))]
            else:
                lines.append('file %s file %s' % (hx(d + sub + name), hx(text)))
        if placement == 'searchpath':
            lines.append('file %s dir' % hx(b'other'))
            lines += ['searchpath 1 ' + hx(b'other'), 'searchpath 1 ' + hx(b'sp')]
        p0 = len(lines)
        lines.append('parse_buf 0 ' + hx(flat_text(items)))
        if (r.chance(1, 2) and placement != 'searchpath') or placement == 'tilde':
            lines.append('parse_buf 1 ' + hx(main))
        else:
            lines.append('file %s file %s' % (hx(d + b'main.conf'), hx(main)))
            lines.append('parse_file 1 ' + hx((b'@R/' + d if placement == 'absolute' else b'') + b'main.conf'))
        p1 = len(lines) - 1
        lines += ['dump 0', 'dump 1']
        n += 1
        yield Scn('eq%d' % n, lines, {'class': 'equivalence/' + ('symlink' if linked else placement), 'kind': 'eq', 'depth': fs.maxdepth, 'p0': p0, 'p1': p1})
    # directed: an include inside every kind of section body (created at init or by the text), every placement
    for placement in ('cwd', 'searchpath', 'absolute'):
        for sec in (b'sec', b'm'):
            for deep in (1, 2):
                prefix = {'cwd': b'', 'searchpath': b'', 'absolute': b'${ROOT}/inc/'}[placement]
                d = {'cwd': b'', 'searchpath': b'sp/', 'absolute': b'inc/'}[placement]
                lines = ['envroot ' + hx(b'ROOT')] + gen.prelude(SCHEMA, 0) + ['init 1 0 0']
                lines.append('file %s file %s' % (hx(d + b'in1.conf'), hx(b'a = 41\n' + (b'include("' + prefix + b'in2.conf")\n' if deep == 2 else b''))))
                lines.append('file %s file %s' % (hx(d + b'in2.conf'), hx(b'l += {deep}\n')))
                if placement == 'searchpath':
                    lines += ['file %s dir' % hx(b'other'), 'searchpath 0 ' + hx(b'other'), 'searchpath 0 ' + hx(b'sp'),
                              'searchpath 1 ' + hx(b'other'), 'searchpath 1 ' + hx(b'sp')]
                flat = sec + b' {\n a = 41\n' + (b'l += {deep}\n' if deep == 2 else b'') + b'}\ni = 3\n'
                main = sec + b' {\n include("' + prefix + b'in1.conf")\n}\ni = 3\n'
                p0 = len(lines)
                lines += ['parse_buf 0 ' + hx(flat), 'parse_buf 1 ' + hx(main), 'dump 0', 'dump 1']
                n += 1
                yield Scn('insec%d' % n, lines, {'class': 'in-section/' + placement, 'kind': 'eq', 'depth': deep + 1, 'p0': p0, 'p1': p0 + 1})
    # an included file whose function callback parses a text into ANOTHER context (accepted, rejected, with its own
    # include): the rest of the included file is read as if it were in place
    for k, inner in enumerate([b'i = 9\n', b'i = = 9\n', b'include("in2.conf")\n', b's = "open\n', b'']):
        for deep in (1, 2):
            q = b"'" + inner + b"'"
            lines = gen.prelude(SCHEMA, 0) + ['init 1 0 0', 'init 2 0 0']
            body = b'i = 4\nload(' + q + b')\ns = "after"\nil += {7}\n'
            lines.append('file %s file %s' % (hx(b'in2.conf'), hx(b'b = on\n')))
            lines.append('file %s file %s' % (hx(b'in1.conf'), hx(body if deep == 1 else b'include("in1b.conf")\nil += {8}\n')))
            lines.append('file %s file %s' % (hx(b'in1b.conf'), hx(body)))
            flat = body + (b'il += {8}\n' if deep == 2 else b'') + b'b = on\n'
            p0 = len(lines)
            lines += ['parse_buf 0 ' + hx(flat), 'parse_buf 1 ' + hx(b'include("in1.conf")\nb = on\n'), 'dump 0', 'dump 1']
            n += 1
            yield Scn('nested%d' % n, lines, {'class': 'nested-parse-in-include', 'kind': 'eq', 'depth': deep + 1, 'p0': p0, 'p1': p0 + 1,
                                             'impl_only': True})
    # chains around the depth limit
    for depth in (1, 2, LIMIT - 1, LIMIT, LIMIT + 1, LIMIT + 2):
        lines = gen.prelude(SCHEMA, 0)
        for k in range(1, depth + 1):
            body = b'i = %d\n' % k + (b'include("c%d.conf")\n' % (k + 1) if k < depth else b'') + b's = "after%d"\n' % k
            lines.append('file %s file %s' % (hx(b'c%d.conf' % k), hx(body)))
        lines += ['parse_buf 0 ' + hx(b'include("c1.conf")\nb = on\n'), 'dump 0', 'parse_buf 0 ' + hx(b'include("c1.conf")\n') if depth <= LIMIT else 'parse_buf 0 ' + hx(b'i = 1\n')]
        n += 1
        yield Scn('chain%d' % depth, lines, {'class': 'chain', 'kind': 'chain', 'depth': depth})
    # a readable target that is neither a regular file nor a directory reads like its text in place (library only:
    # the model's file system knows files and directories)
    for k, (main, flat) in enumerate(((b'i = 1\ninclude("/dev/null")\nb = on\n', b'i = 1\nb = on\n'),
                                      (b'sec {\n include("/dev/null")\n a = 4 }\ni = 2\n', b'sec {\n a = 4 }\ni = 2\n'))):
        lines = gen.prelude(SCHEMA, 0) + ['init 1 0 0']
        p0 = len(lines)
        lines += ['parse_buf 0 ' + hx(flat), 'parse_buf 1 ' + hx(main), 'dump 0', 'dump 1']
        n += 1
        yield Scn('devnull%d' % k, lines, {'class': 'equivalence/devnull', 'kind': 'eq', 'depth': 2, 'p0': p0, 'p1': p0 + 1, 'impl_only': True})
    # failures, repeated, then a good include
    bad = {'missing': b'include("nope.conf")\n', 'dir': b'include("d")\n', 'self': b'include("self.conf")\n', 'inner-error': b'include("bad.conf")\n',
           'inner-open-string': b'include("open.conf")\n', 'too-deep': b'include("c1.conf")\n', 'bad-args': b'include(a, b)\n',
           'in-section': b'sec { include("bad.conf") }\n',
           # the other spelling of a call (a trailing comma, no argument at all) fails just the same
           'missing-comma': b'include("nope.conf",)\n', 'dir-comma': b'include("d",)\n', 'too-deep-comma': b'include("c1.conf",)\n',
           'inner-error-comma': b'include("bad.conf" , )\n', 'no-args': b'include()\n', 'in-section-comma': b'sec { include("nope.conf",) }\n'}
    for kind, text in bad.items():
        for reps in ((1, 3, 12) if tier == 'quick' else range(1, 13)):
            lines = gen.prelude(SCHEMA, 0)
            lines += ['file %s dir' % hx(b'd'), 'file %s file %s' % (hx(b'self.conf'), hx(b'include("self.conf")\n')),
                      'file %s file %s' % (hx(b'bad.conf'), hx(b'a = 1\nbogus = = 2\n')), 'file %s file %s' % (hx(b'open.conf'), hx(b's = "abc\n')),
                      'file %s file %s' % (hx(b'good.conf'), hx(b'i = 42\n'))]
            for k in range(1, LIMIT + 3):
                lines.append('file %s file %s' % (hx(b'c%d.conf' % k), hx((b'include("c%d.conf")\n' % (k + 1)) if k < LIMIT + 2 else b'i = 1\n')))
            first = len(lines)
            lines += ['parse_buf 0 ' + hx(text)] * reps
            lines += ['parse_buf 0 ' + hx(b'include("good.conf")\n'), 'dump 0', 'free 0', 'live']
            n += 1
            yield Scn('fail-%s-%d' % (kind, reps), lines, {'class': 'failing/' + kind, 'kind': 'fail', 'first': first, 'reps': reps, 'depth': 0})


def nontrivial(scn, il):
    return scn.meta['depth'] >= 2 or scn.meta['kind'] == 'fail'


def oracle(scn, il):
    if not il:
        return [('no-result', scn.id)]
    tr = il[-1]
    body = il[:-1] if tr.startswith('--- ') else il
    out = []
    if 'status=exit:0' not in tr or 'san=-' not in tr:
        return [('crash:' + re.sub(r'\d+', 'N', tr.split('status=')[1])[:40], '%s: %s' % (scn.id, tr))]
    for i, l in enumerate(body):
        m = re.search(r'incptr=(\d+)', l)
        if m and m.group(1) != '0':
            out.append(('include-level-left', '%s: include stack pointer %s after `%s`' % (scn.id, m.group(1), scn.lines[i][:60])))
            break
    kind = scn.meta['kind']
    if kind == 'eq':
        p0, p1, d0, d1 = body[scn.meta['p0']], body[scn.meta['p1']], body[-2], body[-1]
        if 'rc=0 ' not in p0:
            out.append(('generator', scn.id + ': flat text not accepted: ' + p0[:100]))
        elif 'rc=0 ' not in p1:
            out.append(('split-rejected', '%s: include-split text rejected: %s' % (scn.id, p1[:200])))
        elif d0[5:] != d1[5:]:
            out.append(('split-differs', '%s: include-split tree differs from the flat one\n %s\n %s' % (scn.id, d0[:600], d1[:600])))
    elif kind == 'chain':
        res = body[-3]
        ok = scn.meta['depth'] <= LIMIT
        if ok != ('rc=0 ' in res):
            out.append(('depth-limit', '%s: chain of depth %d: %s' % (scn.id, scn.meta['depth'], res[:200])))
        if not ok and 'diags=[]' in res:
            out.append(('silent-failure', '%s: too deep chain failed silently' % scn.id))
    else:
        first, reps = scn.meta['first'], scn.meta['reps']
        for k in range(reps):
            l = body[first + k]
            if 'rc=1 ' not in l or 'diags=[]' in l:
                out.append(('failure-not-reported', '%s: failing include #%d: %s' % (scn.id, k + 1, l[:200])))
                break
        good = body[first + reps]
        if 'rc=0 ' not in good or '(opt 69 int 1 0 1 1 - 42)' not in body[-3]:
            out.append(('capacity-lost', '%s: a good include after %d failing ones: %s' % (scn.id, reps, good[:200])))
    return out


def extra_select(scn, variant):
    return scn.meta['kind'] == 'fail'


def oracle_variant(scn, il, variant):
    body = il[:-1] if il and il[-1].startswith('--- ') else il
    if not body or not body[-1].startswith('live blocks='):
        return [('no-result', '%s (count): %s' % (scn.id, il[-1] if il else 'nothing'))]
    if body[-1] != 'live blocks=0 files=0':
        return [('leak:' + re.sub(r'\d+', 'N', body[-1].replace('live ', '').replace(' ', ',')), '%s: after %d failing includes and freeing the context: %s' % (
            scn.id, scn.meta['reps'], body[-1]))]
    return []
