"""C04 — text -> number / boolean conversion is exact or rejected.

Every token over (representatives of) the numeral alphabet up to a length bound, plus boundary numerals, is
converted through the parser (quoted value) and through cfg_setmulti, under a clean and a stale errno; the
library's result is compared with the model (correspondence) and with a reference numeral grammar (oracle)."""
import re
from fractions import Fraction
from common import Scn, hx, Opt, schema_sexpr
import gen

VARIANT = 'plain'
RULE = ('all tokens up to a length bound over representatives of the numeral alphabet [0-9a-fA-FxXbB+-.eEpP] plus boundary '
        'numerals, each through parse_buf and cfg_setmulti under errno 0 and ERANGE; non-trivial = token is non-empty and the '
        'reference grammar classifies it (accept or reject) for the option type; distinct by token')

ALPHA = b'01789afAxXbB+-.eEp'
ALPHABET = b'0123456789abcdefABCDEFxXbB+-.eEpP'
LONG_MAX = 2 ** 63 - 1
LONG_MIN = -2 ** 63


def c_unsigned(b):
    m = re.fullmatch(rb'0[xX]([0-9a-fA-F]+)', b)
    if m:
        return int(m.group(1), 16)
    if re.fullmatch(rb'0[0-7]*', b):
        return int(b, 8) if len(b) > 1 else 0
    if re.fullmatch(rb'[1-9][0-9]*', b):
        return int(b)
    return None


def int_numeral(t):
    if t[:1] == b'0':
        m = re.fullmatch(rb'0x([0-9a-fA-F]+)', t)
        if m:
            return int(m.group(1), 16)
        if t[1:2] == b'x':
            return None
        m = re.fullmatch(rb'0b([01]+)', t)
        if m:
            return int(m.group(1), 2)
        if t[1:2] == b'b':
            return None
        if re.fullmatch(rb'0[0-7]*', t):
            return int(t, 8) if len(t) > 1 else 0
        return None
    if t[:1] == b'-':
        v = c_unsigned(t[1:])
        return None if v is None else -v
    if t[:1] == b'+':
        return c_unsigned(t[1:])
    return c_unsigned(t)


FLOAT_RE = re.compile(rb'[+-]?(0[xX]([0-9a-fA-F]+\.?[0-9a-fA-F]*|\.[0-9a-fA-F]+)([pP][+-]?[0-9]+)?|([0-9]+\.?[0-9]*|\.[0-9]+)([eE][+-]?[0-9]+)?)')


def float_class(t):
    """'bad' (not a numeral), 'over' (overflows), 'ok', or 'unsure' (underflow region)"""
    if not FLOAT_RE.fullmatch(t):
        return 'bad'
    s = t.decode()
    try:
        if re.match(r'[+-]?0[xX]', s):
            # python's fromhex needs a 'p' exponent-free or with p
            f = float.fromhex(s)
        else:
            f = float(s)
    except (OverflowError, ValueError):
        return 'over'
    if f in (float('inf'), float('-inf')):
        return 'over'
    if abs(f) < 2.2250738585072014e-308 and re.search(r'[1-9a-fA-F]', re.sub(r'[pPeE].*', '', s).replace('0x', '').replace('0X', '')):
        return 'unsure'
    return 'ok'


def float_bits(t):
    """the correctly rounded double a numeral of class 'ok' denotes, as 16 hex digits"""
    import struct
    s = t.decode()
    f = float.fromhex(s) if re.match(r'[+-]?0[xX]', s) else float(s)
    return struct.pack('>d', f).hex()


def bool_value(t):
    l = t.lower()
    if l in (b'true', b'yes', b'on'):
        return 1
    if l in (b'false', b'no', b'off'):
        return 0
    return None


SCHEMA = [Opt('int', b'i', 0, 77), Opt('flt', b'f', 0, 1.25), Opt('bool', b'b', 0, 1),
          Opt('intl', b'il', 0, b'{5}')]


RESET = {'int': 'setint 0 69 77 0', 'flt': 'setfloat 0 66 3ff4000000000000 0', 'bool': 'setbool 0 62 1 0'}


def scenario(sid, toks, kind, stale, cls):
    lines = gen.prelude(SCHEMA)
    meta = dict(checks=[], **{'class': cls})
    name = {'int': b'i', 'flt': b'f', 'bool': b'b'}[kind]
    for t in toks:
        if stale:
            lines.append('errno 34')
        # through the parser (quoted, so that any token is one value token)
        if b'"' not in t and b'\\' not in t and b'$' not in t and b'\0' not in t:
            meta['checks'].append((len(lines), len(lines) + 1, t, kind, 'parse'))
            lines.append('parse_buf 0 ' + hx(name + b' = "' + t + b'"\n'))
            lines.append('dump 0')
            lines.append(RESET[kind])
        if stale:
            lines.append('errno 34')
        meta['checks'].append((len(lines), len(lines) + 1, t, kind, 'setmulti'))
        lines.append('setmulti 0 %s %s' % (hx(name), hx(t)))
        lines.append('dump 0')
        # reset the option to a known value so that "unchanged" is observable
        lines.append(RESET[kind])
    meta['toks'] = toks
    meta['kind'] = kind
    meta['stale'] = stale
    return Scn(sid, lines, meta)


def reduce(scn):
    toks = scn.meta.get('toks') or []
    if len(toks) > 1:
        for i, t in enumerate(toks):
            yield scenario('%s.%d' % (scn.id, i), [t], scn.meta['kind'], scn.meta['stale'], scn.meta.get('class'))


def all_tokens(maxlen):
    out = [b'']
    frontier = [b'']
    for _ in range(maxlen):
        frontier = [t + bytes([c]) for t in frontier for c in ALPHA]
        out += frontier
    return out


BOUNDARY_INT = [b'9223372036854775807', b'9223372036854775808', b'-9223372036854775808', b'-9223372036854775809',
                b'0x7fffffffffffffff', b'0x8000000000000000', b'0xffffffffffffffff', b'0x10000000000000000',
                b'0777777777777777777777', b'01000000000000000000000', b'0b' + b'1' * 63, b'0b' + b'1' * 64,
                b'-0x8000000000000000', b'-0x8000000000000001', b'99999999999999999999999999', b'0x-5', b'0x0x10',
                b'0x+5', b'0b-1', b'0-5', b'00x10', b'0b0b1', b'+-1', b'-+1', b'--1', b'0X1f', b'-0X1f', b'1_0', b'1 ', b' 1',
                b'0' * 70 + b'7', b'0x' + b'0' * 70 + b'1f', b'0b' + b'0' * 100 + b'11', b'1' + b'0' * 70, b'+' + b'0' * 64 + b'12', b'0' * 63 + b'9x',
                b'0x1g', b'0b12', b'12abc', b'\xd9\xa1', b'0x', b'0b', b'', b'+', b'-', b'0', b'00', b'-0', b'+0', b'08', b'09', b'-08']
BOUNDARY_FLT = [b'1.7976931348623157e308', b'1.7976931348623159e308', b'1e308', b'1e309', b'-1e309', b'1e999', b'0x1p1023',
                b'0x1p1024', b'0x1.fffffffffffffp1023', b'1e-400', b'0.0', b'-0.0', b'.', b'e5', b'1e', b'1e+', b'0x', b'0x.',
                b'0x.p1', b'1.5.2', b'1.5e5e5', b'+.5', b'-.5e-1', b'1.', b'.1', b'1e5', b'1E5', b'0x1P4', b'1p4', b'0x1e5',
                b'1..', b'++1', b'1-', b'', b'5', b'005', b'0x10', b'1e0005',
                # numerals longer than any fixed buffer: the whole token counts
                b'1' + b'0' * 66 + b'e-66', b'0' * 70 + b'2.5', b'1.5' + b'0' * 70, b'1.5' + b'0' * 62 + b'xyz', b'1.' + b'0' * 70 + b'e999',
                b'0.' + b'0' * 80 + b'1e81', b'-' + b'0' * 127 + b'.5', b'0x1.' + b'0' * 100 + b'p1', b'1' + b'0' * 300 + b'e-300',
                b'2.5' + b'0' * 60 + b'e', b'1e' + b'0' * 90 + b'2', b'9' * 400, b'0.' + b'9' * 400]
BOOL_TOKS = []
for w in (b'true', b'false', b'yes', b'no', b'on', b'off'):
    for mask in range(1 << len(w)):
        BOOL_TOKS.append(bytes(c - 32 if (mask >> i) & 1 else c for i, c in enumerate(w)))
BOOL_TOKS += [b'y', b'n', b'1', b'0', b'tru', b'truee', b'ye', b'o', b'of', b'offf', b'', b't', b'f', b'nO ', b' no', b'TRUE1',
              b'enable', b'oN', b'\xd0\xbe\xd0\xbd', b'nope', b'none', b'no!', b'offline', b'FALSEHOOD', b'once', b'only', b'on/off', b'yesterday',
              b'yes ', b'true=', b'onn', b'not', b'falsey', b'Yes.', b'no\t', b'o n', b'tr ue']


def generate(rng, tier):
    maxlen = 3 if tier == 'quick' else 4
    toks = all_tokens(maxlen)
    n = 0
    for kind, pool, extra in (('int', toks, BOUNDARY_INT), ('flt', toks, BOUNDARY_FLT), ('bool', [], BOOL_TOKS)):
        pool = list(pool) + list(extra)
        for stale in (False, True):
            if stale and kind == 'bool':
                continue
            sub = pool if not stale else extra + pool[::7]
            for i in range(0, len(sub), 60):
                n += 1
                yield scenario('%s-%s-%d' % (kind, 'stale' if stale else 'clean', n), sub[i:i + 60], kind, stale,
                               '%s/%s' % (kind, 'stale-errno' if stale else 'errno0'))


def nontrivial(scn, il):
    return True


def value_of(dumpline, name):
    m = re.search(r'\(opt %s \w+ (\d+) \d \d \d \S+ ?([^()]*)\)' % hx(name), dumpline)
    return (int(m.group(1)), m.group(2).split()) if m else (None, None)


def oracle(scn, il):
    out = []
    body = il[:-1] if il and il[-1].startswith('--- ') else il
    for ci, di, t, kind, via in scn.meta.get('checks', []):
        if di >= len(body):
            out.append(('no-result', '%s: no result for token %r' % (scn.id, t)))
            break
        res, dump = body[ci], body[di]
        ok = ('rc=0 ' in res)
        name = {'int': b'i', 'flt': b'f', 'bool': b'b'}[kind]
        size, vals = value_of(dump, name)
        if kind != 'bool' and not all(c in ALPHABET for c in t):
            continue            # numerals: outside the property's quantifier, correspondence only
        if kind == 'int':
            z = int_numeral(t)
            should = z is not None and LONG_MIN <= z <= LONG_MAX
            if ok and not should:
                out.append(('int-accepts:' + shape(t), 'token %r accepted as integer (%s) via %s; reference says %s' % (
                    t, vals, via, 'out of range' if z is not None else 'not a numeral')))
            elif not ok and should:
                out.append(('int-rejects:' + shape(t), 'numeral %r (= %d) rejected via %s: %s' % (t, z, via, res[:200])))
            elif ok and vals != [str(z)]:
                out.append(('int-value:' + shape(t), 'token %r stored as %s, denotes %d (via %s)' % (t, vals, z, via)))
            elif not ok and ('diags=[]' in res or (via == 'setmulti' and vals != ['77'])):
                out.append(('int-silent:' + shape(t), 'rejected token %r: diagnostics/value wrong: %s | %s' % (t, res[:200], vals)))
        elif kind == 'flt':
            c = float_class(t)
            if c == 'unsure':
                continue
            if ok and c != 'ok':
                out.append(('float-accepts:' + c, 'token %r accepted as float (%s) via %s; reference class %s' % (t, vals, via, c)))
            elif not ok and c == 'ok':
                out.append(('float-rejects', 'float numeral %r rejected via %s: %s' % (t, via, res[:200])))
            elif ok and vals != [float_bits(t)]:
                out.append(('float-value', 'float numeral %r stored as %s, denotes %s (via %s)' % (t, vals, float_bits(t), via)))
            elif not ok and ('diags=[]' in res or (via == 'setmulti' and vals != ['3ff4000000000000'])):
                out.append(('float-silent', 'rejected token %r: diagnostics/value wrong: %s | %s' % (t, res[:200], vals)))
        else:
            b = bool_value(t)
            if ok and (b is None or vals != [str(b)]):
                out.append(('bool-accepts', 'token %r accepted as boolean %s; reference %s' % (t, vals, b)))
            elif not ok and b is not None:
                out.append(('bool-rejects', 'boolean word %r rejected: %s' % (t, res[:200])))
            elif not ok and ('diags=[]' in res or (via == 'setmulti' and vals != ['1'])):
                out.append(('bool-silent', 'rejected token %r: diagnostics/value wrong: %s | %s' % (t, res[:200], vals)))
    return out


def shape(t):
    """cause key: the syntactic shape of the token (digits collapsed)"""
    s = re.sub(rb'[1-9]', b'9', t)
    s = re.sub(rb'[a-fA-F]', b'h', s) if re.search(rb'[xX]', s) else s
    s = re.sub(rb'9+', b'9', s)
    s = re.sub(rb'h+', b'h', s)
    return s.decode('latin-1')[:12]
