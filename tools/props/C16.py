"""C16 — a context owns a private copy of its schema and shares nothing.

The declaration arrays and every string in them are overwritten and freed right after cfg_init (`poison`); the rest of
the scenario (print, re-parse creating further nested multi instances, every default and annotation read, setters)
runs under AddressSanitizer and must behave exactly like the same scenario without the poisoning.  Two contexts from
one declaration, and two instances of one multi section, are driven by interleaved operations and compared with solo runs."""
import re
from common import Scn, hx, unhx, Opt, CFGF
import gen

VARIANT = 'asan'
RULE = ('schemas (3 nesting levels, every default kind) x scenarios {poisoned, unpoisoned}; interleavings of operations on two '
        'contexts / two sibling instances vs solo runs; non-trivial = the scenario creates a nested multi instance after the '
        'poisoning or interleaves >= 4 operations; distinct by scenario text')
F = CFGF

N3 = [Opt('str', b'z', 0, b'deep-default'), Opt('strl', b'zl', 0, b'{d1, "d 2"}'), Opt('int', b'q', 0, 3)]
N2 = [Opt('int', b'a', 0, 11), Opt('str', b's', 0, b'sub-default'), Opt('intl', b'l', 0, b'{5, 6}'),
      Opt('sec', b'n', F['MULTI'] | F['TITLE'], None, N3), Opt('flt', b'f', 0, 2.5), Opt('bool', b'b', 0, 1),
      # a titled section that is not multi: created with every instance, like a plain one
      Opt('sec', b'ts', F['TITLE'], None, [Opt('int', b'r', 0, 9)]),
      # plain sections nested in every instance (created with it, two levels)
      Opt('sec', b'pl', 0, None, [Opt('int', b'z', 0, 4), Opt('sec', b'pp', 0, None, [Opt('int', b'y', 0, 5)])])]
SCHEMA = [Opt('int', b'i', 0, 7), Opt('str', b's', 0, b'top-default'), Opt('strl', b'sl', 0, b'{x, "y z"}'),
          Opt('sec', b'm', F['MULTI'], None, N2), Opt('sec', b't', F['MULTI'] | F['TITLE'], None, N2),
          Opt('sec', b'one', 0, None, N2), Opt('sec', b'kv', F['KEYSTRVAL'], None, []), Opt('booll', b'bl', 0, b'{true}'),
          Opt('sec', b'kd', F['KEYSTRVAL'] | F['MULTI'], None, [Opt('int', b'level', 0, 3), Opt('strl', b'tags', 0, b'{t1, "t 2"}')])]

WORK = ['dump C', 'print C 0',
        'parse_buf C ' + hx(b'm { a = 1 n x { } }\nm { n y { z = "set" } n z { zl += {more} } }\nt first { n q { } }\n'),
        'dump C', 'parse_buf C ' + hx(b'm { n third { } }\nkv { k = v }\none { n w { } }\nsl += {more}\nkd { level = 5 free = x }\nkd { other = y }\n'), 'dump C', 'print C 0',
        'setstr C %s %s 0' % (hx(b's'), hx(b'changed')), 'addtsec C %s %s' % (hx(b't'), hx(b'api')), 'setint C %s 9 0' % hx(b't=api|a'),
        'addlist C %s int 7' % hx(b't=api|l'), 'setcomment C %s %s' % (hx(b'i'), hx(b'note')), 'getopt C ' + hx(b'm=2|n=third|z'),
        'rmsec C ' + hx(b'm=0'), 'parse_buf C ' + hx(b'm { n again { zl = {} } }\n'), 'dump C',
        # a plain section removed and created again by a later text still gets its declared sub-options
        'rmsec C ' + hx(b'one'), 'parse_buf C ' + hx(b'one { a = 5 n again { } }\n'), 'getopt C ' + hx(b'one|s'),
        # a free-form section instance exists: unknown keys elsewhere are still errors
        'parse_buf C ' + hx(b'nosuchkey = 1\n') + ' !rc=1', 'parse_buf C ' + hx(b'm { nosuch = 2 }\n') + ' !rc=1', 'parse_buf C ' + hx(b'one { nosuch = 3 }\n') + ' !rc=1',
        'dump C', 'print C 2']


WORK_EXPECT = {x.split(' !')[0].split(' ', 2)[2]: x.split(' !')[1] for x in WORK if ' !' in x}


def ctx(cmds, c):
    """commands for context c; a trailing ` !rc=N` (an expectation checked by the oracle) is kept out of the command"""
    return [re.sub(r'^(\w+) C\b', r'\1 %d' % c, x.split(' !')[0]) for x in cmds]



NEST_OUT = [Opt('int', b'a', 0, 0), Opt('int', b'b', 0, 0), Opt('int', b'c', 0, 0), Opt('strl', b'names', 0, None),
            Opt('sec', b'peer', F['MULTI'], None, [Opt('int', b'p', 0, 0)]), Opt('func', b'include', func='include'), Opt('func', b'load', func='nest:1')]
NEST_IN = [Opt('int', b'x', 0, 0), Opt('func', b'include', func='include')]


def generate(rng, tier):
    r = rng.fork('C16')
    n = 0
    # a directory added to the search path THROUGH one section instance is private to it: the root and its siblings
    # resolve names as they do without it (library only: the model keeps one list per context)
    for order in (0, 1):
        lines = gen.prelude(SCHEMA, 0) + ['file %s file %s' % (hx(b'shared/s.conf'), hx(b'a = 1\n')), 'file %s file %s' % (hx(b'priv/only.conf'), hx(b'a = 42\n'))]
        if order:
            lines.append('searchpath 0 ' + hx(b'shared'))
        lines += ['parse_buf 0 ' + hx(b't a { }\nt b { }\n')]
        if not order:
            lines.append('searchpath 0 ' + hx(b'shared'))
        k = len(lines)
        lines += ['searchpath 0 %s %s' % (hx(b'priv'), hx(b't=a')), 'lookup 0 %s %s' % (hx(b'only.conf'), hx(b't=a')), 'lookup 0 ' + hx(b'only.conf'),
                  'lookup 0 %s %s' % (hx(b'only.conf'), hx(b't=b')), 'parse_buf 0 ' + hx(b'include("only.conf")\n'), 'lookup 0 ' + hx(b's.conf')]
        n += 1
        yield Scn('secpath%d' % n, lines, {'class': 'section-search-path', 'group': 'sp%d' % n, 'role': 'only', 'big': True, 'k': k,
                                          'want': ['rc=0 ', 'res=707269762f6f6e6c792e636f6e66 ', 'res=- ', 'res=- ', 'rc=1 ', 'res=7368617265642f732e636f6e66 '], 'impl_only': True})
    # a second context is parsed into from a callback while the first is inside an included file (two levels too):
    # the first context ends up as it does alone
    for inner in (b'x = 5\n', b'x = = 5\n', b'include("in2.conf")\n', b''):
        for deep in (1, 2):
            body = b'a = 1\nnames += {n1}\npeer { p = 1 }\nload(\'' + inner + b'\')\nb = 2\nnames += {n2}\npeer { p = 2 }\n'
            lines = ['schema 0 ' + gen.schema_sexpr(NEST_OUT), 'schema 1 ' + gen.schema_sexpr(NEST_IN), 'init 0 0 0', 'init 1 1 0',
                     'file %s file %s' % (hx(b'in2.conf'), hx(b'x = 7\n')),
                     'file %s file %s' % (hx(b'inc.conf'), hx(body if deep == 1 else b'include("incb.conf")\nnames += {n3}\n')),
                     'file %s file %s' % (hx(b'incb.conf'), hx(body)),
                     'parse_buf 0 ' + hx(b'include("inc.conf")\nc = 3\n')]
            k = len(lines)
            lines += ['getv 0 int %s 0' % hx(b'a'), 'getv 0 int %s 0' % hx(b'b'), 'getv 0 int %s 0' % hx(b'c'), 'size 0 ' + hx(b'names'), 'size 0 ' + hx(b'peer')]
            n += 1
            yield Scn('nestinc%d' % n, lines, {'class': 'nested-in-include', 'group': 'ni%d' % n, 'role': 'only', 'big': True, 'k': k,
                                              'want': ['v=1 ', 'v=2 ', 'v=3 ', 'n=%d' % (2 if deep == 1 else 3), 'n=2'], 'impl_only': True})
    # poisoned vs clean
    for flags in (0, F['COMMENTS'], F['NOCASE']):
        for poisoned in (False, True):
            lines = gen.prelude(SCHEMA, flags) + (['poison 0'] if poisoned else []) + ctx(WORK, 0) + ['free 0']
            yield Scn('poison-%d-%d' % (flags, poisoned), lines, {'class': 'poison', 'group': 'p%d' % flags, 'role': 'poisoned' if poisoned else 'clean',
                                                                    'skip': 3 if poisoned else 2, 'big': True})
    # two contexts from one declaration, poisoned after both are created
    ops = [x for x in WORK if not x.startswith('dump') and not x.startswith('print')]
    for k in range(20 if tier == 'quick' else 400):
        a = [r.pick(ops) for _ in range(3 + r.below(4))]
        b = [r.pick(ops) for _ in range(3 + r.below(4))]
        inter = []
        ia = ib = 0
        while ia < len(a) or ib < len(b):
            if ib >= len(b) or (ia < len(a) and r.chance(1, 2)):
                inter.append(ctx([a[ia]], 0)[0]); ia += 1
            else:
                inter.append(ctx([b[ib]], 1)[0]); ib += 1
        head = gen.prelude(SCHEMA, 0) + ['init 1 0 0', 'poison 0']
        n += 1
        yield Scn('inter%d' % n, head + inter + ['dump 0', 'dump 1', 'print 0 0', 'print 1 0'], {'class': 'two-contexts', 'group': 'i%d' % n, 'role': 'both', 'big': True})
        yield Scn('solo-a%d' % n, head + ctx(a, 0) + ['dump 0', 'print 0 0'], {'class': 'two-contexts', 'group': 'i%d' % n, 'role': 'a', 'big': False})
        yield Scn('solo-b%d' % n, head + ctx(b, 1) + ['dump 1', 'print 1 0'], {'class': 'two-contexts', 'group': 'i%d' % n, 'role': 'b', 'big': False})
    # two contexts created from ONE declaration array with DIFFERENT flags: the second is what it would be alone
    for fa, fb in ((F['NOCASE'], 0), (0, F['NOCASE']), (F['NOCASE'] | F['COMMENTS'], F['IGNORE_UNKNOWN'])):
        opsb = ['parse_buf 1 ' + hx(b't abc { a = 1 }\nt ABC { a = 2 }\nT "x" { }\nS = "up"\n'), 'getopt 1 ' + hx(b't=ABC|a'), 'getopt 1 ' + hx(b't=abc|a'),
                'addtsec 1 %s %s' % (hx(b't'), hx(b'Abc')), 'getopt 1 ' + hx(b'I'), 'rmtsec 1 %s %s' % (hx(b't'), hx(b'ABC'))]
        opsa = ['parse_buf 0 ' + hx(b't abc { a = 5 }\nT ABC { A = 6 }\n'), 'getopt 0 ' + hx(b'T=ABC|A')]
        n += 1
        head = ['schema 0 ' + gen.schema_sexpr(SCHEMA), 'init 0 0 %d' % fa, 'init 1 0 %d' % fb, 'poison 0']
        yield Scn('flags%d' % n, head + opsa + opsb + ['dump 0', 'dump 1', 'print 0 0', 'print 1 0'], {'class': 'two-contexts', 'group': 'f%d' % n, 'role': 'both', 'big': True})
        yield Scn('flags-a%d' % n, head + opsa + ['dump 0', 'print 0 0'], {'class': 'two-contexts', 'group': 'f%d' % n, 'role': 'a', 'big': False})
        # solo run of the second context: created alone from a fresh copy of the declarations
        yield Scn('flags-b%d' % n, ['schema 0 ' + gen.schema_sexpr(SCHEMA), 'init 1 0 %d' % fb, 'poison 0'] + opsb + ['dump 1', 'print 1 0'],
                  {'class': 'two-contexts', 'group': 'f%d' % n, 'role': 'b', 'big': False})
    # a print callback installed through a path that crosses a multi section: instance 0 gets it, nobody else
    for k, cmds in enumerate((['printfunc 0 %s 0' % hx(b'm|a')], ['printfunc 0 %s 0' % hx(b'm|n|q')], ['printfunc 0 %s 0' % hx(b't|a')])):
        n += 1
        lines = ['schema 0 ' + gen.schema_sexpr(SCHEMA), 'init 0 0 0', 'poison 0', 'parse_buf 0 ' + hx(b'm { a = 1 n x { q = 4 } }\nm { a = 2 n y { q = 5 } }\nt one { a = 7 }\nt two { a = 8 }\n')]
        lines += cmds + ['parse_buf 0 ' + hx(b'm { a = 3 n z { q = 6 } }\nt three { a = 9 }\n'), 'addtsec 0 %s %s' % (hx(b't'), hx(b'four')), 'print 0 0']
        yield Scn('pfpath%d' % n, lines, {'class': 'print-callback-by-path', 'group': 'pf%d' % n, 'role': 'single', 'big': True, 'pf': k})
    # two sibling instances of one multi section
    sib = [('setint 0 %s %d 0', b'a', 5), ('addlist 0 %s int %d', b'l', 8), ('setstr 0 %s %s 0', b's', None), ('addtsec 0 %s %s', b'n', None),
           ('setcomment 0 %s %s', b'a', None),
           # callbacks installed through one instance (directly, and through the template of its nested multi section),
           # then values that a leaked callback would rewrite (script 1 stores |v|)
           ('validate2 0 @a 1 %s', b'', ''), ('setint 0 %s %d 0', b'a', -6), ('validate2 0 @n|q 1 %s', b'', ''), ('addtsec 0 %s %s', b'n', hx(b'tq')),
           ('setint 0 %s %d 0', b'n=tq|q', -4), ('printfunc 0 @a 0 %s', b'', '')]
    V2A, SETA, V2Q, ADDQ, SETQ = sib[5], sib[6], sib[7], sib[8], sib[9]
    directed = []
    for A, B in ((0, 1), (1, 0)):
        directed += [[(A, V2A), (B, SETA), (A, SETA)], [(A, V2Q), (B, ADDQ), (B, SETQ), (A, ADDQ), (A, SETQ)],
                     [(B, ADDQ), (A, V2Q), (B, SETQ), (A, ADDQ), (A, SETQ), (B, SETQ)]]
    for k in range(len(directed) + (20 if tier == 'quick' else 300)):
        seq = directed[k] if k < len(directed) else [(r.below(2), r.pick(sib)) for _ in range(4 + r.below(5))]

        def render(which):
            out = []
            for inst, (fmt, name, v) in seq:
                if which is not None and inst != which:
                    continue
                path = b'm=%d|' % inst + name
                if '@' in fmt:      # a callback installed through the section instance: NAMEPATH K SECPATH
                    out.append(re.sub(r'@(\S+)', lambda m: hx(m.group(1).encode()), fmt) % hx(b'm=%d' % inst))
                else:
                    out.append(fmt % (hx(path), v if v is not None else hx(b'v%d' % inst)))
            return out
        head = gen.prelude(SCHEMA, 0) + ['poison 0', 'parse_buf 0 ' + hx(b'm { }\nm { }\n')]
        n += 1
        yield Scn('sib%d' % n, head + render(None) + ['dump 0'], {'class': 'siblings', 'group': 's%d' % n, 'role': 'both', 'big': True})
        yield Scn('sib-a%d' % n, head + render(0) + ['dump 0'], {'class': 'siblings', 'group': 's%d' % n, 'role': 'a', 'big': False})
        yield Scn('sib-b%d' % n, head + render(1) + ['dump 0'], {'class': 'siblings', 'group': 's%d' % n, 'role': 'b', 'big': False})


def nontrivial(scn, il):
    return scn.meta.get('big', False)


def oracle(scn, il):
    # (a directory added through a section instance is never released — sections do not own their list, cfg_free_value()
    #  detaches it: a leak outside this property, reported by LeakSanitizer at exit; recorded in DESIGN.md 14.4)
    leak_only = scn.meta['class'] == 'section-search-path' and il and 'san=leak@cfg_add_searchpath' in il[-1]
    if not leak_only and (not il or 'status=exit:0' not in il[-1] or 'san=-' not in il[-1]):
        tr = il[-1] if il else 'no result'
        m = re.search(r'san=(\S+)', tr)
        return [('sanitizer:' + (m.group(1) if m else 'crash'), '%s: %s' % (scn.id, tr))]
    if scn.meta['class'] == 'print-callback-by-path':
        # the callback text is <NAME#INDEX>; exactly the first instance's option shows it
        text = (unhx(il[-2].split('text=')[1].split(' ')[0]) or b'') if 'text=' in il[-2] else b''
        leaf = [b'a', b'q', b'a'][scn.meta['pf']]
        marks = len(re.findall(rb'<' + leaf + rb'#0>', text))
        if marks != 1:
            return [('print-callback-spread', '%s: a print callback installed by path shows %d times in the print-out (once expected: first instance only):\n%s' % (
                scn.id, marks, text.decode('latin-1')[:900]))]
    if scn.meta['class'] == 'section-search-path':
        k = scn.meta['k']
        for j, w in enumerate(scn.meta['want']):
            if k + j >= len(il) - 1 or w not in il[k + j] + ' ':
                return [('section-search-path-leaks', '%s: a directory added through the section instance t=a: `%s` answers %s (expected %s)' % (
                    scn.id, scn.lines[k + j][:60], il[k + j][:100] if k + j < len(il) else '-', w))]
        return []
    if scn.meta['class'] == 'nested-in-include':
        k = scn.meta['k']
        for j, w in enumerate(scn.meta['want']):
            if k + j >= len(il) - 1 or w not in il[k + j] + ' ':
                return [('nested-parse-disturbs', '%s: after a parse into another context started from inside an included file, `%s` answers %s (alone: %s)' % (
                    scn.id, scn.lines[k + j][:50], il[k + j][:80] if k + j < len(il) else '-', w))]
        return []
    for i, l in enumerate(scn.lines):
        want = WORK_EXPECT.get(l.split(' ', 2)[2] if l.count(' ') >= 2 else '')
        if want and i < len(il) - 1 and (want + ' ') not in il[i]:
            return [('expected-' + want, '%s: `%s` answered %s (expected %s)' % (scn.id, l[:70], il[i][:100], want))]
    # every section instance, whenever created, has the declared sub-options (name, kind, default) of its template
    out = []
    for l in reversed(il[:-1]):
        if l.startswith('dump ('):
            try:
                missing = check_instances(gen.dump_tree(l), SCHEMA, b'root')
            except (ValueError, IndexError, StopIteration) as e:
                missing = ['unreadable dump: %s' % e]
            if missing:
                out.append(('instance-lacks-declared-options', '%s: %s' % (scn.id, '; '.join(missing[:4]))))
            break
    return out


def check_instances(c, schema, where, rootflags=None):
    bad = []
    # every section, whenever and however deep it was created, carries the settings of its context
    if rootflags is None:
        rootflags = c.flags
    elif (c.flags | F['KEYSTRVAL']) != (rootflags | F['KEYSTRVAL']):
        bad.append('%s has context flags %d, its context %d' % (where.decode('latin-1'), c.flags, rootflags))
    names = [o.name for o in c.opts]
    for so in schema:
        if so.name not in names:
            bad.append('%s has no option %r' % (where.decode('latin-1'), so.name))
            continue
        o = c.opts[names.index(so.name)]
        want = {'strl': 'str', 'intl': 'int', 'booll': 'bool', 'fltl': 'float', 'flt': 'float'}.get(so.kind, so.kind)
        if o.kind != want:
            bad.append('%s|%s has kind %s, declared %s' % (where.decode('latin-1'), so.name.decode(), o.kind, so.kind))
        if so.kind == 'sec' and not so.flags & F['MULTI'] and len(o.vals) != 1 and where != b'root':      # (the workload removes root|one)
            bad.append('%s|%s (a single section) has %d instances' % (where.decode('latin-1'), so.name.decode(), len(o.vals)))
        if so.kind == 'sec':
            for k, sub in enumerate(o.vals):
                bad += check_instances(sub, so.sub, where + b'|' + so.name + b'=%d' % k, rootflags)
    return bad


def cross_oracle(scns, impl):
    out = []
    groups = {}
    for s in scns:
        groups.setdefault(s.meta['group'], {})[s.meta['role']] = s

    def body(s):
        il = impl.get(s.id) or []
        return il[:-1] if il and il[-1].startswith('--- ') else il
    for g, m in groups.items():
        if 'clean' in m and 'poisoned' in m:
            a, b = body(m['clean'])[2:], body(m['poisoned'])[3:]
            if a != b:
                i = next((i for i, (x, y) in enumerate(zip(a, b)) if x != y), min(len(a), len(b)))
                out.append((m['poisoned'].id, 'poison-visible', '%s: result %d differs once the declarations are gone:\n %s\n %s' % (
                    m['poisoned'].id, i, (a[i] if i < len(a) else '')[:400], (b[i] if i < len(b) else '')[:400])))
        elif 'both' in m and 'a' in m and 'b' in m and m['both'].meta['class'] == 'two-contexts':
            bo, sa, sb = body(m['both']), body(m['a']), body(m['b'])
            if len(bo) >= 4 and len(sa) >= 2 and len(sb) >= 2:
                if bo[-4] != sa[-2] or bo[-2] != sa[-1]:
                    out.append((m['both'].id, 'contexts-interfere', '%s: context 0 differs from its solo run:\n %s\n %s' % (m['both'].id, bo[-4][:500], sa[-2][:500])))
                if bo[-3] != sb[-2] or bo[-1] != sb[-1]:
                    out.append((m['both'].id, 'contexts-interfere', '%s: context 1 differs from its solo run:\n %s\n %s' % (m['both'].id, bo[-3][:500], sb[-2][:500])))
        elif 'both' in m and 'a' in m and 'b' in m:
            bo, sa, sb = body(m['both']), body(m['a']), body(m['b'])
            if bo and sa and sb:
                # instance 0 of the combined run must equal instance 0 of the solo-a run, instance 1 that of solo-b
                def inst(dump, k):
                    t = gen.dump_tree(dump)
                    mo = next(o for o in t.opts if o.name == b'm')
                    return repr(tree_repr(mo.vals[k]))
                try:
                    if inst(bo[-1], 0) != inst(sa[-1], 0) or inst(bo[-1], 1) != inst(sb[-1], 1):
                        out.append((m['both'].id, 'siblings-interfere', '%s: sibling instances influence each other:\n %s\n %s\n %s' % (
                            m['both'].id, bo[-1][:600], sa[-1][:300], sb[-1][:300])))
                except (StopIteration, IndexError, ValueError) as e:
                    out.append((m['both'].id, 'no-result', '%s: %s' % (m['both'].id, e)))
    return out


def tree_repr(c):
    return (c.title, [(o.name, o.kind, o.size, o.M, o.comment, [tree_repr(v) if hasattr(v, 'opts') else v for v in o.vals]) for o in c.opts])
