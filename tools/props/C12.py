"""C12 — with ignore-unknown set, undeclared items are skipped cleanly.

Metamorphic: an accepted text and the same text with a generated unknown item inserted at an item boundary (any depth)
are parsed into two fresh contexts; with CFGF_IGNORE_UNKNOWN both must be accepted with identical trees and no
diagnostic; without the flag the second must be rejected with a diagnostic.  Unknown items come from a recursive
generator (assignments, lists, appends, calls, plain/titled sections, nested, empty, deep)."""
import re
from common import Scn, hx, Opt, CFGF
import gen

VARIANT = 'plain'
RULE = ('accepted base texts x insertion points (every item boundary at every depth) x generated unknown items (recursive, '
        'depth soak up to 2*10^4 / 10^5); non-trivial = the unknown item has at least 3 tokens; distinct by scenario text')
F = CFGF

SUB2 = [Opt('int', b'z', 0, 1), Opt('strl', b'w', 0, None)]
SUB = [Opt('int', b'a', 0, 1), Opt('intl', b'l', 0, b'{5}'), Opt('sec', b'in', F['MULTI'] | F['TITLE'], None, SUB2),
       Opt('sec', b'pl', 0, None, SUB2 + [Opt('sec', b'pp', 0, None, SUB2)]),      # plain sections created at init, two levels down
       Opt('func', b'g', func='user:1'), Opt('strl', b'__unknown', 0, None)]
SCHEMA = [Opt('int', b'i', 0, 7), Opt('str', b's', 0, b'd'), Opt('intl', b'il', 0, b'{1,2}'), Opt('sec', b'sec', 0, None, SUB),
          Opt('sec', b'm', F['MULTI'], None, SUB), Opt('bool', b'b', 0, 0), Opt('func', b'fn', func='user:0'),
          # a deprecated option (its notice is a diagnostic of the base text too), a dropped one, a free-form section
          Opt('int', b'old', F['DEPRECATED'], 1), Opt('intl', b'gone', F['DEPRECATED'] | F['DROP'], b'{1}'),
          Opt('sec', b'kv', F['KEYSTRVAL'], None, [Opt('int', b'lvl', 0, 2)]),
          Opt('str', b'__unknown', 0, b'u0'),     # the name old versions used as a catch-all is an option like any other
          Opt('int', b'nc', F['NOCASE'], 3), Opt('sec', b'tn', F['MULTI'] | F['TITLE'] | F['NOCASE'], None, SUB2)]


def unknown_item(r, depth):
    name = r.pick([b'unk', b'zz', b'new_opt', b'"quoted name"', b'x.y', b'unk', b'zz', b'""', b"''", b'${NOSUCHVAR}',
                   # names that are paths: through a declared section to nothing, through an instance that does not exist
                   b'sec|zz', b'"m|zz"', b'"m=7|a"', b'"m=zzz|a"', b'sec|pl|zz', b'"in=nosuch|z"', b'"zz|a"', b'"kv|q"', b'"i|zz"', b'"il|q"', b'"s|x|y"', b'"a|b"',
                   # case variants of options that carry CFGF_NOCASE themselves, in a case-sensitive context
                   b'NC', b'Tn', b'TN', b'Nc'])
    c = r.below(12)
    v = lambda: r.pick([b'1', b'word', b'"a b"', b"'q'", b'0x1f', b'true', b'""', b'${HOME}'])
    if c == 0:
        return name + b' = ' + v()
    if c == 1:
        return name + b' = {' + b', '.join(v() for _ in range(r.below(4))) + b'}'
    if c == 2:
        return name + b' = {' + v() + b',}'
    if c == 3:
        return name + b' += {' + b', '.join(v() for _ in range(1 + r.below(3))) + b'}'
    if c == 4:
        return name + b' += ' + v()
    if c == 5:
        return name + b'(' + b', '.join(v() for _ in range(r.below(3))) + b')'
    if c == 6:
        return name + b' { }'
    if c == 7:
        return name + b' ' + r.pick([b't1', b'"t 2"', b"'t3'"]) + b' { }'
    body = []
    for _ in range(r.below(4)):
        if depth > 0 and r.chance(1, 2):
            body.append(unknown_item(r, depth - 1))
        else:
            body.append(r.pick([b'i = 99', b'il = {7, 8}', b'a = 3', b'inner = v', b'il += {4}', b'fn(x)', b's = "}"', b'k = "{"',
                                b'# } comment', b'/* { */', b'sec { a = 77 }', b'x = {1, 2}']))
    title = b'' if c < 10 else b' ' + r.pick([b't1', b'"t {"'])
    return name + title + b' {\n' + b'\n'.join(body) + b'\n}'


def base_items(r, schema, depth):
    """a nested structure: list of (text | (header, children, footer))"""
    out = []
    for _ in range(1 + r.below(4)):
        o = r.pick(schema)
        if o.kind == 'sec' and o.flags & F['KEYSTRVAL']:
            out.append((o.name + b' {', [r.pick([b'lvl = 5', b'k1 = v', b'k2 = "w w"']) for _ in range(r.below(3))], b'}'))
        elif o.kind == 'sec':
            title = b' ' + r.pick([b'x', b'y', b'"z z"']) if o.flags & F['TITLE'] else b''
            out.append((o.name + title + b' {', base_items(r, o.sub, depth + 1) if depth < 2 else [], b'}'))
        elif o.kind == 'func':
            out.append(o.name + b'(' + b', '.join(r.pick([b'p', b'"q r"', b'7']) for _ in range(r.below(3))) + b')')
        elif o.is_list():
            out.append(o.name + r.pick([b' = {3, 4}', b' += {9}', b' = {}', b' = 6']))
        else:
            out.append(o.name + b' = ' + gen.value_token(r, o.base()))
    return out


def render(items, insert_at=None, what=None, counter=None):
    """flatten; boundaries are numbered in pre-order; returns text"""
    counter = counter if counter is not None else [0]
    parts = []

    def boundary():
        if insert_at is not None and counter[0] == insert_at:
            parts.append(what)
        counter[0] += 1
    for it in items:
        boundary()
        if isinstance(it, tuple):
            parts.append(it[0])
            parts.append(render(it[1], insert_at, what, counter))
            parts.append(it[2])
        else:
            parts.append(it)
    boundary()
    return b'\n'.join(p for p in parts if p != b'')


def kv_boundaries(items, inside=False, acc=None):
    """for every boundary (numbered as render does): does it lie inside a free-form section?"""
    acc = acc if acc is not None else []
    for it in items:
        acc.append(inside)
        if isinstance(it, tuple):
            kv_boundaries(it[1], inside or it[0].startswith(b'kv '), acc)
    acc.append(inside)
    return acc


def count_boundaries(items):
    c = [0]
    render(items, None, None, c)
    return c[0]


def scenario(sid, base, mod, flags, cls, ntok):
    lines = ['env %s %s' % (hx(b'HOME'), hx(b'/h'))] + gen.prelude(SCHEMA, flags) + ['init 1 0 %d' % flags]
    lines += ['parse_buf 0 ' + hx(base + b'\n'), 'parse_buf 1 ' + hx(mod + b'\n'), 'dump 0', 'dump 1']
    return Scn(sid, lines, {'class': cls, 'flags': flags, 'ntok': ntok})


def generate(rng, tier):
    r = rng.fork('C12')
    n = 0
    for _ in range(60 if tier == 'quick' else 1500):
        items = base_items(r, SCHEMA, 0)
        nb = count_boundaries(items)
        inkv = kv_boundaries(items)
        assert len(inkv) == nb
        base = render(items)
        for k in range(nb):
            if tier == 'quick' and nb > 4 and r.chance(1, 2):
                continue
            u = unknown_item(r, 3)
            if r.chance(1, 3):      # several undeclared items in a row (state kept between two skipped items)
                u = u + b'\n' + unknown_item(r, 2) + (b'\n' + unknown_item(r, 1) if r.chance(1, 3) else b'')
            mod = render(items, k, u)
            ntok = len(re.findall(rb'\S+', u))
            n += 1
            yield scenario('u%d' % n, base, mod, F['IGNORE_UNKNOWN'] | (F['COMMENTS'] if n % 3 == 0 else 0), 'ignore/boundary', ntok)
            if k % 3 == 0 and not inkv[k]:      # inside a free-form section `unk = v` is a key, not an undeclared item
                n += 1
                yield scenario('n%d' % n, base, mod, 0, 'noflag', ntok)
    # fixed shapes named in the property, and the depth soak
    shapes = [b'unk {}', b'unk { a = 1 }', b'unk t { }', b'unk { inner { a = 1 } }', b'unk += {1}', b'unk = {1, 2}', b'unk(a)',
              b'unk { } unk2 { }', b'unk { x { y { z { } } } }', b'unk = v', b'unk "t t" { k = v }', b'unk { fn(a, b) }',
              b'unk { l = {1,2} }', b'unk { l += {1} }', b'unk(a, b)', b'unk("x", y)', b'"" = 1', b"'' = {a, b}", b'""(a, b)', b"'' t { }",
              b'${NOSUCHVAR} = on', b'unk { } unk2 t { }', b'unk t { } unk2 t2 { a = 1 }', b'unk { x { } } unk2 "t" { y { } }', b'unk t { } unk2 { }',
              b'unk { } unk2 { } unk3 t { z = 1 }', b'unk += 3', b'unk += "v"', b'unk += {1} unk2 += 2', b'unk = {a, b} unk2 = c']
    deep = 20000 if tier == 'quick' else 100000
    shapes += [b'unk { ' * deep + b'} ' * deep, b'unk {' + b' a { b = 1 }' * (deep // 10) + b' }']
    for s in shapes:
        for base, mk in ((b'i = 1\ns = "x"', lambda u: b'i = 1\n' + u + b'\ns = "x"'), (b'sec { a = 2 l = {3} }', lambda u: b'sec { a = 2\n' + u + b'\nl = {3} }'),
                         (b'b = true', lambda u: u + b'\nb = true'), (b'b = true', lambda u: b'b = true\n' + u),
                         (b'fn(z)\nsec { g(w) }', lambda u: u + b'\nfn(z)\nsec { ' + u + b' g(w) }'),
                         (b'sec { pl { z = 2 pp { z = 3 } } }', lambda u: b'sec { pl { z = 2\n' + u + b'\npp { ' + u + b'\nz = 3 } } }'),
                         (b'm { pl { } }', lambda u: b'm { pl { ' + u + b' } }'),
                         (b'old = 3\ni = 2', lambda u: b'old = 3\n' + u + b'\ni = 2'), (b'gone = {4}', lambda u: b'gone = {4}\n' + u),
                         (b'kv { k1 = v lvl = 4 }', lambda u: b'kv { k1 = v\n' + u + b'\nlvl = 4 }')):
            n += 1
            yield scenario('s%d' % n, base, mk(s), F['IGNORE_UNKNOWN'], 'ignore/shape', 3 if len(s) < 1000 else 10 ** 4)
            if len(s) < 1000 and n % 2 == 0:
                n += 1
                yield scenario('s%d' % n, base, mk(s.replace(b'{ ', b'{ # in\n', 1).replace(b'(', b'( /* in */ ', 1).replace(b'= ', b'= // in\n', 1)), F['IGNORE_UNKNOWN'] | F['COMMENTS'], 'ignore/shape+comments', 3)


def nontrivial(scn, il):
    return scn.meta.get('ntok', 3) >= 3


def dg(l):
    """the diagnostics without their line numbers (an inserted item moves the lines of what follows)"""
    m = re.search(r'diags=\[([^\]]*)\]', l)
    return re.sub(r',\d+,', ',', m.group(1)) if m else '?'


def cbs(l):
    m = re.search(r'cbs=\[([^\]]*)\]', l)
    return m.group(1) if m else '?'


def oracle(scn, il):
    body = il[:-1] if il and il[-1].startswith('--- ') else il
    if len(body) < 4 or not (il and 'status=exit:0' in il[-1]):
        return [('no-result', '%s: %s' % (scn.id, il[-1] if il else 'nothing'))]
    base, mod, d0, d1 = body[-4:]
    out = []
    if 'rc=0 ' not in base:
        return []          # the base text itself is not accepted: nothing to compare
    flags = scn.meta.get('flags')
    if flags is None:      # a replay file: the flags are in the init line
        flags = int([l for l in scn.lines if l.startswith('init 1 ')][0].split()[3])
    if flags & F['IGNORE_UNKNOWN']:
        if 'rc=0 ' not in mod:
            out.append(('not-skipped', '%s: text with an unknown item rejected: %s\n%s' % (scn.id, mod[:200], scn.lines[-3][:300])))
        elif dg(mod) != dg(base):
            out.append(('diagnostic', '%s: skipping produced a diagnostic: %s (base text alone: %s)' % (scn.id, dg(mod), dg(base))))
        elif cbs(base) != cbs(mod):
            out.append(('changed-calls', '%s: the unknown item changed the calls of declared functions: %s vs %s' % (scn.id, cbs(base), cbs(mod))))
        elif d0[5:] != d1[5:]:
            out.append(('changed-values', '%s: the unknown item changed the tree\n %s\n %s' % (scn.id, d0[:700], d1[:700])))
    else:
        if 'rc=1 ' not in mod or 'diags=[]' in mod:
            out.append(('accepted-without-flag', '%s: unknown item accepted/silent without the flag: %s' % (scn.id, mod[:200])))
    return out
