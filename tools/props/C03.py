"""C03 — string, escape, environment and comment lexing decode as specified.

Scenarios: literals built from an abstract syntax (units, as coq/LexSpec.v) whose denotation the
generator knows; `lex` of the literal and a parse into a string option; both compared with the model
(correspondence) and with the expected denotation (direct oracle on the implementation)."""
import re
from common import Scn, hx, unhx, Opt, schema_sexpr

VARIANT = 'plain'
RULE = ('literals enumerated from the unit alphabet (all sequences up to a length bound) plus random longer ones, '
        'x 3 quote styles x environments; non-trivial = the literal has at least one escape/substitution/comment unit; '
        'distinct by scenario text')

ENV = {b'SET': b'val', b'EMPTY': b'', b'META': b'a"b\\c}d\n$', b'N1': b'1'}
LETTER = {ord('n'): 10, ord('t'): 9, ord('r'): 13, ord('b'): 8, ord('f'): 12, ord('a'): 7, ord('e'): 27, ord('v'): 11}


def cstr(b):
    i = b.find(b'\0')
    return b if i < 0 else b[:i]


def env_subst(body):
    b = cstr(body)
    name, dflt = b, None
    i = b.find(b':')
    if i >= 0 and b[i + 1:i + 2] == b'-':
        name, dflt = b[:i], b[i + 2:]
    if name in ENV:
        return ENV[name]
    return dflt if dflt is not None else b''


# ---- double-quoted units: (kind, payload) ----
def d_render(u):
    k, x = u
    if k == 'c':
        return bytes([x])
    if k in ('l', 'o'):
        return b'\\' + bytes([x])
    if k == 'oct':
        return b'\\' + x
    if k == 'hex':
        return b'\\x' + x
    if k == 'cont':
        return b'\\\n'
    if k == 'env':
        return b'${' + x + b'}'


def d_denote(u):
    k, x = u
    if k == 'c' or k == 'o':
        return bytes([x])
    if k == 'l':
        return bytes([LETTER[x]])
    if k == 'oct':
        return bytes([int(x, 8) & 255])
    if k == 'hex':
        return bytes([int(x, 16)])
    if k == 'cont':
        return b''
    if k == 'env':
        return env_subst(x)


def d_wf(u):
    k, x = u
    if k == 'c':
        return x not in (0x5c, 0x22)
    if k == 'l':
        return x in LETTER
    if k == 'o':
        return x not in LETTER and not (48 <= x <= 57) and x != ord('x') and x != 10
    if k == 'oct':
        return 1 <= len(x) <= 3 and all(48 <= c <= 55 for c in x) and int(x, 8) <= 255
    if k == 'hex':
        return 1 <= len(x) <= 2 and all(chr(c) in '0123456789abcdefABCDEF' for c in x)
    if k == 'env':
        return b'}' not in x and b'\0' not in x
    return True


def d_follow_ok(u, nxt):
    k, x = u
    if k == 'c' and x == ord('$'):
        return nxt != ord('{')
    if k == 'oct':
        return not (48 <= nxt <= 57)
    if k == 'hex' and len(x) < 2:
        return chr(nxt) not in '0123456789abcdefABCDEF'
    return True


def d_lines(u):
    k, x = u
    if k == 'env':
        return x.count(b'\n')      # newlines inside ${...} are consumed input and counted (C06)
    return 1 if (k == 'c' and x == 10) or k == 'cont' else 0


D_ALPHA = ([('c', c) for c in b'a07x $#/*{}\'\n\t=' + bytes([0x80, 0xff, 1])] +
           [('l', c) for c in LETTER] +
           [('o', c) for c in b'"\\\'z$ ' + bytes([0xff, ord('{')])] +
           [('oct', x) for x in (b'0', b'7', b'12', b'101', b'377', b'000', b'40')] +
           [('hex', x) for x in (b'4', b'41', b'fF', b'0', b'00')] +
           [('cont', None)] +
           [('env', x) for x in (b'SET', b'UNSET', b'EMPTY', b'META', b'UNSET:-dflt', b'SET:-d', b'A:B', b'', b':-d',
                                 b'UNSET:-', b'N1:x', b'a b\n"c', b'EMPTY:-d', b'SET:-', b'META:-x', b'UNSET:-a:-b', b'SET:+x',
                                 # the name ends at the FIRST ':' whatever follows it; only a '-' right there starts a default
                                 b'UNSET:X:-d', b'SET:x:-d', b'A:B:-c', b'UNSET::-d', b'UNSET:=:-d', b'SET:', b'UNSET:', b':', b'::-x')])

# ---- single-quoted units ----
S_ALPHA = ([('c', c) for c in b'a0 "$#{}/*\n\t' + bytes([0x80, 0xff])] +
           [('e', c) for c in b"'\\"] + [('k', c) for c in b'n"a0 $x'] + [('cont', None)])


def s_render(u):
    k, x = u
    return bytes([x]) if k == 'c' else (b'\\\n' if k == 'cont' else b'\\' + bytes([x]))


def s_denote(u):
    k, x = u
    return bytes([x]) if k in ('c', 'e') else (b'' if k == 'cont' else b'\\' + bytes([x]))


def tok_s(val, line):
    return 'S:%s@%d' % (hx(cstr(val)), line)


def mk_dq(units):
    """returns (text, expected value or None if not well-formed by construction)"""
    text = b'"' + b''.join(d_render(u) for u in units) + b'"'
    ok = all(d_wf(u) for u in units)
    body = [d_render(u) for u in units]
    for i, u in enumerate(units):
        nxt = (b''.join(body[i + 1:]) + b'"')[0]
        ok = ok and d_follow_ok(u, nxt)
    val = b''.join(d_denote(u) for u in units) if ok else None
    return text, val, sum(d_lines(u) for u in units)


def mk_sq(units):
    text = b"'" + b''.join(s_render(u) for u in units) + b"'"
    return text, b''.join(s_denote(u) for u in units), sum(1 for u in units if (u[0] == 'c' and u[1] == 10) or u[0] == 'cont')


WORD_BYTES = [c for c in range(1, 256) if c not in b' #"\'\t\n\r={}()+,*/']


def scenario(sid, cases, cls):
    """cases: list of (text, expected S value or None, lines inside, kind)"""
    lines = ['env %s %s' % (hx(k), hx(v)) for k, v in sorted(ENV.items())]
    lines.append('schema 0 ' + schema_sexpr([Opt('str', b's', 0, None)]))
    lines.append('init 0 0 0')
    expect = {}
    for text, val, nl, kind in cases:
        if kind == 'err':
            expect[len(lines)] = ('err', None)
        elif val is not None:
            expect[len(lines)] = ('toks', 'toks=[%s] end=eof line=%d ' % (tok_s(val, 1 + nl), 1 + nl))
        lines.append('lex ' + hx(text))
        if kind != 'err' and b'\0' not in text:
            if val is not None:
                expect[len(lines) + 1] = ('dump', hx(cstr(val)))
            lines.append('parse_buf 0 ' + hx(b's = ' + text + b'\n'))
            lines.append('dump 0')
    return Scn(sid, lines, dict(expect=expect, cases=cases, **{'class': cls}))


def reduce(scn):
    """one scenario per literal"""
    cases = scn.meta.get('cases') or []
    if len(cases) > 1:
        for i, c in enumerate(cases):
            yield scenario('%s.%d' % (scn.id, i), [c], scn.meta.get('class', 'other'))


def generate(rng, tier):
    maxlen = 2 if tier == 'quick' else 3
    nrand = 300 if tier == 'quick' else 6000
    batch = []
    n = 0

    def flush(cls):
        nonlocal batch, n
        if batch:
            n += 1
            yield scenario('%s-%d' % (cls, n), batch, cls)
            batch = []

    # exhaustive double-quoted unit sequences
    def seqs(alpha, k):
        if k == 0:
            yield []
            return
        for s in seqs(alpha, k - 1):
            for u in alpha:
                yield s + [u]
    for k in range(0, maxlen + 1):
        alpha = D_ALPHA if k <= 2 else D_ALPHA[::3]
        for us in seqs(alpha, k):
            t, v, nl = mk_dq(us)
            batch.append((t, v, nl, 'dq'))
            if len(batch) >= 40:
                yield from flush('dq-exh')
    yield from flush('dq-exh')
    for k in range(0, maxlen + 1):
        for us in seqs(S_ALPHA, k):
            t, v, nl = mk_sq(us)
            batch.append((t, v, nl, 'sq'))
            if len(batch) >= 40:
                yield from flush('sq-exh')
    yield from flush('sq-exh')
    # random longer literals (lengths hit the scratch buffer growth boundaries)
    r = rng.fork('C03')
    for i in range(nrand):
        ln = r.pick([5, 9, 17, 31, 32, 33, 63, 64, 65, 130])
        if r.chance(2, 3):
            us = [r.pick(D_ALPHA) for _ in range(ln)]
            t, v, nl = mk_dq(us)
            batch.append((t, v, nl, 'dq'))
        else:
            us = [r.pick(S_ALPHA) for _ in range(ln)]
            t, v, nl = mk_sq(us)
            batch.append((t, v, nl, 'sq'))
        if len(batch) >= 10:
            yield from flush('rand')
    yield from flush('rand')
    # unquoted words: verbatim
    for i in range(60 if tier == 'quick' else 600):
        w = bytes(r.pick(WORD_BYTES) for _ in range(r.pick([1, 2, 5, 40])))
        if w.startswith(b'${'):
            continue
        batch.append((w, w, 0, 'word'))
        if len(batch) >= 20:
            yield from flush('word')
    for w in (b'abc$', b'$', b'a$$', b'US$', b'$x', b'a$b', b'^re$', b'x/', b'/', b'a/b/', b'a-b.c_d', b'1e-5', b'~/x', b'%s', b'a;b', b'[x]', b'<y>', b'a|b', b'!', b'\\x'):
        batch.append((w, w, 0, 'word'))
    yield from flush('word')
    # ${...} as a whole unquoted token
    for body in [x for k, x in D_ALPHA if k == 'env']:
        batch.append((b'${' + body + b'}', env_subst(body), body.count(b'\n'), 'envtok'))
    yield from flush('envtok')
    # rejected forms
    for t in [b'"\\400"', b'"\\777"', b'"\\1234"', b'"\\8"', b'"\\9z"', b'"\\08"', b'"\\128"', b"'abc", b"'", b'"abc', b'"',
              b'"a\\', b"'a\\", b'/* x', b'"\\0000"']:
        batch.append((t, None, 0, 'err'))
    yield from flush('err')
    # comments contribute nothing: the S tokens around a comment are unchanged
    for cm in [b'# c\n', b'// c\n', b'/* c */', b'/**/', b'/* a\nb */', b'#\n', b'####\n', b'/***/', b'/* * / */']:
        lines = ['schema 0 ' + schema_sexpr([Opt('str', b's', 0, None)]), 'init 0 0 0']
        text = b'a ' + cm + b' "b"'
        lines.append('lex ' + hx(text))
        n += 1
        yield Scn('comment-%d' % n, lines, {'class': 'comment', 'expect': {2: ('svals', [hx(b'a'), hx(b'b')])}})
    # a '#' ends an unquoted word wherever it stands, also directly behind a slash: the comment contributes nothing
    for w in (b'a', b'a/', b'/var/spool/', b'/b/#', b'x.y', b'a/b', b'http://h/'):
        lines = ['schema 0 ' + schema_sexpr([Opt('str', b's', 0, None)]), 'init 0 0 0']
        lines.append('lex ' + hx(w + b'#incoming c\n "b"'))
        n += 1
        yield Scn('comment-%d' % n, lines, {'class': 'comment-glued', 'expect': {2: ('svals', [hx(w.rstrip(b'#')), hx(b'b')])}})


def nontrivial(scn, il):
    return any('5c' in l or '247b' in l for l in scn.lines if l.startswith('lex '))


def oracle(scn, il):
    out = []
    body = il[:-1] if il and il[-1].startswith('--- ') else il
    for idx, (kind, exp) in scn.meta.get('expect', {}).items():
        if idx >= len(body):
            out.append(('no-result', '%s: no result for line %d (%s)' % (scn.id, idx, scn.lines[idx][:80])))
            continue
        got = body[idx]
        lit = scn.lines[idx]
        if kind == 'toks':
            if not got.startswith('lex ' + exp) or 'diags=[]' not in got or 'out=. ' not in got:
                out.append(('decode:' + classify(lit), 'literal %s: expected %s got %s' % (lit, exp, got[:300])))
        elif kind == 'err':
            if 'end=err' not in got or 'diags=[]' in got:
                out.append(('accepts-invalid', 'literal %s must be rejected with a diagnostic, got %s' % (lit, got[:300])))
        elif kind == 'dump':
            m = re.search(r'\(opt 73 str 1 \d \d \d \S+ (\S+)\)\)$', got)
            if not m or m.group(1) != exp:
                out.append(('value:' + classify(scn.lines[idx - 1]), 'parse of %s: expected value %s got %s' % (
                    scn.lines[idx - 1], exp, got[:300])))
        elif kind == 'svals':
            vals = re.findall(r'S:(\S+?)@', got)
            if vals != exp:
                out.append(('comment-contributes', '%s: S tokens %s, expected %s' % (lit, vals, exp)))
    return out


def classify(cmdline):
    """cause key: which lexical form is decoded wrongly"""
    try:
        t = unhx(cmdline.split()[-1]) or b''
    except ValueError:
        return 'other'
    if t.startswith(b's = '):
        t = t[4:]
    if t[:1] == b"'":
        return 'sq'
    if t[:1] == b'"':
        m = re.search(rb'\\(x|[0-7]|.)|\$\{', t, re.S)
        if not m:
            return 'dq-plain'
        g = m.group(0)
        if g == b'${':
            return 'dq-env'
        c = g[1:2]
        if c == b'x':
            return 'dq-hex'
        if c in b'01234567':
            return 'dq-octal'
        if c == b'\n':
            return 'dq-cont'
        return 'dq-escape-' + (c.decode('latin-1') if c.isalnum() else '%02x' % c[0])
    if t[:2] == b'${':
        return 'env-token'
    return 'word'
