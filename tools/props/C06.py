"""C06 — rejected input is always reported, with the right file and line.

A grid of error kinds (wrong token, bad value, unknown name, premature end, lexical errors) injected after every mix
of noise units whose newline count the generator knows (comments of all styles, blank lines, multi-line strings,
continuations, multi-line ${...}, includes), at top level, inside sections and inside included files.
Oracle: rc is the parse-error code, at least one diagnostic, and the first names (file, line of the offending token);
accepted texts deliver no diagnostic."""
import re
from common import Scn, hx, Opt, CFGF
import gen

VARIANT = 'plain'
COMPARE_LINES = True      # line numbers in diagnostics are part of this property
RULE = ('error kinds x noise prefixes (all sequences up to a length bound over 11 noise units, random longer) x 3 placements '
        '(top level, in a section, in an included file); non-trivial = at least one noise unit precedes the error; distinct by text')
F = CFGF

SUB = [Opt('int', b'a', 0, 1), Opt('sec', b'in', 0, None, [Opt('int', b'z', 0, 0)])]
SCHEMA = [Opt('int', b'i', 0, 7), Opt('str', b's', 0, b'd'), Opt('intl', b'il', 0, b'{1}'), Opt('bool', b'b', 0, 0),
          Opt('flt', b'f', 0, 0.5), Opt('sec', b'sec', 0, None, SUB), Opt('sec', b't', F['MULTI'] | F['TITLE'], None, SUB),
          Opt('sec', b'kv', F['KEYSTRVAL'], None, []), Opt('func', b'include', func='include'), Opt('func', b'fn', func='user:0'),
          Opt('ptr', b'np', 0, cbs=('noparse:0',)), Opt('ptrl', b'npl', 0, None, cbs=('noparse:0',))]      # pointer options declared without a value parser

# (text, newlines it contains)
NOISE = [(b's = "${SETV:-a\nb\nc}"\n', 3), (b's = "x${UNSETV:-\n}y"\n', 2), (b'# c\n', 1), (b'// c\n', 1), (b'/* a\nb */ ', 1), (b'/**/', 0), (b'\n', 1), (b'  \t', 0), (b's = "m\nl"\n', 2),
         (b's = "c\\\nl"\n', 2), (b"s = 'q\nr\\\ns'\n", 3), (b's = ${UNSET\n:-x}\n', 2), (b'i = 1\n', 1), (b'sec { a = 2\n}\n', 2),
         (b'####\n', 1), (b'/* *\n * \n */\n', 3), (b'il = {1,\n2}\n', 2), (b'kv { k = v\n}\n', 2)]

# (text, line offset of the offending token's end inside the text, reported by which level)
ERRORS = [(b'bogus = 1', 0), (b'i = x', 0), (b'i = = 2', 0), (b'i 5', 0), (b'i =\n\n}', 2), (b'sec {\n a = \n}', 2),
          (b'il = {1,\n 2,\n x}', 2), (b't {', 0), (b'}', 0), (b'sec {\n bogus = 1\n}', 1), (b'fn(a, = )', 0), (b's = "abc\\400"', 0),
          (b's = "x\ny\\8"', 1), (b'i = 99999999999999999999', 0), (b'kv { k = = }', 0), (b'b = maybe', 0), (b'f = 1.5x', 0),
          (b'i += 1', 0), (b'sec = 1', 0), (b'fn 1', 0), (b'sec {\n in {\n z = q\n}\n}', 2), (b't "x" {\n a = \n= }', 2),
          (b'il = {1 2}', 0), (b', ', 0), (b'i = {', 0), (b'"" = 1', 0), (b'"|foo" = 1', 0), (b'"sec|" = 1', 0), (b'"|" = 1', 0),
          (b'"sec=|a" = 1', 0), (b'"kv|x" = 1', 0), (b'kv|x = 1', 0), (b'np = x', 0), (b'npl = {x}', 0), (b'npl += y', 0), (b'"t=\'x\'y|a" = 1', 0), (b'"sec|in" = 1', 0),
          (b'include()', 0), (b'include( )', 0), (b'include(\n)', 1), (b'include("a", "b")', 0), (b'include("nope.conf")', 0), (b'include("nope.conf",)', 0)]
# errors that are only detected at the end of the input: the line is that of the last byte
EOF_ERRORS = [b'sec { a = 1', b'i =', b"s = 'unterminated\n\n", b's = "unterminated\n', b'/* unterminated\n\n', b'il = {1,', b'fn(a',
              b't "x"', b'i']


# earlier inputs given to the same handle: (text, through a file?)
HISTORY = [(b'i = 1\n\n\n# c\ni = 2\n', False), (b'\n\n\n\ns = "a\nb"\n', True), (b'i = 1\nbogus\n\n', False), (b'sec {\n a = 1\n', True),
           (b'\n\ns = "open\n\n', False), (b'/* open\n\n\n', True), (b'', False), (b'il = {1,\n2,\n3}\n\n', False)]


def build(prefix, err_text, err_off, placement, eof):
    """returns (scenario lines, expected (file, line))"""
    lines = ['env %s %s' % (hx(b'SETV'), hx(b'set'))] + gen.prelude(SCHEMA, 0)
    pre = b''.join(t for t, _ in prefix)
    nl = sum(n for _, n in prefix)
    if eof:
        body = pre + err_text
        line = 1 + body.count(b'\n')
    else:
        body = pre + err_text + b'\ni = 2\n'
        line = 1 + nl + err_off
    if placement == 'top':
        lines.append('parse_buf 0 ' + hx(body))
        return lines, (b'[buf]', line)
    if placement == 'file':
        lines.append('file %s file %s' % (hx(b'main.conf'), hx(body)))
        lines.append('parse_file 0 ' + hx(b'main.conf'))
        return lines, (b'main.conf', line)
    if placement == 'included':
        lines.append('file %s file %s' % (hx(b'inc.conf'), hx(body)))
        lines.append('parse_buf 0 ' + hx(b'# main\ni = 1\ninclude("inc.conf")\ni = 3\n'))
        return lines, (b'inc.conf', line)
    if placement == 'after-include':
        lines.append('file %s file %s' % (hx(b'ok.conf'), hx(b'i = 5\n# two\n\n')))
        main = b'# main\ninclude("ok.conf")\n' + body
        lines.append('parse_buf 0 ' + hx(main))
        return lines, (b'[buf]', line + 2)
    if placement == 'section':
        main = b'sec {\n' + body
        # the closing brace is missing on purpose when the error is at EOF
        lines.append('parse_buf 0 ' + hx(main if eof else main + b'}\n'))
        return lines, (b'[buf]', line + 1)
    raise ValueError(placement)


def generate(rng, tier):
    r = rng.fork('C06')
    n = 0
    prefixes = [[]] + [[u] for u in NOISE]
    if tier == 'thorough':
        prefixes += [[u, v] for u in NOISE for v in NOISE]
    for _ in range(40 if tier == 'quick' else 600):
        prefixes.append([r.pick(NOISE) for _ in range(2 + r.below(5))])
    placements = ['top', 'file', 'included', 'after-include', 'section']
    k = 0
    for prefix in prefixes:
        errs = [(e, o, False) for e, o in ERRORS] + [(e, 0, True) for e in EOF_ERRORS]
        if len(prefix) > 1 or tier == 'quick' and prefix:
            errs = [errs[(k + j * 7) % len(errs)] for j in range(6)]
        for e, o, eof in errs:
            k += 1
            pl = placements[k % len(placements)] if prefix else placements[k % 2]
            if pl == 'included' and eof and not (e.startswith(b"s = '") or e.startswith(b's = "') or e.startswith(b'/*')):
                pl = 'file'     # an included file that ends inside an item continues in the includer: not an end-of-input error
            if pl == 'section' and (e.startswith(b'}') or e.startswith(b'sec') or e.startswith(b't ') or e.startswith(b'kv') or e.startswith(b'fn')
                                    or e.startswith(b'il') or e.startswith(b's =') or e.startswith(b'b ') or e.startswith(b'f ')
                                    or e.startswith(b'/*') or e.startswith(b'"" ') or e.startswith(b'include')):
                pl = 'top'
            if pl == 'section':
                # inside `sec` only a and in are declared; make the item use `a`
                e2 = e.replace(b'i ', b'a ', 1) if e.startswith(b'i ') else e
                prefix2 = [(t, c) for t, c in prefix if not (t.startswith(b's =') or t.startswith(b"s =") or t.startswith(b'i =')
                                                             or t.startswith(b'sec') or t.startswith(b'il') or t.startswith(b'kv'))]
                lines, exp = build(prefix2, e2, o, pl, eof)
            else:
                lines, exp = build(prefix, e, o, pl, eof)
            n += 1
            hist = ''
            if k % 3 == 0:
                # earlier parses on the same handle (accepted and rejected, buffers and files, ending inside a string or
                # comment): every parse starts counting at line 1 again and names its own input
                h = [r.pick(HISTORY) for _ in range(1 + r.below(3))]
                pre_cmds = []
                for j, (ht, hfile) in enumerate(h):
                    if hfile:
                        pre_cmds += ['file %s file %s' % (hx(b'h%d.conf' % j), hx(ht)), 'parse_file 0 ' + hx(b'h%d.conf' % j)]
                    else:
                        pre_cmds.append('parse_buf 0 ' + hx(ht))
                first_parse = next(i for i, l in enumerate(lines) if l.startswith('parse_') or l.startswith('file '))
                lines = lines[:first_parse] + pre_cmds + lines[first_parse:]
                hist = '+history'
            yield Scn('e%d' % n, lines, {'class': '%s/%s%s' % (pl, 'eof' if eof else 'token', hist), 'expect': exp, 'noise': len(prefix),
                                         'err': e})
    # the error function is replaced between two parses of one handle: the diagnostics of the second parse, also those
    # raised inside sections that exist since the first parse or since cfg_init, go to the function installed NOW
    for first in (b'sec { a = 1 }\n', b'', b't "x" { in { z = 1 } }\n', b'sec { in { z = 2 } }\n'):
        for bad in (b'sec {\n a = \n}', b'sec {\n in { z = q }\n}', b't "x" {\n a = = 1\n}', b'i = x', b'sec { bogus = 1 }', b'"sec|bogus" = 1'):
            n += 1
            lines = gen.prelude(SCHEMA, 0) + ['parse_buf 0 ' + hx(first), 'errfunc 0 1', 'parse_buf 0 ' + hx(bad + b'\n')]
            yield Scn('ef%d' % n, lines, {'class': 'errfunc-replaced', 'expect': 'alt', 'noise': 1, 'err': bad, 'impl_only': True})
    # a callback inside an included file parses a text into ANOTHER context; afterwards the outer parse still knows
    # where it is: in the included file, and back in the including one
    NS = SCHEMA + [Opt('func', b'nest', func='nest:1')]
    for inner in (b'i = 5\n', b'i = = 5\n', b'', b's = "open\n'):
        q = b"'" + inner + b"'"
        for inc, main, exp in ((b'i = 1\nnest(' + q + b')\ni = 2\n', b'# main\ninclude("inc.conf")\ni = 3\nbogus = 1\n', (b'[buf]', 4)),
                               (b'nest(' + q + b')\n\nbogus = 1\n', b'include("inc.conf")\n', (b'inc.conf', 3 + inner.count(b'\n'))),
                               (b'sec {\nnest(' + q + b')\n}\n', b'\n\ninclude("inc.conf")\n\ni = = 1\n', (b'[buf]', 5))):
            n += 1
            # a nest() function needs to be declared in the section too for the third form
            sch = [o if o.name != b'sec' else Opt('sec', b'sec', 0, None, SUB + [Opt('func', b'nest', func='nest:1')]) for o in NS]
            lines = gen.prelude(sch, 0) + ['init 1 0 0', 'file %s file %s' % (hx(b'inc.conf'), hx(inc)), 'parse_buf 0 ' + hx(main)]
            yield Scn('ni%d' % n, lines, {'class': 'nested-in-include', 'expect': exp, 'noise': 1, 'err': main, 'impl_only': True})
    # a callback that refuses reports through cfg_error(cfg, ...) with the context it was handed (the documented idiom):
    # the diagnostic names the line on which the token that triggered the call ends.  (library only: `cberror`)
    CBS = [Opt('int', b'pi', 0, 1, cbs=('parse:0',)), Opt('int', b'vi', 0, 1, cbs=('valid:0',)), Opt('intl', b'vl', 0, b'{1}', cbs=('valid:0',)),
           Opt('str', b'ps', 0, b'd', cbs=('parse:1',)), Opt('func', b'fn', func='user:0'), Opt('int', b'i', 0, 1),
           Opt('sec', b'sec', 0, None, [Opt('int', b'a', 0, 1), Opt('str', b's', 0, b'')], cbs=('valid:1',)),
           Opt('sec', b't', F['MULTI'] | F['TITLE'], None, [Opt('int', b'a', 0, 1), Opt('sec', b'in', 0, None, [Opt('int', b'z', 0, 1)], cbs=('valid:2',))],
               cbs=('valid:1',))]
    # (text, line offset of the end of the triggering token[, which invocation refuses]): the validator of a list runs after
    # every value and once more at the closing brace
    CBTEXTS = [(b'pi = 5', 0), (b'pi =\n\n 5', 2), (b'vi = 5', 0), (b'vi\n=\n5', 2), (b'vl = {1,\n2,\n3\n}', 3, 4), (b'vl = {1,\n2,\n3\n}', 1, 2), (b'vl = {\n\n1, 2}', 2), (b'vl += {4,\n5}', 1, 2), (b'vl += {4,\n5\n}', 2, 3),
               (b'ps = "a\nb\nc"', 2), (b"ps = 'a\\\nb'", 1), (b'fn(a,\n b\n)', 2), (b'fn()', 0),
               (b'sec {\n a = 2\n\n}', 3), (b'sec { }', 0), (b'sec {\n # c\n /* d\n e */\n}', 4), (b'sec {\n s = "x\ny"\n }', 3),
               (b't "x" {\n a = 1\n}', 2), (b't "x" {\n in {\n z = 1\n\n }\n a = 2\n}', 4), (b't\n"y"\n{\n}', 3)]
    for pre in prefixes[:12]:
        pre = [(t, c) for t, c in pre if not (t.startswith(b's =') or t.startswith(b'il') or t.startswith(b'kv') or t.startswith(b'sec'))]
        for text, off, *at in CBTEXTS:
            n += 1
            body = b''.join(t for t, _ in pre) + text + b'\ni = 2\n'
            line = 1 + sum(c for _, c in pre) + off
            yield Scn('cb%d' % n, gen.prelude(CBS, 0) + ['cberror 1', 'failat %d' % (at[0] if at else 1), 'parse_buf 0 ' + hx(body)],
                      {'class': 'callback-refuses', 'expect': (b'[buf]', line), 'noise': 1, 'err': text, 'impl_only': True})
    # accepted texts with annotation support on: comments of every form (also empty ones) directly before every item form
    for cm in (b'#\n', b'//\n', b'/**/', b'/* */', b'####\n', b'# c\n', b'/* a\nb */'):
        for it in (b'i = 1', b'il = {1, 2}', b'il += 3', b'il = 4', b's = "v"', b'sec { a = 2 }', b'sec {\n' + cm + b' a = 3\n}', b't "x" { a = 1 }', b'b = on'):
            n += 1
            yield Scn('okc%d' % n, gen.prelude(SCHEMA, F['COMMENTS']) + ['parse_buf 0 ' + hx(cm + b' ' + it + b'\n' + cm + b'i = 5\n')],
                      {'class': 'accepted/annotations', 'expect': None, 'noise': 1})
    # accepted texts: no diagnostic at all
    for i in range(30 if tier == 'quick' else 400):
        text = b''.join(r.pick(NOISE)[0] for _ in range(1 + r.below(6))) + gen.rand_text(r, SCHEMA[:8], comments=True)
        n += 1
        yield Scn('ok%d' % n, ['env %s %s' % (hx(b'SETV'), hx(b'set'))] + gen.prelude(SCHEMA, 0) + ['parse_buf 0 ' + hx(text)], {'class': 'accepted', 'expect': None, 'noise': 1})


def nontrivial(scn, il):
    return scn.meta.get('noise', 0) > 0


def oracle(scn, il):
    body = il[:-1] if il and il[-1].startswith('--- ') else il
    if not body:
        return [('no-result', scn.id)]
    res = body[-1]
    exp = scn.meta['expect']
    m = re.search(r'rc=(\S+) diags=\[([^\]]*)\]', res)
    if not m:
        return [('no-result', scn.id + ': ' + res[:100])]
    rc, diags = m.group(1), [d for d in m.group(2).split(';') if d]
    if exp == 'alt':
        if rc != '1' or not diags:
            return [('silent-error:' + key_of(scn), '%s: rc=%s diags=%s for %r' % (scn.id, rc, diags, scn.meta['err']))]
        wrong = [d for d in diags if not d.split(',', 2)[2].startswith('ALT_')]
        if wrong:
            return [('wrong-error-function', '%s: after cfg_set_error_function() the diagnostic %s still went to the replaced function (%r)' % (
                scn.id, wrong[0], scn.meta['err']))]
        return []
    if exp is None:
        if rc == '0' and diags:
            return [('diagnostic-on-accept', '%s: accepted text delivered %s' % (scn.id, diags))]
        if rc != '0' and scn.meta['class'] == 'accepted/annotations':
            return [('valid-text-rejected' + ('-silently' if not diags else ''), '%s: a valid text is rejected (rc=%s, diagnostics %s): %s' % (
                scn.id, rc, diags, scn.lines[-1][:120]))]
        return []
    out = []
    if rc != '1':
        out.append(('not-rejected:' + key_of(scn), '%s: expected a parse error for %r, got rc=%s' % (scn.id, scn.meta['err'], rc)))
        return out
    if not diags:
        return [('silent-error:' + key_of(scn), '%s: parse failed without any diagnostic (%r)' % (scn.id, scn.meta['err']))]
    # (the diagnostics of a parse started from a callback arrive in the same log, before the one that ends the outer parse)
    f, line, fmt = diags[-1 if scn.meta['class'] == 'nested-in-include' else 0].split(',', 2)
    want = '%s,%d' % (hx(exp[0]), exp[1])
    if '%s,%s' % (f, line) != want:
        out.append(('position:%s:%s' % (scn.meta['class'], 'file' if f != hx(exp[0]) else 'line%+d' % (int(line) - exp[1])),
                    '%s: error %r reported at %s,%s, expected %s (%s)' % (scn.id, scn.meta['err'], f, line, want, fmt)))
    return out


def key_of(scn):
    return re.sub(r'[^a-z{}=,(]', '', scn.meta['err'].decode('latin-1'))[:12]
