"""C05 — the printed configuration parses back to the same configuration.

States reached by random accepted texts and random setter sequences, with string values and titles over all bytes
1..255 (quotes, backslashes, '$', braces, newlines, comment markers); the state is printed, the text parsed into a fresh
context of the same schema, printed again, and once more.  Oracle: the re-parse is accepted; sections, titles, list
lengths and values agree (floats to the printed precision); the second print equals the first when annotation support
is off; the third print equals the second always."""
import re
import struct
from common import Scn, hx, unhx, Opt, CFGF
import gen

VARIANT = 'plain'
RULE = ('random printable schemas x states from random texts and setter sequences with hostile strings/titles; non-trivial = '
        'the state differs from the initial one; distinct by scenario text')
F = CFGF

HOSTILE = [b'plain', b'', b'a"b', b'a\\b', b'a\\', b'\\"', b'a${HOME}b', b'${X}', b'$', b'a{b}c', b'}', b'# not a comment', b'// x', b'/* x */',
           b'*/', b"it's", b'new\nline', b'tab\there', b' lead', b'trail ', b'\x01\x7f\x80\xff', b'a=b', b'a,b', b'(x)', b'a+=b', b'\\n', b'\\x41',
           b'\\101', b'"', b"'", b'$(x)', b'%s%n', b'\r\n', b'a\\\nb', b'${UNSET:-d}', b'~/x', b'usage: ${NAME', b'${', b'a${b', b'$}{', b'x ${HOME', b'{ ${ }']


def q(s):
    return b'"' + s.replace(b'\\', b'\\\\').replace(b'"', b'\\"').replace(b'$', b'\\$') + b'"'


def rand_str(r):
    if r.chance(2, 3):
        return r.pick(HOSTILE)
    return bytes(1 + r.below(255) for _ in range(r.below(12)))


def make_schema(r):
    sub2 = [Opt('str', b'ws', 0, None), Opt('intl', b'wl', 0, b'{1}')]
    sub = [Opt('int', b'a', 0, 1), Opt('strl', b'l', 0, r.pick([None, b'{x, "y z"}'])), Opt('flt', b'f', 0, 0.25),
           Opt('sec', b'in', r.pick([0, F['MULTI'], F['MULTI'] | F['TITLE']]), None, sub2)]
    return [Opt('int', b'i', r.pick([0, F['NODEFAULT']]), 7), Opt('str', b's', 0, r.pick([None, b'', b'd"q'])),
            Opt('bool', b'b', 0, r.below(2)), Opt('flt', b'f', 0, r.pick([0.0, 1.5, -2.25, 1e10, 1e-7, 123456.789])),
            Opt('intl', b'il', 0, r.pick([None, b'{1, 2}'])), Opt('strl', b'sl', 0, r.pick([None, b'{a}'])),
            Opt('booll', b'bl', 0, None), Opt('fltl', b'fl', 0, b'{0.5}'),
            Opt('sec', b'sec', 0, None, sub), Opt('sec', b'm', F['MULTI'], None, sub),
            Opt('sec', b't', F['MULTI'] | F['TITLE'], None, sub), Opt('sec', b'kv', F['KEYSTRVAL'], None, []),
            # deprecated (not dropped) options are stored, so they are printed and read back like any other
            Opt('int', b'dep', F['DEPRECATED'], 3), Opt('strl', b'depl', F['DEPRECATED'], b'{o1}'),
            # a titled section that is not multi exists from cfg_init on, without a title
            Opt('sec', b'ts', F['TITLE'], None, [Opt('int', b'a', 0, 1), Opt('sec', b'tt', F['TITLE'], None, [Opt('str', b'ws', 0, None)])])]


def rand_state_text(r):
    items = []
    for _ in range(r.below(7)):
        c = r.below(10)
        if c == 0:
            items.append(b'i = ' + r.pick([b'0', b'-5', b'2147483648', b'-2147483649', b'4294967296', b'9223372036854775807', b'-9223372036854775808']))
        elif c == 1:
            items.append(b's = ' + q(rand_str(r)))
        elif c == 2:
            items.append(b'f = ' + r.pick([b'1.5', b'-0.000001', b'1e10', b'123456789.123456789', b'0.1', b'1e-7', b'3']))
        elif c == 3:
            items.append(b'sl = {' + b', '.join(q(rand_str(r)) for _ in range(r.below(4))) + b'}')
        elif c == 4:
            items.append(b'il ' + r.pick([b'=', b'+=']) + b' {' + b', '.join(r.pick([b'1', b'-7', b'0x10', b'99999999999']) for _ in range(r.below(4))) + b'}')
        elif c == 5:
            items.append(b'bl = {true, off, yes}')
        elif c == 6:
            items.append(b't ' + q(rand_str(r)) + b' { a = 3 l += {' + q(rand_str(r)) + b'} in ' + q(rand_str(r)) + b' { ws = ' + q(rand_str(r)) + b' } }')
        elif c == 7:
            items.append(b'm { f = 2.5 in "x" { wl = {} } }')
        elif c == 8:
            items.append(b'sec { a = 9 l = {} }')
        else:
            items.append(b'kv { ' + r.pick([b'k1', b'key-2', b'k.3']) + b' = ' + q(rand_str(r)) + b' }')
    return b'\n'.join(items) + b'\n'


def rand_setters(r):
    out = []
    for _ in range(r.below(5)):
        c = r.below(8)
        s = rand_str(r)
        if c == 0:
            out.append('setstr 0 %s %s 0' % (hx(b's'), hx(s) if b'\0' not in s else hx(b'x')))
        elif c == 1:
            out.append('addlist 0 %s str %s' % (hx(b'sl'), hx(s)))
        elif c == 2:
            out.append('setint 0 %s %d 0' % (hx(b'i'), r.pick([-1, 2 ** 40, -2 ** 63, 2 ** 63 - 1])))
        elif c == 3:
            out.append('addtsec 0 %s %s' % (hx(b't'), hx(s if s else b'e')))
        elif c == 4:
            out.append('setlist 0 %s int' % hx(b'il'))
        elif c == 5:
            out.append('setfloat 0 %s %s 0' % (hx(b'f'), struct.pack('>d', r.pick([1e300, -1e-300, 0.1, 2.0 ** 52, 1 / 3, float('inf'), float('-inf'), 1.7976931348623157e308, 5e-324])).hex()))
        elif c == 7 and r.chance(1, 2):
            out.append(r.pick(['setint 0 %s 7 0' % hx(b'dep'), 'addlist 0 %s str %s %s' % (hx(b'depl'), hx(b'o2'), hx(s)), 'parse_buf 0 ' + hx(b'dep = 9\ndepl += {x}\n')]))
        elif c == 6 and r.chance(1, 2):
            out.append('addlist 0 %s float %s' % (hx(b'fl'), struct.pack('>d', r.pick([float('inf'), float('-inf'), 2.5])).hex()))
        elif c == 6:
            out.append('parse_buf 0 ' + hx(b'ts ' + q(s) + b' { a = 4 tt ' + q(rand_str(r)) + b' { } }\n'))
        else:
            out.append('setbool 0 %s %d 0' % (hx(b'b'), r.below(2)))
    return out


def generate(rng, tier):
    r = rng.fork('C05')
    n = 0
    for _ in range(250 if tier == 'quick' else 6000):
        schema = make_schema(r)
        flags = r.pick([0, 0, F['COMMENTS']])
        lines = ['env %s %s' % (hx(b'HOME'), hx(b'/home/u')), 'env %s %s' % (hx(b'X'), hx(b'xval'))] + gen.prelude(schema, flags)
        lines += ['init 1 0 %d' % flags, 'init 2 0 %d' % flags]
        lines.append('parse_buf 0 ' + hx(rand_state_text(r)))
        lines += rand_setters(r)
        if flags and r.chance(1, 2):
            lines.append('setcomment 0 %s %s' % (hx(r.pick([b'i', b'sl', b's'])), hx(r.pick([b'note', b'a */ b', b'multi\nline', b'$x']))))
        k = len(lines)
        lines += ['dump 0', 'print 0 0', 'roundtrip 0 1', 'dump 1', 'print 1 0', 'roundtrip 1 2', 'print 2 0']
        n += 1
        yield Scn('rt%d' % n, lines, {'class': 'roundtrip/%s' % ('annot' if flags else 'plain'), 'k': k, 'flags': flags})
    yield from directed(rng, tier)


def directed(rng, tier):
    """every hostile string placed by the API (so that the state really holds it) in a scalar, a list and a title"""
    r = rng.fork('C05d')
    n = 0
    for h in HOSTILE:
        if b'\0' in h:
            continue
        schema = make_schema(r)
        lines = gen.prelude(schema, 0) + ['init 1 0 0', 'init 2 0 0']
        lines += ['setstr 0 %s %s 0' % (hx(b's'), hx(h)), 'addlist 0 %s str %s' % (hx(b'sl'), hx(h)), 'addlist 0 %s str %s' % (hx(b'sl'), hx(b'x' + h + b'y')),
                  'addtsec 0 %s %s' % (hx(b't'), hx(h if h else b'e')), 'setstr 0 %s %s 0' % (hx(b'sec|l'), hx(h))]
        k = len(lines)
        lines += ['dump 0', 'print 0 0', 'roundtrip 0 1', 'dump 1', 'print 1 0', 'roundtrip 1 2', 'print 2 0']
        n += 1
        yield Scn('hs%d' % n, lines, {'class': 'roundtrip/hostile-by-api', 'k': k, 'flags': 0})


    # lists with declared defaults that are EMPTY in the state, after non-empty lists of the same section (schema order),
    # emptied by the text or by the API
    for k2, how in enumerate((['parse_buf 0 ' + hx(b'il = {3}\nsl = {}\nbl = {true}\nfl = {}\nsec { l = {} }\n')],
                              ['setlist 0 %s str' % hx(b'sl'), 'setlist 0 %s float' % hx(b'fl')],
                              ['parse_buf 0 ' + hx(b'il = {}\nsl = {x}\nfl = {}\n')],
                              ['setlist 0 %s int' % hx(b'il'), 'setlist 0 %s str' % hx(b'sl'), 'setlist 0 %s float' % hx(b'fl'), 'setlist 0 %s str' % hx(b'sec|l')])):
        schema = make_schema(r)
        for o in schema:
            if o.name == b'il':
                o.default = b'{1, 2}'
            elif o.name == b'sl':
                o.default = b'{a}'
            elif o.name == b'sec':
                o.sub[1].default = b'{x, "y z"}'
        lines = gen.prelude(schema, 0) + ['init 1 0 0', 'init 2 0 0'] + how
        k = len(lines)
        lines += ['dump 0', 'print 0 0', 'roundtrip 0 1', 'dump 1', 'print 1 0', 'roundtrip 1 2', 'print 2 0']
        yield Scn('el%d' % k2, lines, {'class': 'roundtrip/emptied-lists', 'k': k, 'flags': 0})


def nontrivial(scn, il):
    return True


def fmt_floats(d):
    """compare floats to the printed precision: replace bit patterns by their %f rendering"""
    def one(m):
        return '(opt %s float %s%s' % (m.group(1), m.group(2), ''.join(' ' + ('%f' % struct.unpack('>d', bytes.fromhex(x))[0]) for x in m.group(3).split()))
    return re.sub(r'\(opt (\S+) float (\d+ \d \d \d \S+?)((?: [0-9a-f]{16})*)(?=\))', one, d)


def obs(d):
    d = re.sub(r'\(opt (\S+) (\S+) (\d+) \d \d \d \S+?(?=[ )])', r'(opt \1 \2 \3 0 0 0 -', d)
    return fmt_floats(d)


def oracle(scn, il):
    body = il[:-1] if il and il[-1].startswith('--- ') else il
    k = scn.meta['k']
    if len(body) < k + 7:
        return [('no-result', '%s: %s' % (scn.id, il[-1] if il else ''))]
    d0, p0, rt1, d1, p1, rt2, p2 = body[k:k + 7]
    out = []
    t0 = p0.split('text=')[1].split(' ')[0]
    if 'rc=0 ' not in rt1:
        out.append(('reparse-rejected:' + culprit(t0, rt1), '%s: printed text rejected by the parser: %s\n%s' % (scn.id, rt1[:200], show(t0))))
        return out
    # a NULL string and an empty string print alike; the abstract value after re-read is the empty string
    a, b = obs(d0)[5:], obs(d1)[5:]
    a = re.sub(r'(\(opt \S+ str 1 0 0 0 -) -\)', r'\1 .)', a)
    b = re.sub(r'(\(opt \S+ str 1 0 0 0 -) -\)', r'\1 .)', b)
    if a != b:
        i = next((i for i, (x, y) in enumerate(zip(a, b)) if x != y), min(len(a), len(b)))
        out.append(('values-differ:' + culprit(t0, ''), '%s: re-parsed tree differs near\n  %s\n  %s\nprinted text:\n%s' % (
            scn.id, a[max(0, i - 150):i + 80], b[max(0, i - 150):i + 80], show(t0))))
    t1 = p1.split('text=')[1].split(' ')[0]
    t2 = p2.split('text=')[1].split(' ')[0]
    if not scn.meta['flags'] and t1 != t0 and not out:
        out.append(('print-not-reproduced', '%s: second print differs from the first:\n%s\n---\n%s' % (scn.id, show(t0), show(t1))))
    if 'rc=0 ' not in rt2 or t2 != t1:
        out.append(('not-idempotent', '%s: a further parse-and-print cycle changes the text (%s):\n%s\n---\n%s' % (scn.id, rt2[:100], show(t1), show(t2))))
    return out


def show(hextext):
    try:
        return (unhx(hextext) or b'').decode('latin-1')[:1500]
    except ValueError:
        return hextext[:200]


def culprit(t0, rt):
    """cause key: which printed construct breaks the round trip"""
    try:
        t = unhx(t0) or b''
    except ValueError:
        return 'other'
    if re.search(rb'^\s*/\* .*\*/.* \*/$', t, re.M):
        return 'annotation'
    if re.search(rb'^\s*\w+ "[^\n]*["\\$][^\n]*" \{', t, re.M) or b'(null)' in t:
        return 'title'
    if b'$' in t:
        return 'dollar'
    if b'*/' in t:
        return 'annotation'
    return 'other'
