"""C01 — the parsed configuration equals the reference meaning of the text.

Random schemas (kinds x flags x nesting) and context flags, grammar-derived texts mutated at token level, sequences of
texts into one context, and exhaustive token sequences over a small alphabet on fixed schemas.  For every text the model
driver evaluates the reference meaning (coq/Grammar.v, `spec_parse`) in the current state; oracle: the library accepts
exactly when the meaning is defined and its tree (values, titles, shape) equals the meaning."""
import re
from common import Scn, hx, Opt, CFGF, schema_sexpr
import gen

VARIANT = 'plain'
ORACLE_NEEDS_MODEL = True
RULE = ('random schemas x context flags x (grammar-derived | token-mutated) texts, 1-3 texts per context; exhaustive token '
        'sequences up to a length bound over a 15-symbol alphabet on 2 fixed schemas; non-trivial = the text has at least 2 '
        'tokens; distinct by scenario text')
F = CFGF


def add_deprecated(rng, schema):
    for o in schema:
        if o.kind != 'sec' and o.kind != 'func' and rng.chance(1, 8):
            o.flags |= F['DEPRECATED'] | (F['DROP'] if rng.chance(1, 2) else 0)
        if o.kind == 'sec':
            add_deprecated(rng, o.sub)


FIXED = [
    ([Opt('int', b'i', 0, 7), Opt('intl', b'l', 0, b'{1,2}'), Opt('str', b's', 0, b'd'),
      Opt('sec', b'sec', 0, None, [Opt('int', b'i', 0, 1), Opt('strl', b'l', 0, None)]),
      Opt('sec', b't', F['MULTI'] | F['TITLE'], None, [Opt('int', b'i', 0, 1)])], 0),
    ([Opt('bool', b'i', F['NODEFAULT']), Opt('strl', b'l', 0, b'{a}'), Opt('str', b's', F['DEPRECATED'] | F['DROP'], b'd'),
      Opt('sec', b'sec', F['MULTI'], None, [Opt('int', b'i', 0, 1), Opt('intl', b'l', 0, b'{5}')]),
      Opt('sec', b't', F['MULTI'] | F['TITLE'] | F['NO_TITLE_DUPES'], None, [Opt('int', b'i', 0, 1)])], F['IGNORE_UNKNOWN']),
]
ALPHA = [b'i', b'l', b's', b'sec', b't', b'unk', b'=', b'+=', b'{', b'}', b',', b'1', b'w', b'"a b"', b'(']


def seqs(k):
    if k == 0:
        yield []
        return
    for s in seqs(k - 1):
        for a in ALPHA:
            yield s + [a]


def one_text(lines, checks, cid, text):
    checks.append((len(lines), len(lines) + 1, len(lines) + 2))
    lines.append('spec_parse %d %s' % (cid, hx(text)))
    lines.append('parse_buf %d %s' % (cid, hx(text)))
    lines.append('dump %d' % cid)


def generate(rng, tier):
    r = rng.fork('C01')
    n = 0
    # 1. exhaustive token sequences
    maxlen = 3 if tier == 'quick' else 4
    for si, (schema, flags) in enumerate(FIXED):
        batch = []
        for k in range(1, maxlen + 1):
            for s in seqs(k):
                batch.append(b' '.join(s) + b'\n')
                if len(batch) == 80:
                    n += 1
                    yield exh_scn('exh%d' % n, schema, flags, batch)
                    batch = []
        if batch:
            n += 1
            yield exh_scn('exh%d' % n, schema, flags, batch)
    for w in WORDS:
        n += 1
        yield word_scn('word%d' % n, w)
    # directed: titles and names that differ in case only, under CFGF_NOCASE of the context / without it, with and
    # without unique titles (a repeated title replaces that section in place)
    tsub = [Opt('int', b'a', 0, 1), Opt('intl', b'l', 0, b'{5}')]
    for secflags in (F['MULTI'] | F['TITLE'], F['MULTI'] | F['TITLE'] | F['NO_TITLE_DUPES']):
        dsch = [Opt('int', b'i', 0, 7), Opt('sec', b't', secflags, None, tsub), Opt('sec', b'One', 0, None, tsub)]
        for flags in (0, F['NOCASE']):
            n += 1
            yield exh_scn('case%d' % n, dsch, flags, [b't abc { a = 1 }\nt ABC { a = 2 }\nt Abc { l += {6} }\n', b't x { a = 1 }\nT x { a = 2 }\nI = 3\n',
                                                     b'one { a = 4 }\nONE { A = 5 L += {7} }\n', b't "" { }\nt "" { a = 9 }\n', b't q { a = 1 }\nt Q { }\nt q { a = 3 }\n'])
    # 2. random schemas and texts
    nrand = 250 if tier == 'quick' else 5000
    for _ in range(nrand):
        schema = gen.rand_schema(r, depth=2 + r.below(2))
        add_deprecated(r, schema)
        flags = r.pick([0, 0, F['NOCASE'], F['IGNORE_UNKNOWN'], F['NOCASE'] | F['IGNORE_UNKNOWN']])
        lines = gen.prelude(schema, flags) + ['dump 0']
        checks = []
        for _ in range(1 + r.below(3)):
            text = gen.rand_text(r, schema, nocase=bool(flags & F['NOCASE']), bad_rate=r.pick([0, 0, 10]), comments=False)
            if flags & F['IGNORE_UNKNOWN'] and r.chance(1, 2):
                text = r.pick([b'zz = 1\n', b'zz { a = 1 q { } }\n', b'zz t { }\n', b'zz += {1, 2}\n', b'zz(a, b)\n']) + text
            if r.chance(1, 3):
                text = gen.mutate_tokens(r, text)
            one_text(lines, checks, 0, text)
        n += 1
        meta = {'class': 'random/flags=%d' % flags, 'checks': checks}
        if n % 3 == 0:
            # "read back through the getters": every declared option by name, by index, beyond the end, as a wrong kind
            lines.append('dump 0')
            meta['getdump'] = len(lines) - 1
            meta['getschema'] = schema
            lines += gen.getter_sweep(schema, maxidx=2)
        yield Scn('rand%d' % n, lines, meta)


WORDS = [b'word', b'a/b', b'http://host/x', b'a//b', b'dir//', b'/usr/local/', b'nfs://box/vol//', b'x.y-z', b'1e-5', b'a_b', b'~/x', b'%s', b'[x]', b'a|b',
         b'a:b', b'a;b', b'x-y', b'-5x']


def word_scn(sid, w):
    """an unquoted word denotes itself (checked against the literal, not against the model's scanner): as a value, a
    list element, a section title and a free-form value"""
    sch = [Opt('str', b's', 0, None), Opt('strl', b'sl', 0, None), Opt('sec', b't', F['MULTI'] | F['TITLE'], None, [Opt('str', b'v', 0, None)]),
           Opt('sec', b'kv', F['KEYSTRVAL'], None, [])]
    lines = gen.prelude(sch, 0) + ['parse_buf 0 ' + hx(b's = ' + w + b'\nsl = {' + w + b', x, ' + w + b'}\nt ' + w + b' { v = ' + w + b' }\nkv { k = ' + w + b' }\n')]
    k = len(lines)
    lines += ['getv0 0 str ' + hx(b's'), 'getv 0 str %s 0' % hx(b'sl'), 'getv 0 str %s 2' % hx(b'sl'), 'title 0 ' + hx(b't'), 'getv0 0 str ' + hx(b't|v'),
              'getv0 0 str ' + hx(b'kv|k')]
    return Scn(sid, lines, {'class': 'words', 'checks': [], 'word': w, 'k': k})


def exh_scn(sid, schema, flags, texts):
    lines = ['schema 0 ' + schema_sexpr(schema)]
    checks = []
    for t in texts:
        lines.append('init 0 0 %d' % flags)
        one_text(lines, checks, 0, t)
        lines.append('free 0')
    return Scn(sid, lines, {'class': 'exhaustive/flags=%d' % flags, 'checks': checks, 'texts': texts, 'schema': (schema, flags)})


def reduce(scn):
    if 'texts' in scn.meta and len(scn.meta['texts']) > 1:
        schema, flags = scn.meta['schema']
        for i, t in enumerate(scn.meta['texts']):
            yield exh_scn('%s.%d' % (scn.id, i), schema, flags, [t])


def nontrivial(scn, il):
    return True


def obs(dumpline):
    """forget RESET/MODIFIED/DEFINIT bits and annotations"""
    return re.sub(r'\(opt (\S+) (\S+) (\d+) \d \d \d \S+', r'(opt \1 \2 \3 0 0 0 -', dumpline)


def oracle(scn, il, ml):
    out = []
    ib = il[:-1] if il and il[-1].startswith('--- ') else il
    mb = ml[:-1] if ml and ml[-1].startswith('--- ') else ml
    for si, pi, di in scn.meta['checks']:
        if di >= len(ib) or si >= len(mb):
            out.append(('no-result', scn.id + ': incomplete results'))
            break
        spec = mb[si]
        res = ib[pi]
        m = re.match(r'parse_buf rc=(\S+)', res)
        if not m or not spec.startswith('spec_parse rc='):
            out.append(('no-result', scn.id + ': ' + res[:80] + ' / ' + spec[:80]))
            continue
        accepted = m.group(1) == '0'
        text = scn.lines[pi].split()[-1]
        if spec.startswith('spec_parse rc=reject'):
            if accepted:
                out.append(('accepts:' + shape(text), '%s: text %s accepted, but it has no meaning in the language' % (scn.id, show(text))))
        else:
            want = spec.split('obs=', 1)[1]
            if not accepted:
                out.append(('rejects:' + shape(text), '%s: text %s rejected (%s), its meaning is defined' % (scn.id, show(text), res[:160])))
            elif obs(ib[di])[5:] != obs('dump ' + want)[5:]:
                out.append(('values:' + shape(text), '%s: after %s the tree is\n  %s\nthe meaning is\n  %s' % (
                    scn.id, show(text), obs(ib[di])[5:][:1500], want[:1500])))
    if scn.meta.get('class') == 'words':
        k, w = scn.meta['k'], scn.meta['word']
        if k + 6 > len(ib) or 'rc=0 ' not in ib[k - 1]:
            return [('word-rejected', '%s: text with the unquoted word %r: %s' % (scn.id, w, ib[k - 1][:160] if k - 1 < len(ib) else '-'))]
        for j in range(6):
            want = ('t=' if j == 3 else 'v=') + hx(w) + ' '
            if want not in ib[k + j] + ' ':
                return [('word-value', '%s: the unquoted word %r read back through `%s` is %s' % (scn.id, w, scn.lines[k + j][:40], ib[k + j][:80]))]
        return []
    gd = scn.meta.get('getdump')
    if not out and gd is not None and gd < len(ib) and ib[gd].startswith('dump ('):
        out += gen.check_getters(scn, ib, gen.dump_tree(ib[gd]), scn.meta['getschema'])
    return out


def show(hextext):
    from common import unhx
    try:
        return repr(unhx(hextext))
    except ValueError:
        return hextext


def shape(hextext):
    from common import unhx
    try:
        t = unhx(hextext) or b''
    except ValueError:
        return 'other'
    toks = re.findall(rb'"[^"]*"|\+=|[{}()=,]|[^\s{}()=,]+', t)[:6]
    return ''.join(x.decode('latin-1') if x in (b'+=', b'=', b'{', b'}', b'(', b')', b',') else 'w' for x in toks)
