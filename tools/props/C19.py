"""C19 — print emits each unfiltered option once, in order, at its depth.

States from parsed texts and setters on a 4-level schema; print filters installed on every subset of levels, print
callbacks on subsets of options; cfg_print at several indents.  Oracle: a reference printer (filtered flat map
with filter inheritance) applied to the library's own tree dump."""
import struct
from common import Scn, hx, unhx, Opt, CFGF
import gen

VARIANT = 'plain'
RULE = ('fixed 4-level schema x texts x filter placements (all subsets of 7 section positions up to a bound, random beyond) x '
        'print-callback subsets; non-trivial = at least one filter or callback installed; distinct by scenario text')
F = CFGF

U = [Opt('flt', b'z', 0, 0.5), Opt('str', b'w', 0, None)]
T = [Opt('int', b'p', 0, 1), Opt('bool', b'q', 0, 0), Opt('sec', b'u', 0, None, U), Opt('strl', b'y', 0, b'{a, "b c"}')]
S = [Opt('int', b'x', 0, 5), Opt('strl', b'y', 0, None), Opt('sec', b't', F['MULTI'] | F['TITLE'], None, T), Opt('str', b'b', 0, b'in-s')]
M = [Opt('int', b'k', 0, 0), Opt('fltl', b'x', 0, b'{1.5}'), Opt('ptr', b'pp', 0, cbs=('parse:0',))]
ROOT = [Opt('int', b'a', 0, 1), Opt('str', b'b', 0, b'dq"bs\\'), Opt('intl', b'l', 0, b'{1,2}'), Opt('sec', b's', 0, None, S),
        Opt('sec', b'm', F['MULTI'], None, M), Opt('bool', b'q', F['NODEFAULT']), Opt('str', b'n', 0, None),
        Opt('func', b'fn', func='user:0'), Opt('flt', b'x', F['NODEFAULT']),
        # user-defined pointer values have no built-in text: `name=` (a print callback supplies the text), `# name=` when unset
        Opt('ptr', b'pp', 0, cbs=('parse:0',)), Opt('ptr', b'pu', 0, cbs=('parse:0',)), Opt('ptrl', b'ppl', 0, None, cbs=('parse:0',))]
ALLNAMES = [b'a', b'b', b'l', b's', b'm', b'q', b'n', b'x', b'y', b't', b'p', b'u', b'z', b'w', b'k', b'fn', b'pp', b'ppl']

TEXTS = [
    b's { x = 7 t one { p = 2 u { z = 2.5 } } t two { q = true y += {c} } }\nm { k = 1 pp = v1 } m { k = 2 x = {} }\npp = v2\nppl = {v3, v4}\n',
    b'l = {}\ns { t "o ne" { } }\nq = yes\n',
    b'',
]
POSITIONS = [None, b's', b's|t=one', b's|t=two', b's|t=one|u', b'm=0', b'm=1']


def find_schema(schema, name):
    for o in schema:
        if o.name == name:
            return o
    return None


def quoted(s):
    return b'"' + s.replace(b'\\', b'\\\\').replace(b'"', b'\\"').replace(b'$', b'\\$') + b'"'


def pr_value(o, so, i, pf):
    if pf:
        return b'<' + o.name + b'#%d>' % i
    v = o.vals[i] if i < len(o.vals) else None
    k = o.kind
    if k == 'int':
        return b'%d' % (v if v is not None else 0)
    if k == 'float':
        f = struct.unpack('>d', bytes.fromhex(v))[0] if v is not None else 0.0
        return ('%f' % f).encode()
    if k == 'bool':
        return b'true' if v == '1' else b'false'
    if k == 'str':
        s = v or b''
        return quoted(s)
    return b''


def pr_opt(o, so, eff, ind, pos, st):
    out = b''
    pad = b'  ' * ind
    pf = pos in st['pf']
    if o.comment is not None:
        out += pad + b'/* ' + o.comment + b' */\n'
    if o.kind == 'sec':
        for v, s in enumerate(o.vals):
            if so is not None and so.flags & F['TITLE']:
                out += pad + o.name + b' ' + quoted(s.title or b'') + b' {\n'
            else:
                out += pad + o.name + b' {\n'
            out += pr_cfg(s, so.sub if so else [], eff, ind + 1, pos + (v,), st)
            out += pad + b'}\n'
    elif o.kind in ('func', 'none'):
        if pf:
            out += pad + pr_value(o, so, 0, True) + b'\n'
    elif so is not None and so.is_list():
        out += pad + o.name + b' = {' + b', '.join(pr_value(o, so, i, pf) for i in range(o.size)) + b'}\n'
    else:
        unset = o.size == 0 or (o.kind == 'str' and o.vals[0] is None)
        out += pad + (b'# ' if unset else b'') + o.name + b'=' + pr_value(o, so, 0, pf) + b'\n'
    return out


def pr_cfg(c, schema, fb, ind, pos, st):
    eff = st['filters'].get(pos, fb)
    out = b''
    for i, o in enumerate(c.opts):
        if eff is not None and o.name in eff:
            continue
        out += pr_opt(o, find_schema(schema, o.name), eff, ind, pos + (i,), st)
    return out


def generate(rng, tier):
    r = rng.fork('C19')
    n = 0
    nrand = 150 if tier == 'quick' else 3000
    combos = []
    # every single position, every pair, then random subsets
    for i in range(len(POSITIONS)):
        combos.append([i])
    for i in range(len(POSITIONS)):
        for j in range(i + 1, len(POSITIONS)):
            combos.append([i, j])
    for _ in range(nrand):
        combos.append([i for i in range(len(POSITIONS)) if r.chance(1, 3)])
    for sel in combos:
        n += 1
        ti = r.below(len(TEXTS)) if n > 8 else 0
        lines = gen.prelude(ROOT, 0)
        lines.append('parse_buf 0 ' + hx(TEXTS[ti]))
        if r.chance(1, 3):
            lines.append('setcomment 0 %s %s' % (hx(r.pick([b'a', b's|x', b'l', b's'])), hx(b'note ' + bytes([65 + r.below(26)]))))
        if r.chance(1, 3):
            lines.append('setstr 0 %s - 0' % hx(b'b'))
        filt = []
        for i in sel:
            names = [x for x in ALLNAMES if r.chance(1, 4)]
            filt.append((POSITIONS[i], names, len(lines)))
            lines.append('filter 0 %s%s' % (hx(POSITIONS[i]), ''.join(' ' + hx(x) for x in names)))
        if filt and n % 2 == 0:
            # sections created while a filter is installed, then the filters are replaced: inheritance is decided
            # when printing, not when a section is created
            lines.append('parse_buf 0 ' + hx(b'm { k = 3 }\ns { t late { p = 9 u { z = 1.5 } } }\n'))
            for path, names, _ in list(filt):
                if r.chance(3, 4):
                    names2 = [x for x in ALLNAMES if r.chance(1, 4)] + [r.pick([b'k', b'p', b'z', b'q'])]
                    filt.append((path, names2, len(lines)))     # the later command on a position replaces the earlier
                    lines.append('filter 0 %s%s' % (hx(path), ''.join(' ' + hx(x) for x in names2)))
        if filt and n % 3 == 0:
            # a filter taken off again (NULL): the section prints under what it inherits, the root prints everything
            for path, _, _ in list(filt):
                if r.chance(1, 2):
                    filt.append((path, None, len(lines)))
                    lines.append('unfilter 0 %s' % hx(path))
        pfs = [p for p in (b'a', b'l', b's|x', b's|y', b'fn', b'm=0|x', b'q', b'n', b'pp', b'pu', b'ppl', b'm=0|pp') if r.chance(1, 5)]
        for p in pfs:
            lines.append('printfunc 0 %s 0' % hx(p))
        di = len(lines)
        lines.append('dump 0')
        checks = []
        for ind in (0, 2):
            checks.append((len(lines), ind))
            lines.append('print 0 %d' % ind)
        yield Scn('pr%d' % n, lines, {'class': 'filters-%d/cb-%d' % (len(sel), len(pfs)), 'filt': filt, 'pfs': pfs,
                                     'dump': di, 'checks': checks})


def nontrivial(scn, il):
    return bool(scn.meta.get('filt') or scn.meta.get('pfs'))


def locate(tree, path):
    """position tuple of the section (or option) a '|' path addresses in the dumped tree; None if it does not resolve"""
    pos = ()
    c = tree
    if path is None:
        return pos, c
    steps = path.split(b'|')
    for k, st in enumerate(steps):
        name, _, q = st.partition(b'=')
        idx = next((i for i, o in enumerate(c.opts) if o.name == name), None)
        if idx is None:
            return None, None
        o = c.opts[idx]
        if o.kind != 'sec':
            return (pos + (idx,), o) if k == len(steps) - 1 else (None, None)
        if q == b'':
            v = 0
        elif q.isdigit():
            v = int(q)
        else:
            v = next((j for j, s in enumerate(o.vals) if s.title == q), None)
        if v is None or v >= len(o.vals):
            return None, None
        pos = pos + (idx, v)
        c = o.vals[v]
    return pos, c


def oracle(scn, il):
    out = []
    body = il[:-1] if il and il[-1].startswith('--- ') else il
    m = scn.meta
    if m['dump'] >= len(body) or not body[m['dump']].startswith('dump ('):
        return [('no-result', scn.id + ': no dump')]
    tree = gen.dump_tree(body[m['dump']])
    st = dict(filters={}, pf=set())
    for path, names, li in m['filt']:
        # a filter command on a section that did not exist when it was given installed nothing (rc=nosec)
        if li < len(body) and 'rc=ok' not in body[li]:
            continue
        pos, _ = locate(tree, path)
        if pos is not None and names is None:
            st['filters'].pop(pos, None)
        elif pos is not None:
            st['filters'][pos] = set(names)
    for p in m['pfs']:
        # option position: section steps + option index
        secpath, _, leaf = p.rpartition(b'|')
        pos, c = locate(tree, secpath if secpath else None)
        if pos is not None:
            i = next((i for i, o in enumerate(c.opts) if o.name == leaf), None)
            if i is not None:
                st['pf'].add(pos + (i,))
    for li, ind in m['checks']:
        if li >= len(body):
            out.append(('no-result', scn.id + ': no print result'))
            break
        want = pr_cfg(tree, ROOT, None, ind, (), st)
        got = body[li]
        if not got.startswith('print rc=0 text=%s ' % hx(want)):
            gt = got.split('text=')[1].split(' ')[0] if 'text=' in got else '?'
            try:
                g = unhx(gt) or b''
            except ValueError:
                g = b'?'
            out.append((diffkey(want, g), '%s indent %d: expected\n%s\ngot\n%s' % (scn.id, ind, want.decode('latin-1'), g.decode('latin-1'))))
    return out


def diffkey(want, got):
    w, g = want.split(b'\n'), got.split(b'\n')
    for a, b in zip(w, g):
        if a != b:
            if a.strip() == b.strip():
                return 'print:indent'
            return 'print:line:' + (a.strip().split(b'=')[0].split(b' ')[0].decode('latin-1') or '?')[:10]
    return 'print:missing-lines' if len(g) < len(w) else 'print:extra-lines'
