"""C02 — no input text can corrupt memory, hang or kill the host process.

Hostile inputs (random bytes, byte-mutated grammar texts, every lexical construct cut at every length, deep nesting,
huge tokens, directories and self-including files) are parsed from a buffer, a stream and a file under
AddressSanitizer/UBSan/LeakSanitizer; then the same context is dumped, printed, parsed into again and freed."""
import re
from common import Scn, hx, Opt, CFGF
import gen

VARIANT = 'asan'
RULE = ('hostile texts x 4 schemas/flag sets x {parse_buf, parse_file, parse_fp}; non-trivial = the text is not accepted '
        'as it stands or exceeds 1 KB; distinct by scenario text')
F = CFGF

SUB = [Opt('int', b'a', 0, 1), Opt('strl', b'l', 0, b'{x}'), Opt('sec', b'in', F['MULTI'] | F['TITLE'], None, [Opt('str', b's', 0, None)])]
BASE = [Opt('int', b'i', 0, 7), Opt('str', b's', 0, b'dflt'), Opt('bool', b'b', 0, 0), Opt('flt', b'f', 0, 0.5),
        Opt('intl', b'il', 0, b'{1,2}'), Opt('strl', b'sl', 0, None), Opt('sec', b'sec', 0, None, SUB),
        Opt('sec', b'm', F['MULTI'], None, SUB), Opt('sec', b't', F['MULTI'] | F['TITLE'], None, SUB),
        Opt('sec', b'kv', F['KEYSTRVAL'], None, []), Opt('func', b'include', func='include'), Opt('func', b'fn', func='user:1')]
CONFIGS = [(BASE, 0), (BASE, F['IGNORE_UNKNOWN']), (BASE, F['COMMENTS']), (BASE, F['IGNORE_UNKNOWN'] | F['COMMENTS'] | F['NOCASE'])]

VALID = b'i = 1\nsec { a = 2 }\n'
CONSTRUCTS = [b'"abc"', b"'abc'", b'/* abc */', b'# abc\n', b'// abc\n', b'${HOME}', b'"${HOME:-x}"', b'"\\x41\\101\\n"', b'+=', b'\\',
              b'"a\\\nb"', b"'a\\\nb'", b'sec {', b't "x" {', b'fn(', b'fn(a,', b'il = {', b'il = {1,', b'kv { k = ', b'include(',
              b'i =', b'i', b'}', b'{', b')', b'=', b',', b'"\\', b"'\\", b'/*', b'/', b'$', b'${', b'"${', b'*/']


def hostile_texts(rng, tier):
    out = []
    # every construct cut at every length, alone and after a valid prefix
    for c in CONSTRUCTS:
        for k in range(len(c) + 1):
            out.append(('cut', c[:k]))
            out.append(('cut', b'i = 3\n' + c[:k]))
    # random bytes
    r = rng.fork('bytes')
    for n in ([1, 2, 3, 8, 31, 32, 33, 64, 200] * (2 if tier == 'quick' else 20)):
        out.append(('random', bytes(r.below(256) for _ in range(n))))
        out.append(('random-ascii', bytes(r.pick(b' \n\t"\'\\{}()=+,#/*$abc019xX.-') for _ in range(n))))
    # byte-level mutations of grammar texts
    for _ in range(60 if tier == 'quick' else 1500):
        t = bytearray(gen.rand_text(r, BASE, comments=True))
        for _ in range(1 + r.below(4)):
            if not t:
                break
            i = r.below(len(t))
            c = r.below(4)
            if c == 0:
                del t[i]
            elif c == 1:
                t[i] = r.below(256)
            elif c == 2:
                t.insert(i, r.pick(b'"\'\\{}()=,#/*$\n\0'))
            else:
                t[i:i] = t[i:i + 1 + r.below(5)]
        out.append(('mutated', bytes(t)))
    # a comment directly before every item form, followed by every kind of continuation (annotation hand-over paths)
    items = [b'i = 1', b'il = 5', b'il += 6', b'il = {1, 2}', b'il = {1, 2,}', b'il = {}', b'sl = "x"', b'sl += y', b'sec { a = 1 }', b'sec { l = z }',
             b'sec { l += z }', b't "x" { l = q }', b'fn(a)', b'kv { k = v }', b'm { in "y" { s = w } }', b'b = on', b's = "v"',
             # undeclared items (skipped under CFGF_IGNORE_UNKNOWN, rejected otherwise)
             b'unk = 1', b'unk = {1, 2}', b'unk { a = 1 }', b'unk t { }', b'unk(a, b)', b'unk += 3', b'sec { unk = 1 }']
    for it in items:
        for cm in (b'/* c */ ', b'# c\n', b'// c\n'):
            for tail in (b'', b'\n/* d */ i = 2\n', b'\n}', b'\nbogus', b'\n# e\n', b' /* f */'):
                out.append(('annotated', cm + it + tail))
                if it.startswith(b'sec {') or it.startswith(b't '):
                    out.append(('annotated', it.replace(b'{ ', b'{ ' + cm, 1) + tail))
    # pathological shapes
    big = 20000 if tier == 'quick' else 50000
    out += [('deep-known', b'sec { in x { ' * 3 + b'}' * 5),
            ('deep-unknown', b'u { ' * big), ('deep-unknown-closed', b'u { ' * (big // 10) + b'} ' * (big // 10)),
            ('deep-braces', b'{' * big), ('deep-list', b'il = {' + b'1,' * (big // 8) + b'}'),
            ('huge-word', b's = ' + b'w' * big), ('huge-string', b's = "' + b'q' * big + b'"'),
            ('huge-string-open', b's = "' + b'q' * big), ('huge-comment', b'/*' + b'c' * big + b'*/ i = 2'),
            ('huge-comment-open', b'/*' + b'c\n' * (big // 4)), ('huge-line-comment', b'#' * big), ('many-lines', b'\n' * big + b'bogus'),
            ('huge-escape', b's = "\\' + b'7' * big + b'"'), ('huge-env', b's = ${' + b'N' * big + b'}'),
            ('long-title', b't "' + b't' * big + b'" { a = 1 }'), ('many-sections', b'm { a = 1 }\n' * (big // 20)),
            ('kv-many-keys', b'kv { ' + b' '.join(b'k%d = v%d' % (i, i) for i in range(40)) + b' }'),
            ('kv-reopened', b'kv { a = 1 }\nkv { b = 2 c = "x y" }\nkv { a = 4 d = 5 }\n'), ('kv-few-keys', b'kv { a = 1 b = 2 c = 3 }'),
            ('nul-bytes', b'i = 1\0 garbage " \' /*'), ('only-nul', b'\0'), ('crlf', b'i = 1\r\ns = "a"\r\n'),
            ('bom', b'\xef\xbb\xbfi = 1\n'), ('fn-many-args', b'fn(' + b'a,' * (big // 10) + b'b)')]
    return out


def scenario(sid, cfgno, kind, text, how):
    schema, flags = CONFIGS[cfgno]
    lines = ['env %s %s' % (hx(b'HOME'), hx(b'/home/x'))] + gen.prelude(schema, flags)
    first = len(lines)
    if how == 'buf':
        lines.append('parse_buf 0 ' + hx(text))
    else:
        lines.append('file %s file %s' % (hx(b'in.conf'), hx(text)))
        lines.append('%s 0 %s' % ('parse_file' if how == 'file' else 'parse_fp', hx(b'in.conf')))
    after = len(lines)
    lines += ['dump 0', 'print 0 0', 'parse_buf 0 ' + hx(VALID), 'getopt 0 ' + hx(b'sec|a'), 'dump 0', 'free 0']
    return Scn(sid, lines, {'class': kind + '/' + how, 'first': first, 'big': len(text) > 1024, 'text': text, 'after': after})


def generate(rng, tier):
    n = 0
    texts = hostile_texts(rng, tier)
    for k, (kind, text) in enumerate(texts):
        for cfgno in ([2 + k % 2] if kind == 'annotated' and tier == 'quick' else
                      [k % 4] if kind in ('cut', 'mutated', 'random', 'random-ascii') and tier == 'quick' else range(4)):
            how = ('buf', 'file', 'fp')[(k + cfgno) % 3] if b'\0' not in text else ('file', 'fp')[k % 2]
            n += 1
            yield scenario('h%d-%s' % (n, kind), cfgno, kind, text, how)
    # files that are not files, and includes that go wrong
    specials = [
        ('dir-as-file', ['file %s dir' % hx(b'd'), 'parse_file 0 ' + hx(b'd'), 'parse_fp 0 ' + hx(b'd')]),
        ('missing-file', ['parse_file 0 ' + hx(b'nope.conf'), 'parse_fp 0 ' + hx(b'nope.conf')]),
        ('include-dir', ['file %s dir' % hx(b'd'), 'parse_buf 0 ' + hx(b'include("d")\ni = 5\n')]),
        ('include-missing', ['parse_buf 0 ' + hx(b'include("nope")\n')]),
        ('include-self', ['file %s file %s' % (hx(b'self.conf'), hx(b'i = 1\ninclude("self.conf")\n')), 'parse_file 0 ' + hx(b'self.conf')]),
        ('include-twice-self', ['file %s file %s' % (hx(b's2.conf'), hx(b'include("s2.conf")\ninclude("s2.conf")\n')), 'parse_file 0 ' + hx(b's2.conf')]),
        ('include-bad-args', ['parse_buf 0 ' + hx(b'include()\n'), 'parse_buf 0 ' + hx(b'include(a, b)\n')]),
        ('include-unterminated', ['file %s file %s' % (hx(b'u.conf'), hx(b's = "abc')), 'parse_buf 0 ' + hx(b'include("u.conf")\ni = 2\n')]),
        ('include-in-section', ['file %s file %s' % (hx(b'x.conf'), hx(b'a = 9\n')), 'parse_buf 0 ' + hx(b'sec { include("x.conf") }\n')]),
        ('readerr-between', ['parse_fpfail 0 ' + hx(b'i = 4\n')]),
        ('readerr-in-string', ['parse_fpfail 0 ' + hx(b's = "abc')]),
        ('readerr-in-sq', ['parse_fpfail 0 ' + hx(b"s = 'abc")]),
        ('readerr-in-comment', ['parse_fpfail 0 ' + hx(b'i = 2 /* abc')]),
        ('readerr-in-list', ['parse_fpfail 0 ' + hx(b'il = {1,')]),
        ('readerr-empty', ['parse_fpfail 0 .']),
        ('tilde-unknown-user', ['passwd %s %s' % (hx(b'me'), hx(b'@R')), 'passwd_self ' + hx(b'me'), 'parse_buf 0 ' + hx(b'include("~nouser/x.conf")\ni = 2\n'),
                                'parse_file 0 ' + hx(b'~nouser/y.conf'), 'parse_file 0 ' + hx(b'~nouser'), 'parse_buf 0 ' + hx(b'include("~")\n'),
                                'parse_buf 0 ' + hx(b'include("~/none.conf")\n')]),
        ('tilde-no-passwd', ['parse_buf 0 ' + hx(b'include("~nouser/x.conf")\n'), 'parse_file 0 ' + hx(b'~/y.conf'), 'tilde ' + hx(b'~zz')]),
        # the built-in diagnostic printer (no error function installed) echoes input text: it is data, never a format
        ('default-printer!', ['errfunc 0 2', 'parse_buf 0 ' + hx(b'a%s%s%s%s%s%s%n = 1\n'), 'parse_buf 0 ' + hx(b'i = %n%n%s%s%s\n'),
                              'parse_buf 0 ' + hx(b'include("%s%s%s%n%s%s/x.conf")\n'), 'parse_buf 0 ' + hx(b'sec { %s%s%s%s%s%s%s%s }\n'),
                              'parse_buf 0 ' + hx(b'i = 1 %d%c%ls%s%s%s%s%s\n'), 'errfunc 0 0']),
        # a titled section replaced by a second one of the same title, in a context with a search path, then the path is used
        ('replace-titled-searchpath', ['file %s file %s' % (hx(b'sp/inc.conf'), hx(b'i = 3\n')), 'searchpath 0 ' + hx(b'sp'),
                                       'parse_buf 0 ' + hx(b't x { a = 1 }\nt x { a = 2 in q { } }\ninclude("inc.conf")\nt x { }\n'),
                                       'parse_buf 0 ' + hx(b'include("inc.conf")\nt y { }\nt y { include("inc.conf") }\n'), 'lookup 0 ' + hx(b'inc.conf')]),
        # a call with more arguments than any stack frame could hold (the argument vector lives on the heap)
        ('fn-many-args-small-stack!', ['needplain', 'stacklimit 1024', 'parse_buf 0 ' + hx(b'fn(' + b'a,' * 200000 + b'b)\n'), 'parse_buf 0 ' + hx(b'sec { in x { s = y } }\n')]),
        ('null-buffer', ['parse_buf 0 -']),
        ('empty-buffer', ['parse_buf 0 .']),
    ]
    for name, cmds in specials:
        for cfgno in range(4):
            schema, flags = CONFIGS[cfgno]
            n += 1
            lines = gen.prelude(schema, flags)
            first = len(lines)
            lines += cmds
            after = len(lines)
            lines += ['dump 0', 'print 0 0', 'parse_buf 0 ' + hx(VALID), 'dump 0', 'free 0']
            meta = {'class': 'special/' + name.rstrip('!'), 'first': first, 'big': False, 'text': b'', 'after': after}
            if name.endswith('!'):
                meta['impl_only'] = True        # the model has no built-in printer
            yield Scn('sp%d-%s' % (n, name.rstrip('!')), lines, meta)


EXTRA_VARIANTS = ['plain']      # inputs of 10^5 tokens: every realloc() copies under AddressSanitizer, so they run on the plain build


def extra_select(scn, variant):
    return any(l == 'needplain' for l in scn.lines)


def oracle_variant(scn, il, variant):
    return oracle(scn, il)


def nontrivial(scn, il):
    first = scn.meta['first']
    body = il[:-1] if il and il[-1].startswith('--- ') else il
    return scn.meta.get('big') or any('rc=0 ' not in l for l in body[first:first + 2] if l.startswith('parse'))


def oracle(scn, il):
    out = []
    if not il:
        return [('no-result', scn.id + ': no result')]
    tr = il[-1]
    body = il[:-1] if tr.startswith('--- ') else il
    if 'needplain rc=skip' in body and 'status=exit:0' in tr:
        return []          # a scenario for the plain build, skipped by the instrumented one (it runs under EXTRA_VARIANTS)
    cls = scn.meta['class'].split('/')[0]
    if 'status=exit:0' not in tr or 'san=-' not in tr:
        m = re.search(r'status=(\S+) san=(\S+)', tr)
        what = '%s/%s' % (m.group(1), m.group(2)) if m else 'no-trailer'
        cmd = scn.lines[len(body)] if len(body) < len(scn.lines) else 'exit'
        out.append(('crash:%s@%s' % (re.sub(r'\d+', 'N', what.split('@')[0]), what.split('@')[-1] if '@' in what else cmd.split()[0]),
                    '%s (%s): process outcome %s while executing `%s`' % (scn.id, cls, what, cmd[:80])))
        return out
    for i, l in enumerate(body):
        if ' out=' in l and ' out=. ' not in l + ' ':
            out.append(('stdout', '%s: the library wrote to stdout during `%s`: %s' % (scn.id, scn.lines[i][:60], l[-120:])))
        m = re.match(r'(parse_\w+) rc=(\S+)', l)
        if m and m.group(2) not in ('0', '1', '-1', 'nofile'):
            out.append(('result-kind', '%s: %s returned %s' % (scn.id, m.group(1), m.group(2))))
    # afterwards the context is usable: the valid text is accepted and visible
    a = scn.meta['after']
    if len(body) > a + 2:
        if not body[a + 2].startswith('parse_buf rc=0 '):
            out.append(('unusable-after:' + cls, '%s: valid text rejected afterwards: %s' % (scn.id, body[a + 2][:200])))
        if not body[a + 1].startswith('print rc=0 '):
            out.append(('print-after:' + cls, '%s: print failed afterwards: %s' % (scn.id, body[a + 1][:100])))
    return out


def reduce(scn):
    t = scn.meta.get('text') or b''
    if len(t) > 8:
        cfgno = next(i for i, (s, f) in enumerate(CONFIGS) if 'init 0 0 %d' % f in scn.lines)
        how = scn.meta['class'].split('/')[1] if '/' in scn.meta['class'] else 'buf'
        kind = scn.meta['class'].split('/')[0]
        for cut in (t[:len(t) // 2], t[len(t) // 2:], t[:len(t) * 3 // 4], t[len(t) // 4:], t[:-1], t[1:]):
            yield scenario(scn.id + 'r', cfgno, kind, cut, how if how in ('buf', 'file', 'fp') else 'buf')
