"""C17 — file names resolve deterministically via search path and tilde.

Real directory layouts (regular files, directories and missing entries of the same name in several
directories), search paths added in every order, all name forms; the fake passwd table serves ~ and ~user.
Oracle: the first directory in add order holding a regular file, computed by the generator."""
import itertools
import re
from common import Scn, hx, unhx, Opt, CFGF
import gen

VARIANT = 'plain'
EXTRA_VARIANTS = ['valgrind']
RULE = ('layouts x search-path orders x name forms; non-trivial = at least two directories on the search path or a tilde '
        'name; distinct by scenario text')
TRUSTED = ['fake passwd table served by getpwnam/getpwuid defined in the harness executable']

INC = Opt('func', b'include', func='include')
SCHEMA = [Opt('int', b'm', 0, 0), INC, Opt('sec', b'box', 0, None, [Opt('int', b'm', 0, 0), INC]),
          Opt('sec', b'mb', CFGF['MULTI'], None, [Opt('int', b'm', 0, 0), INC])]
DIRS = [b'd1', b'd2', b'd3']


def layout_lines(lay):
    """lay: dict dir -> 'file' | 'dir' | 'missing' for the entry f.conf inside it"""
    out = []
    for i, d in enumerate(DIRS):
        k = lay[d]
        out.append('file %s dir' % hx(d))
        if k == 'file':
            out.append('file %s file %s' % (hx(d + b'/f.conf'), hx(b'm = %d\n' % (i + 1))))
        elif k == 'link':    # a symbolic link to a regular file outside the search path: found like the file itself
            out.append('file %s file %s' % (hx(b'real/t%d.conf' % i), hx(b'm = %d\n' % (i + 1))))
            out.append('file %s link %s' % (hx(d + b'/f.conf'), hx(b'real/t%d.conf' % i)))
        elif k == 'dir':
            out.append('file %s dir' % hx(d + b'/f.conf'))
    return out


def expected(lay, order, name, homes):
    """expected cfg_searchpath result (bytes with @R for the scenario directory) or None"""
    def regular(p):
        # p relative to the scenario dir or starting with @R/
        q = p[3:] if p.startswith(b'@R/') else p
        q = re.sub(rb'/+', b'/', q)
        m = re.fullmatch(rb'(d[123])/f\.conf', q)
        return bool(m) and lay[m.group(1)] in ('file', 'link')
    if not order:
        return None
    if name.startswith(b'@R/') or name.startswith(b'/'):
        return name if regular(name) else None
    for d in order:
        dd = tilde(d, homes)
        full = dd + b'/' + name
        if regular(full):
            return full
    return None


def tilde(name, homes, self_user=b'me'):
    if not name.startswith(b'~'):
        return name
    rest = name[1:]
    if rest == b'' or rest.startswith(b'/'):
        return homes[self_user] + rest if self_user in homes else name
    user, sep, tail = rest.partition(b'/')
    if user in homes:
        return homes[user] + sep + tail
    return name


def generate(rng, tier):
    n = 0
    homes = {b'me': b'@R/d1', b'bob': b'@R/d2'}
    pw = ['passwd %s %s' % (hx(u), hx(h)) for u, h in sorted(homes.items())] + ['passwd_self ' + hx(b'me')]
    kinds = ['file', 'dir', 'missing', 'link']
    layouts = list(itertools.product(kinds, repeat=3)) if tier == 'thorough' else \
        [('file', 'file', 'missing'), ('dir', 'file', 'file'), ('missing', 'dir', 'file'), ('file', 'dir', 'dir'),
         ('dir', 'dir', 'dir'), ('missing', 'missing', 'missing'), ('file', 'file', 'file'), ('dir', 'missing', 'file'),
         ('link', 'file', 'missing'), ('dir', 'link', 'file'), ('missing', 'dir', 'link'), ('link', 'link', 'link')]
    pool = [b'd1', b'd2', b'd3', b'@R/d1', b'@R/d3', b'nodir', b'~', b'~bob', b'd2/', b'~nouser']
    orders = []
    for k in (0, 1, 2, 3):
        for o in itertools.permutations([b'd1', b'd2', b'd3'], k):
            orders.append(list(o))
    r = rng.fork('C17')
    for _ in range(20 if tier == 'quick' else 200):
        orders.append([r.pick(pool) for _ in range(1 + r.below(4))])
    names = [b'f.conf', b'@R/d2/f.conf', b'@R/d1/f.conf', b'@R/d3', b'nofile', b'', b'd3/f.conf', b'./f.conf']
    for lay_t in layouts:
        lay = dict(zip(DIRS, lay_t))
        for order in orders:
            n += 1
            # the list holds every directory added, evaluated when a name is looked up: on every third scenario the
            # directories and files appear only AFTER they were added; $HOME (pointing elsewhere) never matters for `~`
            late = n % 3 == 0
            lines = gen.prelude(SCHEMA) + pw + ([] if late else layout_lines(lay))
            if n % 2 == 0:
                lines.append('env %s %s' % (hx(b'HOME'), hx(b'@R/d3')))
            exp = {}
            for d in order:
                lines.append('searchpath 0 ' + hx(d))
            if late:
                lines += layout_lines(lay)
            for nm in names:
                e = expected(lay, order, nm, homes)
                if b'./' not in nm:
                    exp[len(lines)] = ('lookup', e)
                lines.append('lookup 0 ' + hx(nm))
            # which file does a parse / an include pick up?
            e = expected(lay, order, b'f.conf', homes)
            if order:
                mark = None
                if e is not None:
                    mark = int(re.search(rb'd([123])/', e.replace(b'@R/', b'')).group(1)) if not e.startswith(b'@R/d') else int(e[4:5])
                exp[len(lines)] = ('parse', mark)
                lines.append('parse_file 0 ' + hx(b'f.conf'))
                lines.append('dump 0')
                lines.append('setint 0 6d 0 0')
                exp[len(lines)] = ('parse', mark)
                lines.append('parse_buf 0 ' + hx(b'include("f.conf")\n'))
                lines.append('dump 0')
                for secname, key in ((b'box', 'parse-box'), (b'mb', 'parse-mb')):
                    exp[len(lines)] = (key, mark)
                    lines.append('parse_buf 0 ' + hx(secname + b' { include("f.conf") }\n'))
                    lines.append('dump 0')
            # a name starting with ~: the top-level parse and include() resolve it alike (with a search path the name is
            # looked up below each directory as it stands; without one it is tilde-expanded)
            tilde_names = [b'~/f.conf', b'~bob/f.conf'] if len(order) <= 1 or n % 5 == 0 else []
            for nm in tilde_names:
                if order:
                    e = expected(lay, order, nm, homes)
                else:
                    e = tilde(nm, homes)
                    e = e if re.fullmatch(rb'@R/(d[123])/f\.conf', e) and lay[e[3:5]] in ('file', 'link') else None
                mark = int(re.search(rb'd([123])/', e).group(1)) if e is not None else None
                for cmd in ('parse_file 0 ' + hx(nm), 'parse_buf 0 ' + hx(b'include("' + nm + b'")\n')):
                    lines.append('setint 0 6d 0 0')
                    exp[len(lines)] = ('parse', mark)
                    lines.append(cmd)
                    lines.append('dump 0')
            yield Scn('lay%d' % n, lines, {'class': 'searchpath-%d' % len(order), 'expect': exp, 'ndirs': len(order), 'tilde': bool(tilde_names)})
    # tilde forms
    tl = []
    exp = {}
    lines = list(pw)
    for nm in [b'~', b'~/', b'~/x', b'~bob', b'~bob/x', b'~bob/', b'~nouser/x', b'~nouser', b'plain', b'', b'a~b', b'~me/x', b'~b', b'~bobby/x',
               b'~' + b'u' * 70 + b'/x', b'/abs/~bob', b'~/~bob']:
        exp[len(lines)] = ('tilde', tilde(nm, homes))
        lines.append('tilde ' + hx(nm))
    yield Scn('tilde-table', lines, {'class': 'tilde', 'expect': exp, 'ndirs': 0, 'tilde': True})
    yield Scn('tilde-table-home', ['env %s %s' % (hx(b'HOME'), hx(b'@R/elsewhere'))] + lines,
              {'class': 'tilde', 'expect': {k + 1: v for k, v in exp.items()}, 'ndirs': 0, 'tilde': True})
    lines = []
    exp = {}
    for nm in [b'~', b'~/x', b'~bob/x']:
        exp[len(lines)] = ('tilde', nm)
        lines.append('tilde ' + hx(nm))
    yield Scn('tilde-nopasswd', lines, {'class': 'tilde', 'expect': exp, 'ndirs': 0, 'tilde': True})


def nontrivial(scn, il):
    return scn.meta.get('ndirs', 0) >= 2 or scn.meta.get('tilde', False)


def oracle(scn, il):
    out = []
    body = il[:-1] if il and il[-1].startswith('--- ') else il
    for idx, (kind, e) in scn.meta.get('expect', {}).items():
        if idx >= len(body):
            out.append(('no-result', '%s: no result for %s' % (scn.id, scn.lines[idx])))
            break
        got = body[idx]
        if kind in ('lookup', 'tilde'):
            want = '%s res=%s' % (kind, hx(e))
            # the library joins with one '/', a directory given with a trailing slash yields '//'
            if got != want:
                out.append(('%s:%s' % (kind, name_form(unhx(scn.lines[idx].split()[-1]) or b'')),
                            '%s: expected %s, got %s (search path %s)' % (scn.lines[idx], want, got,
                                                                            [l for l in scn.lines if l.startswith('searchpath')])))
        elif kind in ('parse', 'parse-box', 'parse-mb'):
            dump = body[idx + 1] if idx + 1 < len(body) else ''
            if kind == 'parse-box':
                dump = dump[dump.find('(cfg 626f78'):]
            elif kind == 'parse-mb':
                dump = dump[dump.rfind('(cfg 6d62'):] if '(cfg 6d62' in dump else ''
            m = re.search(r'\(opt 6d int 1 \d \d \d \S+ (-?\d+)\)', dump)
            val = int(m.group(1)) if m else None
            if e is None:
                if 'rc=0 ' in got:
                    out.append(('resolves-nothing', '%s succeeded though no regular file matches' % scn.lines[idx]))
            elif 'rc=0 ' not in got or val != e:
                out.append(('wrong-file:' + scn.lines[idx].split()[0], '%s: expected marker %s, got rc/marker %s / %s' % (
                    scn.lines[idx], e, got[:80], val)))
    return out


def name_form(nm):
    if nm.startswith(b'@R') or nm.startswith(b'/'):
        return 'absolute'
    if nm.startswith(b'~'):
        return 'tilde-user' if len(nm) > 1 and nm[1:2] != b'/' else 'tilde-self'
    return 'relative' if nm else 'empty'


def extra_select(scn, variant):
    return scn.meta.get('tilde', False) or scn.id.endswith('7')


def oracle_variant(scn, il, variant):
    tr = il[-1] if il else ''
    if 'status=exit:0' not in tr:
        return [('valgrind', '%s under valgrind: %s (uninitialised or invalid memory use)' % (scn.id, tr))]
    return []
