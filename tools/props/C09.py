"""C09 — the setter / list / section API behaves as a simple typed store.

Exhaustive operation sequences (depth bound) over a finite alphabet of calls on a fixed schema, from the initial state and
from a parsed state, plus longer random sequences.  Oracle: an abstract store (an ordered value list per option, an
ordered title-keyed instance list per section option, a modified bit) interpreted by the generator; after every call
the library's return code and tree dump must equal the abstract store's."""
import re
from common import Scn, hx, Opt, CFGF
import gen

VARIANT = 'plain'
RULE = ('all call sequences up to a depth bound over ~45 concrete calls, from init and from a parsed state, plus random sequences '
        'of length up to 40; non-trivial = at least one call succeeds and one fails; distinct by sequence')
F = CFGF

TSUB = [Opt('int', b'a', 0, 1), Opt('intl', b'l', 0, b'{5}')]
SCHEMA = [Opt('int', b'i', 0, 7), Opt('intl', b'il', 0, b'{1,2}'), Opt('str', b's', 0, b'd'), Opt('bool', b'b', 0, 0),
          Opt('strl', b'sl', 0, b'{a,b,c}'), Opt('sec', b'm', F['MULTI'], None, [Opt('int', b'a', 0, 1)]),
          Opt('sec', b't', F['MULTI'] | F['TITLE'], None, TSUB), Opt('sec', b'sec', 0, None, [Opt('int', b'a', 0, 1)]),
          Opt('flt', b'f', 0, 0.5)]
PARSED = b'il = {4}\nt x { a = 2 }\nm { a = 3 }\nm { a = 4 }\ns = "set"\n'


# ---------------------------------------------------------------- the abstract store
class AOpt:
    def __init__(self, o, ctxflags=0):
        self.decl = o
        self.kind = o.base() if o.kind != 'sec' else 'sec'
        self.list = o.is_list()
        self.multi = bool(o.flags & F['MULTI'])
        self.title = bool(o.flags & F['TITLE'])
        self.pristine = False
        self.modified = False
        self.vals = []
        if o.kind == 'sec':
            if not self.multi:
                self.vals = [ASec(o, None)]
        elif o.kind == 'int':
            self.vals, self.pristine = [o.default or 0], True
        elif o.kind == 'flt':
            self.vals, self.pristine = [o.default or 0.0], True
        elif o.kind == 'bool':
            self.vals, self.pristine = [1 if o.default else 0], True
        elif o.kind == 'str':
            self.vals, self.pristine = [o.default], True
        elif self.list:
            d = o.default
            if d:
                body = d.strip()[1:-1].strip()
                items = [x.strip() for x in body.split(b',')] if body else []
                self.vals = [conv(self.kind, x.strip(b'"')) for x in items]
                self.pristine = True


class ASec:
    def __init__(self, o, title):
        self.title = title
        self.opts = [AOpt(x) for x in o.sub]


def conv(kind, t):
    if kind == 'int':
        import props.C04 as c4
        z = c4.int_numeral(t)
        return z if z is not None and -2 ** 63 <= z < 2 ** 63 else None
    if kind == 'str':
        return t
    if kind == 'bool':
        import props.C04 as c4
        return c4.bool_value(t)
    return None


class Store:
    def __init__(self):
        self.opts = [AOpt(o) for o in SCHEMA]

    def find(self, path):
        """resolve an option path (names joined by |, with =title / =index qualifiers, unquoted) -> AOpt or None"""
        opts = self.opts
        steps = path.split(b'|')
        for k, st in enumerate(steps):
            name, _, q = st.partition(b'=')
            if not name:
                return None
            o = next((x for x in opts if x.decl.name == name), None)
            if o is None:
                return None
            if k == len(steps) - 1:
                return o if not _ else None
            if o.kind != 'sec':
                return None
            inst = self.instance(o, q if _ else None)
            if inst is None:
                return None
            opts = inst.opts
        return None

    @staticmethod
    def instance(o, q):
        if q is None:
            return o.vals[0] if o.vals else None
        if not o.multi:
            return None
        if o.title:
            return next((s for s in o.vals if s.title == q), None)
        if re.fullmatch(rb'\d+', q) and int(q) < len(o.vals):
            return o.vals[int(q)]
        return None

    def find_sec(self, path):
        """(section option, index) addressed by a section path"""
        opts = self.opts
        steps = path.split(b'|')
        o = idx = None
        for st in steps:
            name, eq, q = st.partition(b'=')
            if not name:
                return None
            o = next((x for x in opts if x.decl.name == name), None)
            if o is None or o.kind != 'sec':
                return None
            inst = self.instance(o, q if eq else None)
            if inst is None:
                return None
            idx = o.vals.index(inst)
            opts = inst.opts
        return (o, idx)

    # ---- operations: return the C return code (as text) ----
    def setn(self, path, kind, v, idx):
        o = self.find(path)
        if o is None or o.kind != kind:
            return '-1'
        if idx != 0 and not o.list and not o.multi:
            return '-1'
        vals = [] if o.pristine else o.vals
        if idx < len(vals):
            vals = vals[:idx] + [v] + vals[idx + 1:]
        else:
            vals = vals + [v]
        o.vals, o.pristine, o.modified = vals, False, True
        return '0'

    def setlist(self, path, kind, vs, append):
        o = self.find(path)
        if o is None or not o.list:
            return '-1'
        if o.kind != kind:
            return None            # a type-confused varargs call: not generated
        if kind == 'int':
            vs = [((z + 2 ** 31) % 2 ** 32) - 2 ** 31 for z in vs]
        if append:
            o.vals = o.vals + vs
            if vs:
                o.modified = True
        else:
            o.vals = list(vs)
            o.modified = True
        o.pristine = o.pristine and not vs and False
        return '0'

    def setmulti(self, path, texts):
        o = self.find(path)
        if o is None or not texts:
            return '-1'
        if o.kind not in ('int', 'str', 'bool'):
            return None
        new = [conv(o.kind, t) for t in texts]
        if any(x is None for x in new):
            return '-1'
        if not o.list and not o.multi:
            new = new[-1:]          # a scalar keeps the last one
        o.vals, o.pristine, o.modified = new, False, True
        return '0'

    def addtsec(self, path, title):
        o = self.find(path)
        if o is None or o.kind != 'sec':
            return 'null'
        if o.title and any(s.title == title for s in o.vals):
            return 'null'
        if not o.multi:
            if o.vals:
                return 'ptr'
            o.vals = [ASec(o.decl, title)]
        else:
            o.vals = o.vals + [ASec(o.decl, title)]
        o.modified = True
        return 'ptr'

    def rmn(self, o, idx):
        if o is None or o.kind != 'sec' or idx is None or idx >= len(o.vals):
            return '-1'
        o.vals = o.vals[:idx] + o.vals[idx + 1:]
        return '0'

    def rmnsec(self, path, idx):
        return self.rmn(self.find(path), idx)

    def rmtsec(self, path, title):
        o = self.find(path)
        if o is None or o.kind != 'sec' or not o.title:
            return '-1'
        idx = next((i for i, s in enumerate(o.vals) if s.title == title), None)
        return self.rmn(o, idx)

    def rmsec(self, path):
        r = self.find_sec(path)
        if r is None:
            return '-1'
        return self.rmn(r[0], r[1])

    # ---- observation in the canonical dump format (R and D bits and annotations are not part of the abstract store) ----
    def dump(self):
        return '(cfg 726f6f74 - 0' + ''.join(' ' + dump_opt(o) for o in self.opts) + ')'


def dump_opt(o):
    kind = {'int': 'int', 'flt': 'float', 'bool': 'bool', 'str': 'str', 'sec': 'sec'}[o.kind]
    vals = []
    for v in o.vals:
        if o.kind == 'sec':
            vals.append('(cfg %s %s 0%s)' % (hx(o.decl.name), hx(v.title), ''.join(' ' + dump_opt(x) for x in v.opts)))
        elif o.kind == 'int':
            vals.append(str(v))
        elif o.kind == 'flt':
            from common import dbits
            vals.append(dbits(v))
        elif o.kind == 'bool':
            vals.append(str(v))
        else:
            vals.append(hx(v))
    m = '?' if o.kind == 'sec' else ('1' if o.modified else '0')
    return '(opt %s %s %d ? %s ? ?%s)' % (hx(o.decl.name), kind, len(o.vals), m, ''.join(' ' + v for v in vals))


def mask(dumpline):
    """project the library's dump onto what the abstract store observes"""
    d = re.sub(r'\(opt (\S+) sec (\d+) \d \d \d \S+?(?=[ )])', r'(opt \1 sec \2 ? ? ? ?', dumpline)
    d = re.sub(r'\(opt (\S+) (int|float|bool|str) (\d+) \d (\d) \d \S+?(?=[ )])', r'(opt \1 \2 \3 ? \4 ? ?', d)
    return d


# ---------------------------------------------------------------- the call alphabet
CALLS = []


def C(line, fn):
    CALLS.append((line, fn))


for path in (b'i', b'il', b's', b'nosuch', b't=x|a', b't=x|l', b'sec|a', b'm=1|a'):
    for v, idx in ((9, 0), (8, 1), (6, 2)):
        C('setint 0 %s %d %d' % (hx(path), v, idx), lambda st, p=path, v=v, i=idx: st.setn(p, 'int', v, i))
C('setstr 0 %s %s 0' % (hx(b's'), hx(b'new')), lambda st: st.setn(b's', 'str', b'new', 0))
C('setstr 0 %s - 0' % hx(b's'), lambda st: st.setn(b's', 'str', None, 0))
# the text an option already shows (its default): still a set — the defaults go, the option counts as modified
C('setstr 0 %s %s 0' % (hx(b's'), hx(b'd')), lambda st: st.setn(b's', 'str', b'd', 0))
C('setstr 0 %s %s 1' % (hx(b'sl'), hx(b'b')), lambda st: st.setn(b'sl', 'str', b'b', 1))
C('setint 0 %s 7 0' % hx(b'i'), lambda st: st.setn(b'i', 'int', 7, 0))
# an append of nothing ends the "still the defaults" state without touching a value; a set inside the former defaults follows
C('addlist 0 %s int' % hx(b'il'), lambda st: st.setlist(b'il', 'int', [], True))
C('addlist 0 %s str' % hx(b'sl'), lambda st: st.setlist(b'sl', 'str', [], True))
C('setstr 0 %s %s 1' % (hx(b'sl'), hx(b'z')), lambda st: st.setn(b'sl', 'str', b'z', 1))
C('setstr 0 %s %s 0' % (hx(b'i'), hx(b'z')), lambda st: st.setn(b'i', 'str', b'z', 0))
C('setbool 0 %s 1 0' % hx(b'b'), lambda st: st.setn(b'b', 'bool', 1, 0))
C('setbool 0 %s 1 0' % hx(b'i'), lambda st: st.setn(b'i', 'bool', 1, 0))
C('setfloat 0 %s 4004000000000000 0' % hx(b'f'), lambda st: st.setn(b'f', 'flt', 2.5, 0))
C('setlist 0 %s int 10 20 30' % hx(b'il'), lambda st: st.setlist(b'il', 'int', [10, 20, 30], False))
C('setlist 0 %s int' % hx(b'il'), lambda st: st.setlist(b'il', 'int', [], False))
C('setlist 0 %s int 1' % hx(b'i'), lambda st: st.setlist(b'i', 'int', [1], False))
C('addlist 0 %s int 3' % hx(b'il'), lambda st: st.setlist(b'il', 'int', [3], True))
C('addlist 0 %s int 4294967297 -1' % hx(b'il'), lambda st: st.setlist(b'il', 'int', [4294967297, -1], True))
C('addlist 0 %s str %s %s' % (hx(b'sl'), hx(b'p'), hx(b'q')), lambda st: st.setlist(b'sl', 'str', [b'p', b'q'], True))
C('addlist 0 %s int 5' % hx(b't=x|l'), lambda st: st.setlist(b't=x|l', 'int', [5], True))
C('addlist 0 %s int 5' % hx(b's'), lambda st: st.setlist(b's', 'int', [5], True))
C('setmulti 0 %s %s %s' % (hx(b'il'), hx(b'7'), hx(b'0x10')), lambda st: st.setmulti(b'il', [b'7', b'0x10']))
C('setmulti 0 %s %s %s' % (hx(b'il'), hx(b'7'), hx(b'zz')), lambda st: st.setmulti(b'il', [b'7', b'zz']))
C('setmulti 0 %s %s' % (hx(b'i'), hx(b'5')), lambda st: st.setmulti(b'i', [b'5']))
C('setmulti 0 %s %s' % (hx(b'i'), hx(b'5x')), lambda st: st.setmulti(b'i', [b'5x']))
# a scalar keeps the last of several strings, but every one of them has to convert
C('setmulti 0 %s %s %s' % (hx(b'i'), hx(b'oops'), hx(b'5')), lambda st: st.setmulti(b'i', [b'oops', b'5']))
C('setmulti 0 %s %s %s' % (hx(b'i'), hx(b'4'), hx(b'6')), lambda st: st.setmulti(b'i', [b'4', b'6']))
C('setmulti 0 %s %s %s %s' % (hx(b'b'), hx(b'true'), hx(b'maybe'), hx(b'off')), lambda st: st.setmulti(b'b', [b'true', b'maybe', b'off']))
C('setmulti 0 %s %s %s' % (hx(b'sl'), hx(b'a'), hx(b'b')), lambda st: st.setmulti(b'sl', [b'a', b'b']))
for path, title in ((b't', b'x'), (b't', b'y'), (b'm', b'k'), (b'sec', b'z'), (b'i', b'x'), (b'nosuch', b'x')):
    C('addtsec 0 %s %s' % (hx(path), hx(title)), lambda st, p=path, t=title: st.addtsec(p, t))
for title in (b'x', b'y', b'nope'):
    C('rmtsec 0 %s %s' % (hx(b't'), hx(title)), lambda st, t=title: st.rmtsec(b't', t))
C('rmtsec 0 %s %s' % (hx(b'm'), hx(b'k')), lambda st: st.rmtsec(b'm', b'k'))
for idx in (0, 1, 7):
    C('rmnsec 0 %s %d' % (hx(b'm'), idx), lambda st, i=idx: st.rmnsec(b'm', i))
C('rmnsec 0 %s 0' % hx(b'i'), lambda st: st.rmnsec(b'i', 0))
for path in (b't=x', b'm=1', b'sec', b't=nope', b'm', b'i'):
    C('rmsec 0 %s' % hx(path), lambda st, p=path: st.rmsec(p))


def apply_parsed(st):
    """the effect of PARSED on the abstract store (by its meaning)"""
    o = st.find(b'il'); o.vals, o.pristine, o.modified = [4], False, True
    t = st.find(b't'); sx = ASec(t.decl, b'x'); t.vals.append(sx); t.modified = True
    a = sx.opts[0]; a.vals, a.pristine, a.modified = [2], False, True
    m = st.find(b'm')
    for v in (3, 4):
        s = ASec(m.decl, None); m.vals.append(s)
        s.opts[0].vals, s.opts[0].pristine, s.opts[0].modified = [v], False, True
    m.modified = True
    s = st.find(b's'); s.vals, s.pristine, s.modified = [b'set'], False, True


def build(sid, seq, parsed, cls):
    lines = gen.prelude(SCHEMA, 0)
    st = Store()
    if parsed:
        lines.append('parse_buf 0 ' + hx(PARSED))
        apply_parsed(st)
    lines.append('dump 0')
    checks = [(len(lines) - 1, None, st.dump())]
    ok = fail = 0
    for ci in seq:
        line, fn = CALLS[ci]
        rc = fn(st)
        if rc is None:
            continue
        ok += rc in ('0', 'ptr')
        fail += rc in ('-1', 'null')
        lines.append(line)
        lines.append('dump 0')
        checks.append((len(lines) - 1, (len(lines) - 2, rc), st.dump()))
    # observed through the by-name getters too (every option, indices beyond the end, a wrong kind, the short forms)
    lastdump = len(lines) - 1
    if (cls == 'random' and len(seq) % 2) or (cls != 'random' and sum(seq) % (6 if len(seq) <= 2 else 60) == 0):
        lines += gen.getter_sweep(SCHEMA, maxidx=2)
    return Scn(sid, lines, {'class': cls, 'checks': checks, 'mixed': ok > 0 and fail > 0, 'seq': seq, 'parsed': parsed, 'lastdump': lastdump})


def generate(rng, tier):
    r = rng.fork('C09')
    n = 0
    depth = 2 if tier == 'quick' else 3
    idx = list(range(len(CALLS)))

    def seqs(k):
        if k == 0:
            yield []
            return
        for s in seqs(k - 1):
            for i in idx:
                yield s + [i]
    for parsed in (False, True):
        for k in range(1, depth + 1):
            for s in seqs(k):
                n += 1
                yield build('x%d' % n, s, parsed, 'exhaustive-%d/%s' % (k, 'parsed' if parsed else 'init'))
    for _ in range(150 if tier == 'quick' else 3000):
        n += 1
        yield build('r%d' % n, [r.pick(idx) for _ in range(5 + r.below(36))], r.chance(1, 2), 'random')


def reduce(scn):
    seq = scn.meta['seq']
    for i in range(len(seq)):
        yield build(scn.id + 'r', seq[:i] + seq[i + 1:], scn.meta['parsed'], 'reduced')


def nontrivial(scn, il):
    return scn.meta['mixed'] or len(scn.meta['seq']) == 1


def oracle(scn, il):
    out = []
    body = il[:-1] if il and il[-1].startswith('--- ') else il
    for di, call, want in scn.meta['checks']:
        if di >= len(body):
            out.append(('no-result', scn.id + ': incomplete'))
            break
        if call is not None:
            ci, rc = call
            m = re.search(r'rc=(\S+)', body[ci])
            got = m.group(1) if m else '?'
            if got != rc:
                out.append(('rc:' + scn.lines[ci].split()[0], '%s: `%s` returned %s, the abstract store says %s' % (scn.id, scn.lines[ci], got, rc)))
                break
        if mask(body[di])[5:] != want:
            what = scn.lines[call[0]] if call else 'initial state'
            out.append(('state:' + what.split()[0], '%s: after `%s` the tree is\n  %s\nthe abstract store is\n  %s' % (
                scn.id, what, mask(body[di])[5:][:1200], want[:1200])))
            break
    ld = scn.meta.get('lastdump')
    if not out and ld is not None and ld < len(body) and body[ld].startswith('dump ('):
        out += gen.check_getters(scn, body, gen.dump_tree(body[ld]), SCHEMA)
    return out
