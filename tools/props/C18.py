"""C18 — running out of memory yields an error return, not corruption.

Workloads covering every public entry point; for every k the k-th allocation request issued by the library source
proper (confuse.c compiled with the failable allocator header; scanner-internal allocations excluded) fails during the
operation under test.  Oracle: the process is not aborted and no sanitizer report appears, the call completes or
reports failure, and afterwards the context (if any) can be dumped, printed, parsed into and freed, with no block or
file left (counting allocator).  The call instances of the proved explicit-heap model (coq/Oom.v) are run for every fault
index and the outcome (failure reported / done) compared with the table extracted from the model."""
import re
from common import Scn, hx, Opt, CFGF
import gen

VARIANT = 'countasan'
NO_MODEL = True      # the scenario interpreter of the parser model has no allocator; the OOM model (coq/Oom.v) is tied through its extracted fault table
RULE = ('workloads (one per public entry point group) x every k up to the number of allocation requests of the workload (+2); '
        'non-trivial = the fault was actually triggered (the result differs from the fault-free run or the call failed); distinct by (workload, k)')
F = CFGF
TRUSTED = ['harness/allocwrap.h force-included when compiling confuse.c: malloc/calloc/realloc/reallocarray/strdup/strndup -> failable wrappers']

SUB = [Opt('int', b'a', 0, 1), Opt('strl', b'l', 0, b'{x, y}'), Opt('sec', b'in', F['MULTI'] | F['TITLE'], None, [Opt('str', b'z', 0, b'zd')])]
SCHEMA = [Opt('int', b'i', 0, 7), Opt('str', b's', 0, b'dflt'), Opt('strl', b'sl', 0, b'{a, b}'), Opt('sec', b'sec', 0, None, SUB),
          Opt('sec', b'm', F['MULTI'], None, SUB), Opt('sec', b't', F['MULTI'] | F['TITLE'], None, SUB), Opt('sec', b'kv', F['KEYSTRVAL'], None, []),
          Opt('func', b'include', func='include'), Opt('func', b'fn', func='user:0'), Opt('ptr', b'p', 0, cbs=('parse:0',))]
PREP = ['file %s file %s' % (hx(b'inc.conf'), hx(b'i = 2\nsl += {c}\n')), 'file %s dir' % hx(b'sp')]
STATE = 'parse_buf 0 ' + hx(b'm { a = 1 in x { } }\nm { }\nt one { l += {z} }\nkv { k = v }\ns = "set"\n')

# (name, commands before the fault window, the operation under test, needs a live context 0 beforehand)
WORKLOADS = [
    ('init', [], ['init 0 0 0'], False),
    ('init-comments', [], ['init 0 0 %d' % F['COMMENTS']], False),
    ('parse-scalars', [], ['parse_buf 0 ' + hx(b'i = 5\ns = "v"\nsl = {p, q}\nsl += r\np = ptr\n')], True),
    ('parse-sections', [], ['parse_buf 0 ' + hx(b'sec { a = 2 l += {w} in n1 { z = "q" } }\nm { in n2 { } }\nt tt { a = 3 }\nt tt { }\n')], True),
    ('parse-keystrval', [], ['parse_buf 0 ' + hx(b'kv { k1 = v1 k2 = "v 2" k1 = again }\n')], True),
    ('parse-func-include', [], ['parse_buf 0 ' + hx(b'fn(a, "b c", d)\ninclude("inc.conf")\ni = 3\n')], True),
    ('parse-comments', ['free 0', 'init 0 0 %d' % F['COMMENTS']], ['parse_buf 0 ' + hx(b'/* note */ i = 5\n# other\nsl = {a}\n')], True),
    ('parse-file', ['file %s file %s' % (hx(b'main.conf'), hx(b'i = 9\nsec { a = 4 }\n'))], ['parse_file 0 ' + hx(b'main.conf')], True),
    ('parse-file-tilde', ['passwd %s %s' % (hx(b'me'), hx(b'@R')), 'passwd_self ' + hx(b'me'), 'file %s file %s' % (hx(b'main.conf'), hx(b'i = 9\n'))],
     ['parse_file 0 ' + hx(b'~/main.conf')], True),
    ('searchpath', [], ['searchpath 0 ' + hx(b'sp'), 'searchpath 0 ' + hx(b'~nouser/x'), 'lookup 0 ' + hx(b'inc.conf')], True),
    ('setters', [STATE], ['setint 0 69 9 0', 'setstr 0 73 %s 0' % hx(b'new'), 'setstr 0 736c %s 5' % hx(b'app'), 'setint 0 %s 4 0' % hx(b'm=1|a')], True),
    ('lists', [STATE], ['setlist 0 736c str %s %s' % (hx(b'x'), hx(b'y')), 'addlist 0 736c str %s' % hx(b'z'), 'addlist 0 %s str %s' % (hx(b't=one|l'), hx(b'w'))], True),
    ('setmulti', [STATE], ['setmulti 0 736c %s %s %s' % (hx(b'p'), hx(b'q'), hx(b'r')), 'setmulti 0 69 %s' % hx(b'12'), 'setmulti 0 69 %s' % hx(b'zz')], True),
    ('setopt', [STATE], ['setopt 0 73 %s' % hx(b'text'), 'setopt 0 736c %s' % hx(b'elem'), 'setopt 0 70 %s' % hx(b'pp')], True),
    ('addtsec', [STATE], ['addtsec 0 74 %s' % hx(b'two'), 'addtsec 0 %s %s' % (hx(b'm=0|in'), hx(b'y')), 'addtsec 0 6d %s' % hx(b'mm')], True),
    ('rmsec', [STATE], ['rmtsec 0 74 %s' % hx(b'one'), 'rmnsec 0 6d 0', 'rmsec 0 ' + hx(b'sec')], True),
    ('annotate', [STATE], ['setcomment 0 69 %s' % hx(b'first'), 'setcomment 0 69 %s' % hx(b'second'), 'setcomment 0 %s %s' % (hx(b'm=0|a'), hx(b'n'))], True),
    ('paths', [STATE], ['getopt 0 ' + hx(b"m=0|in='x'|z"), 'getsec 0 ' + hx(b't=one'), 'getopt 0 ' + hx(b'm=1|l'), 'size 0 ' + hx(b'sec|l')], True),
    ('deep-paths', [STATE], ['getsec 0 ' + hx(b'm=0|in=x'), 'getopt 0 ' + hx(b'm=0|in=x|z'), 'getopt 0 ' + hx(b't=one|l'), 'size 0 ' + hx(b'm=0|in=x|z'),
                             'rmsec 0 ' + hx(b'm=0|in=x'), 'setint 0 %s 6 0' % hx(b't=one|a'), 'rmsec 0 ' + hx(b't=one')], True),
    ('reopen-titled', [STATE, 'parse_buf 0 ' + hx(b't two { a = 2 }\nt three { }\n')],
     ['parse_buf 0 ' + hx(b't one { a = 9 l = {q} }\n'), 'parse_buf 0 ' + hx(b't two { in z { } }\nt one { }\n')], True),
    ('print', [STATE], ['print 0 0', 'printopt 0 736c'], True),
    ('tilde', ['passwd %s %s' % (hx(b'bob'), hx(b'/home/bob'))], ['tilde ' + hx(b'~bob/x'), 'tilde ' + hx(b'plain'), 'tilde ' + hx(b'~nouser')], True),
    ('validate', [STATE], ['validate 0 %s 0' % hx(b'sec|a'), 'validate2 0 %s 0' % hx(b'm|a'), 'printfunc 0 %s 0' % hx(b'i')], True),
]
# the same setter workloads on options that are no longer pristine, with the tree dumped around every call (clause: a call
# that reports failure and leaves every value as it was leaves the markers as they were too)
NONPRISTINE = [STATE, 'setlist 0 736c str %s %s' % (hx(b'alpha'), hx(b'beta')), 'setint 0 69 3 0', 'setstr 0 73 %s 0' % hx(b'old'),
               'addlist 0 %s str %s' % (hx(b't=one|l'), hx(b'v'))]


def traced(ops):
    out = ['dump 0']
    for o in ops:
        out += [o, 'dump 0']
    return out


WORKLOADS += [
    ('lists-traced', NONPRISTINE, traced(['setlist 0 736c str %s %s' % (hx(b'x'), hx(b'y')), 'setstr 0 736c %s 1' % hx(b'patched'), 'addlist 0 736c str %s' % hx(b'z'),
                                          'setlist 0 %s str %s' % (hx(b't=one|l'), hx(b'w')), 'setstr 0 %s %s 0' % (hx(b't=one|l'), hx(b'u'))]), True),
    ('setters-traced', NONPRISTINE, traced(['setstr 0 73 %s 0' % hx(b'new'), 'setint 0 69 9 0', 'setmulti 0 736c %s %s' % (hx(b'p'), hx(b'q')), 'setstr 0 736c %s 0' % hx(b'r'),
                                            'setopt 0 736c %s' % hx(b'elem'), 'setstr 0 736c %s 1' % hx(b's2'), 'setcomment 0 736c %s' % hx(b'c'), 'setstr 0 736c %s 0' % hx(b's3')]), True),
    ('tilde-searchpath', ['passwd %s %s' % (hx(b'bob'), hx(b'@R/home/bob')), 'file %s file %s' % (hx(b'home/bob/dir/f.conf'), hx(b'i = 4\n'))],
     ['searchpath 0 ' + hx(b'~bob/dir'), 'lookup 0 ' + hx(b'f.conf'), 'tilde ' + hx(b'~bob/dir/f.conf')], True),
]
AFTER = ['dump 0', 'print 0 0', 'parse_buf 0 ' + hx(b'i = 1\nm { a = 2 }\nsl += {k}\n'), 'dump 0', 'free 0', 'live']
KMAX = 70


def scenario(name, pre, ops, needs_ctx, k):
    lines = ['schema 0 ' + gen.schema_sexpr(SCHEMA)] + PREP
    if needs_ctx:
        lines.append('init 0 0 0')
    lines += pre
    first = len(lines)
    lines.append('failalloc %d' % k)
    lines += ops
    lines.append('failalloc 0')
    after = len(lines)
    lines += AFTER
    return Scn('%s@%d' % (name, k), lines, {'class': name, 'k': k, 'first': first + 1, 'after': after, 'nops': len(ops), 'workload': name})


# ---- the instances of the explicit-heap model (coq/Oom.v Part III): one library call each, every fault index;
# the library's outcome (failure reported / call done) must be the one the extracted model table predicts
T6 = [Opt('int', b'a', 0, 0), Opt('str', b'b', 0, b'x'), Opt('strl', b'l', 0, b'{p}')]
T61 = [Opt('sec', b's', 0, None, [Opt('int', b'i', 0, 0), Opt('str', b't', 0, b'x')]), Opt('str', b'b', 0, b'x')]
ONE = [Opt('str', b'b', F['NODEFAULT'], None)]
# instance -> (schema, commands before, the call, how to read the outcome: regex on its result line that means `done`, kmax compared)
INSTANCES = {
    2: (ONE, ['init 0 0 0'], 'setstr 0 62 %s 0' % hx(b'v'), r'rc=0 ', 8),
    21: (ONE, ['init 0 0 0', 'setstr 0 62 %s 0' % hx(b'u')], 'setstr 0 62 %s 0' % hx(b'v'), r'rc=0 ', 8),
    3: (ONE, ['init 0 0 0'], 'setcomment 0 62 %s' % hx(b'c'), r'rc=0 ', 8),
    4: (ONE, ['init 0 0 0'], 'searchpath 0 ' + hx(b'/etc'), r'rc=0 ', 8),
    41: (ONE, ['passwd %s %s' % (hx(b'root'), hx(b'/root')), 'init 0 0 0'], 'searchpath 0 ' + hx(b'~root/x'), r'rc=0 ', 8),
    # cfg_init = the modelled part (context + private copy of the declarations) followed by cfg_init_defaults, which
    # allocates further: only the fault indices of the modelled part are compared
    7: (T6, [], 'init 0 0 0', r'rc=ptr', 8),
    71: (T61, [], 'init 0 0 0', r'rc=ptr', 10),
}


def instance_scenario(inst, k):
    schema, pre, call, done, kmax = INSTANCES[inst]
    lines = ['schema 0 ' + gen.schema_sexpr(schema)] + pre
    first = len(lines)
    lines += ['failalloc %d' % k, call, 'failalloc 0']
    after = len(lines)
    lines += (['dump 0', 'free 0'] if inst not in (7, 71) else ['free 0']) + ['live']
    return Scn('inst%d@%d' % (inst, k), lines, {'class': 'model-instance-%d' % inst, 'k': k, 'first': first + 1, 'after': after, 'nops': 1,
                                                'workload': 'inst%d' % inst, 'inst': inst, 'done': done})


def generate(rng, tier):
    for inst, spec in INSTANCES.items():
        for k in range(0, spec[4] + 1):
            yield instance_scenario(inst, k)
    wl = WORKLOADS if tier == 'thorough' else WORKLOADS
    kmax = KMAX if tier == 'thorough' else 45
    for name, pre, ops, needs in wl:
        for k in range(0, kmax + 1):
            yield scenario(name, pre, ops, needs, k)


def nontrivial(scn, il):
    return scn.meta['k'] > 0


def oracle(scn, il):
    if not il:
        return [('no-result', scn.id)]
    tr = il[-1]
    body = il[:-1] if tr.startswith('--- ') else il
    name, k = scn.meta['workload'], scn.meta['k']
    if 'status=exit:0' not in tr or 'san=-' not in tr:
        m = re.search(r'status=(\S+) san=(\S+)', tr)
        what = (m.group(2) if m and m.group(2) != '-' else (m.group(1) if m else 'crash'))
        what = re.sub(r'\d+', 'N', what) if what.startswith('exit') or what.startswith('signal') else what
        cmd = scn.lines[len(body)].split()[0] if len(body) < len(scn.lines) else 'exit'
        return [('oom:%s' % what, '%s: allocation #%d failing: %s while executing `%s`' % (scn.id, k, tr, scn.lines[len(body)][:60] if len(body) < len(scn.lines) else 'exit'))]
    if body and body[-1].startswith('live ') and body[-1] != 'live blocks=0 files=0':
        return [('oom:leak', '%s: allocation #%d failing: after freeing everything %s' % (scn.id, k, body[-1]))]
    if 'inst' in scn.meta:
        # correspondence with the proved model: failure is reported exactly for the fault indices of the extracted table
        global OOM_TABLE
        if OOM_TABLE is None:
            import common
            OOM_TABLE = common.oom_table()
        inst = scn.meta['inst']
        res = body[scn.meta['first']]
        got_done = re.search(scn.meta['done'], res + ' ') is not None
        want_done = k not in OOM_TABLE[inst]
        if got_done != want_done:
            return [('tie:oom-model:inst%d' % inst, '%s: with allocation #%d failing the library %s, the model (coq/Oom.v, theorem C18_* of this call) says it %s: %s' % (
                scn.id, k, 'completes' if got_done else 'reports failure', 'completes' if want_done else 'reports failure', res[:120]))]
    return []


OOM_TABLE = None


def cross_oracle(scns, impl):
    """the call either completes or reports failure: when every call of the fault window answers exactly as in the
    fault-free run (k = 0) of the same workload, the state afterwards is the fault-free state"""
    base = {}
    for s in scns:
        if s.meta['k'] == 0 and 'inst' not in s.meta:
            base[s.meta['workload']] = impl.get(s.id) or []
    out = []
    for s in scns:
        if s.meta['k'] == 0 or 'inst' in s.meta:
            continue
        il, b = impl.get(s.id) or [], base.get(s.meta['workload']) or []
        if not il or 'status=exit:0' not in il[-1] or not b:
            continue
        f, a = s.meta['first'], s.meta['after']
        if len(il) <= a or len(b) <= a:
            continue
        # a lookup answers as without the fault or reports that it found nothing; never something else
        for j in range(f, a - 1):
            cmd = s.lines[j].split()[0]
            if cmd in ('getsec', 'getopt', 'size', 'tilde', 'lookup') and j < len(il) and il[j] != b[j]:
                strip = lambda l: re.sub(r' diags=\[[^\]]*\]', '', l)
                if strip(il[j]) != strip(b[j]) and not re.search(r'target=null|n=0\b|rc=-1|res=-( |$)', il[j]):
                    out.append((s.id, 'oom:wrong-lookup:' + s.meta['workload'], '%s: with allocation #%d failing `%s` answers %s (fault-free: %s)' % (
                        s.id, s.meta['k'], s.lines[j][:60], il[j][:120], b[j][:120])))
                    break
        # a call that reports failure and leaves every value as it was leaves the markers (flags) as they were too
        vals = lambda d: re.sub(r'\(opt (\S+) (\S+) (\d+) \d \d \d ', r'(opt \1 \2 \3 ? ? ? ', d)
        for j in range(f + 1, a - 2):
            if s.lines[j - 1] == 'dump 0' and s.lines[j + 1] == 'dump 0' and j + 1 < len(il) and re.search(r'rc=(-1|null|1) ', il[j] + ' '):
                if il[j - 1] != il[j + 1] and vals(il[j - 1]) == vals(il[j + 1]):
                    i = next((i for i, (x, y) in enumerate(zip(il[j - 1], il[j + 1])) if x != y), 0)
                    out.append((s.id, 'oom:failed-call-left-markers:' + s.meta['workload'], '%s: with allocation #%d failing `%s` reports failure and changes no value, but a marker changed near\n  %s\n  %s' % (
                        s.id, s.meta['k'], s.lines[j][:60], il[j - 1][max(0, i - 100):i + 40], il[j + 1][max(0, i - 100):i + 40])))
                    break
        if il[f:a - 1] == b[f:a - 1] and il[a] != b[a]:
            i = next((i for i, (x, y) in enumerate(zip(il[a], b[a])) if x != y), 0)
            out.append((s.id, 'oom:success-but-incomplete:' + s.meta['workload'], '%s: with allocation #%d failing every call reports what it reports without a fault, but the state differs near\n  %s\n  %s' % (
                s.id, s.meta['k'], il[a][max(0, i - 120):i + 80], b[a][max(0, i - 120):i + 80])))
    return out
