"""C10 — a rejected update leaves the option exactly as it was.

Every reachable option state (pristine default, explicitly set, emptied, annotated, list of n, parsed) x every refusing
call (bulk set with an unconvertible element at every position, setter vetoed by its validation callback, wrong type,
illegal index, section add with an existing title, removal of a missing section, set-from-text with bad text).
Oracle: the call reports failure and the complete tree dump (values, count, order, annotation, RESET/MODIFIED/DEFINIT bits)
is identical before and after."""
import re
from common import Scn, hx, Opt, CFGF
import gen

VARIANT = 'plain'
RULE = ('option states (7 preparations) x refusing calls (bulk set with the bad element at every position of lists of length '
        '1..5, veto, wrong type, illegal index, section add/remove refusals, bad text); non-trivial = the preparation changed '
        'the option; distinct by scenario text')
F = CFGF
SCHEMA = [Opt('int', b'i', 0, 7, cbs=()), Opt('intl', b'il', 0, b'{1,2}'), Opt('str', b's', 0, b'd'), Opt('bool', b'b', 0, 1),
          Opt('boll', b'bl', 0, None) if False else Opt('booll', b'bl', 0, b'{true}'),
          Opt('sec', b't', F['MULTI'] | F['TITLE'], None, [Opt('int', b'a', 0, 1)]),
          Opt('sec', b'm', F['MULTI'], None, [Opt('int', b'a', 0, 1)]), Opt('flt', b'f', 0, 0.5), Opt('strl', b'sl', 0, b'{x, y}')]

PREPS = {
    'pristine': [],
    'set': ['setint 0 69 9 0', 'setlist 0 696c int 4 5 6', 'setstr 0 73 %s 0' % hx(b'val'), 'addlist 0 736c str %s' % hx(b'z')],
    'emptied': ['setlist 0 696c int', 'parse_buf 0 ' + hx(b'sl = {}\nbl = {}\n')],
    'annotated-pristine': ['setcomment 0 69 %s' % hx(b'note i'), 'setcomment 0 696c %s' % hx(b'note il'), 'setcomment 0 73 %s' % hx(b'n')],
    'annotated-set': ['setint 0 69 9 0', 'setlist 0 696c int 4 5', 'setcomment 0 69 %s' % hx(b'note i'),
                      'setcomment 0 696c %s' % hx(b'note il'), 'setcomment 0 736c %s' % hx(b'c')],
    'parsed': ['parse_buf 0 ' + hx(b'i = 3\nil = {8, 9}\ns = "p"\nt x { a = 2 }\nt y { }\nm { }\nm { a = 5 }\n')],
    'parsed-append': ['parse_buf 0 ' + hx(b'il += {3}\nsl += {w}\nt x { }\n')],
}


def refusing_calls():
    calls = []
    good_i = [b'1', b'0x10', b'-3', b'017', b'5']
    for n in (1, 2, 3, 5):
        for p in range(n):
            for bad in (b'zz', b'', b'9223372036854775808'):
                vals = good_i[:n]
                vals[p] = bad
                calls.append(('setmulti-bad@%d/%d' % (p, n), 'setmulti 0 696c ' + ' '.join(hx(v) for v in vals), 'rc=-1'))
    calls += [('setmulti-bad-scalar', 'setmulti 0 69 %s' % hx(b'x1'), 'rc=-1'),
              ('setmulti-bad-bool', 'setmulti 0 626c %s %s' % (hx(b'yes'), hx(b'maybe')), 'rc=-1'),
              ('setmulti-bad-float', 'setmulti 0 66 %s' % hx(b'1.5x'), 'rc=-1'),
              ('setmulti-none', 'setmulti 0 696c', 'rc=-1'),
              ('wrong-type', 'setstr 0 69 %s 0' % hx(b'x'), 'rc=-1'), ('wrong-type', 'setint 0 73 5 0', 'rc=-1'),
              ('wrong-type', 'setbool 0 696c 1 0', 'rc=-1'), ('wrong-type', 'setfloat 0 62 3ff0000000000000 0', 'rc=-1'),
              ('illegal-index', 'setint 0 69 5 1', 'rc=-1'), ('illegal-index', 'setstr 0 73 %s 3' % hx(b'x'), 'rc=-1'),
              ('illegal-index', 'setbool 0 62 0 4294967295', 'rc=-1'),
              ('not-a-list', 'setlist 0 69 int 1 2', 'rc=-1'), ('not-a-list', 'addlist 0 73 str %s' % hx(b'x'), 'rc=-1'),
              ('unknown-name', 'setint 0 %s 5 0' % hx(b'nosuch'), 'rc=-1'), ('unknown-name', 'setmulti 0 %s %s' % (hx(b't=zz|a'), hx(b'1')), 'rc=-1'),
              ('addtsec-existing', 'addtsec 0 74 %s' % hx(b'x'), 'rc=null'), ('addtsec-non-section', 'addtsec 0 69 %s' % hx(b'x'), 'rc=null'),
              ('addtsec-unknown', 'addtsec 0 %s %s' % (hx(b'nosuch'), hx(b'x')), 'rc=null'),
              ('rm-missing', 'rmtsec 0 74 %s' % hx(b'nope'), 'rc=-1'), ('rm-missing', 'rmnsec 0 6d 9', 'rc=-1'),
              ('rm-missing', 'rmsec 0 %s' % hx(b't=nope'), 'rc=-1'), ('rm-missing', 'rmsec 0 %s' % hx(b'm=7'), 'rc=-1'),
              ('rm-missing', 'rmtsec 0 6d %s' % hx(b'x'), 'rc=-1'), ('rm-missing', 'rmnsec 0 69 0', 'rc=-1'),
              ('setcomment-null', 'setcomment 0 69 -', 'rc=-1'),
              ('setopt-text', 'setopt 0 69 %s' % hx(b'x'), 'rc=null'), ('setopt-text', 'setopt 0 696c %s' % hx(b'x'), 'rc=null'),
              ('setopt-text', 'setopt 0 62 %s' % hx(b'maybe'), 'rc=null'), ('setopt-text', 'setopt 0 66 %s' % hx(b'1.5x'), 'rc=null'),
              ('setopt-text', 'setopt 0 69 -', 'rc=null')]
    # vetoes: validate2 on the option, the next callback invocation fails
    for name, setter in ((b'i', 'setint 0 69 5 0'), (b'il', 'setint 0 696c 5 1'), (b'f', 'setfloat 0 66 4000000000000000 0'),
                         (b's', 'setstr 0 73 %s 0' % hx(b'new'))):
        calls.append(('veto', ['validate2 0 %s 0' % hx(name), 'failat 1', setter], 'rc=-1'))
    # the title that is the empty string exists like any other
    calls.append(('addtsec-existing-empty', ['parse_buf 0 ' + hx(b't "" { a = 4 }\n'), 'addtsec 0 74 %s' % hx(b'')], 'rc=null'))
    calls.append(('addtsec-existing-empty', ['addtsec 0 74 %s' % hx(b''), 'setint 0 %s 6 0' % hx(b"t=''|a"), 'addtsec 0 74 %s' % hx(b'')], 'rc=null'))
    # a PARSE-time validator is armed to refuse: whatever a by-name setter does about it, a setter that reports failure
    # has changed nothing (want None: the call may succeed)
    for name, setter in ((b'i', 'setint 0 69 5 0'), (b'il', 'setint 0 696c 5 1'), (b'il', 'setint 0 696c 5 7'), (b'f', 'setfloat 0 66 4000000000000000 0'),
                         (b's', 'setstr 0 73 %s 0' % hx(b'new')), (b'b', 'setbool 0 62 0 0'), (b'sl', 'setstr 0 736c %s 0' % hx(b'q')),
                         (b'il', 'addlist 0 696c int 3 4'), (b'il', 'setlist 0 696c int 3 4'), (b'il', 'setmulti 0 696c %s' % hx(b'3'))):
        calls.append(('parse-validator-armed', ['validate 0 %s 0' % hx(name), 'failat 1', setter], None))
    return calls


def generate(rng, tier):
    n = 0
    calls = refusing_calls()
    for pname, prep in PREPS.items():
        for kind, call, want in calls:
            n += 1
            if kind == 'addtsec-existing' and not pname.startswith('parsed'):
                continue
            pre = call[:-1] if isinstance(call, list) else []
            c = call[-1] if isinstance(call, list) else call
            lines = gen.prelude(SCHEMA, 0) + prep + pre + ['dump 0', c, 'dump 0']
            yield Scn('c%d' % n, lines, {'class': '%s/%s' % (pname, kind.split('@')[0]), 'kind': kind, 'want': want,
                                        'prepared': bool(prep)})


def nontrivial(scn, il):
    return scn.meta['prepared']


def oracle(scn, il):
    body = il[:-1] if il and il[-1].startswith('--- ') else il
    if len(body) < 3:
        return [('no-result', scn.id)]
    before, res, after = body[-3], body[-2], body[-1]
    out = []
    kind = scn.meta['kind'].split('@')[0]
    if scn.meta['want'] is None:
        if re.search(r'rc=(-1|null) ', res + ' ') and before != after:
            out.append(('changed:' + kind, '%s: `%s` reports failure but changed the tree\n before %s\n after  %s' % (scn.id, scn.lines[-2], before[:900], after[:900])))
    elif scn.meta['want'] + ' ' not in res + ' ':
        out.append(('not-refused:' + kind, '%s: `%s` was expected to be refused (%s): %s' % (scn.id, scn.lines[-2], scn.meta['want'], res[:150])))
    elif before != after:
        out.append(('changed:' + kind, '%s: refused `%s` changed the tree\n before %s\n after  %s' % (scn.id, scn.lines[-2], before[:900], after[:900])))
    return out
