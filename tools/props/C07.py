"""C07 — everything acquired is released exactly once on every path.

Valid texts and, for each, the text cut and corrupted at every token position (inside call arguments, lists, nested
sections, included files), API call sequences with and without a search path, annotations and pointer-valued options;
every context is freed explicitly.  Oracles: AddressSanitizer/LeakSanitizer verdict (no leak, double free or use after
release), every user pointer handed to the release callback exactly once, no file handle left open (count variant)."""
import re
from common import Scn, hx, Opt, CFGF
import gen

VARIANT = 'asan'
EXTRA_VARIANTS = ['count']
RULE = ('valid texts x every token cut/corruption point x {search path, none}; API sequences up to length 6; all contexts freed; '
        'non-trivial = the scenario creates at least one user pointer or include or aborts a parse; distinct by scenario text')
F = CFGF

SUB = [Opt('ptr', b'p', 0, cbs=('parse:1',)), Opt('ptrl', b'pl', 0, None, cbs=('parse:2',)), Opt('str', b's', 0, b'sd'),
       Opt('func', b'include', func='include'), Opt('sec', b'in', F['MULTI'] | F['TITLE'], None, [Opt('ptr', b'q', 0, cbs=('parse:0',))])]
SCHEMA = [Opt('int', b'i', 0, 7), Opt('str', b's', 0, b'd'), Opt('strl', b'sl', 0, b'{a, b}'), Opt('ptr', b'p', 0, cbs=('parse:0',)),
          Opt('ptrl', b'pl', 0, b'{d1, d2}', cbs=('parse:3',)), Opt('sec', b'sec', 0, None, SUB), Opt('sec', b'm', F['MULTI'], None, SUB),
          Opt('sec', b't', F['MULTI'] | F['TITLE'], None, SUB), Opt('func', b'include', func='include'), Opt('func', b'fn', func='user:0')]
TEXTS = [
    b'p = a pl = { b , c , d } pl += { e } sec { p = f pl = { g } in x { q = h } } m { p = i } m { pl = { j , k } } t one { p = l } t one { p = m2 }',
    b'fn ( a , "b c" , d ) s = "x" sl += { y , z } include ( "inc.conf" ) p = n p = o pl = { } sec { include ( "inc2.conf" ) s = q }',
    b'/* note */ i = 5 # c\n t a { in b { q = r } in b { q = s } } t a { } pl = { u } i = 6',
    # the same sections re-opened from another input (file names recorded per section are replaced, not leaked)
    b'p = x include ( "deep1.conf" ) p = never',
    b'sec { s = a p = s1 } include ( "inc3.conf" ) sec { s = b } t one { p = z } include ( "inc3.conf" ) sec { include ( "inc3.conf" ) }',
    # the include depth is exhausted (a file that includes itself), at the top level and from inside a section
    b'p = a include ( "self.conf" ) p = never',
    b'sec { p = b include ( "selfsec.conf" ) } p = never',
    # annotations pending in front of items that are skipped (CFGF_COMMENTS | CFGF_IGNORE_UNKNOWN)
    b'/* c1 */ unk = 1 # c2\n unk2 { /* c3 */ x = 1 } /* c4 */ i = 2 # c5\n unk3 ( a ) /* c6 */ /* c7 */ unk4 += { 1 } # c8\n p = z /* c9 */ unk5 t { }',
    # ... and names that are paths whose section step does not resolve
    b'ghost|port = 1 "m=7|p" = x "t=nosuch|pl" = { a } "sec|in=zz|q" = y p = v ghost|sub { a = 1 }',
]
TEXT_FLAGS = {2: F['COMMENTS'], 7: F['COMMENTS'] | F['IGNORE_UNKNOWN'], 8: F['IGNORE_UNKNOWN']}
TOKEN = re.compile(rb'"[^"]*"|/\*.*?\*/|#[^\n]*\n|\+=|[{}()=,]|[^\s{}()=,]+', re.S)
FILES = ['file %s file %s' % (hx(b'inc.conf'), hx(b'p = inc1\npl += {inc2}\n')), 'file %s file %s' % (hx(b'inc2.conf'), hx(b'p = inc3\n')),
         'file %s file %s' % (hx(b'inc3.conf'), hx(b'sec { p = incsec in x { q = i3 } }\nt one { pl += {i4} }\n')),
         'file %s file %s' % (hx(b'deep1.conf'), hx(b'p = d1\ninclude("deep2.conf")\n')),
         'file %s file %s' % (hx(b'deep2.conf'), hx(b'pl += {d2}\ninclude("deep3.conf")\n')),
         'file %s file %s' % (hx(b'deep3.conf'), hx(b'p = d3\ni = = 1\n')),
         'file %s file %s' % (hx(b'self.conf'), hx(b'pl += {s1}\ninclude("self.conf")\n')),
         'file %s file %s' % (hx(b'selfsec.conf'), hx(b'p = s2\ninclude("selfsec.conf")\n')),
         'file %s dir' % hx(b'spdir'), 'file %s file %s' % (hx(b'spdir/only.conf'), hx(b'i = 1\n'))]


def scenario(sid, text, sp, flags, cls, api=()):
    lines = gen.prelude(SCHEMA, flags) + FILES
    if sp:
        lines += ['searchpath 0 ' + hx(b'.'), 'searchpath 0 ' + hx(b'spdir')]
    if text is not None:
        lines.append('parse_buf 0 ' + hx(text))
    lines += list(api)
    lines += ['free 0', 'live']
    return Scn(sid, lines, {'class': cls, 'interesting': True})


def generate(rng, tier):
    r = rng.fork('C07')
    n = 0
    for ti, text in enumerate(TEXTS):
        toks = TOKEN.findall(text)
        for sp in (False, True):
            n += 1
            yield scenario('full%d' % n, b' '.join(toks), sp, TEXT_FLAGS.get(ti, 0), 'valid')
            for k in range(len(toks)):
                if tier == 'quick' and (k + ti + sp) % 2:
                    continue
                n += 1
                yield scenario('cut%d' % n, b' '.join(toks[:k]), sp, TEXT_FLAGS.get(ti, 0) if ti >= 7 else 0, 'cut')
                n += 1
                bad = r.pick([b'}', b'{', b'=', b',', b')', b'(', b'"unterminated', b'bogus'])
                yield scenario('bad%d' % n, b' '.join(toks[:k] + [bad] + toks[k + 1:]), sp, TEXT_FLAGS.get(ti, 0) if ti >= 7 else 0, 'corrupted')
    api_calls = ['setopt 0 %s %s' % (hx(b'p'), hx(b'v1')), 'setopt 0 %s %s' % (hx(b'pl'), hx(b'v2')), 'setmulti 0 %s %s %s' % (hx(b'pl'), hx(b'a'), hx(b'b')),
                 'setmulti 0 %s %s' % (hx(b'p'), hx(b'c')), 'addtsec 0 %s %s' % (hx(b't'), hx(b'n1')), 'setopt 0 %s %s' % (hx(b't=n1|p'), hx(b'v3')),
                 'rmtsec 0 %s %s' % (hx(b't'), hx(b'n1')), 'rmsec 0 ' + hx(b'm=0'), 'rmnsec 0 %s 0' % hx(b'm'), 'rmsec 0 ' + hx(b'sec'),
                 'setcomment 0 %s %s' % (hx(b'sl'), hx(b'note')), 'setmulti 0 %s %s %s' % (hx(b'sl'), hx(b'x'), hx(b'y')), 'setlist 0 %s str %s' % (hx(b'sl'), hx(b'z')),
                 'parse_buf 0 ' + hx(b'm { p = w pl += {x} }\n'), 'parse_buf 0 ' + hx(b'pl = {'), 'parse_buf 0 ' + hx(b'include("inc.conf")\n'),
                 'parse_file 0 ' + hx(b'only.conf'), 'setstr 0 %s - 0' % hx(b's'), 'print 0 0', 'setopt 0 %s %s' % (hx(b'sec|p'), hx(b'v4')),
                 'parse_file 0 ' + hx(b'inc3.conf'), 'parse_buf 0 ' + hx(b'sec { in x { } }\nt one { }\n'), 'parse_buf 0 ' + hx(b'sec { in x {'),
                 'setstr_self 0 %s 1 0' % hx(b's'), 'setstr_self 0 %s 0 1' % hx(b'sl'), 'setstr_self 0 %s 2 0' % hx(b'sec|s'),
                 'failat 1', 'failat 2', 'failat 0', 'parse_buf 0 ' + hx(b'include("deep1.conf")\n'), 'parse_buf 0 ' + hx(b'sec { include("deep2.conf") }\n'),
                 'parse_buf 0 ' + hx(b'include("self.conf")\n'), 'parse_file 0 ' + hx(b'selfsec.conf'),
                 'getopt 0 ' + hx(b'ghost|port'), 'getsec 0 ' + hx(b'm=7'), 'getv 0 str %s 0' % hx(b't=zz|p'), 'rmsec 0 ' + hx(b"t='no such'"), 'setint 0 %s 1 0' % hx(b'ghost|i'),
                 'setint 0 %s 1 0' % hx(b'i'), 'setmulti 0 %s %s %s' % (hx(b'pl'), hx(b'ok'), hx(b'-'))]
    # directed: an annotated option whose value was given explicitly, then bulk sets that succeed and that fail
    for k, calls in enumerate((['setlist 0 %s str %s' % (hx(b'sl'), hx(b'z')), 'setcomment 0 %s %s' % (hx(b'sl'), hx(b'note')), 'setmulti 0 %s %s %s' % (hx(b'sl'), hx(b'x'), hx(b'y')),
                                'setmulti 0 %s %s' % (hx(b'sl'), hx(b'p')), 'print 0 0'],
                               ['setint 0 %s 4 0' % hx(b'i'), 'setcomment 0 %s %s' % (hx(b'i'), hx(b'n')), 'setmulti 0 %s %s' % (hx(b'i'), hx(b'7')), 'setmulti 0 %s %s' % (hx(b'i'), hx(b'zz')),
                                'setmulti 0 %s %s' % (hx(b'i'), hx(b'8'))],
                               ['setopt 0 %s %s' % (hx(b'pl'), hx(b'v')), 'setcomment 0 %s %s' % (hx(b'pl'), hx(b'c')), 'setmulti 0 %s %s %s' % (hx(b'pl'), hx(b'a'), hx(b'b')),
                                'setmulti 0 %s %s' % (hx(b'pl'), hx(b'c')), 'setcomment 0 %s %s' % (hx(b'pl'), hx(b'd'))])):
        for text, fl in ((None, 0), (TEXTS[2], F['COMMENTS'])):
            n += 1
            yield scenario('apid%d' % n, text, False, fl, 'api-directed', calls)
    # a user pointer is replaced, and the parse callback asked for the new value REFUSES: the old value stays, once
    for calls in (['setopt 0 %s %s' % (hx(b'p'), hx(b'v1')), 'failat 1', 'setopt 0 %s %s' % (hx(b'p'), hx(b'v2')), 'failat 0', 'setopt 0 %s %s' % (hx(b'p'), hx(b'v3'))],
                  ['setopt 0 %s %s' % (hx(b'pl'), hx(b'a')), 'failat 1', 'setmulti 0 %s %s %s' % (hx(b'pl'), hx(b'b'), hx(b'c')), 'failat 0', 'print 0 0'],
                  ['setopt 0 %s %s' % (hx(b'sec|p'), hx(b'w1')), 'failat 1', 'parse_buf 0 ' + hx(b'sec { p = w2 }\n'), 'failat 0', 'parse_buf 0 ' + hx(b'sec { p = w3 }\n')],
                  ['parse_buf 0 ' + hx(b'p = u1\n'), 'failat 1', 'parse_buf 0 ' + hx(b'p = u2\n'), 'failat 0']):
        n += 1
        yield scenario('apir%d' % n, None, False, 0, 'api-directed', calls)
    for _ in range(150 if tier == 'quick' else 4000):
        n += 1
        yield scenario('api%d' % n, r.pick([None, TEXTS[0], TEXTS[2]]), r.chance(1, 2), r.pick([0, F['COMMENTS'], F['IGNORE_UNKNOWN'], F['IGNORE_UNKNOWN'] | F['COMMENTS']]), 'api',
                       [r.pick(api_calls) for _ in range(1 + r.below(6))])


def nontrivial(scn, il):
    return True


def oracle(scn, il):
    if not il:
        return [('no-result', scn.id)]
    tr = il[-1]
    body = il[:-1] if tr.startswith('--- ') else il
    if 'status=exit:0' not in tr or 'san=-' not in tr:
        m = re.search(r'status=(\S+) san=(\S+)', tr)
        key = 'sanitizer:' + (re.sub(r'\d+', 'N', m.group(2)) if m and m.group(2) != '-' else (m.group(1) if m else 'crash'))
        return [(key, '%s: %s (after %d result lines)' % (scn.id, tr, len(body)))]
    # user pointers: every value produced by a non-failed ptr parse callback is released exactly once
    created = 0
    freed = []
    ptr_names = {hx(b'p'), hx(b'pl'), hx(b'q')}
    for l in body:
        m = re.search(r'cbs=\[([^\]]*)\]', l)
        if not m:
            continue
        for e in m.group(1).split(';'):
            if e.startswith('x:'):
                freed.append(e[2:])
            elif e.startswith('p') and not e.endswith('!') and e.split(':')[1] in ptr_names:
                created += 1
    out = []
    if 'bad' in freed:
        out.append(('release:bad-pointer', '%s: the release callback got a block it had already released or never created' % scn.id))
    if len(set(freed)) != len(freed):
        out.append(('release:twice', '%s: a user pointer was released twice: %s' % (scn.id, freed)))
    elif len(freed) != created:
        out.append(('release:count', '%s: %d user pointers created, %d released (%s)' % (scn.id, created, len(freed), freed)))
    return out


def extra_select(scn, variant):
    return True


def oracle_variant(scn, il, variant):
    body = il[:-1] if il and il[-1].startswith('--- ') else il
    if not body or not body[-1].startswith('live blocks='):
        return [('no-result', '%s (count): %s' % (scn.id, il[-1] if il else 'nothing'))]
    if body[-1] != 'live blocks=0 files=0':
        return [('leak:' + body[-1].replace('live ', '').replace(' ', ','), '%s: after freeing the context: %s' % (scn.id, body[-1]))]
    return []
