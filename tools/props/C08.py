"""C08 — a parse depends only on its own input, not on earlier parses.

Exhaustive histories (length bound) over an alphabet of prior events — an accepted parse, every kind of aborted parse
(inside "...", '...', a comment, ${, an escape, an included file, include depth exhausted, a range error, a callback veto),
context free / re-init, switching between two contexts — followed by a fixed probe set.  Oracle: the probe results
(return codes, diagnostics, tree dumps, token dumps) equal those of the same probes in a fresh process."""
import re
from common import Scn, hx, Opt, CFGF
import gen

VARIANT = 'asan'
COMPARE_LINES = True      # line numbers in diagnostics are part of this property
RULE = ('all event sequences up to a length bound over 16 prior events, then 7 probes; baseline = probes alone in a fresh process; '
        'non-trivial = the history contains at least one aborted parse; distinct by history')
F = CFGF
SCHEMA = [Opt('int', b'i', 0, 7), Opt('str', b's', 0, b'd'), Opt('intl', b'il', 0, b'{1}'),
          Opt('sec', b'sec', 0, None, [Opt('int', b'a', 0, 1)]), Opt('func', b'include', func='include'),
          Opt('int', b'v', 0, 0, cbs=('valid:0',)), Opt('sec', b'mm', F['MULTI'], None, [Opt('int', b'a', 0, 1)]),
          Opt('int', b'old', F['DEPRECATED'], 1), Opt('intl', b'gone', F['DEPRECATED'] | F['DROP'], b'{1}')]
FILES = ['file %s file %s' % (hx(b'bad.conf'), hx(b'i = 1\nbogus = = 2\n')), 'file %s file %s' % (hx(b'open.conf'), hx(b's = "abc\n')),
         'file %s file %s' % (hx(b'self.conf'), hx(b'include("self.conf")\n')), 'file %s file %s' % (hx(b'good.conf'), hx(b'i = 42\n')),
         'file %s file %s' % (hx(b'opensec.conf'), hx(b'sec { a = 5\n'))]

EVENTS = {
    'ok': ['parse_buf 0 ' + hx(b'i = 3\ns = "x"\n')],
    'ok-long': ['parse_buf 0 ' + hx(b's = "' + b'L' * 100 + b'"\n# ' + b'c' * 80 + b'\n')],
    'ok-include': ['parse_buf 0 ' + hx(b'include("good.conf")\n')],
    'ok-deprecated': ['parse_buf 0 ' + hx(b'gone = {3}\nold = 2\n# the same option is assigned again by the first probe that follows\n')],
    'abort-dq': ['parse_buf 0 ' + hx(b's = "abc')],
    'abort-sq': ['parse_buf 0 ' + hx(b"s = 'abc")],
    'abort-comment': ['parse_buf 0 ' + hx(b'i = 2 /* abc')],
    'abort-env': ['parse_buf 0 ' + hx(b's = "${abc')],
    'abort-escape': ['parse_buf 0 ' + hx(b's = "a\\400b" i = 9')],
    'abort-syntax': ['parse_buf 0 ' + hx(b'il = {1, 2 3}')],
    'abort-in-include': ['parse_buf 0 ' + hx(b'include("bad.conf")\n')],
    'abort-open-include': ['parse_buf 0 ' + hx(b'include("open.conf")\n')],
    'abort-opensec-include': ['parse_buf 0 ' + hx(b'include("opensec.conf")\n')],
    'abort-depth': ['parse_buf 0 ' + hx(b'include("self.conf")\n')],
    'abort-range': ['parse_buf 0 ' + hx(b'i = 99999999999999999999\n'), 'setmulti 0 69 %s' % hx(b'99999999999999999999')],
    'abort-veto': ['failat 1', 'parse_buf 0 ' + hx(b'v = 1\ni = 5\n'), 'failat 0'],
    # the stream reports a read error: between tokens, inside a string, inside a comment, before anything
    'abort-readerr': ['parse_fpfail 0 ' + hx(b'i = 4\n')],
    'abort-readerr-dq': ['parse_fpfail 0 ' + hx(b's = "abc')],
    'abort-readerr-sq': ['parse_fpfail 0 ' + hx(b"s = 'abc")],
    'abort-readerr-comment': ['parse_fpfail 0 ' + hx(b'i = 2 /* abc')],
    'abort-readerr-empty': ['parse_fpfail 0 .'],
    'reinit': ['free 0', 'init 0 0 0'],
    'other-ctx': ['parse_buf 1 ' + hx(b'i = 77\ns = "other'), 'parse_buf 1 ' + hx(b'il += {5}\n')],
}
BARE = [Opt('sec', b'mm', F['MULTI'], None, [Opt('int', b'a', 0, 1)]), Opt('str', b's', 0, b'd')]
PROBES = [  # first of all, in a context whose creation converts no number: a section INDEX inside an option path is
          # converted before any value (whatever errno the history left behind is still there)
          'init 4 1 0', 'parse_buf 4 ' + hx(b'mm { }\nmm { }\n"mm=1|a" = 7\n"mm=0x0|a" = 8\n'), 'dump 4',
          # deprecated options assigned again (before any cfg_init of a schema with a deprecated list default handles one)
          'parse_buf 0 ' + hx(b'\nold = 5\n'), 'parse_buf 0 ' + hx(b'gone = {1, 2}\n\ni = 2'), 'init 2 0 0',
          'parse_buf 2 ' + hx(b'i = 3\n'), 'dump 2', 'parse_buf 2 ' + hx(b's = "q" il += {2}\nsec { a = 4 }\n'), 'dump 2',
          'lex ' + hx(b'a "b c" \'d\' /* e */ # f\n{ }'), 'parse_buf 2 ' + hx(b'include("good.conf")\n'), 'dump 2',
          'parse_buf 2 ' + hx(b's = "' + b'z' * 40 + b'"\n'), 'dump 2', 'setmulti 2 69 35', 'dump 2',
          # the contexts with a history: what a parse reports (code, file, line, message) does not depend on it
          'parse_buf 0 ' + hx(b'i = 3\n\nbogus = 1\n'), 'parse_buf 1 ' + hx(b'\ns = "open\n'), 'parse_buf 1 ' + hx(b"\n\ns = 'open\n"), 'parse_buf 0 ' + hx(b'\n/* open\n'), 'parse_buf 0 ' + hx(b'i = 4\n'),
          'parse_buf 0 ' + hx(b'include("bad.conf")\n'),
          'parse_buf 2 ' + hx(b'# c\nold = 6\ngone += 4\n'), 'dump 2',
          'init 3 0 0', 'parse_buf 3 ' + hx(b'mm { a = 2 }\nmm { }\n"mm=1|a" = 7\n"mm=0x0|a" = 8\n'), 'dump 3']


def scenario(sid, hist):
    lines = gen.prelude(SCHEMA, 0) + ['init 1 0 0', 'schema 1 ' + gen.schema_sexpr(BARE)] + FILES
    for e in hist:
        lines += EVENTS[e]
    first = len(lines)
    lines += PROBES
    return Scn(sid, lines, {'class': 'history-%d' % len(hist), 'hist': hist, 'first': first})


def generate(rng, tier):
    n = 0
    maxlen = 2 if tier == 'quick' else 3
    names = list(EVENTS)

    def seqs(k):
        if k == 0:
            yield []
            return
        for s in seqs(k - 1):
            for e in names:
                yield s + [e]
    yield scenario('baseline', [])
    for k in range(1, maxlen + 1):
        for h in seqs(k):
            n += 1
            yield scenario('h%d' % n, h)
    for place in PLACES:
        for t in NESTED_TEXTS:
            n += 1
            yield nested_scenario('nest%d' % n, place, t)
    # a parse that aborts in the middle of an item leaves nothing behind IN THE CONTEXT either: two contexts with the
    # same history, one of which additionally saw the aborted text, answer the next texts alike
    for ab in ABORTED_ITEMS:
        for fu in FOLLOW_UPS:
            n += 1
            lines = gen.prelude(SCHEMA, 0) + ['init 5 0 0'] + FILES
            for c in (0, 5):
                lines.append('parse_buf %d ' % c + hx(b'il = {7, 8}\ns = "a"\nsec { a = 2 }\nmm { a = 3 }\n'))
            lines.append('parse_buf 0 ' + hx(ab))
            first = len(lines)
            for c in (0, 5):
                lines += ['parse_buf %d ' % c + hx(fu), 'dump %d' % c]
            yield Scn('res%d' % n, lines, {'class': 'residue', 'hist': ['abort-item'], 'first': first, 'kind': 'residue', 'ab': ab, 'fu': fu})
    r = rng.fork('C08')
    for _ in range(100 if tier == 'quick' else 2000):
        n += 1
        yield scenario('r%d' % n, [r.pick(names) for _ in range(4 + r.below(8))])


# texts that abort before anything was stored (a complete item before the abort would legitimately stay)
ABORTED_ITEMS = [b'il =', b'il = {', b'il = ,', b'il = {"unterminated', b'il +=', b'il += {', b's =', b's = "open', b'sec {', b'sec { a =',
                 b'i', b'include(', b'include("good.conf"', b'il = /* open', b'old =', b'gone = {', b'il = }', b'il = = 1', b's = {']
FOLLOW_UPS = [b'il += {5}\n', b'il = {6}\n', b'il += 4\ns = "b"\n', b'sec { a = 4 }\nmm { }\n', b'i = 1\n', b'gone += {2}\nold = 3\n']

# ---- two live contexts at the same time: a function callback of the running parse parses a text into another context
OUT = lambda fn: [Opt('int', b'a', 0, 0), Opt('int', b'b', 0, 0), Opt('int', b'c', 0, 0), Opt('int', b'd', 0, 0),
                  Opt('sec', b'sec', 0, None, [Opt('int', b'e', 0, 0), Opt('func', b'load', func=fn)]),
                  Opt('func', b'include', func='include'), Opt('func', b'load', func=fn)]
INNER = [Opt('int', b'x', 0, 0), Opt('str', b's', 0, b'd'), Opt('func', b'include', func='include')]
NESTED_TEXTS = [b'x = 5\n', b'x = = 5\n', b's = "open\n', b'include("good.conf")\nx = 6\n', b'include("bad.conf")\n', b'', b'/* open', b'x = 1 }']
PLACES = {
    'in-include': (b'a = 1\nload(%s)\nc = 3\n', b'include("inc.conf")\nd = 4\n'),
    'top': (b'', b'a = 1\nload(%s)\nc = 3\nd = 4\n'),
    'in-include-section': (b'a = 1\nsec { e = 2 load(%s) e = 9 }\nc = 3\n', b'b = 2\ninclude("inc.conf")\nd = 4\n'),
    'in-nested-include': (b'a = 1\ninclude("inc2.conf")\nc = 3\n', b'include("inc.conf")\nd = 4\n'),
}


def nested_scenario(sid, place, text):
    from common import schema_sexpr
    q = b"'" + text.replace(b'\\', b'\\\\').replace(b"'", b"\\'") + b"'"
    inc, main = PLACES[place]
    lines = ['schema 0 ' + schema_sexpr(OUT('nest:1')), 'schema 1 ' + schema_sexpr(INNER), 'schema 2 ' + schema_sexpr(OUT('user:0')),
             'init 0 0 0', 'init 1 1 0', 'init 2 2 0', 'init 3 1 0'] + FILES
    if place == 'in-nested-include':
        lines += ['file %s file %s' % (hx(b'inc.conf'), hx(inc)), 'file %s file %s' % (hx(b'inc2.conf'), hx(b'b = 7\nload(' + q + b')\nb = 2\n'))]
    elif inc:
        lines.append('file %s file %s' % (hx(b'inc.conf'), hx(inc.replace(b'%s', q))))
    first = len(lines)
    lines += ['parse_buf 0 ' + hx(main.replace(b'%s', q)), 'parse_buf 3 ' + hx(text), 'parse_buf 2 ' + hx(main.replace(b'%s', q)),
              'dump 0', 'dump 2', 'dump 1', 'dump 3']
    return Scn(sid, lines, {'class': 'nested/' + place, 'hist': ['abort-nested'], 'first': first, 'kind': 'nested', 'impl_only': True})


def nontrivial(scn, il):
    return any(e.startswith('abort') for e in scn.meta['hist'])


def reduce(scn):
    h = scn.meta['hist']
    for i in range(len(h)):
        yield scenario(scn.id + 'r', h[:i] + h[i + 1:])


def probe_lines(scn, il):
    body = il[:-1] if il and il[-1].startswith('--- ') else il
    return body[scn.meta['first']:]


def oracle(scn, il):
    if not il or 'status=exit:0' not in il[-1] or 'san=-' not in il[-1]:
        return [('crash', '%s: %s' % (scn.id, il[-1] if il else 'no result'))]
    if scn.meta.get('kind') == 'residue':
        body = il[:-1]
        f = scn.meta['first']
        if len(body) < f + 4:
            return [('no-result', scn.id)]
        p0, d0, p5, d5 = body[f:f + 4]
        # the internal "replace on the next store" bit and the "modified" marker (set when the `=` is read) are not
        # values; everything else of the dump is compared
        noR = lambda d: re.sub(r'\(opt (\S+) (\S+) (\d+) \d \d ', r'(opt \1 \2 \3 ? ? ', d)
        if p0 != p5 or noR(d0[5:]) != noR(d5[5:]):
            return [('residue:' + re.sub(r'[^a-z=+{]', '', scn.meta['ab'].decode('latin-1'))[:8], '%s: after the aborted text %r the text %r is read differently than without it:\n  %s\n  %s\n  %s\n  %s' % (
                scn.id, scn.meta['ab'], scn.meta['fu'], p0[:160], d0[:400], p5[:160], d5[:400]))]
        return []
    if scn.meta.get('kind') == 'nested':
        # the outer parse with a parse into another context running inside its callback == the same two parses one after
        # the other (contexts 2, 3): return code, diagnostics and values of both
        body = il[:-1]
        f = scn.meta['first']
        if len(body) < f + 7:
            return [('no-result', scn.id)]
        p0, p3, p2, d0, d2, d1, d3 = body[f:f + 7]
        strip = lambda l: re.sub(r' (cbs|diags)=\[[^\]]*\]', '', l)
        dg = lambda l: [x for x in re.search(r'diags=\[([^\]]*)\]', l).group(1).split(';') if x]
        out = []
        # diagnostics of both parses arrive in one log: together they are those of the two separate parses
        if strip(p0) != strip(p2) or d0[5:] != d2[5:] or sorted(dg(p0)) != sorted(dg(p2) + dg(p3)):
            out.append(('nested:outer', '%s: the outer parse is disturbed by a parse into another context started from its callback:\n  nested     %s\n             %s\n  sequential %s\n             %s' % (
                scn.id, strip(p0)[:200], d0[:300], strip(p2)[:200], d2[:300])))
        m = re.search(r';r:(-?\d+)', p0)
        rc3 = re.search(r'rc=(\S+)', p3).group(1)
        if not m or m.group(1) != rc3 or d1[5:] != d3[5:]:
            out.append(('nested:inner', '%s: the parse started from a callback differs from the same parse on its own: rc %s vs %s\n  %s\n  %s' % (
                scn.id, m.group(1) if m else '?', rc3, d1[:300], d3[:300])))
        return out
    return []


BASE = {}


def cross_oracle(scns, impl):
    base_scn = next((s for s in scns if s.id == 'baseline'), None)
    if base_scn is None:
        base_scn = scenario('baseline', [])
        import common
        res = common.run_impl(VARIANT, [base_scn])
        base = probe_lines(base_scn, res.get('baseline') or [])
    else:
        base = probe_lines(base_scn, impl.get('baseline') or [])
    out = []
    for s in scns:
        if s.id == 'baseline' or s.meta.get('kind') in ('nested', 'residue'):
            continue
        got = probe_lines(s, impl.get(s.id) or [])
        if got != base:
            i = next((i for i, (a, b) in enumerate(zip(got, base)) if a != b), min(len(got), len(base)))
            culprit = next((e for e in reversed(s.meta['hist']) if e.startswith('abort')), s.meta['hist'][-1] if s.meta['hist'] else '?')
            out.append((s.id, 'history:' + culprit, '%s: after history %s probe %d differs from a fresh process:\n  got   %s\n  fresh %s' % (
                s.id, s.meta['hist'], i, (got[i] if i < len(got) else '<missing>')[:300], (base[i] if i < len(base) else '<missing>')[:300])))
    return out
