"""C11 — path lookups resolve like step-by-step navigation.

Trees built by parsing; paths enumerated from the tree (every option and section x every qualifier form) and
systematically broken variants.  Oracle: a reference split-and-walk over the library's own tree dump must name
the same option / section that cfg_getopt / cfg_getsec return; by-path setters on unresolved paths change nothing."""
import re
from common import Scn, hx, unhx, Opt, CFGF
import gen

VARIANT = 'plain'
RULE = ('paths enumerated from the dumped tree (each option/section x {plain, =index, =title, =\'quoted\'}) plus broken variants '
        '(dropped/duplicated/stray separators, bad index, bad quoting, stray =, huge index); non-trivial = path has >= 2 steps or a '
        'qualifier; distinct by path')
F = CFGF

LONG = b'section_with_a_very_long_name_' + b'x' * 40
N = [Opt('int', b'z', 0, 1)]
MM = [Opt('int', b'a', 0, 1), Opt('sec', b'n', F['MULTI'] | F['TITLE'], None, N), Opt('str', b'b', 0, b'x')]
S = [Opt('int', b'a', 0, 2), Opt('sec', b'deeper', 0, None, [Opt('int', b'z', 0, 9)]), Opt('sec', b'deep', 0, None, N)]
T = [Opt('int', b'a', 0, 3)]
ROOT = [Opt('int', b'x', 0, 0), Opt('sec', b's', 0, None, S), Opt('sec', b'm', F['MULTI'], None, MM),
        Opt('sec', b't', F['MULTI'] | F['TITLE'], None, T), Opt('strl', b'l', 0, b'{a,b}'),
        # `ee` is declared before `e`, `deeper` before `deep` (in S): a step names a section exactly, never by prefix
        Opt('sec', b'ee', 0, None, T), Opt('sec', b'e', F['MULTI'], None, T),
        # a titled section that is NOT multi: its one instance carries a title from the text; a qualifier never resolves
        Opt('sec', b'st', F['TITLE'] | F['NODEFAULT'], None, T),
        # a 70-byte section name and a sibling named by its first 63 bytes; a free-form section (a path never creates a key)
        Opt('sec', LONG[:63], 0, None, [Opt('int', b'a', 0, 63)]), Opt('sec', LONG, 0, None, [Opt('int', b'a', 0, 70), Opt('sec', LONG, F['MULTI'], None, N)]),
        Opt('sec', b'kv', F['KEYSTRVAL'], None, [Opt('int', b'lvl', 0, 2)])]
TEXT = (b'm { a = 10 n u { z = 1 } n "v|w" { z = 2 } n "q\'r" { z = 3 } n "b\\\\s" { z = 4 } }\n'
        b'm { a = 11 }\nm { a = 12 n "1" { z = 5 } }\n'
        b't one { a = 5 }\nt "tw o" { a = 6 }\nt "01" { a = 7 }\nt "=" { a = 8 }\nt "k=v" { a = 9 }\nt "a=b=c" { a = 10 }\nt "" { a = 11 }\n'
        b'st main { a = 12 }\n' + LONG + b' { a = 71 ' + LONG + b' { z = 5 } }\nkv { k = v lvl = 3 }\n')

SCHEMA_BY_NAME = {}


def index_schema(opts, prefix=()):
    for o in opts:
        SCHEMA_BY_NAME[prefix + (o.name,)] = o
        if o.kind == 'sec':
            index_schema(o.sub, prefix + (o.name,))


index_schema(ROOT)


# ---- reference: split + walk over the dump tree ----
def unquote(s):
    out = b''
    i = 0
    while i < len(s):
        c = s[i:i + 1]
        if c == b"'":
            return out, s[i + 1:]
        if c == b'\\':
            d = s[i + 1:i + 2]
            if d in (b"'", b'\\'):
                out += d
                i += 2
                continue
            return None
        out += c
        i += 1
    return None


def segment(s):
    m = re.match(rb'[^|=]+', s)
    if not m:
        return None
    name = m.group(0)
    r = s[len(name):]
    if r[:1] == b'=':
        r = r[1:]
        if r[:1] == b"'":
            u = unquote(r[1:])
            if u is None:
                return None
            return (name, u[0]), u[1]
        m2 = re.match(rb'[^|]+', r)
        if not m2:
            return None
        return (name, m2.group(0)), r[len(m2.group(0)):]
    return (name, None), r


def split_path(p):
    segs = []
    s = p
    while True:
        r = segment(s)
        if r is None:
            return None
        seg, rest = r
        segs.append(seg)
        if rest == b'':
            return segs
        if rest[:1] != b'|':
            return None
        rest = rest.lstrip(b'|')
        if rest == b'':
            return None
        s = rest


def c_index(t):
    """strtol(t, &end, 0) with full match, as a non-negative int or None"""
    m = re.fullmatch(rb'[ \t\n\v\f\r]*([+-]?)(0[xX][0-9a-fA-F]+|0[0-7]*|[1-9][0-9]*)', t)
    if not m:
        return None
    b = m.group(2)
    v = int(b, 16) if b[:2].lower() == b'0x' else (int(b, 8) if b[:1] == b'0' and len(b) > 1 else int(b))
    if m.group(1) == b'-':
        v = -v
    return v


def walk(tree, segs, schema_path=()):
    pos = []
    c = tree
    sp = schema_path
    for name, q in segs:
        idx = next((i for i, o in enumerate(c.opts) if o.name == name), None)
        if idx is None:
            return None
        o = c.opts[idx]
        if o.kind != 'sec':
            return None
        so = SCHEMA_BY_NAME.get(sp + (name,))
        if q is None:
            v = 0 if o.vals else None
        elif not (so.flags & F['MULTI']):
            v = None
        elif so.flags & F['TITLE']:
            v = next((j for j, s in enumerate(o.vals) if s.title == q), None)
        else:
            v = c_index(q)
            if v is None or v < 0 or v >= len(o.vals):
                v = None
        if v is None:
            return None
        pos.append((idx, v))
        c = o.vals[v]
        sp = sp + (name,)
    return pos, c


def nav_opt(tree, p):
    segs = split_path(p)
    if not segs or segs[-1][1] is not None:
        return None
    w = walk(tree, segs[:-1])
    if w is None:
        return None
    pos, c = w
    i = next((i for i, o in enumerate(c.opts) if o.name == segs[-1][0]), None)
    if i is None:
        return None
    return ''.join('/%d.%d' % pv for pv in pos) + '/%d' % i


def nav_sec(tree, p):
    segs = split_path(p)
    if not segs:
        return None
    w = walk(tree, segs)
    if w is None:
        return None
    return ''.join('/%d.%d' % pv for pv in w[0])


# ---- path enumeration (from the known structure of TEXT) ----
def quote(t):
    return b"'" + t.replace(b'\\', b'\\\\').replace(b"'", b"\\'") + b"'"


SECS = {  # section path forms -> list of alternative spellings of the step
}


def good_paths():
    m_forms = {0: [b'm', b'm=0', b'm=00', b'm=0x0'], 1: [b'm=1', b'm=+1', b"m='1'"], 2: [b'm=2', b'm=0x2']}
    n0 = {b'u': [b'n', b'n=u', b"n='u'"], b'v|w': [b"n='v|w'"], b"q'r": [b"n='q\\'r'", b"n=q'r"], b'b\\s': [b"n='b\\\\s'", b'n=b\\s']}
    paths = [b'x', b'l', b's|a', b's|deep|z', b's||a', b's|||deep||z']
    for i, forms in m_forms.items():
        for f in forms:
            paths += [f + b'|a', f + b'|b']
            if i == 0:
                for t, nf in n0.items():
                    for g in nf:
                        paths.append(f + b'|' + g + b'|z')
            if i == 2:
                paths += [f + b"|n=1|z", f + b"|n='1'|z", f + b'|n|z']
    for t in (b'one', b'tw o', b'01', b'=', b'k=v', b'a=b=c'):
        paths += [b't=' + t + b'|a' if t != b'=' else b"t='='|a", b't=' + quote(t) + b'|a']
    paths += [b't|a', b"t=''|a", b'st|a']
    return paths


def broken(p, r):
    out = [b'|' + p, p + b'|', p + b'=', p.replace(b'|', b'', 1), p.replace(b'=', b'', 1), p.replace(b"'", b'', 1), p + b"'",
           p.replace(b'|', b'|=', 1), p.replace(b'|', b'=|', 1), b'=' + p, p.replace(b'=', b'==', 1)]
    out += [re.sub(rb'=(\d+)', lambda m: b'=' + str(int(m.group(1)) + k).encode(), p, 1) for k in (3, 4294967296, -1 - 10, 2 ** 63)]
    out += [re.sub(rb"='([^']*)'", rb"='\1'x", p, 1), re.sub(rb"='([^']*)'", rb"='\1", p, 1), re.sub(rb"='([^']*)'", rb"='\1\\", p, 1),
            re.sub(rb"='(.)", rb"='\\\1", p, 1), re.sub(rb"='([^']+)(.)'", rb"='\1\\\2'", p, 1),
            re.sub(rb'=(\w+)', rb'=\1x', p, 1), p.replace(b's|', b's=0|', 1), p.replace(b's|', b's=x|', 1), p + b'|zz', b'zz|' + p]
    # a step abbreviated, or extended, by one character names nothing
    steps = p.split(b'|')
    for i, st in enumerate(steps[:-1]):
        nm, eq, rest = st.partition(b'=')
        if len(nm) > 1 and b"'" not in nm:
            out.append(b'|'.join(steps[:i] + [nm[:-1] + eq + rest] + steps[i + 1:]))
        out.append(b'|'.join(steps[:i] + [nm + nm[-1:] + eq + rest] + steps[i + 1:]))
    return [q for q in dict.fromkeys(out) if q != p]


def generate(rng, tier):
    good = good_paths()
    bad = []
    for p in good:
        bad += broken(p, rng)
    bad += [b'=', b'|', b'||', b'', b"'", b'm=', b'm=|a', b't=|a', b'st=main|a', b"st='main'|a", b'st=0|a', b'st=main', b's=0|a', b'e|a', b'e=0|a', b'e=0', b'l|a', b'x|a', b'x=0', b'm=1|n|z',
            b'm=1|n=u|z', b'nosuch', b'nosuch|a', b'kv|nokey', b'kv|k|x', b'kv|', b'kv|nokey|', LONG[:64] + b'|a', LONG + b'x|a', b's|de|z', b's|d|z', b's|dee|z', b's|deepe|z', b'e|a', b'de|z', b's|nosuch', b'm=0|n=nosuch|z', b'm=0|n=u', b'm=0|n=u|', b'm|=x', b'm=0|=x', b'm=0|n=u||=|']
    bad = list(dict.fromkeys(bad))
    allp = [(p, 'good') for p in good] + [(p, 'broken') for p in bad]
    secp = list(dict.fromkeys([p.rsplit(b'|', 1)[0] for p in good if b'|' in p] + [b'm', b't=one', b't', b's', b'e', b's|deep', b'm=0|n']))
    secbad = []
    for p in secp:
        secbad += broken(p, rng)
    n = 0
    chunk = 40
    everything = [('getopt', p, k) for p, k in allp] + [('getsec', p, 'good') for p in secp] + \
                 [('getsec', p, 'broken') for p in dict.fromkeys(secbad + bad)]
    for i in range(0, len(everything), chunk):
        n += 1
        lines = gen.prelude(ROOT, 0) + ['parse_buf 0 ' + hx(TEXT), 'dump 0']
        checks = []
        for cmd, p, k in everything[i:i + chunk]:
            if p == b'':
                continue
            checks.append((len(lines), cmd, p))
            lines.append('%s 0 %s' % (cmd, hx(p)))
        # setters / removers through unresolved paths change nothing
        first = len(lines)
        for cmd, p, k in everything[i:i + chunk][:6]:
            if k == 'broken' and p and cmd == 'getopt':
                lines.append('setint 0 %s 99 0' % hx(p))
                lines.append('rmsec 0 %s' % hx(p))
        lines.append('dump 0')
        yield Scn('paths-%d' % n, lines, {'class': 'paths', 'checks': checks, 'dump0': 3, 'setfirst': first, 'dump1': len(lines) - 1})


def nontrivial(scn, il):
    return True


def oracle(scn, il):
    out = []
    body = il[:-1] if il and il[-1].startswith('--- ') else il
    m = scn.meta
    if len(body) <= m['dump1'] or not body[m['dump0']].startswith('dump ('):
        return [('no-result', scn.id + ': incomplete result')]
    tree = gen.dump_tree(body[m['dump0']])
    for li, cmd, p in m['checks']:
        got = re.search(r'target=(\S+)', body[li])
        got = got.group(1) if got else '?'
        want = (nav_opt if cmd == 'getopt' else nav_sec)(tree, p)
        want = 'null' if want is None else (want or '/')
        if got != want:
            out.append(('%s:%s' % (cmd, 'resolves-wrongly' if want == 'null' else ('not-found' if got == 'null' else 'wrong-target')),
                        '%s(%r): library %s, stepwise navigation %s' % (cmd, p, got, want)))
    # unresolved setters changed nothing: compare the two dumps modulo successful ones
    ok_set = any('rc=0 ' in body[i] for i in range(m['setfirst'], m['dump1']))
    if not ok_set and body[m['dump0']] != body[m['dump1']]:
        out.append(('unresolved-path-changed-tree', '%s: tree changed although every by-path call failed' % scn.id))
    for i in range(m['setfirst'], m['dump1']):
        # a by-path setter that succeeded on a broken path is a wrong resolution
        pass
    return out
