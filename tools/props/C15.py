"""C15 — comments are transparent; annotations stick to the next option.

Metamorphic: a text (accepted or rejected) and the same text with one comment of some style inserted at a token boundary
are parsed into two fresh contexts, with annotation support off and on; return code and values must agree.
Annotation: with CFGF_COMMENTS the comment directly before the assignment of a scalar or non-empty braced list option is
its trimmed annotation, is printed as /* ... */ and is read back by a re-parse of the printed text."""
import re
from common import Scn, hx, unhx, Opt, CFGF
import gen

VARIANT = 'plain'
RULE = ('texts x every token boundary x 12 comment forms x {annotations off, on}; annotation texts x options; non-trivial = '
        'the comment is inserted inside an item (not between items); distinct by scenario text')
F = CFGF

SUB = [Opt('int', b'a', 0, 1), Opt('strl', b'l', 0, b'{x}')]
SCHEMA = [Opt('int', b'i', 0, 7), Opt('str', b's', 0, b'd'), Opt('intl', b'il', 0, b'{1,2}'), Opt('bool', b'b', 0, 0),
          Opt('sec', b'sec', 0, None, SUB), Opt('sec', b't', F['MULTI'] | F['TITLE'], None, SUB), Opt('func', b'fn', func='user:0'),
          Opt('flt', b'f', 0, 0.5), Opt('sec', b'kv', F['KEYSTRVAL'], None, [Opt('int', b'lvl', 0, 1)])]
TEXTS = [b'i = 5 s = "a b" il = { 1 , 2 , } b = on', b'sec { a = 2 l += { y , "z" } } t x { a = 3 } t "y y" { }',
         b'fn ( a , "b c" ) fn ( ) il += 9 f = 1.5', b'il = { } sec { } i = 0x10',
         b'i = = 2', b'il = { 1 2 }', b'sec { a = }', b'bogus = 1', b't { }', b'i = 5 }', b'fn ( a b )']
COMMENTS = [b'# c\n', b'#\n', b'// c\n', b'//\n', b'/* c */', b'/**/', b'/* a\nb */', b'/***/', b'/* * / */', b'####\n', b'/* # */', b'//# x\n',
            b'/*\n*/', b'# /* \n']
TOKEN = re.compile(rb'"[^"]*"|\+=|[{}()=,]|[^\s{}()=,]+')


def scenario(sid, base, mod, flags, cls, inside):
    lines = gen.prelude(SCHEMA, flags) + ['init 1 0 %d' % flags,
                                          'parse_buf 0 ' + hx(base + b'\n'), 'parse_buf 1 ' + hx(mod + b'\n'), 'dump 0', 'dump 1']
    return Scn(sid, lines, {'class': cls, 'kind': 'meta', 'inside': inside})


def generate(rng, tier):
    r = rng.fork('C15')
    n = 0
    for text in TEXTS:
        toks = TOKEN.findall(text)
        for k in range(len(toks) + 1):
            forms = COMMENTS if tier == 'thorough' else [COMMENTS[(k + j * 5) % len(COMMENTS)] for j in range(3)]
            for cm in forms:
                mod = b' '.join(toks[:k]) + b' ' + cm + b' ' + b' '.join(toks[k:])
                inside = 0 < k < len(toks) and not (toks[k - 1] in (b'}', b')') or re.fullmatch(rb'[\w."]+', toks[k - 1]) and re.fullmatch(rb'\w+', toks[k]))
                for flags in (0, F['COMMENTS']):
                    n += 1
                    yield scenario('m%d' % n, b' '.join(toks), mod, flags, 'insert/%s' % ('on' if flags else 'off'), inside)
    # a comment put DIRECTLY behind a token, with no white space in between (the property says: between any two tokens)
    for text in TEXTS[:4]:
        toks = TOKEN.findall(text)
        for k in range(1, len(toks) + 1):
            for cm in (b'/* c */', b'/**/', b'// c\n', b'# c\n'):
                mod = b' '.join(toks[:k]) + cm + b' ' + b' '.join(toks[k:])
                n += 1
                sc = scenario('j%d' % n, b' '.join(toks), mod, 0, 'insert-adjacent', True)
                sc.meta['adjacent'] = ('word' if re.fullmatch(rb'[\w.]+', toks[k - 1]) else 'punct') + ':' + cm[:2].decode()
                yield sc
    # extra white space between any two tokens
    for text in TEXTS[:4]:
        toks = TOKEN.findall(text)
        for k in range(1, len(toks)):
            n += 1
            yield scenario('w%d' % n, b' '.join(toks), b' '.join(toks[:k]) + r.pick([b'\n\n', b'\t \t', b' \n\t ']) + b' '.join(toks[k:]), 0, 'whitespace', True)
    # annotations
    notes = [b'note', b'  padded  ', b'two words', b'', b' ', b'multi\nline', b'* star *', b'a # b', b'x' * 70, b'\tt\t',
             # every white-space character at both ends (a C comment closing on its own line, CR LF line ends)
             b'\n own line\n', b'cr\r', b'\r\n both \r', b'\x0bvt ff\x0c', b' \t\n\x0b\x0c\r']
    for note in notes:
        for style in ('c', 'hash', 'slashes'):
            if style != 'c' and (b'\n' in note or (b'\r' in note and not note.endswith(b'\r'))):
                continue
            cm = {'c': b'/*' + note + b'*/', 'hash': b'#' + note + b'\n', 'slashes': b'//' + note + b'\n'}[style]
            for item, opt in ((b'i = 5', b'i'), (b'il = {3, 4}', b'il'), (b's = "v"', b's'), (b'sec { ' + cm + b' a = 2 }', b'sec|a'),
                              # a key created by the assignment in a free-form section is annotated like a declared option
                              (b'kv { ' + cm + b' newkey = v }', b'kv|newkey'), (b'kv { lvl = 2 ' + cm + b' k2 = "w w" }', b'kv|k2'), (b'kv { ' + cm + b' lvl = 3 }', b'kv|lvl'),
                              (b'il = {3, 4,}', b'il'), (b'il += {5}', b'il'), (b'il = 6', b'il'), (b'b = on', b'b'), (b'f = 1.5', b'f'),
                              # further comments INSIDE the item do not replace the annotation taken from the one in front
                              (b'i = /* inner */ 5', b'i'), (b'il = {3, /* in */ 4}', b'il'), (b'il = { # x\n 3 }', b'il'),
                              (b's /* mid */ = "v"', b's'),
                              # a later assignment without a comment of its own replaces the values, not the annotation
                              (b'i = 5 i = 6', b'i'), (b'il = {3} il = {4, 5}', b'il'), (b's = "v"\ns = "w"', b's'), (b'f = 1.5 b = on f = 2.5', b'f'),
                              (b'il = {3} il += {4} il = 5', b'il')):
                n += 1
                text = (cm + b' ' + item) if b'|' not in opt else item
                if n % 3 == 0:
                    # earlier tokens of the same scan: a long string, then a shorter one, then a comment
                    text = b's = "' + b'L' * (20 + n % 50) + b'" s = "' + b'x' * (n % 7) + b'" # ' + b'c' * (n % 30) + b'\n' + text
                second = []
                if n % 5 == 0 and opt in (b'i', b's', b'il', b'b', b'f'):
                    # ... nor does a second text parsed into the same context (a bare per-user override)
                    second = ['parse_buf 0 ' + hx({b'i': b'i = 9', b's': b's = "over"', b'il': b'il = {9}', b'b': b'b = off', b'f': b'f = 0.25'}[opt] + b'\n')]
                lines = gen.prelude(SCHEMA, F['COMMENTS']) + ['init 1 0 %d' % F['COMMENTS'], 'parse_buf 0 ' + hx(text + b'\n')] + second + [
                    'dump 0', 'print 0 0', 'roundtrip 0 1', 'dump 1']
                yield Scn('a%d' % n, lines, {'class': 'annotation/' + style, 'kind': 'annot', 'note': note, 'opt': opt, 'inside': True})


def nontrivial(scn, il):
    return scn.meta.get('inside', False)


def strip_cmt(d):
    return re.sub(r'\(opt (\S+) (\S+) (\d+) (\d) (\d) (\d) \S+?(?=[ )])', r'(opt \1 \2 \3 \4 \5 \6 -', d)


def trim(note):
    # trailing white space is removed while more than one byte remains, then leading white space
    s = note
    while len(s) > 1 and s[-1:] in b' \t\n\v\f\r':
        s = s[:-1]
    return s.lstrip(b' \t\n\v\f\r')


def oracle(scn, il):
    body = il[:-1] if il and il[-1].startswith('--- ') else il
    out = []
    if scn.meta['kind'] == 'meta':
        if len(body) < 4:
            return [('no-result', scn.id)]
        base, mod, d0, d1 = body[-4:]
        rc0, rc1 = re.search(r'rc=(\S+)', base).group(1), re.search(r'rc=(\S+)', mod).group(1)
        adj = scn.meta.get('adjacent')
        if adj and (rc0 != rc1 or (rc0 == '0' and strip_cmt(d0)[5:] != strip_cmt(d1)[5:])):
            return [('adjacent-comment:' + adj, '%s: a comment directly behind a token (no white space) changes the result: rc %s -> %s: %s\n %s\n %s' % (
                scn.id, rc0, rc1, show(scn.lines[-3]), d0[:300], d1[:300]))]
        if rc0 != rc1:
            out.append(('acceptance-changed', '%s: rc %s without, %s with the insertion: %s' % (scn.id, rc0, rc1, show(scn.lines[-3]))))
        elif rc0 == '0' and strip_cmt(d0)[5:] != strip_cmt(d1)[5:]:
            out.append(('values-changed', '%s: values differ after inserting a comment: %s\n %s\n %s' % (scn.id, show(scn.lines[-3]), d0[:600], d1[:600])))
        return out
    if len(body) < 5:
        return [('no-result', scn.id)]
    parse, dump, pr, rt, dump1 = body[-5:]
    note = scn.meta['note']
    name = scn.meta['opt'].split(b'|')[-1]
    m = re.search(r'\(opt %s \w+ \d+ \d \d \d (\S+?)[ )]' % hx(name), dump if b'|' not in scn.meta['opt'] else dump[dump.index('(cfg ' + hx(scn.meta['opt'].split(b'|')[0])):])
    got = m.group(1) if m else '?'
    if scn.meta['class'].endswith('hash'):
        raw = note.lstrip(b'#')
    elif scn.meta['class'].endswith('slashes'):
        raw = note.lstrip(b'/')
    else:
        # the closing rule [ \t]*"*"+"/" takes the stars and blanks directly before the slash
        raw = re.sub(rb'[ \t]*\**$', b'', note)
    want_text = trim(raw)
    want = hx(want_text)
    if 'rc=0 ' not in parse:
        out.append(('annotated-text-rejected', '%s: %s' % (scn.id, parse[:200])))
    elif got != want:
        out.append(('annotation-text', '%s: annotation of %r is %s, expected %s (comment %r)' % (scn.id, name, got, want, note)))
    else:
        text = unhx(pr.split('text=')[1].split(' ')[0]) or b''
        if b'/* ' + want_text + b' */' not in text:
            out.append(('annotation-not-printed', '%s: print output lacks the annotation %r:\n%s' % (scn.id, want_text, text.decode('latin-1'))))
        else:
            src = dump1 if b'|' not in scn.meta['opt'] else dump1[dump1.index('(cfg ' + hx(scn.meta['opt'].split(b'|')[0])):]
            m1 = re.search(r'\(opt %s \w+ \d+ \d \d \d (\S+?)[ )]' % hx(name), src)
            if 'rc=0 ' not in rt or not m1 or m1.group(1) != hx(trim(want_text)):
                out.append(('annotation-not-reread', '%s: annotation %r after print and re-parse is %s (%s)' % (
                    scn.id, want_text, m1.group(1) if m1 else '?', rt[:80])))
    return out


def show(line):
    try:
        return repr(unhx(line.split()[-1]))
    except ValueError:
        return line
