#!/usr/bin/env python3
"""setup.py — build everything the checks need from files on disk: regenerate the rule table from
/repo/src/lexer.l, compile the Coq development (all theorems), extract the model, build the OCaml
driver and the C harness variants."""
import os
import sys
sys.path.insert(0, os.path.dirname(os.path.abspath(__file__)))
import common

def main():
    rc, out = common.sh([sys.executable, os.path.join(common.VERIF, 'tools', 'lex2coq.py'), '--selftest'])
    print(out.strip())
    if rc != 0:
        sys.exit(1)
    rc, out = common.regen_lexrules()
    print(out.strip())
    rc, out = common.sh('coq_makefile -f _CoqProject -o Makefile', cwd=common.COQ)
    rc, out = common.sh(['make', '-k', '-j%d' % common.NCPU], cwd=common.COQ, timeout=3000)
    print(out[-2000:])
    if rc != 0:
        print('setup: Coq build failed')
        sys.exit(1)
    # audit: nothing admitted, no axiom declared, no checker switched off
    import re, glob
    bad = []
    pat = re.compile(r'\b(Admitted|admit|Axiom|Axioms|Parameter|Parameters|Conjecture|Abort All|Unset Guard Checking|Unset Positivity Checking|Unset Universe Checking|bypass_check|Admit Obligations)\b|-type-in-type|-impredicative-set')
    for f in sorted(glob.glob(os.path.join(common.COQ, '*.v'))):
        txt = re.sub(r'\(\*.*?\*\)', '', open(f).read(), flags=re.S)
        for m in pat.finditer(txt):
            bad.append('%s: %s' % (os.path.basename(f), m.group(0)))
    if bad:
        print('setup: AUDIT FAILED: ' + '; '.join(bad[:10]))
        sys.exit(1)
    print('audit: no Admitted/admit/Axiom/Parameter/Conjecture and no checker switch in coq/*.v')
    exe, log = common.build_model()
    print('model driver:', exe)
    for v in ('plain', 'asan', 'count', 'countasan', 'dyn'):
        print('harness', v, common.build_harness(v))
    print('OOM fault table extracted from coq/Oom.v:', common.oom_table())

if __name__ == '__main__':
    main()
