#!/bin/bash
# seedverify.sh WORKTREE PATCH DEMO.c — confirm a seeded change in a scratch worktree of /repo:
# builds, test suite passes, demo exits non-zero with the change and 0 without.  Prints one summary line.
WT=$1; PATCH=$2; DEMO=$3
cd "$WT" || exit 2
git checkout -q -- . ; 
build() { make -j4 >/tmp/seedverify.$$.log 2>&1; }
demo() { gcc -I src -I . -DHAVE_CONFIG_H "$DEMO" src/.libs/libconfuse.a -o /tmp/seedverify.$$.demo 2>>/tmp/seedverify.$$.log && (cd /tmp && timeout 60 /tmp/seedverify.$$.demo >/dev/null 2>&1); echo $?; }
git apply "$PATCH" || { echo "$PATCH: apply-failed"; exit 1; }
build; b1=$?
t=$(make -j4 check 2>&1 | grep -E "^# (PASS|FAIL|TOTAL)" | tr -d '\n')
d1=$(demo)
git checkout -q -- .
build; b0=$?
d0=$(demo)
rm -f /tmp/seedverify.$$.*
echo "$PATCH: build_with=$b1 tests_with='$t' demo_with=$d1 build_without=$b0 demo_without=$d0"
