#!/usr/bin/env python3
"""harmlessrun.py WORKTREE ID... — false-alarm measurement: apply harmless/<id>/patch.diff (a behaviour-preserving
refactoring written by a sub-agent) in the scratch worktree, run ALL registered quick checks against that tree
(REPO=WORKTREE, evidence diverted), record which exit non-zero in harmless/<id>/result.json, restore the worktree."""
import json
import os
import subprocess
import sys
import tempfile
import shutil

VERIF = os.path.dirname(os.path.dirname(os.path.abspath(__file__)))
wt = sys.argv[1]
ids = sys.argv[2:]
checks = [c['property_id'] for c in json.load(open(os.path.join(VERIF, 'MANIFEST.json')))['checks']]
for hid in ids:
    d = os.path.join(VERIF, 'harmless', hid)
    subprocess.run(['git', '-C', wt, 'checkout', '--', '.'], check=True)
    subprocess.run(['git', '-C', wt, 'apply', os.path.join(d, 'patch.diff')], check=True)
    ev = tempfile.mkdtemp(prefix='harmless-')
    res = {}
    try:
        for pid in checks:
            p = subprocess.run(['python3', 'tools/check.py', pid, '--tier', 'quick'], cwd=VERIF, env=dict(os.environ, REPO=wt, VERIF_EVIDENCE_DIR=ev),
                               stdout=subprocess.PIPE, stderr=subprocess.STDOUT, text=True, timeout=3600)
            vio = [l for l in p.stdout.splitlines() if l.startswith('VIOLATION')]
            why = [l for l in p.stdout.splitlines() if l.startswith('# ')][:3]
            res[pid] = dict(exit=p.returncode, violations=vio, detail=why)
    finally:
        subprocess.run(['git', '-C', wt, 'checkout', '--', '.'], check=True)
        shutil.rmtree(ev, ignore_errors=True)
    alarms = [k for k, v in res.items() if v['exit'] != 0]
    json.dump(dict(id=hid, alarms=alarms, runs=res), open(os.path.join(d, 'result.json'), 'w'), indent=1)
    print('%s alarms=%s' % (hid, ','.join(alarms) or '-'), flush=True)
