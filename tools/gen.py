"""gen.py — schema and configuration-text generators shared by the property modules."""
import re
from common import Opt, CFGF, hx, schema_sexpr

F = CFGF
NAMES = [b'alpha', b'beta', b'gamma', b'delta', b'eps', b'zeta', b'eta', b'theta', b'iota', b'kappa', b'lam', b'mu']
SCALARS = ['int', 'flt', 'bool', 'str']
LISTS = ['intl', 'fltl', 'booll', 'strl']

INT_TOKENS = [b'0', b'1', b'7', b'42', b'-5', b'+3', b'0x1f', b'0b101', b'017', b'2147483648', b'-2147483649',
              b'4294967296', b'9223372036854775807', b'-9223372036854775808']
BAD_INT_TOKENS = [b'x', b'12a', b'0x', b'08', b'9223372036854775808', b'1.5', b'']
FLT_TOKENS = [b'0', b'1.5', b'-2.25', b'1e3', b'.5', b'3.', b'1e-3', b'123456.789', b'0x1p4']
BOOL_TOKENS = [b'true', b'false', b'yes', b'no', b'on', b'off', b'TRUE', b'Off', b'yEs']
STR_TOKENS = [b'word', b'"two words"', b"'single'", b'"esc\\n\\"q\\""', b'""', b'a/b', b'"#nocomment"', b'x.y-z',
              b'"$dollar"', b'"tab\\there"',
              # slashes are ordinary characters of an unquoted word: URLs, doubled and trailing slashes
              b'http://host/x', b'a//b', b'dir//', b'/usr/local/', b'nfs://box/vol//']


def list_default(rng, kind):
    toks = {'intl': [b'1', b'2', b'30'], 'fltl': [b'1.5', b'2'], 'booll': [b'true', b'off'], 'strl': [b'a', b'"b c"']}[kind]
    c = rng.below(4)
    if c == 0:
        return None
    if c == 1:
        return b'{}'
    k = 1 + rng.below(3)
    return b'{' + b', '.join(rng.pick(toks) for _ in range(k)) + b'}'


def rand_schema(rng, depth=2, nopts=None, allow=('scalar', 'list', 'sec'), names=None, secflags=None):
    """a list of Opt with pairwise distinct names"""
    names = list(names or NAMES)
    names = rng.shuffle(names)
    n = nopts or (2 + rng.below(5))
    opts = []
    for i in range(min(n, len(names))):
        nm = names[i]
        kinds = []
        if 'scalar' in allow:
            kinds += SCALARS
        if 'list' in allow:
            kinds += LISTS
        if 'sec' in allow and depth > 0:
            kinds += ['sec', 'sec']
        k = rng.pick(kinds)
        fl = 0
        if k != 'sec' and rng.chance(1, 6):
            fl |= F['NODEFAULT']
        if k == 'int':
            opts.append(Opt('int', nm, fl, rng.pick([0, 1, -7, 1000, 2 ** 40])))
        elif k == 'flt':
            opts.append(Opt('flt', nm, fl, rng.pick([0.0, 1.5, -2.25, 1e10])))
        elif k == 'bool':
            opts.append(Opt('bool', nm, fl, rng.pick([0, 1])))
        elif k == 'str':
            opts.append(Opt('str', nm, fl, rng.pick([None, b'', b'dflt', b'd "q"'])))
        elif k in LISTS:
            opts.append(Opt(k, nm, fl, list_default(rng, k)))
        else:
            sf = rng.pick(secflags or [0, 0, F['MULTI'], F['MULTI'] | F['TITLE'], F['MULTI'] | F['TITLE'] | F['NO_TITLE_DUPES'],
                                       F['TITLE'], F['MULTI'] | F['TITLE'], F['KEYSTRVAL'], F['MULTI'] | F['KEYSTRVAL']])
            if rng.chance(1, 10):
                sf |= F['NODEFAULT']
            sub = rand_schema(rng, depth - 1, 1 + rng.below(4), allow, names=[b's' + x for x in NAMES])
            opts.append(Opt('sec', nm, sf, None, sub))
    return opts


def value_token(rng, base, bad=False):
    if base == 'int':
        return rng.pick(BAD_INT_TOKENS if bad else INT_TOKENS)
    if base == 'flt':
        return rng.pick([b'x', b'1.5x', b'1e999', b''] if bad else FLT_TOKENS)
    if base == 'bool':
        return rng.pick([b'maybe', b'1', b'tru', b''] if bad else BOOL_TOKENS)
    return rng.pick(STR_TOKENS)


def case_variant(rng, name):
    return bytes((c ^ 0x20) if (65 <= c <= 90 or 97 <= c <= 122) and rng.chance(1, 2) else c for c in name)


TITLES = [b't1', b't2', b'"t 3"', b"'t4'", b'T1']


def rand_items(rng, schema, nocase=False, depth=0, maxitems=6, bad_rate=0, comments=False):
    """a list of item texts (bytes) for the given schema"""
    items = []
    if not schema:
        return items
    for _ in range(rng.below(maxitems + 1)):
        o = rng.pick(schema)
        nm = case_variant(rng, o.name) if nocase else o.name
        bad = bad_rate and rng.below(100) < bad_rate
        if comments and rng.chance(1, 4):
            items.append(rng.pick([b'# note', b'// note', b'/* note */', b'/* multi\nline */']))
        if o.kind == 'sec':
            title = b''
            if o.flags & F['TITLE']:
                title = b' ' + rng.pick(TITLES)
            if o.flags & F['KEYSTRVAL']:
                body = [rng.pick([b'k1', b'k2', b'key3'] + ([b'""', b"''", b'k1'] if bad else [])) + b' = ' + rng.pick(STR_TOKENS) for _ in range(rng.below(3))]
                body += rand_items(rng, o.sub, nocase, depth + 1, 2, bad_rate, comments)
            else:
                body = rand_items(rng, o.sub, nocase, depth + 1, 3, bad_rate, comments)
            items.append(nm + title + b' {\n' + b''.join(b'  ' + x + b'\n' for x in body) + b'}')
        elif o.kind == 'func':
            items.append(nm + b'(' + b', '.join(rng.pick(STR_TOKENS) for _ in range(rng.below(3))) + b')')
        elif o.is_list():
            base = o.base()
            op = rng.pick([b' = ', b' = ', b' += '])
            c = rng.below(5)
            if c == 0:
                items.append(nm + op + value_token(rng, base, bad))
            elif c == 1:
                items.append(nm + op + b'{}')
            else:
                vals = [value_token(rng, base, bad and i == 0) for i in range(1 + rng.below(3))]
                items.append(nm + op + b'{' + b', '.join(vals) + (b',' if rng.chance(1, 5) else b'') + b'}')
        else:
            items.append(nm + rng.pick([b' = ', b'=']) + value_token(rng, o.base(), bad))
    return items


def rand_text(rng, schema, nocase=False, bad_rate=0, comments=False, maxitems=6):
    return b'\n'.join(rand_items(rng, schema, nocase, 0, maxitems, bad_rate, comments)) + b'\n'


def mutate_tokens(rng, text):
    """token-level deletion / duplication / swap on a white-space tokenisation (keeps quoted strings whole)"""
    import re
    toks = re.findall(rb'"(?:[^"\\]|\\.)*"|\'(?:[^\'\\]|\\.)*\'|[{}()=,]|\+=|[^\s{}()=,]+', text)
    if not toks:
        return text
    i = rng.below(len(toks))
    c = rng.below(4)
    if c == 0:
        del toks[i]
    elif c == 1:
        toks.insert(i, toks[i])
    elif c == 2 and len(toks) > 1:
        j = rng.below(len(toks))
        toks[i], toks[j] = toks[j], toks[i]
    else:
        toks.insert(i, rng.pick([b'{', b'}', b'=', b'+=', b',', b'(', b')', b'zzz', b'"s"']))
    return b' '.join(toks) + b'\n'


def prelude(schema, ctxflags=0, sid=0, cid=0):
    return ['schema %d %s' % (sid, schema_sexpr(schema)), 'init %d %d %d' % (cid, sid, ctxflags)]


# ---- parsing the canonical dump back (for oracles) ----

def parse_sexpr(s):
    pos = 0

    def item():
        nonlocal pos
        while s[pos] == ' ':
            pos += 1
        if s[pos] == '(':
            pos += 1
            out = []
            while True:
                while s[pos] == ' ':
                    pos += 1
                if s[pos] == ')':
                    pos += 1
                    return out
                out.append(item())
        j = pos
        while pos < len(s) and s[pos] not in ' ()':
            pos += 1
        return s[j:pos]
    return item()


class DOpt:
    pass


class DCfg:
    pass


def dump_tree(line):
    """'dump (cfg ...)' -> DCfg"""
    sx = parse_sexpr(line[line.index('('):])
    return _cfg(sx)


def _cfg(sx):
    c = DCfg()
    assert sx[0] == 'cfg'
    from common import unhx
    c.name, c.title, c.flags = unhx(sx[1]), unhx(sx[2]), int(sx[3])
    c.opts = [_opt(x) for x in sx[4:]]
    return c


def _opt(sx):
    from common import unhx
    o = DOpt()
    assert sx[0] == 'opt'
    o.name, o.kind, o.size = unhx(sx[1]), sx[2], int(sx[3])
    o.R, o.M, o.D = int(sx[4]), int(sx[5]), int(sx[6])
    o.comment = unhx(sx[7])
    o.vals = []
    for v in sx[8:]:
        if isinstance(v, list):
            o.vals.append(_cfg(v))
        elif o.kind == 'int':
            o.vals.append(int(v))
        elif o.kind == 'str':
            o.vals.append(unhx(v))
        else:
            o.vals.append(v)
    return o


# ---------------------------------------------------------------- by-name getters (getv / gettsec)
GETV_ZERO = {'int': '0', 'flt': '0000000000000000', 'bool': '0', 'str': '-', 'ptr': 'p0', 'sec': 'null'}
GETV_WRONG = {'int': 'str', 'flt': 'int', 'bool': 'int', 'str': 'flt', 'ptr': 'str', 'sec': 'int'}


def getter_sweep(schema, ctx=0, maxidx=3, titles=(b'x', b'one')):
    """`getv` lines reading every declared option of `schema` by name: top-level names, and the sub-options of section
    options addressed as NAME|SUB, NAME=0|SUB, NAME=1|SUB; indices 0..maxidx, one huge index, one wrong kind"""
    from common import hx
    out = []

    def one(path, o):
        k = o.base() if o.kind != 'func' else None
        if k is None:
            return
        for i in list(range(maxidx + 1)) + [4294967295]:
            out.append('getv %d %s %s %d' % (ctx, k, hx(path), i))
        if k != 'sec':
            out.append('getv0 %d %s %s' % (ctx, k, hx(path)))
        out.append('getv %d %s %s 0' % (ctx, GETV_WRONG[k], hx(path)))
    for o in schema:
        one(o.name, o)
        if o.kind == 'sec':
            for q in ((b'', b'=0', b'=1') if not o.flags & CFGF['TITLE'] else (b'',) + tuple(b'=' + t for t in titles)):
                for so in o.sub:
                    one(o.name + q + b'|' + so.name, so)
    out.append('getv %d int %s 0' % (ctx, hx(b'nosuchoption')))
    return out


def getv_expected(tree, kind, path, idx):
    """what cfg_getn<kind>(cfg, path, idx) answers on the dumped tree (paths as getter_sweep writes them)"""
    from common import hx
    steps = path.split(b'|')
    cur, pos = tree, ''
    o = None
    for si, st in enumerate(steps):
        name, eq, q = st.partition(b'=')
        oi = next((i for i, x in enumerate(cur.opts) if x.name == name), None)
        if oi is None:
            return GETV_ZERO[kind]
        o = cur.opts[oi]
        if si == len(steps) - 1:
            if eq:
                return None          # not written by the sweep
            break
        if o.kind != 'sec':
            return GETV_ZERO[kind]
        if eq and not (o.titled or o.multi):
            return None                  # a qualifier on a plain section: left to the model comparison
        if eq and o.titled:              # a titled section: the qualifier is a title
            k = next((j for j, v in enumerate(o.vals) if hasattr(v, 'opts') and v.title == q), len(o.vals))
        else:
            k = int(q) if eq else 0      # a step without qualifier is the first instance
        if k >= len(o.vals) or not hasattr(o.vals[k], 'opts'):
            return GETV_ZERO[kind]
        pos += '/%d.%d' % (oi, k)
        cur = o.vals[k]
    dk = {'float': 'flt'}.get(o.kind, o.kind)
    if dk != kind or idx >= len(o.vals):
        return GETV_ZERO[kind]
    v = o.vals[idx]
    if kind == 'int':
        return str(v)
    if kind == 'str':
        return '-' if v is None else (hx(v) if v else hx(b''))
    if kind == 'sec':
        return 'null' if not hasattr(v, 'opts') else pos + '/%d.%d' % (oi, idx)
    return v


def check_getters(scn, body, tree, schema):
    """oracle clause: every `getv` / `getv0` of the scenario answers what the dumped tree holds"""
    from common import unhx
    out = []
    titled = {o.name for o in schema if o.kind == 'sec' and o.flags & CFGF['TITLE']}
    multi = {o.name for o in schema if o.kind == 'sec' and o.flags & CFGF['MULTI']}
    for t in walk_opts(tree):
        t.titled, t.multi = t.name in titled, t.name in multi
    for i, l in enumerate(scn.lines):
        if not (l.startswith('getv ') or l.startswith('getv0 ')) or i >= len(body):
            continue
        f = l.split()
        kind, p, idx = f[2], f[3], (f[4] if len(f) > 4 else '0')
        m = re.search(r' v=(\S+)', body[i])
        got = m.group(1) if m else '?'
        want = getv_expected(tree, kind, unhx(p), int(idx))
        if want is not None and got != want:
            out.append(('getter:' + kind, '%s: `%s` (%r) answered %s, the tree holds %s' % (scn.id, l, unhx(p), got, want)))
    return out[:3]


def walk_opts(c):
    for o in c.opts:
        yield o
        for v in o.vals:
            if hasattr(v, 'opts'):
                yield from walk_opts(v)
