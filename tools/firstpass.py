#!/usr/bin/env python3
"""firstpass.py ROUNDFILE ID... — store the seeded changes a sub-agent left for each property ID (seedstore with the given
offset), run the property's check against them as it is NOW, and append the first-pass outcome to seeded/ROUNDFILE
(a change already listed there is not listed again: later strengthening must not rewrite the first-pass record)."""
import json
import os
import subprocess
import sys

VERIF = os.path.dirname(os.path.dirname(os.path.abspath(__file__)))
roundfile, off = sys.argv[1], int(sys.argv[2])
pids = sys.argv[3:]
path = os.path.join(VERIF, 'seeded', roundfile)
have = open(path).read() if os.path.exists(path) else '# first-pass results (checks as they were before looking at the change)\n\n| change | what | first pass |\n|---|---|---|\n'
ids = []
for pid in pids:
    out = subprocess.run([sys.executable, os.path.join(VERIF, 'tools', 'seedstore.py'), pid, str(off)], stdout=subprocess.PIPE, stderr=subprocess.STDOUT, text=True).stdout
    print('\n'.join(l for l in out.splitlines() if 'patch' in l or 'NOT' in l or 'diff' in l))
    for k in (1, 2):
        sid = '%s-%d' % (pid, k + off)
        if os.path.exists(os.path.join(VERIF, 'seeded', sid, 'patch.diff')):
            ids.append(sid)
subprocess.run([sys.executable, os.path.join(VERIF, 'tools', 'seedrun.py')] + ids, stdout=subprocess.DEVNULL, stderr=subprocess.DEVNULL)
for sid in ids:
    if ('| %s |' % sid) in have:
        continue
    det = json.load(open(os.path.join(VERIF, 'seeded', sid, 'detection.json')))
    meta = json.load(open(os.path.join(VERIF, 'seeded', sid, 'meta.json')))
    own = det['runs'][0]
    res = 'missed'
    if own['violations']:
        res = 'caught' + (' (no-failing-input-found)' if 'no-failing-input-found' in own['violations'][0] else '')
    line = '| %s | %s | %s |' % (sid, meta['what'][:150].replace('|', '\\|'), res)
    have += line + '\n'
    print(line)
open(path, 'w').write(have)
