#!/bin/sh
# mkworktree.sh DIR — a scratch git worktree of /repo at HEAD that builds and runs the test suite
# (configure output and other ignored files are copied from /repo).  Remove with:
#   git -C /repo worktree remove --force DIR
set -e
DIR=$1
git -C /repo worktree add -q --detach "$DIR" HEAD
rsync -a --ignore-existing --exclude .git /repo/ "$DIR"/
# object files copied from /repo are older than the sources only if the sources match; force a clean library build
rm -f "$DIR"/src/*.o "$DIR"/src/*.lo "$DIR"/src/*.la "$DIR"/src/lexer.c
rm -rf "$DIR"/src/.libs
echo "worktree ready: $DIR"
