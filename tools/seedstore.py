#!/usr/bin/env python3
"""seedstore.py ID — take the two seeded changes a sub-agent left in /tmp/wt/ID.out, confirm each in the scratch worktree
/tmp/wt/ID (tools/seedverify.sh: builds, test suite passes, demo fails with / passes without), store the confirmed ones as
seeded/ID-K/{patch.diff,demo.c,notes.md,meta.json}, then remove the worktree and the output directory."""
import json
import os
import re
import shutil
import subprocess
import sys

VERIF = os.path.dirname(os.path.dirname(os.path.abspath(__file__)))
pid = sys.argv[1]
off = int(sys.argv[2]) if len(sys.argv) > 2 else 0      # later rounds are stored as ID-(K+off)
wt, out = '/tmp/wt/' + pid, '/tmp/wt/%s.out' % pid
head = subprocess.run(['git', '-C', wt, 'rev-parse', '--short', 'HEAD'], stdout=subprocess.PIPE, text=True).stdout.strip()
for k in (1, 2):
    patch, demo, notes = ['%s/m%d%s' % (out, k, s) for s in ('.diff', '_demo.c', '_notes.md')]
    if not (os.path.exists(patch) and os.path.exists(demo)):
        print('%s-%d: missing files' % (pid, k))
        continue
    r = subprocess.run([os.path.join(VERIF, 'tools', 'seedverify.sh'), wt, patch, demo], stdout=subprocess.PIPE, stderr=subprocess.STDOUT, text=True).stdout.strip()
    print(r)
    ok = ("build_with=0" in r and "FAIL:  0" in r and "PASS:  24" in r and re.search(r'demo_with=[1-9]', r) and 'demo_without=0' in r)
    if not ok:
        print('%s-%d: NOT confirmed, not stored' % (pid, k))
        continue
    d = os.path.join(VERIF, 'seeded', '%s-%d' % (pid, k + off))
    os.makedirs(d, exist_ok=True)
    shutil.copy(patch, d + '/patch.diff')
    shutil.copy(demo, d + '/demo.c')
    ntxt = open(notes).read() if os.path.exists(notes) else ''
    open(d + '/notes.md', 'w').write(ntxt)
    lines = [l.strip() for l in ntxt.splitlines() if l.strip()]
    what = re.sub(r'^#+\s*', '', lines[0]) if lines else ''
    need = ' '.join(l for l in lines if re.search(r'need|manifest|trigger|shows? (up|only)', l, re.I))[:600]
    files = sorted(set(re.findall(r'^\+\+\+ b/(\S+)', open(patch).read(), re.M)))
    meta = dict(id='%s-%d' % (pid, k + off), property=pid, what=what, needs_to_manifest=need, files_changed=files,
                origin='written by a fresh sub-agent given only the property text and a scratch worktree of /repo (nothing from /verif)',
                confirmed_by_me=dict(commands=['git apply patch.diff && make -j4 && make -j4 check   (in a scratch worktree of /repo at %s)' % head,
                                               'gcc -I src -I . -DHAVE_CONFIG_H demo.c src/.libs/libconfuse.a -o demo && ./demo   (with the change, then again after git checkout -- . && make)'],
                                     result=r.split(': ', 1)[-1], script='tools/seedverify.sh'),
                demo='demo.c exits non-zero with the change and 0 without', notes="notes.md (the sub-agent's own description)")
    json.dump(meta, open(d + '/meta.json', 'w'), indent=1)
subprocess.run(['git', '-C', '/repo', 'worktree', 'remove', '--force', wt])
shutil.rmtree(out, ignore_errors=True)
for f in (wt + '.property.txt',):
    pass
