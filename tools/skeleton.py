#!/usr/bin/env python3
"""skeleton.py — a second, syntactic tie between /repo/src/confuse.c (+ the hand-written part of lexer.l) and the
hand-written Coq model: for every modelled C function, the SET of diagnostic format strings it can emit
(cfg_error calls) must equal the set of diagnostic strings of the corresponding Gallina definition, and for cfg_parse_internal also the state skeleton: for every parser state the set of successor states
assigned in its case block must equal the successor states of the model's branch for that state.

It proves nothing; it detects drift of the code away from the model in places the generated scenarios may not reach
(a new error path, a reordered check, a changed transition).  A mismatch is reported by tools/check.py as a broken tie
(VIOLATION ... no-failing-input-found unless an oracle finds a failing input).  Exit 0 = in step."""
import os
import re
import sys

VERIF = os.path.dirname(os.path.dirname(os.path.abspath(__file__)))
REPO = os.environ.get('REPO', '/repo')

# C function -> (Coq file, Coq definition name(s) whose bodies, concatenated in this order, model it)
MAP = {
    'cfg_getopt_secidx': ('Store.v', ['secidx_loop']),
    'cfg_setopt': ('Parser.v', ['setopt']),
    'cfg_handle_deprecated': ('Parser.v', ['handle_deprecated']),
    # cfg_include() is inlined in the model's function-call branch (FInclude) of parse_internal
    'cfg_parse_internal+cfg_include': ('Parser.v', ['parse_internal']),
    'cfg_lexer_include': ('Parser.v', ['lexer_include']),
    'cfg_opt_rmnsec': ('Api.v', ['opt_rmnsec']),
}
# messages of the C function that the model deliberately does not contain, with the reason
NOT_MODELLED = {
    ('cfg_lexer_include', "%s: Failed tilde expand"): 'allocation failure inside cfg_tilde_expand (C18 model), not in the parser model',
}


# which properties' model parts transcribe which C function (a drift is reported only by those checks)
RELEVANT = {
    'cfg_getopt_secidx': ['C01', 'C06', 'C09', 'C10', 'C11', 'C12', 'C14'],
    'cfg_setopt': ['C01', 'C04', 'C05', 'C06', 'C07', 'C10', 'C14', 'C16'],
    'cfg_handle_deprecated': ['C01', 'C12'],
    # the grammar itself (C01, C12), its diagnostics (C06), the function-call states (C14); the other properties that run
    # the parser see a drift through their own scenarios
    'cfg_parse_internal+cfg_include': ['C01', 'C06', 'C12', 'C14'],
    'cfg_lexer_include': ['C06', 'C08', 'C13', 'C17'],
    'cfg_opt_rmnsec': ['C09', 'C10'],
}


def c_functions(path):
    """{name: body text} for functions defined at column 0 (K&R brace on its own line)"""
    src = open(path, encoding='latin-1').read()
    out = {}
    for m in re.finditer(r'^(?:DLLIMPORT\s+|static\s+)?[A-Za-z_][\w \t\*]*?\b(\w+)\s*\([^;{}]*\)\s*\n\{\n(.*?)^\}\n', src, re.M | re.S):
        out[m.group(1)] = m.group(2)
    return out


def c_messages(body):
    return [m.group(1) for m in re.finditer(r'cfg_error\(\s*[\w>-]+\s*,\s*(?:_\()?\s*"((?:[^"\\]|\\.)*)"', body)]


def coq_definition(path, name):
    src = open(path, encoding='latin-1').read()
    src = re.sub(r'\(\*.*?\*\)', '', src, flags=re.S)
    m = re.search(r'^(?:Fixpoint|Definition|with)\s+%s\b(.*?)(?=^(?:Fixpoint|Definition|with|Lemma|Theorem|Inductive|Record|Section|End|Notation|Local|Arguments)\b)' % re.escape(name), src, re.M | re.S)
    return m.group(1) if m else None


def coq_messages(body):
    return [m.group(1).replace('""', '"') for m in re.finditer(r'"((?:[^"]|"")*)"', body) if '%' in m.group(1) or ' ' in m.group(1)]


def c_state_skeleton(body):
    """parser states: {state: sorted set of successor states assigned inside its case block}"""
    sk = {}
    parts = re.split(r'^\t\tcase (\d+):', body, flags=re.M)
    for i in range(1, len(parts), 2):
        st = int(parts[i])
        blk = parts[i + 1]
        sk[st] = sorted(set(int(x) for x in re.findall(r'\bstate = (\d+);', blk)))
    return sk


def balanced_arg(t, i):
    """t[i:] starts (after blanks) with an identifier or a parenthesised term: return the index just behind it"""
    while i < len(t) and t[i] in ' \n\t':
        i += 1
    if i < len(t) and t[i] == '(':
        depth = 0
        while i < len(t):
            depth += t[i] == '('
            depth -= t[i] == ')'
            i += 1
            if depth == 0:
                return i
        return i
    while i < len(t) and (t[i].isalnum() or t[i] in "_'"):
        i += 1
    return i


def coq_state_skeleton(body):
    """{state: successor states}: numerals given to st_state, plus `N%nat` numerals in expression position (the
    computed successor of state 0)"""
    sk = {}
    parts = re.split(r'^ {6}\| ((?:\d+%nat(?: \| )?)+) =>', body, flags=re.M)
    for i in range(1, len(parts), 2):
        blk = parts[i + 1]
        succ = set()
        for m in re.finditer(r'\bst_state\b', blk):
            j = balanced_arg(blk, m.end())
            n = re.match(r'\s*(\d+)', blk[j:])
            if n:
                succ.add(int(n.group(1)))
        for m in re.finditer(r'(?<!\w)(\d+)%nat(?!\s*=>)', blk):
            succ.add(int(m.group(1)))
        for st in re.findall(r'(\d+)%nat', parts[i]):
            sk[int(st)] = sorted(succ)
    return sk


def check(pid=None):
    """differences, restricted to the functions relevant for property pid (all when pid is None)"""
    problems = []
    cf = c_functions(os.path.join(REPO, 'src', 'confuse.c'))
    lf = c_functions(os.path.join(REPO, 'src', 'lexer.l'))
    cf.update({k: v for k, v in lf.items() if k not in cf})
    for cname, (vfile, defs) in MAP.items():
        if pid is not None and pid not in RELEVANT.get(cname, []):
            continue
        missing = [n for n in cname.split('+') if n not in cf]
        if missing:
            problems.append('%s: C function not found (renamed or reformatted?)' % '+'.join(missing))
            continue
        want = [x for n in cname.split('+') for x in c_messages(cf[n]) if (cname, x) not in NOT_MODELLED]
        got = []
        for d in defs:
            b = coq_definition(os.path.join(VERIF, 'coq', vfile), d)
            if b is None:
                problems.append('%s: Coq definition %s not found in %s' % (cname, d, vfile))
                b = ''
            got += coq_messages(b)
        got = [x for x in got if (cname, x) not in NOT_MODELLED]
        if set(want) != set(got):
            problems.append('%s vs %s.%s: the sets of diagnostics differ\n    only in C    : %s\n    only in model: %s' % (
                cname, vfile, '+'.join(defs), sorted(set(want) - set(got)), sorted(set(got) - set(want))))
    if 'cfg_parse_internal' in cf and (pid is None or pid in RELEVANT['cfg_parse_internal+cfg_include']):
        a = c_state_skeleton(cf['cfg_parse_internal'])
        b = coq_state_skeleton(coq_definition(os.path.join(VERIF, 'coq', 'Parser.v'), 'parse_internal') or '')
        # the model treats states 8 and 9 in one branch: compare the union there
        if b.get(8) == b.get(9) and 8 in a and 9 in a:
            a[8] = a[9] = sorted(set(a[8]) | set(a[9]))
        for st in sorted(set(a) | set(b)):
            if a.get(st) != b.get(st):
                problems.append('cfg_parse_internal state %d: successor states differ: C %s, model %s' % (st, a.get(st), b.get(st)))
    return problems


if __name__ == '__main__':
    ps = check(sys.argv[1] if len(sys.argv) > 1 else None)
    for p in ps:
        print('skeleton: ' + p)
    print('skeleton: %s' % ('IN STEP' if not ps else '%d difference(s)' % len(ps)))
    sys.exit(1 if ps else 0)
