#!/usr/bin/env python3
"""check.py Cxx [--tier quick|thorough] [--replay FILE]

Decides one property on /repo's current working tree:
 1. regenerate LexRules.v/Consts.v from the sources and re-check the property's theorems (coqc);
 2. build the C harness from the working tree and the model driver from the extracted model;
 3. run the corpus and the generated scenarios through both, compare (correspondence), and run
    the property's direct oracles on the implementation's results;
 4. write evidence/Cxx.json; print VIOLATION / KNOWN-FINDING lines; exit 0 or 1.
"""
import argparse
import hashlib
import importlib
import json
import os
import re
import sys
import time

sys.path.insert(0, os.path.dirname(os.path.abspath(__file__)))
import common
from common import VERIF, COQ, Scn, Rng

# evidence (and replay) directory; diverted by tools/seedrun.py while a seeded change is applied to /repo
EVDIR = os.environ.get('VERIF_EVIDENCE_DIR') or os.path.join(VERIF, 'evidence')

ALLOWED_AXIOMS = set()      # no axiom is expected; stdlib axioms would be listed here and in DESIGN.md


def theorem_names(vfile):
    names = []
    for m in re.finditer(r'^(Theorem|Example|Corollary)\s+(\w+)', open(vfile).read(), re.M):
        names.append((m.group(2), m.start()))
    return names


def check_proofs(pid, log):
    """all theorem files of a property: Properties_<pid>.v and Properties_<pid>[a-z].v (later additions)"""
    import glob
    targets = sorted(os.path.basename(f)[:-2] for f in glob.glob(os.path.join(COQ, 'Properties_%s*.v' % pid))
                     if re.fullmatch(r'Properties_%s[a-z]?\.v' % pid, os.path.basename(f)))
    if not targets:
        return dict(obligations=0, discharged=0, names=[], failed=[], assumptions=[], ok=False, detail='no theorem file')
    tot = None
    for t in targets:
        r = check_proofs_file(t, log)
        if tot is None:
            tot = r
        else:
            for k in ('obligations', 'discharged'):
                tot[k] += r[k]
            for k in ('names', 'failed', 'assumptions'):
                tot[k] += r[k]
            tot['ok'] = tot['ok'] and r['ok']
            tot['detail'] = (tot['detail'] + '\n' + r['detail']).strip()
    return tot


def check_proofs_file(target, log):
    """returns dict(obligations, discharged, names, failed, assumptions, ok, detail)"""
    vfile = os.path.join(COQ, target + '.v')
    res = dict(obligations=0, discharged=0, names=[], failed=[], assumptions=[], ok=False, detail='')
    if not os.path.exists(vfile):
        res['detail'] = 'no theorem file'
        return res
    names = theorem_names(vfile)
    res['names'] = [n for n, _ in names]
    res['obligations'] = len(names)
    with common.Lock('model'):
        rc, out = common.regen_lexrules()
        log.append(out)
        if rc != 0:
            res['detail'] = 'translator failed: ' + out[-500:]
            res['failed'] = res['names']
            return res
        vo = os.path.join(COQ, target + '.vo')
        rc, out = common.coq_make([target + '.vo'])
        log.append(out[-6000:])
        # the assumptions are printed when the file is (re)compiled; keep them beside the .vo
        apath = os.path.join(COQ, target + '.assumptions')
        if 'Closed under the global context' in out or 'Axioms:' in out:
            open(apath, 'w').write(out)
        if rc == 0 and os.path.exists(vo):
            res['discharged'] = len(names)
            txt = open(apath).read() if os.path.exists(apath) else ''
            if not txt:
                # force a rebuild of just this file to capture Print Assumptions
                os.remove(vo)
                rc, out = common.coq_make([target + '.vo'])
                open(apath, 'w').write(out)
                txt = out
            closed = txt.count('Closed under the global context')
            axioms = re.findall(r'^Axioms:\n((?:.+\n)+?)(?=\S|\Z)', txt, re.M)
            res['assumptions'] = ['%d theorems closed under the global context' % closed] + [a.strip() for a in axioms]
            bad = [a for a in axioms if a.strip().split()[0] not in ALLOWED_AXIOMS]
            res['ok'] = not bad
            if bad:
                res['detail'] = 'unexpected axioms: ' + ' | '.join(b.strip() for b in bad)
        else:
            # which theorem broke: first error position in the property file or in a dependency
            m = re.search(r'File "\./(\w+)\.v", line (\d+)', out)
            failing_file = m.group(1) if m else '?'
            if m and failing_file == target:
                line_no = int(m.group(2))
                src = open(vfile).read()
                off = sum(len(l) + 1 for l in src.split('\n')[:line_no - 1])
                ok_names = [n for n, p in names if p < off]
                # the theorem containing the error is the last one starting before it
                bad_name = ok_names[-1] if ok_names else (names[0][0] if names else '?')
                res['discharged'] = max(0, len(ok_names) - 1)
                res['failed'] = [bad_name]
            else:
                res['failed'] = ['%s (in %s.v)' % (re.search(r'Error:(.*)', out, re.S).group(1).strip()[:200] if 'Error' in out else 'build', failing_file)]
            res['detail'] = out[-1500:]
    return res


def load_known():
    p = os.path.join(VERIF, 'known_findings.json')
    if not os.path.exists(p):
        return []
    return json.load(open(p))


def write_replay(pid, header, scns):
    d = os.path.join(EVDIR, 'replays')
    os.makedirs(d, exist_ok=True)
    body = ''.join(s.text() for s in scns)
    h = hashlib.sha256((header + body).encode()).hexdigest()[:10]
    path = os.path.join(d, '%s_%s.scn' % (pid, h))
    with open(path, 'w') as f:
        f.write('# property=%s\n%s%s' % (pid, ''.join('# %s\n' % l for l in header.split('\n') if l), body))
    return os.path.relpath(path, VERIF)


def read_scn_file(path):
    scns = []
    cur = None
    for line in open(path):
        line = line.rstrip('\n')
        if line.startswith('=== '):
            cur = Scn(line[4:], [])
            scns.append(cur)
        elif cur is not None and line and not line.startswith('#'):
            cur.lines.append(line)
    return scns


DIAG_LINE = re.compile(r'((?:diags=\[|;)(?:[0-9a-f]+|-|\.)),-?\d+,')


def compare(prop, scn, il, ml):
    """correspondence on the property's projection; returns None or a description"""
    proj = getattr(prop, 'project', None)
    if il is None:
        return 'implementation produced no result'
    if ml is None:
        return 'model produced no result'
    ib, it = (il[:-1], il[-1]) if il and il[-1].startswith('--- ') else (il, None)
    mb, mt = (ml[:-1], ml[-1]) if ml and ml[-1].startswith('--- ') else (ml, None)
    n = min(len(ib), len(mb))
    for k in range(n):
        if k < len(scn.lines) and scn.lines[k].startswith('spec_'):
            continue            # reference-meaning queries exist on the model side only
        a, b = ib[k], mb[k]
        if proj:
            a, b = proj(a), proj(b)
        if not getattr(prop, 'COMPARE_LINES', False):
            # line numbers inside diagnostics are the subject of C06 / C08 / C13 only; elsewhere a disagreement about
            # them alone says nothing about the property (file names and messages are still compared)
            a, b = DIAG_LINE.sub(r'\1,', a), DIAG_LINE.sub(r'\1,', b)
        if a != b:
            return 'line %d differs:\n  impl : %s\n  model: %s' % (k + 1, ib[k][:600], mb[k][:600])
    if not common.status_equiv(it, mt):
        return 'outcome differs:\n  impl : %s (after %d lines)\n  model: %s (after %d lines)' % (it, len(ib), mt, len(mb))
    if len(ib) != len(mb) and (mt or '').find('status=exit:0') >= 0:
        return 'number of result lines differs: impl %d, model %d' % (len(ib), len(mb))
    return None


def evaluate(prop, scns, variant, want_model=True):
    """run scenarios; returns list of problems: dict(kind, key, scn, text)"""
    want_model = want_model and not getattr(prop, 'NO_MODEL', False)
    impl = common.run_impl(variant, scns)
    # scenarios marked impl_only use harness features the model has no counterpart for (e.g. a callback that starts
    # a nested parse): they are judged by the oracle alone
    model = common.run_model([s for s in scns if not s.meta.get('impl_only')]) if want_model else {}
    problems = []
    stats = dict(nontrivial=set(), evaluations=0)
    oracle = getattr(prop, 'oracle', None)
    nontriv = getattr(prop, 'nontrivial', None)
    for s in scns:
        il = impl.get(s.id)
        ml = model.get(s.id)
        stats['evaluations'] += 1
        if oracle:
            res = oracle(s, il or [], ml or []) if oracle.__code__.co_argcount >= 3 else oracle(s, il or [])
            for key, text in res:
                # keys starting with `tie:` report a disagreement between the library and a proved model (not a
                # violation of the property by itself): they are handled like correspondence failures
                problems.append(dict(kind='correspondence' if key.startswith('tie:') else 'oracle', key=key, scn=s, text=text))
        if want_model and not s.meta.get('impl_only'):
            d = compare(prop, s, il, ml)
            if d:
                problems.append(dict(kind='correspondence', key='correspondence', scn=s, text=d))
        if il and (nontriv(s, il) if nontriv else True):
            stats['nontrivial'].add(hashlib.sha256('\n'.join(s.lines).encode()).hexdigest())
    # oracles that compare scenarios with each other (e.g. a history against the fresh-process baseline)
    cross = getattr(prop, 'cross_oracle', None)
    if cross:
        byid = {s.id: s for s in scns}
        for sid, key, text in cross(scns, impl):
            problems.append(dict(kind='oracle', key=key, scn=byid[sid], text=text))
    # further instrumented runs of (a subset of) the same scenarios: sanitizers, valgrind, counting allocator
    for v in getattr(prop, 'EXTRA_VARIANTS', []):
        sel = [s for s in scns if prop.extra_select(s, v)]
        if not sel:
            continue
        impl2 = common.run_impl(v, sel)
        for s in sel:
            for key, text in prop.oracle_variant(s, impl2.get(s.id) or [], v):
                problems.append(dict(kind='oracle', key=key, scn=s, text=text, variant=v))
        stats['extra_' + v] = len(sel)
    return problems, stats, impl


def shrink(prop, scn, variant, pred, budget=60):
    """make a failing scenario smaller while pred (a function scn -> bool: still failing) holds"""
    reduce = getattr(prop, 'reduce', None)
    if reduce:
        for _ in range(4):
            cands = list(reduce(scn))[:budget]
            hit = next((c for c in cands if pred(c)), None)
            if hit is None:
                break
            scn = hit
        return scn
    if 'expect' in scn.meta:
        return scn
    lines = list(scn.lines)
    keep_prefix = ('schema ', 'init ')
    i = len(lines) - 1
    tries = 0
    while i >= 0 and tries < budget:
        if not lines[i].startswith(keep_prefix):
            cand = Scn(scn.id, lines[:i] + lines[i + 1:], scn.meta)
            tries += 1
            if pred(cand):
                lines = cand.lines
        i -= 1
    return Scn(scn.id, lines, scn.meta)


def main():
    ap = argparse.ArgumentParser()
    ap.add_argument('pid')
    ap.add_argument('--tier', default=os.environ.get('VERIF_TIER', 'quick'))
    ap.add_argument('--replay')
    args = ap.parse_args()
    pid = args.pid
    tier = args.tier if args.tier in ('quick', 'thorough') else 'quick'
    seed = int(os.environ.get('VERIF_SEED', '1'))
    t0 = time.time()
    prop = importlib.import_module('props.' + pid)
    common.FALLBACK_OK = pid in common.RULE_TABLE_INDEPENDENT
    variant = getattr(prop, 'VARIANT', 'plain')
    log = []
    violations = []      # (replay path, text)
    known_hits = {}
    known = [k for k in load_known() if k['property'] == pid and k['kind'] == 'known']
    known_keys = {k['cause_key']: k for k in known}

    # ---------------- replay mode
    if args.replay:
        scns = read_scn_file(os.path.join(VERIF, args.replay) if not os.path.isabs(args.replay) else args.replay)
        hdr = open(os.path.join(VERIF, args.replay) if not os.path.isabs(args.replay) else args.replay).read()
        still = False
        mth = re.search(r'# theorem=(\S+)', hdr)
        if mth:
            pr = check_proofs(pid, log)
            if not pr['ok'] or pr['failed']:
                print('replay: theorem file does not check: %s' % ', '.join(pr['failed'] or [pr['detail'][:200]]))
                still = True
        if scns:
            problems, _, impl = evaluate(prop, scns, variant)
            for p in problems:
                if p['kind'] == 'oracle' and p['key'] in known_keys:
                    continue
                print('replay: %s [%s] %s: %s' % (p['kind'], p['key'], p['scn'].id, p['text'][:500]))
                still = True
        print('replay: %s' % ('STILL FAILS' if still else 'passes'))
        sys.exit(1 if still else 0)

    # ---------------- 1. proofs
    pr = check_proofs(pid, log)
    proof_broken = (not pr['ok']) or bool(pr['failed'])
    # the syntactic tie of the hand-written model to confuse.c (diagnostic sets per function, parser state skeleton)
    import skeleton
    drift = skeleton.check(pid)
    if drift:
        pr['failed'] = pr['failed'] + ['model-code skeleton tie (tools/skeleton.py)']
        pr['detail'] = (pr['detail'] + '\n' + '\n'.join('skeleton: ' + d for d in drift)).strip()
        proof_broken = True

    # ---------------- 2/3. scenarios
    build_error = None
    problems, stats, samples = [], dict(nontrivial=set(), evaluations=0), []
    dist = {}
    try:
        corpus_dir = os.path.join(VERIF, 'corpus', pid)
        scns = []
        if os.path.isdir(corpus_dir):
            for fn in sorted(os.listdir(corpus_dir)):
                if fn.endswith('.scn'):
                    for s in read_scn_file(os.path.join(corpus_dir, fn)):
                        s.id = 'corpus/%s/%s' % (fn, s.id)
                        scns.append(s)
        # the thorough tier draws from several seeds (VERIF_SEED, +1, ...) unless the property's oracle relates scenarios to
        # each other by id or group (cross_oracle); scenarios with identical text are run once
        nseeds = int(os.environ.get('VERIF_NSEEDS', '4')) if tier == 'thorough' and not hasattr(prop, 'cross_oracle') else 1
        seen, texts = set(), set()
        gen = []
        for k in range(nseeds):
            for s in prop.generate(Rng(seed + k), tier):
                if k:
                    s.id = '%s~s%d' % (s.id, seed + k)
                if s.id in seen:
                    raise RuntimeError('duplicate scenario id ' + s.id)
                seen.add(s.id)
                t = '\n'.join(s.lines)
                if k and t in texts:
                    continue
                texts.add(t)
                gen.append(s)
        scns += gen
        for s in scns:
            k = s.meta.get('class', 'other')
            dist[k] = dist.get(k, 0) + 1
        problems, stats, impl = evaluate(prop, scns, variant)
        samples = [dict(id=s.id, scenario=s.lines[:12], result=(impl.get(s.id) or [])[:12]) for s in scns[:2] + scns[-1:]]
    except common.BuildError as e:
        build_error = str(e)

    # ---------------- verdict
    oracle_fail = [p for p in problems if p['kind'] == 'oracle']
    corr_fail = [p for p in problems if p['kind'] == 'correspondence']
    reported = set()
    for p in oracle_fail:
        if p['key'] in known_keys:
            known_hits.setdefault(p['key'], p)
            continue
        if p['key'] in reported:
            continue
        reported.add(p['key'])
        if len(reported) > 3:
            continue

        def still(c, key=p['key']):
            try:
                ps, _, _ = evaluate(prop, [c], variant, want_model=getattr(prop, 'ORACLE_NEEDS_MODEL', False))
            except (IndexError, KeyError, ValueError, AttributeError):
                return False        # the oracle addresses result lines by position: this candidate removed one it needs
            return any(q['kind'] == 'oracle' and q['key'] == key for q in ps)
        small = shrink(prop, p['scn'], variant, still)
        path = write_replay(pid, 'oracle=%s cause=%s\nseed=%d tier=%s variant=%s\n%s' % (
            pid, p['key'], seed, tier, variant, p['text'][:1000]), [small])
        violations.append((path, 'oracle %s: %s' % (p['key'], p['text'][:300]), ''))
    if build_error:
        path = write_replay(pid, 'build=failed\n' + build_error[-1500:], [])
        violations.append((path, 'build failed: ' + build_error[-300:], ' no-failing-input-found'))
    unexplained_corr = corr_fail if not reported else []
    if unexplained_corr:
        p = unexplained_corr[0]
        path = write_replay(pid, 'correspondence=%s\nseed=%d tier=%s variant=%s\n%d scenarios disagree; first:\n%s' % (
            pid, seed, tier, variant, len(corr_fail), p['text'][:1500]), [q['scn'] for q in unexplained_corr[:5]])
        violations.append((path, 'model and implementation disagree on %d scenarios; first %s: %s' % (
            len(corr_fail), p['scn'].id, p['text'][:300]), ' no-failing-input-found'))
    if proof_broken and not reported:
        path = write_replay(pid, 'theorem=%s\n%s' % (','.join(pr['failed']) or 'assumptions', pr['detail'][-1500:]), [])
        violations.append((path, 'theorem(s) no longer check: %s' % (', '.join(pr['failed']) or pr['detail'][:200]),
                           ' no-failing-input-found'))

    for key, p in sorted(known_hits.items()):
        print('KNOWN-FINDING: property=%s %s (%s)' % (pid, known_keys[key]['text'], key))
    for path, text, suffix in violations:
        print('# ' + text.replace('\n', '\n# '))
        print('VIOLATION property=%s replay=%s%s' % (pid, path, suffix))

    # ---------------- evidence
    wall = time.time() - t0
    ev = dict(
        property_id=pid, tier=tier, seed=seed, level='proof',
        coverage=dict(
            obligations=pr['obligations'], discharged=pr['discharged'],
            checker_cmd='python3 tools/lex2coq.py /repo/src/lexer.l /repo/src/confuse.h coq && make -C coq Properties_%s.vo  (coqc 8.16.1, full .vo build)' % pid,
            trusted_base=getattr(prop, 'TRUSTED', []) + [
                'Coq 8.16.1 kernel + vm_compute (no native_compute)',
                'tools/lex2coq.py + tools/lex_actions.tbl (translator lexer.l -> LexRules.v)' + (
                    ' — lexer.l did NOT translate in this run; frozen rule table used (property independent of its content)' if common.FALLBACK_USED else ''),
                'tools/skeleton.py (per-function diagnostic sets and the parser state skeleton of confuse.c compared with the model on every run: %s)' % ('in step' if not drift else 'DRIFT'),
                'hand-written model coq/*.v tied to the C by the correspondence run counted below',
                'extraction (ExtrOcamlBasic only) + ocaml/driver.ml + harness/implrun.c',
            ],
            theorems=pr['names'], failed_theorems=pr['failed'], print_assumptions=pr['assumptions'],
            evaluations=stats['evaluations'], distinct_nontrivial=len(stats['nontrivial']),
            instrumented_runs={k[6:]: v for k, v in stats.items() if k.startswith('extra_')},
            rule=getattr(prop, 'RULE', 'scenarios generated by props/%s.py; non-trivial = the implementation produced a result and the scenario passes the property module\'s nontrivial() test; distinct by scenario text' % pid),
            samples=samples, distribution=dist,
            correspondence_disagreements=len(corr_fail), oracle_failures=len(oracle_fail),
            known_findings_hit=sorted(known_hits.keys()),
            harness_variant=variant,
        ),
        assumptions=getattr(prop, 'ASSUMPTIONS', []),
        wall_s=round(wall, 2), violations=len(violations))
    os.makedirs(EVDIR, exist_ok=True)
    with open(os.path.join(EVDIR, pid + '.json'), 'w') as f:
        json.dump(ev, f, indent=1)
    print('%s: %d/%d obligations, %d scenarios (%d distinct non-trivial), %d oracle failures, %d disagreements, %d known, %.1fs' % (
        pid, pr['discharged'], pr['obligations'], stats['evaluations'], len(stats['nontrivial']), len(oracle_fail),
        len(corr_fail), len(known_hits), wall))
    sys.exit(1 if violations else 0)


if __name__ == '__main__':
    main()
