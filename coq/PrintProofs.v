(* PrintProofs.v — C19: cfg_print emits each unfiltered option once, in declaration order, at its depth.
   Proofs about print_cfg / print_opt / print_value (Print.v). *)
From Coq Require String.
Import String.StringSyntax.
From Coq Require Import List Arith NArith ZArith Bool Lia.
From Coq.Strings Require Import Byte.
From LC Require Import Bytes Consts Conv Lexer Store Print.
Import ListNotations.
Local Open Scope string_scope.
Local Open Scope list_scope.

(* ------------------------------------------------------------------ *)
(* vocabulary                                                          *)
(* ------------------------------------------------------------------ *)
(* the filter in force inside context c when the caller hands down fb *)
Definition eff_filter (c : cfg) (fb : option (list str)) : option (list str) :=
  match c_pff c with Some f => Some f | None => fb end.

Definition suppressed (eff : option (list str)) (o : opt) : bool :=
  match eff with Some f => name_in (o_name o) f | None => false end.

(* the comment annotation line of an option *)
Definition annotation (flags : N) (comment : option str) (d : nat) : str :=
  match comment with
  | Some t => if has flags CFGF_COMMENTS then indent_str d ++ M "/* " ++ cstr t ++ M " */" ++ [nl] else []
  | None => []
  end.

(* the opening line of a section *)
Definition sec_header (name : str) (flags : N) (s : cfg) : str :=
  if has flags CFGF_TITLE
  then cstr name ++ M " " ++ quoted (c_title s) ++ M " {" ++ [nl]
  else cstr name ++ M " {" ++ [nl].

(* what one value of a section option contributes *)
Definition sec_block (fmt : N -> str) (name : str) (flags : N) (pff : option (list str)) (d : nat) (v : value) : str :=
  match v with
  | VSec (Some s) =>
      indent_str d ++ sec_header name flags s ++ print_cfg fmt s pff (S d) ++ indent_str d ++ M "}" ++ [nl]
  | _ => []
  end.

Definition scalar_kind (k : kind) : bool :=
  match k with KInt | KFloat | KBool | KStr => true | _ => false end.

(* ------------------------------------------------------------------ *)
(* (a) print_cfg is the ordered concatenation over the unfiltered opts *)
(* ------------------------------------------------------------------ *)
Lemma go_concat (P : opt -> bool) (F : opt -> str) (l : list opt) :
  (fix go (l : list opt) : str :=
     match l with
     | [] => []
     | o :: r => (if P o then [] else F o) ++ go r
     end) l
  = concat (map F (filter (fun o => negb (P o)) l)).
Proof.
  induction l as [|o r IH]; [reflexivity|].
  cbn [filter]. destruct (P o); cbn [negb map concat app].
  - exact IH.
  - rewrite IH. reflexivity.
Qed.

Lemma C19_print_is_ordered_concat_pf : forall fmt c fb d,
  print_cfg fmt c fb d =
  concat (map (fun o => print_opt fmt o (eff_filter c fb) d)
              (filter (fun o => negb (suppressed (eff_filter c fb) o)) (c_opts c))).
Proof.
  intros fmt c fb d. destruct c as [name title flags opts file line err pff].
  cbn [print_cfg]. unfold eff_filter, suppressed. cbn [c_pff c_opts].
  exact (go_concat (fun o => match match pff with Some f => Some f | None => fb end with
                             | Some f => name_in (o_name o) f | None => false end)
                   (fun o => print_opt fmt o (match pff with Some f => Some f | None => fb end) d) opts).
Qed.

(* ------------------------------------------------------------------ *)
(* (b) the body of a section option                                    *)
(* ------------------------------------------------------------------ *)
Lemma secs_concat (F : value -> str) (l : list value) :
  (fix secs (l : list value) : str :=
     match l with
     | [] => []
     | v :: r => F v ++ secs r
     end) l
  = concat (map F l).
Proof.
  induction l as [|v r IH]; [reflexivity|]. cbn [map concat]. rewrite IH. reflexivity.
Qed.

Lemma C19_section_body_pf : forall fmt name flags vals sub def comment cbs pff d,
  print_opt fmt (Opt name KSec flags vals sub def comment cbs) pff d =
  annotation flags comment d ++ concat (map (sec_block fmt name flags pff d) vals).
Proof.
  intros. cbn [print_opt]. unfold annotation. f_equal.
  exact (secs_concat (sec_block fmt name flags pff d) vals).
Qed.

(* ------------------------------------------------------------------ *)
(* (c) filter inheritance                                              *)
(* ------------------------------------------------------------------ *)
Lemma C19_inherits_outer_pf : forall fmt s f d,
  c_pff s = None ->
  print_cfg fmt s (Some f) d =
  concat (map (fun o => print_opt fmt o (Some f) d)
              (filter (fun o => negb (name_in (o_name o) f)) (c_opts s))).
Proof.
  intros fmt s f d H. rewrite C19_print_is_ordered_concat_pf. unfold eff_filter, suppressed. rewrite H. reflexivity.
Qed.

Lemma filter_all {A} (P : A -> bool) l : (forall x, P x = true) -> filter P l = l.
Proof. intros H. induction l as [|x r IH]; [reflexivity|]. cbn [filter]. rewrite H, IH. reflexivity. Qed.

Lemma C19_no_filter_pf : forall fmt s d,
  c_pff s = None ->
  print_cfg fmt s None d = concat (map (fun o => print_opt fmt o None d) (c_opts s)).
Proof.
  intros fmt s d H. rewrite C19_print_is_ordered_concat_pf. unfold eff_filter, suppressed. rewrite H.
  rewrite filter_all; reflexivity.
Qed.

Lemma C19_inner_wins_pf : forall fmt s g fb d,
  c_pff s = Some g ->
  print_cfg fmt s fb d = print_cfg fmt s (Some g) d /\
  print_cfg fmt s fb d =
  concat (map (fun o => print_opt fmt o (Some g) d)
              (filter (fun o => negb (name_in (o_name o) g)) (c_opts s))).
Proof.
  intros fmt s g fb d H. rewrite !C19_print_is_ordered_concat_pf. unfold eff_filter, suppressed. rewrite H.
  split; reflexivity.
Qed.

(* ------------------------------------------------------------------ *)
(* (d) an unset scalar is printed commented out                        *)
(* ------------------------------------------------------------------ *)
Lemma C19_unset_scalar_commented_pf : forall fmt name k flags sub def comment cbs pff d,
  scalar_kind k = true -> has flags CFGF_LIST = false ->
  let o := Opt name k flags [] sub def comment cbs in
  print_opt fmt o pff d =
  annotation flags comment d ++ indent_str d ++ M "# " ++ cstr name ++ M "=" ++ print_value fmt o 0 ++ [nl].
Proof.
  intros fmt name k flags sub def comment cbs pff d Hk Hl o. subst o.
  destruct k; try discriminate Hk; cbn [print_opt]; rewrite Hl; reflexivity.
Qed.

(* ------------------------------------------------------------------ *)
(* (e) the print callback is local to its option                       *)
(* ------------------------------------------------------------------ *)
Lemma C19_print_callback_local_pf : forall fmt o i,
  (forall k, cb_print (o_cbs o) = Some k -> print_value fmt o i = pf_text o i) /\
  (cb_print (o_cbs o) = None -> print_value fmt o i = nprint_var fmt o i).
Proof.
  intros fmt o i. unfold print_value. split.
  - intros k ->. reflexivity.
  - intros ->. reflexivity.
Qed.

(* ------------------------------------------------------------------ *)
(* (f) a list option is one line: every index once, in order           *)
(* ------------------------------------------------------------------ *)
Lemma C19_list_line_pf : forall fmt name k flags vals sub def comment cbs pff d,
  scalar_kind k = true -> has flags CFGF_LIST = true ->
  let o := Opt name k flags vals sub def comment cbs in
  print_opt fmt o pff d =
  annotation flags comment d ++ indent_str d ++ cstr name ++ M " = {" ++
  sep_by (M ", ") (map (print_value fmt o) (seq 0 (length vals))) ++ M "}" ++ [nl].
Proof.
  intros fmt name k flags vals sub def comment cbs pff d Hk Hl o. subst o.
  destruct k; try discriminate Hk; cbn [print_opt]; rewrite Hl; reflexivity.
Qed.

(* ------------------------------------------------------------------ *)
(* (g) a set scalar is one uncommented line name=value                 *)
(* ------------------------------------------------------------------ *)
Definition null_string_value (k : kind) (vals : list value) : bool :=
  kind_eqb k KStr && match nth_error vals 0 with Some (VStr (Some _)) => false | _ => true end.

Lemma C19_set_scalar_line_pf : forall fmt name k flags v vals sub def comment cbs pff d,
  scalar_kind k = true -> has flags CFGF_LIST = false ->
  null_string_value k (v :: vals) = false ->
  let o := Opt name k flags (v :: vals) sub def comment cbs in
  print_opt fmt o pff d =
  annotation flags comment d ++ indent_str d ++ cstr name ++ M "=" ++ print_value fmt o 0 ++ [nl].
Proof.
  intros fmt name k flags v vals sub def comment cbs pff d Hk Hl Hn o. subst o.
  unfold null_string_value in Hn.
  destruct k; try discriminate Hk; cbn [print_opt]; rewrite Hl; cbn [length Nat.eqb orb];
    rewrite Hn; reflexivity.
Qed.

(* a string option whose value is NULL is commented out like an unset one *)
Lemma C19_null_string_commented_pf : forall fmt name flags vals sub def comment cbs pff d,
  has flags CFGF_LIST = false ->
  null_string_value KStr vals = true ->
  let o := Opt name KStr flags vals sub def comment cbs in
  print_opt fmt o pff d =
  annotation flags comment d ++ indent_str d ++ M "# " ++ cstr name ++ M "=" ++ print_value fmt o 0 ++ [nl].
Proof.
  intros fmt name flags vals sub def comment cbs pff d Hl Hn o. subst o.
  unfold null_string_value in Hn.
  cbn [print_opt]; rewrite Hl, Hn, orb_true_r; reflexivity.
Qed.

(* ------------------------------------------------------------------ *)
(* (h) functions and untyped options print only through a callback     *)
(* ------------------------------------------------------------------ *)
Lemma C19_func_line_pf : forall fmt name k flags vals sub def comment cbs pff d,
  (k = KFunc \/ k = KNone) ->
  let o := Opt name k flags vals sub def comment cbs in
  print_opt fmt o pff d =
  annotation flags comment d ++
  match cb_print cbs with Some _ => indent_str d ++ pf_text o 0 ++ [nl] | None => [] end.
Proof.
  intros fmt name k flags vals sub def comment cbs pff d [-> | ->] o; subst o; reflexivity.
Qed.

(* ------------------------------------------------------------------ *)
(* (i) depth: the indentation is two spaces per level, and a nested    *)
(*     context is printed exactly one level deeper                     *)
(* ------------------------------------------------------------------ *)
Lemma indent_str_length : forall d, length (indent_str d) = 2 * d.
Proof.
  induction d as [|d IH]; [reflexivity|].
  unfold indent_str in *. cbn [repeat concat]. rewrite app_length, IH. cbn. lia.
Qed.

Lemma indent_str_spaces : forall d, Forall (fun b => b = x20) (indent_str d).
Proof.
  induction d as [|d IH]; [constructor|].
  unfold indent_str in *. cbn [repeat concat]. apply Forall_app. split; [|exact IH].
  repeat constructor.
Qed.

Lemma indent_str_S : forall d, indent_str (S d) = M "  " ++ indent_str d.
Proof. reflexivity. Qed.

(* ------------------------------------------------------------------ *)
(* (j) splitting at an option: a suppressed option leaves no trace,    *)
(*     an unsuppressed one contributes one contiguous block in place   *)
(* ------------------------------------------------------------------ *)
Lemma C19_suppressed_no_trace_pf : forall fmt a b c0 l1 o l2 e f g pff fb d,
  let c := Cfg a b c0 (l1 ++ o :: l2) e f g pff in
  suppressed (eff_filter c fb) o = true ->
  print_cfg fmt c fb d = print_cfg fmt (Cfg a b c0 (l1 ++ l2) e f g pff) fb d.
Proof.
  intros fmt a b c0 l1 o l2 e f g pff fb d c H. subst c.
  rewrite !C19_print_is_ordered_concat_pf.
  unfold eff_filter in *. cbn [c_pff c_opts] in *.
  rewrite !filter_app. cbn [filter]. rewrite H. reflexivity.
Qed.

Lemma C19_block_in_place_pf : forall fmt a b c0 l1 o l2 e f g pff fb d,
  let c := Cfg a b c0 (l1 ++ o :: l2) e f g pff in
  suppressed (eff_filter c fb) o = false ->
  print_cfg fmt c fb d =
  print_cfg fmt (Cfg a b c0 l1 e f g pff) fb d ++
  print_opt fmt o (eff_filter c fb) d ++
  print_cfg fmt (Cfg a b c0 l2 e f g pff) fb d.
Proof.
  intros fmt a b c0 l1 o l2 e f g pff fb d c H. subst c.
  rewrite !C19_print_is_ordered_concat_pf.
  unfold eff_filter in *. cbn [c_pff c_opts] in *.
  rewrite filter_app. cbn [filter]. rewrite H. cbn [negb].
  rewrite map_app, concat_app. cbn [map concat]. reflexivity.
Qed.
