(* LexAct.v — the vocabulary of scanner actions.  The generated LexRules.v maps
   every rule of lexer.l to one of these constructors by looking the C text
   of its action up in tools/lex_actions.tbl; their semantics is in Lexer.v. *)
From Coq Require Import List NArith.
From LC Require Import Bytes Flex.
Import ListNotations.

(* start conditions, in the order flex numbers them: INITIAL then %x declarations *)
Inductive sc := INITIAL | comment | dq_str | sq_str.
Definition sc_eqb (a b : sc) : bool :=
  match a, b with INITIAL, INITIAL | comment, comment | dq_str, dq_str | sq_str, sq_str => true | _, _ => false end.

Inductive action :=
| A_skip                      (* empty action *)
| A_qstr (skip : N)           (* return qstr(cfg, skip, CFGT_COMMENT) *)
| A_punct (tok : N)           (* cfg_yylval = yytext; return tok *)
| A_begin_comment             (* qbeg(comment) *)
| A_qput                      (* qput(NULL, 0) *)
| A_qput_nl                   (* qput(cfg, 0) *)
| A_qend_comment              (* return qend(cfg, 1, CFGT_COMMENT) *)
| A_begin_dq                  (* qstring_index = 0; BEGIN(dq_str) *)
| A_begin_sq                  (* qstring_index = 0; BEGIN(sq_str) *)
| A_str_end                   (* BEGIN(INITIAL); qputc(0); cfg_yylval = cfg_qstring; return CFGT_STR *)
| A_env_dq                    (* ${NAME[:-default]} inside "..." *)
| A_env_initial               (* ${NAME[:-default]} as a token *)
| A_putc_nl_line              (* qputc('\n'); cfg->line++ *)
| A_line                      (* cfg->line++ *)
| A_octal                     (* \ooo *)
| A_bad_escape                (* error "bad escape sequence" *)
| A_hex                       (* \xhh *)
| A_putc_lit (c : N)          (* qputc(<literal>) *)
| A_putc_yy0                  (* qputc(yytext[0]) *)
| A_putc_yy1                  (* qputc(yytext[1]) *)
| A_putc_yy01                 (* qputc(yytext[0]); qputc(yytext[1]) *)
| A_put_all                   (* copy yytext up to its first NUL with qputc *)
| A_word                      (* cfg_yylval = yytext; return CFGT_STR *)
| A_unrecognised (n : nat).   (* action text not in the template table *)

Inductive eof_action :=
| E_sq_unterminated           (* cfg_error("unterminated string constant"); return 0 *)
| E_unterminated              (* cfg_error("unterminated %s", comment | string constant); return 0 *)
| E_pop_or_eof                (* pop an include level or return EOF *)
| E_unrecognised (n : nat).

Record rule := { r_sc : list sc; r_re : re; r_act : action }.
Record eof_rule := { e_sc : list sc; e_act : eof_action }.
