(* DqProofs.v — double-quoted strings: every unit of LexSpec is recognised by the
   GENERATED <dq_str> rules with the action that stores its denotation. *)
From Coq Require Import List Arith NArith Bool Lia.
From Coq.Strings Require Import Byte.
From LC Require Import Bytes Flex LexAct LexRules Consts Lexer LexSpec LexLemmas.
Import ListNotations.

Definition any (_ : byte) := true.
Definition oct_bytes : list byte := filter is_octal all_bytes.
Definition hex_bytes : list byte := filter is_hex all_bytes.
Lemma in_filter_all f c : f c = true -> In c (filter f all_bytes).
Proof. intros H. apply filter_In. split; [apply all_bytes_complete|exact H]. Qed.

Notation U := (unit_ok dq_str).

Lemma sweep_impl (P Q : byte -> bool) :
  forallb (fun c => implb (P c) (Q c)) all_bytes = true -> forall c, P c = true -> Q c = true.
Proof. intros H c Hp. pose proof (sweep _ H c) as Hc. cbv beta in Hc. rewrite Hp in Hc. exact Hc. Qed.

Definition plain_char (c : byte) := negb (Byte.eqb c bs) && negb (Byte.eqb c dq) && negb (Byte.eqb c nl) && negb (Byte.eqb c dollar).
Definition is_letter (c : byte) := match escape_letter c with Some _ => true | None => false end.
Definition letter_act (c : byte) := match escape_letter c with Some b => A_putc_lit (bN b) | None => A_skip end.
Definition other_ok (c : byte) := unit_wf (UOther c).

(* ---- computed facts about the current rule table (finite sweeps over all 256 bytes) ---- *)
Lemma char_sweep : forallb (fun c => implb (plain_char c) ((fun c => U [c] A_putc_yy0 any) c)) all_bytes = true.
Proof. vm_compute. reflexivity. Qed.
Lemma nl_ok : U [nl] A_putc_nl_line any = true.
Proof. vm_compute. reflexivity. Qed.
Lemma dollar_ok : U [dollar] A_putc_yy0 (fun c => negb (Byte.eqb c lbrace)) = true.
Proof. vm_compute. reflexivity. Qed.
Lemma letter_sweep : forallb (fun c => implb (is_letter c) ((fun c => U [bs; c] (letter_act c) any) c)) all_bytes = true.
Proof. vm_compute. reflexivity. Qed.
Lemma other_sweep : forallb (fun c => implb (other_ok c) ((fun c => U [bs; c] A_putc_yy1 any) c)) all_bytes = true.
Proof. vm_compute. reflexivity. Qed.
Lemma cont_ok : U [bs; nl] A_line any = true.
Proof. vm_compute. reflexivity. Qed.
Lemma close_ok : U [dq] A_str_end any = true.
Proof. vm_compute. reflexivity. Qed.
Definition notdigit c := negb (is_digit c).
Definition nothex c := negb (is_hex c).
Lemma oct1_sweep : forallb (fun a => U [bs; a] A_octal notdigit) oct_bytes = true.
Proof. vm_compute. reflexivity. Qed.
Lemma oct2_sweep : forallb (fun a => forallb (fun b => U [bs; a; b] A_octal notdigit) oct_bytes) oct_bytes = true.
Proof. vm_compute. reflexivity. Qed.
Lemma oct3_sweep : forallb (fun a => forallb (fun b => forallb (fun c => U [bs; a; b; c] A_octal notdigit) oct_bytes) oct_bytes) oct_bytes = true.
Proof. vm_compute. reflexivity. Qed.
Lemma hex1_sweep : forallb (fun a => U [bs; x78; a] A_hex nothex) hex_bytes = true.
Proof. vm_compute. reflexivity. Qed.
Lemma hex2_sweep : forallb (fun a => forallb (fun b => U [bs; x78; a; b] A_hex any) hex_bytes) hex_bytes = true.
Proof. vm_compute. reflexivity. Qed.

(* ---- ${...}: two fixed bytes, a silent loop over non-'}' bytes, the closing brace ---- *)
Definition notrbrace (c : byte) := negb (Byte.eqb c rbrace).
Definition env_ok : bool :=
  match munch_pre (active_res dq_str) [dollar; lbrace] 0 None with
  | Some (V1, _, _) =>
      silent_loop V1 notrbrace &&
      (let V2 := map (deriv rbrace) V1 in
       negb (forallb is_emp V2) && dead V2 &&
       match first_nullable V2 0 with Some j => act_is dq_str j A_env_dq | None => false end)
  | None => false
  end.
Lemma env_ok_true : env_ok = true.
Proof. vm_compute. reflexivity. Qed.

Lemma munch_pre_len rs u : forall n best V n' b', munch_pre rs u n best = Some (V, n', b') -> n' = (n + length u)%nat.
Proof.
  revert rs. induction u as [|c u IH]; intros rs n best V n' b' H; cbn [munch_pre] in H.
  - inversion H. cbn. lia.
  - destruct (forallb is_emp (map (deriv c) rs)); [discriminate|]. apply IH in H. cbn [length]. lia.
Qed.

Lemma munch_cons_alive V c rest n best :
  forallb is_emp (map (deriv c) V) = false ->
  munch V (c :: rest) n best =
  munch (map (deriv c) V) rest (S n) (match first_nullable (map (deriv c) V) 0 with Some i => Some (i, S n) | None => best end).
Proof. intros H. cbn [munch]. rewrite H. reflexivity. Qed.

Lemma env_munch_gen R A :
  (match munch_pre R [dollar; lbrace] 0 None with
   | Some (V1, _, _) =>
      silent_loop V1 notrbrace &&
      (let V2 := map (deriv rbrace) V1 in
       negb (forallb is_emp V2) && dead V2 &&
       match first_nullable V2 0 with
       | Some j => match nth_error A j with Some r => action_eqb (r_act r) A_env_dq | None => false end
       | None => false end)
   | None => false
   end) = true ->
  forall body rest, Forall (fun c => notrbrace c = true) body ->
  exists j r, munch R ((dollar :: lbrace :: body ++ [rbrace]) ++ rest) 0 None
              = Some (j, length (dollar :: lbrace :: body ++ [rbrace]))
              /\ nth_error A j = Some r /\ r_act r = A_env_dq.
Proof.
  intros H body rest Hb.
  destruct (munch_pre R [dollar; lbrace] 0 None) as [[[V1 n1] b1]|] eqn:Hp; [|discriminate].
  pose proof (munch_pre_len _ _ _ _ _ _ _ Hp) as Hn1. cbn in Hn1. subst n1.
  apply andb_prop in H as [Hl H]. apply andb_prop in H as [H H3]. apply andb_prop in H as [H1 H2].
  destruct (first_nullable (map (deriv rbrace) V1) 0) as [j|] eqn:Hfn; [|discriminate].
  destruct (nth_error A j) as [r|] eqn:Hr; [|discriminate].
  apply action_eqb_eq in H3. exists j, r. split; [|split; assumption].
  replace ((dollar :: lbrace :: body ++ [rbrace]) ++ rest) with ([dollar; lbrace] ++ (body ++ rbrace :: rest))
    by (cbn; rewrite <- app_assoc; reflexivity).
  rewrite (munch_pre_app _ _ _ _ _ _ _ _ Hp).
  rewrite (munch_silent_loop _ _ Hl) by exact Hb.
  apply negb_true_iff in H1. rewrite (munch_cons_alive _ _ _ _ _ H1), Hfn.
  rewrite munch_dead by exact H2.
  cbn [length]. rewrite app_length. cbn [length]. f_equal. f_equal. lia.
Qed.

Lemma env_munch body rest :
  Forall (fun c => notrbrace c = true) body ->
  exists j r, munch (active_res dq_str) ((dollar :: lbrace :: body ++ [rbrace]) ++ rest) 0 None
              = Some (j, length (dollar :: lbrace :: body ++ [rbrace]))
              /\ nth_error (active_rules dq_str) j = Some r /\ r_act r = A_env_dq.
Proof. apply env_munch_gen. exact env_ok_true. Qed.

(* ---- the action each unit is given ---- *)
Definition act_of (u : dunit) : action :=
  match u with
  | UChar c => if Byte.eqb c nl then A_putc_nl_line else A_putc_yy0
  | ULetter c => match escape_letter c with Some b => A_putc_lit (bN b) | None => A_skip end
  | UOther _ => A_putc_yy1
  | UOct _ => A_octal
  | UHex _ => A_hex
  | UCont => A_line
  | UEnv _ => A_env_dq
  end.

Lemma forallb_In {A} (f : A -> bool) l x : forallb f l = true -> In x l -> f x = true.
Proof. intros H Hi. rewrite forallb_forall in H. auto. Qed.

Notation MUNCH u rest a :=
  (exists j r, munch (active_res dq_str) (u ++ rest) 0 None = Some (j, length u)
              /\ nth_error (active_rules dq_str) j = Some r /\ r_act r = a).

Lemma follows_any rest : follows any rest.
Proof. destruct rest; cbn; auto. Qed.

Lemma um_nl rest : MUNCH [nl] rest A_putc_nl_line.
Proof. exact (unit_ok_munch dq_str [nl] A_putc_nl_line any rest nl_ok (follows_any rest)). Qed.

Lemma um_dollar rest : follows (fun c => negb (Byte.eqb c lbrace)) rest -> MUNCH [dollar] rest A_putc_yy0.
Proof. intros H. exact (unit_ok_munch dq_str [dollar] A_putc_yy0 _ rest dollar_ok H). Qed.

Lemma um_char c rest :
  Byte.eqb c bs = false -> Byte.eqb c dq = false -> Byte.eqb c nl = false -> Byte.eqb c dollar = false ->
  MUNCH [c] rest A_putc_yy0.
Proof.
  intros Hb Hq En Ed.
  assert (Hp : plain_char c = true) by (unfold plain_char; rewrite Hb, Hq, En, Ed; reflexivity).
  exact (unit_ok_munch dq_str [c] A_putc_yy0 any rest (sweep_impl _ _ char_sweep c Hp) (follows_any rest)).
Qed.

Lemma um_letter c b rest : escape_letter c = Some b -> MUNCH [bs; c] rest (A_putc_lit (bN b)).
Proof.
  intros He.
  assert (Hp : is_letter c = true) by (unfold is_letter; rewrite He; reflexivity).
  assert (Ha : letter_act c = A_putc_lit (bN b)) by (unfold letter_act; rewrite He; reflexivity).
  rewrite <- Ha.
  exact (unit_ok_munch dq_str [bs; c] (letter_act c) any rest (sweep_impl _ _ letter_sweep c Hp) (follows_any rest)).
Qed.

Lemma um_other c rest : unit_wf (UOther c) = true -> MUNCH [bs; c] rest A_putc_yy1.
Proof.
  intros Hwf.
  exact (unit_ok_munch dq_str [bs; c] A_putc_yy1 any rest (sweep_impl _ _ other_sweep c Hwf) (follows_any rest)).
Qed.

Lemma um_cont rest : MUNCH [bs; nl] rest A_line.
Proof. exact (unit_ok_munch dq_str [bs; nl] A_line any rest cont_ok (follows_any rest)). Qed.

Lemma um_oct ds rest :
  (1 <= length ds <= 3)%nat -> forallb is_octal ds = true -> follows notdigit rest -> MUNCH (bs :: ds) rest A_octal.
Proof.
  intros Hl Ho Hfo.
  destruct ds as [|a [|b [|c [|d ds]]]]; cbn [length] in Hl; try lia; cbn [forallb] in Ho.
  - apply andb_prop in Ho as [Ha _].
    exact (unit_ok_munch dq_str [bs; a] _ notdigit rest (forallb_In _ _ a oct1_sweep (in_filter_all _ _ Ha)) Hfo).
  - apply andb_prop in Ho as [Ha Ho]. apply andb_prop in Ho as [Hb _].
    pose proof (forallb_In _ _ a oct2_sweep (in_filter_all _ _ Ha)) as H. cbv beta in H.
    exact (unit_ok_munch dq_str [bs; a; b] _ notdigit rest (forallb_In _ _ b H (in_filter_all _ _ Hb)) Hfo).
  - apply andb_prop in Ho as [Ha Ho]. apply andb_prop in Ho as [Hb Ho]. apply andb_prop in Ho as [Hc _].
    pose proof (forallb_In _ _ a oct3_sweep (in_filter_all _ _ Ha)) as H. cbv beta in H.
    pose proof (forallb_In _ _ b H (in_filter_all _ _ Hb)) as H'. cbv beta in H'.
    exact (unit_ok_munch dq_str [bs; a; b; c] _ notdigit rest (forallb_In _ _ c H' (in_filter_all _ _ Hc)) Hfo).
Qed.

Lemma um_hex hs rest :
  (1 <= length hs <= 2)%nat -> forallb is_hex hs = true -> follows (follow_ok (UHex hs)) rest ->
  MUNCH (bs :: x78 :: hs) rest A_hex.
Proof.
  intros Hl Ho Hfo.
  destruct hs as [|a [|b [|c hs]]]; cbn [length] in Hl; try lia; cbn [forallb] in Ho.
  - apply andb_prop in Ho as [Ha _].
    assert (Hf' : follows nothex rest) by (destruct rest; cbn in *; auto).
    exact (unit_ok_munch dq_str [bs; x78; a] _ nothex rest (forallb_In _ _ a hex1_sweep (in_filter_all _ _ Ha)) Hf').
  - apply andb_prop in Ho as [Ha Ho]. apply andb_prop in Ho as [Hb _].
    pose proof (forallb_In _ _ a hex2_sweep (in_filter_all _ _ Ha)) as H. cbv beta in H.
    exact (unit_ok_munch dq_str [bs; x78; a; b] _ any rest (forallb_In _ _ b H (in_filter_all _ _ Hb)) (follows_any rest)).
Qed.

Lemma unit_munch u rest :
  unit_wf u = true -> follows (follow_ok u) rest -> MUNCH (render1 u) rest (act_of u).
Proof.
  intros Hwf Hf. destruct u as [c|c|c|ds|hs| |body]; cbn [render1 act_of].
  - cbn [unit_wf] in Hwf. apply andb_prop in Hwf as [Hb Hq]. apply negb_true_iff in Hb, Hq.
    destruct (Byte.eqb c nl) eqn:En.
    + apply byte_eqb_eq in En. subst c. apply um_nl.
    + destruct (Byte.eqb c dollar) eqn:Ed.
      * apply byte_eqb_eq in Ed. subst c. apply um_dollar. destruct rest; cbn in *; auto.
      * apply um_char; assumption.
  - cbn [unit_wf] in Hwf. destruct (escape_letter c) as [b|] eqn:He; [|discriminate]. apply um_letter. exact He.
  - apply um_other. exact Hwf.
  - cbn [unit_wf] in Hwf. apply andb_prop in Hwf as [Hwf Hv]. apply andb_prop in Hwf as [Hwf Ho].
    apply andb_prop in Hwf as [H1 H3]. apply Nat.leb_le in H1, H3.
    apply um_oct; [lia|exact Ho|]. destruct rest; cbn in *; auto.
  - cbn [unit_wf] in Hwf. apply andb_prop in Hwf as [Hwf Ho]. apply andb_prop in Hwf as [H1 H3].
    apply Nat.leb_le in H1, H3. apply um_hex; [lia|exact Ho|exact Hf].
  - apply um_cont.
  - cbn [unit_wf] in Hwf. apply env_munch.
    rewrite Forall_forall. intros c Hc. rewrite forallb_forall in Hwf. specialize (Hwf c Hc).
    apply andb_prop in Hwf as [H _]. exact H.
Qed.

(* ---- what the action does with the unit ---- *)
Lemma Nb_bN : forall b, Nb (bN b) = b.
Proof.
  intro b. apply byte_eqb_eq. revert b. apply sweep. vm_compute. reflexivity.
Qed.

Lemma split_find s : forall acc, split_colon_dash s acc = find_colon_dash s acc.
Proof. induction s as [|c s IH]; intros acc; cbn; [reflexivity|]. destruct (Byte.eqb c x3a); [reflexivity|apply IH]. Qed.

Lemma env_lookup_spec e body :
  Forall (fun c => c <> x00) body ->
  env_lookup e (dollar :: lbrace :: body ++ [rbrace]) =
  (let '(name, dflt) := find_colon_dash body [] in
   match getenv e name with Some v => Some v | None => dflt end).
Proof.
  intros Hb. unfold env_lookup.
  assert (Hc : cstr (dollar :: lbrace :: body ++ [rbrace]) = dollar :: lbrace :: body ++ [rbrace]).
  { apply cstr_no_nul. unfold no_nul. constructor; [discriminate|]. constructor; [discriminate|].
    apply Forall_app. split; [exact Hb|]. constructor; [discriminate|constructor]. }
  rewrite Hc.
  change (dollar :: lbrace :: body ++ [rbrace]) with ((dollar :: lbrace :: body) ++ [rbrace]).
  rewrite removelast_last. cbn [skipn]. rewrite split_find. reflexivity.
Qed.

Definition st_frame (s s' : lexst) : Prop :=
  l_sc s' = l_sc s /\ l_bufs s' = l_bufs s /\ l_inc s' = l_inc s /\ l_echo s' = l_echo s /\ l_next s' = l_next s.

Lemma frame_set_q s q : st_frame s (set_q s q).
Proof. unfold st_frame, set_q; cbn. repeat split. Qed.
Lemma frame_refl s : st_frame s s.
Proof. unfold st_frame. repeat split. Qed.

Lemma pos_add0 p : {| p_file := p_file p; p_line := p_line p + 0 |} = p.
Proof. destruct p; cbn. rewrite N.add_0_r. reflexivity. Qed.

Lemma count_nl_env body : count_nl (dollar :: lbrace :: body ++ [rbrace]) = count_nl body.
Proof.
  unfold count_nl. f_equal. cbn [filter]. change (Byte.eqb dollar x0a) with false. change (Byte.eqb lbrace x0a) with false.
  rewrite filter_app, app_length. cbn. lia.
Qed.

Lemma unit_effect e u st p :
  unit_wf u = true ->
  exists st', run_action e (act_of u) (render1 u) st p
              = Continue st' {| p_file := p_file p; p_line := p_line p + unit_lines u |}
   /\ q_data (l_q st') = q_data (l_q st) ++ denote1 e u /\ st_frame st st'.
Proof.
  intros Hwf. destruct u as [c|c|c|ds|hs| |body]; cbn [act_of render1 denote1 unit_lines].
  - destruct (Byte.eqb c nl) eqn:En.
    + apply byte_eqb_eq in En. subst c. eexists. split; [reflexivity|]. split; [apply q_data_qputc|apply frame_set_q].
    + eexists. split; [cbn [run_action nth]; rewrite pos_add0; reflexivity|]. split; [apply q_data_qputc|apply frame_set_q].
  - cbn [unit_wf] in Hwf. destruct (escape_letter c) as [b|]; [|discriminate].
    eexists. split; [cbn [run_action]; rewrite pos_add0; reflexivity|].
    split; [rewrite Nb_bN; apply q_data_qputc|apply frame_set_q].
  - eexists. split; [cbn [run_action nth]; rewrite pos_add0; reflexivity|]. split; [apply q_data_qputc|apply frame_set_q].
  - cbn [unit_wf] in Hwf. apply andb_prop in Hwf as [_ Hv].
    cbn [run_action skipn].
    assert (Hlt : (255 <? digits_val 8 ds)%N = false).
    { apply N.ltb_ge. apply N.leb_le. exact Hv. }
    rewrite Hlt. eexists. split; [rewrite pos_add0; reflexivity|]. split; [apply q_data_qputc|apply frame_set_q].
  - eexists. split; [cbn [run_action skipn]; rewrite pos_add0; reflexivity|]. split; [apply q_data_qputc|apply frame_set_q].
  - eexists. split; [reflexivity|]. split; [rewrite app_nil_r; reflexivity|apply frame_refl].
  - cbn [unit_wf] in Hwf.
    assert (Hnz : Forall (fun c => c <> x00) body).
    { rewrite Forall_forall. intros c Hc. rewrite forallb_forall in Hwf. specialize (Hwf c Hc).
      apply andb_prop in Hwf as [_ H]. apply negb_true_iff in H. apply byte_eqb_neq in H. exact H. }
    cbn [run_action]. rewrite (env_lookup_spec e body Hnz). unfold env_subst. rewrite (cstr_no_nul body Hnz).
    rewrite (count_nl_env body). unfold add_lines, newlines.
    destruct (find_colon_dash body []) as [name dflt].
    destruct (getenv e name) as [v|].
    + eexists. split; [reflexivity|]. split; [apply q_data_qputs|apply frame_set_q].
    + destruct dflt as [d|].
      * eexists. split; [reflexivity|]. split; [apply q_data_qputs|apply frame_set_q].
      * eexists. split; [reflexivity|]. split; [rewrite app_nil_r; reflexivity|apply frame_refl].
Qed.

(* what is observable of a cfg_yylex result *)
Record lexobs := { ob_tok : tok; ob_val : option str; ob_bufs : list (nat * list byte); ob_sc : sc;
                   ob_line : N; ob_file : option str; ob_diags : list diag; ob_echo : list byte;
                   ob_inc : list incframe; ob_closed : nat; ob_oof : bool }.
Definition observe (r : lexres) : lexobs :=
  {| ob_tok := r_tok r; ob_val := r_val r; ob_bufs := l_bufs (r_st r); ob_sc := l_sc (r_st r);
     ob_line := p_line (r_pos r); ob_file := p_file (r_pos r); ob_diags := r_diags r; ob_echo := l_echo (r_st r);
     ob_inc := l_inc (r_st r); ob_closed := r_closed r; ob_oof := r_fuel_out r |}.

Lemma follows_of_wf u us last rest :
  follow_ok u (match render us with c :: _ => c | [] => last end) = true ->
  follows (follow_ok u) (render us ++ last :: rest).
Proof. intros H. destruct (render us) as [|c r]; cbn; exact H. Qed.

Theorem dq_body_scan e : forall us st p closed id rest others fuel,
  units_wf us dq = true -> l_sc st = dq_str -> l_bufs st = (id, render us ++ dq :: rest) :: others ->
  (length us < fuel)%nat ->
  observe (yylex e fuel st p closed) =
  {| ob_tok := TStr; ob_val := Some (cstr (q_data (l_q st) ++ denote e us)); ob_bufs := (id, rest) :: others;
     ob_sc := INITIAL; ob_line := p_line p + lines_of us; ob_file := p_file p; ob_diags := []; ob_echo := l_echo st;
     ob_inc := l_inc st; ob_closed := closed; ob_oof := false |}.
Proof.
  induction us as [|u us IH]; intros st p closed id rest others fuel Hwf Hsc Hb Hf.
  - destruct fuel as [|fuel]; [cbn in Hf; lia|].
    cbn [render flat_map app] in Hb.
    destruct (unit_ok_munch dq_str [dq] _ any rest close_ok) as (j & r & Hm & Hn & Ha); [destruct rest; cbn; auto|].
    rewrite (yylex_step dq_str e fuel st p closed id [dq] rest others j r Hsc Hb Hm Hn). rewrite Ha.
    cbn [run_action]. unfold observe; cbn. rewrite app_nil_r, N.add_0_r. reflexivity.
  - destruct fuel as [|fuel]; [cbn in Hf; lia|].
    cbn [units_wf] in Hwf. apply andb_prop in Hwf as [Hwf Hrest]. apply andb_prop in Hwf as [Hu Hfo].
    cbn [render flat_map] in Hb. fold (render us) in Hb. rewrite <- app_assoc in Hb.
    destruct (unit_munch u (render us ++ dq :: rest) Hu (follows_of_wf _ _ _ _ Hfo)) as (j & r & Hm & Hn & Ha).
    rewrite (yylex_step dq_str e fuel st p closed id _ _ others j r Hsc Hb Hm Hn). rewrite Ha.
    destruct (unit_effect e u (set_bufs st ((id, render us ++ dq :: rest) :: others)) p Hu) as (st' & He & Hq & Hfr).
    rewrite He. destruct Hfr as (F1 & F2 & F3 & F4 & F5).
    rewrite (IH st' _ closed id rest others fuel Hrest); [| rewrite F1; exact Hsc | rewrite F2; reflexivity | cbn in Hf; lia].
    cbn [p_file p_line]. rewrite Hq, F3, F4. cbn [set_bufs l_q l_inc l_echo denote flat_map lines_of fold_right].
    fold (denote e us). fold (lines_of us). rewrite <- app_assoc, N.add_assoc. reflexivity.
Qed.

(* ---- from INITIAL: the opening quote ---- *)
Lemma open_ok : unit_ok INITIAL [dq] A_begin_dq any = true.
Proof. vm_compute. reflexivity. Qed.

Theorem dq_string_token e us st p closed id rest others fuel :
  units_wf us dq = true -> l_sc st = INITIAL -> l_bufs st = (id, dq :: render us ++ dq :: rest) :: others ->
  (S (length us) < fuel)%nat ->
  observe (yylex e fuel st p closed) =
  {| ob_tok := TStr; ob_val := Some (cstr (denote e us)); ob_bufs := (id, rest) :: others;
     ob_sc := INITIAL; ob_line := p_line p + lines_of us; ob_file := p_file p; ob_diags := []; ob_echo := l_echo st;
     ob_inc := l_inc st; ob_closed := closed; ob_oof := false |}.
Proof.
  intros Hwf Hsc Hb Hf. destruct fuel as [|fuel]; [lia|].
  destruct (unit_ok_munch INITIAL [dq] _ any (render us ++ dq :: rest) open_ok) as (j & r & Hm & Hn & Ha);
    [destruct (render us); cbn; auto|].
  change (dq :: render us ++ dq :: rest) with ([dq] ++ (render us ++ dq :: rest)) in Hb.
  rewrite (yylex_step INITIAL e fuel st p closed id _ _ others j r Hsc Hb Hm Hn). rewrite Ha.
  cbn [run_action].
  rewrite (dq_body_scan e us _ p closed id rest others fuel Hwf); [reflexivity|reflexivity|reflexivity|lia].
Qed.
