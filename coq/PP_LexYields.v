(* PP_LexYields.v — the token list computed by lex_all is a token source in the sense of PP_Tok.yields:
   cfg_yylex's token, value and next state do not depend on the position passed in; a token other than
   TErr carries no diagnostic; with an empty include stack no FILE is closed and the stack stays empty. *)
From Coq Require Import List Arith NArith Bool Lia.
From Coq.Strings Require Import Byte.
From LC Require Import Bytes Flex LexAct LexRules Consts Lexer LexLemmas LexAll Files Store Parser Grammar PP_Step PP_Tok.
Import ListNotations.

(* ---- run_action: everything but the position and the diagnostics is position independent ---- *)
Definition out_rel (a b : outcome) : Prop :=
  match a, b with
  | Continue s _, Continue s' _ => s = s'
  | Return t v s _ d, Return t' v' s' _ d' =>
      t = t' /\ v = v' /\ s = s' /\ (t <> TErr -> d = [] /\ d' = []) /\ (t = TEof -> v = None)
  | _, _ => False
  end.

Lemma run_action_indep e a y s p q : out_rel (run_action e a y s p) (run_action e a y s q).
Proof.
  destruct a; cbn [run_action]; split_action e y; cbn [out_rel];
    repeat split; auto; try congruence; intros; try congruence; try discriminate.
Qed.

Definition eof_rel (a b : outcome * nat) : Prop := out_rel (fst a) (fst b) /\ snd a = snd b.

Lemma run_eof_indep a s p q : eof_rel (run_eof a s p) (run_eof a s q).
Proof.
  unfold run_eof, eof_rel. destruct a as [[| | |k]|]; cbn [fst snd out_rel];
    try (repeat split; auto; congruence).
  destruct (l_rderr s); [cbn [fst snd out_rel]; repeat split; auto; congruence|].
  destruct (l_inc s) as [|f r]; [cbn [fst snd out_rel]; repeat split; auto; congruence|].
  destruct (match cur_buf_id s with Some id0 => Nat.eqb id0 (i_buf f) | None => false end);
    cbn [fst snd out_rel]; repeat split; auto; congruence.
Qed.

(* with an empty include stack the end-of-buffer rule closes nothing and keeps the stack empty *)
Lemma run_eof_noinc a s p : l_inc s = [] ->
  snd (run_eof a s p) = 0%nat /\ l_inc (out_state (fst (run_eof a s p))) = [].
Proof.
  intros H. unfold run_eof. destruct a as [[| | |k]|]; cbn [fst snd out_state]; auto.
  destruct (l_rderr s); [cbn [fst snd out_state clear_rderr l_inc]; auto|].
  rewrite H. cbn [fst snd out_state]. auto.
Qed.

(* ---- one iteration of the loop ---- *)
Definition step_rel (a b : lstep) : Prop :=
  match a, b with
  | LCont s _ k, LCont s' _ k' => s = s' /\ k = k'
  | LRet t v s _ d k, LRet t' v' s' _ d' k' =>
      t = t' /\ v = v' /\ s = s' /\ k = k' /\ (t <> TErr -> d = [] /\ d' = []) /\ (t = TEof -> v = None)
  | _, _ => False
  end.

Lemma lex_step_indep e s p q : step_rel (lex_step e s p) (lex_step e s q).
Proof.
  unfold lex_step. destruct (l_bufs s) as [|[id inp] others] eqn:Hb.
  - cbn [step_rel]. repeat split; auto.
  - destruct (munch (active_res (l_sc s)) inp 0 None) as [[i n]|] eqn:Hm.
    + destruct (nth_error (active_rules (l_sc s)) i) as [r|].
      * pose proof (run_action_indep e (r_act r) (firstn n inp) (set_bufs s ((id, skipn n inp) :: others)) p q) as H.
        destruct (run_action e (r_act r) (firstn n inp) (set_bufs s ((id, skipn n inp) :: others)) p);
        destruct (run_action e (r_act r) (firstn n inp) (set_bufs s ((id, skipn n inp) :: others)) q);
        cbn [out_rel step_rel] in *; try contradiction.
        -- auto.
        -- destruct H as (A & B & C & D & E). repeat split; auto; apply D; auto.
      * cbn [step_rel]. repeat split; auto; congruence.
    + destruct inp as [|c rest].
      * pose proof (run_eof_indep (eof_action_of (l_sc s)) s p q) as [H K].
        destruct (run_eof (eof_action_of (l_sc s)) s p) as [o1 k1];
        destruct (run_eof (eof_action_of (l_sc s)) s q) as [o2 k2].
        cbn [fst snd] in *. destruct o1; destruct o2; cbn [out_rel step_rel] in *; try contradiction.
        -- auto.
        -- destruct H as (A & B & C & D & E). repeat split; auto; apply D; auto.
      * cbn [step_rel]. auto.
Qed.

Definition step_k (r : lstep) : nat := match r with LCont _ _ k => k | LRet _ _ _ _ _ k => k end.

Lemma lex_step_noinc e s p : l_inc s = [] ->
  step_k (lex_step e s p) = 0%nat /\ l_inc (step_state (lex_step e s p)) = [].
Proof.
  intros Hi. unfold lex_step. destruct (l_bufs s) as [|[id inp] others] eqn:Hb.
  - cbn [step_k step_state]. auto.
  - destruct (munch (active_res (l_sc s)) inp 0 None) as [[i n]|] eqn:Hm.
    + destruct (nth_error (active_rules (l_sc s)) i) as [r|].
      * pose proof (run_action_frame e (r_act r) (firstn n inp) (set_bufs s ((id, skipn n inp) :: others)) p) as (_ & H & _).
        destruct (run_action e (r_act r) (firstn n inp) (set_bufs s ((id, skipn n inp) :: others)) p);
          cbn [step_k step_state out_state] in *; (split; [reflexivity|]); rewrite H; exact Hi.
      * cbn [step_k step_state set_bufs l_inc]. auto.
    + destruct inp as [|c rest].
      * pose proof (run_eof_noinc (eof_action_of (l_sc s)) s p Hi) as [K H].
        destruct (run_eof (eof_action_of (l_sc s)) s p) as [o k]. cbn [fst snd] in *.
        destruct o; cbn [step_k step_state out_state] in *; auto.
      * cbn [step_k step_state add_echo set_bufs l_inc]. auto.
Qed.

(* ---- cfg_yylex ---- *)
Lemma yylex_indep e : forall fuel s p q closed,
  let r := yylex e fuel s p closed in let r' := yylex e fuel s q closed in
  r_tok r = r_tok r' /\ r_val r = r_val r' /\ r_st r = r_st r' /\ r_closed r = r_closed r' /\
  (r_tok r <> TErr -> r_diags r = [] /\ r_diags r' = []) /\ (r_tok r = TEof -> r_val r = None).
Proof.
  induction fuel as [|fuel IH]; intros s p q closed; cbv zeta; cbn [yylex].
  - cbn [r_tok r_val r_st r_closed r_diags]. repeat split; auto; congruence.
  - pose proof (lex_step_indep e s p q) as H.
    destruct (lex_step e s p) as [s2 p2 k|t v s2 p2 d k]; destruct (lex_step e s q) as [s3 p3 k'|t' v' s3 p3 d' k'];
      cbn [step_rel] in H; try contradiction.
    + destruct H as [-> ->]. apply IH.
    + destruct H as (-> & -> & -> & -> & D & E). cbn [r_tok r_val r_st r_closed r_diags]. repeat split; auto; apply D; auto.
Qed.

Lemma yylex_noinc e : forall fuel s p closed, l_inc s = [] ->
  r_closed (yylex e fuel s p closed) = closed /\ l_inc (r_st (yylex e fuel s p closed)) = [].
Proof.
  induction fuel as [|fuel IH]; intros s p closed Hi; cbn [yylex].
  - cbn [r_closed r_st]. auto.
  - pose proof (lex_step_noinc e s p Hi) as [K H].
    destruct (lex_step e s p) as [s2 p2 k|t v s2 p2 d k]; cbn [step_k step_state] in *; subst k;
      change (0 + closed)%nat with closed.
    + apply IH, H.
    + cbn [r_closed r_st]. auto.
Qed.

(* ---- fuel: any amount that does not run out gives the same result ---- *)
Lemma yylex_fuel_mono e : forall f1 f2 s p closed,
  r_fuel_out (yylex e f1 s p closed) = false -> (f1 <= f2)%nat ->
  yylex e f2 s p closed = yylex e f1 s p closed.
Proof.
  induction f1 as [|f1 IH]; intros f2 s p closed H L; cbn [yylex] in H.
  - cbn [r_fuel_out] in H. discriminate.
  - destruct f2 as [|f2]; [lia|]. cbn [yylex].
    destruct (lex_step e s p) as [s2 p2 k|t v s2 p2 d k]; [|reflexivity].
    apply IH; [exact H|lia].
Qed.

Lemma yylex_enough_fuel e fuel s p closed : (measure s < fuel)%nat ->
  yylex e fuel s p closed = yylex e (lex_fuel s) s p closed.
Proof.
  intros L. apply yylex_fuel_mono; [apply yylex_lex_fuel_suffices|rewrite lex_fuel_measure; lia].
Qed.

(* ---- the measure never grows ---- *)
Lemma lex_step_measure_le e s p : (measure (step_state (lex_step e s p)) <= measure s)%nat.
Proof.
  destruct (lex_step e s p) as [s2 p2 k|t v s2 p2 d k] eqn:Hs; cbn [step_state].
  - apply lex_step_decreases in Hs. lia.
  - revert Hs. unfold lex_step, measure. destruct (l_bufs s) as [|[id inp] others] eqn:Hb.
    + intros H; inversion H; subst. rewrite Hb. apply le_n.
    + destruct (munch (active_res (l_sc s)) inp 0 None) as [[i n]|] eqn:Hm.
      * assert (Hle : (fold_left (fun acc (b : nat * list byte) => acc + S (length (snd b)))%nat ((id, skipn n inp) :: others) 0
                       <= fold_left (fun acc (b : nat * list byte) => acc + S (length (snd b)))%nat ((id, inp) :: others) 0)%nat).
        { cbn [fold_left snd].
          rewrite (fold_measure_shift others (0 + S (length (skipn n inp)))), (fold_measure_shift others (0 + S (length inp))).
          rewrite skipn_length. lia. }
        destruct (nth_error (active_rules (l_sc s)) i) as [r|].
        -- pose proof (run_action_frame e (r_act r) (firstn n inp) (set_bufs s ((id, skipn n inp) :: others)) p) as (Hf & _).
           destruct (run_action e (r_act r) (firstn n inp) (set_bufs s ((id, skipn n inp) :: others)) p) as [|t3 v3 s3 p3 d3];
             [discriminate|]. intros H; inversion H; subst. cbn [out_state] in Hf.
           rewrite Hf. cbn [set_bufs l_bufs]. exact Hle.
        -- intros H; inversion H; subst. cbn [set_bufs l_bufs]. exact Hle.
      * destruct inp as [|c rest]; [|discriminate].
        unfold run_eof. destruct (eof_action_of (l_sc s)) as [[| | |k']|];
          try (intros H; inversion H; subst; rewrite Hb; apply le_n).
        destruct (l_rderr s); [intros H; inversion H; subst; cbn [clear_rderr l_bufs]; rewrite Hb; apply le_n|].
        destruct (l_inc s) as [|f r]; [intros H; inversion H; subst; rewrite Hb; apply le_n|].
        destruct (match cur_buf_id s with Some id0 => Nat.eqb id0 (i_buf f) | None => false end); [discriminate|].
        intros H; inversion H; subst; rewrite Hb; apply le_n.
Qed.

Lemma yylex_measure_le : forall e fuel s p closed, (measure (r_st (yylex e fuel s p closed)) <= measure s)%nat.
Proof.
  intros e. induction fuel as [|fuel IH]; intros s p closed; cbn [yylex].
  - cbn [r_st]. apply le_n.
  - pose proof (lex_step_measure_le e s p) as H.
    destruct (lex_step e s p) as [s2 p2 k|t v s2 p2 d k]; cbn [step_state] in H.
    + specialize (IH s2 p2 (k + closed)%nat). lia.
    + cbn [r_st]. exact H.
Qed.

(* ---- token boundaries: a non-error token leaves the scanner in INITIAL, only the top buffer changed ---- *)
Lemma run_action_rderr e a y s p : l_rderr (out_state (run_action e a y s p)) = l_rderr s.
Proof. destruct a; cbn [run_action]; split_action e y; unfold set_q, set_sc; cbn; auto. Qed.

(* actions that return a token without resetting the start condition *)
Definition ret_keep (a : action) : bool :=
  match a with A_punct _ | A_word | A_env_initial => true | _ => false end.

Lemma keep_sweep :
  forallb (fun c => forallb (fun r => negb (ret_keep (r_act r))) (active_rules c)) [comment; dq_str; sq_str] = true.
Proof. vm_compute. reflexivity. Qed.

Lemma keep_only_initial c i r : nth_error (active_rules c) i = Some r -> ret_keep (r_act r) = true -> c = INITIAL.
Proof.
  intros Hn Hk. destruct c; [reflexivity| | |]; exfalso;
    pose proof keep_sweep as S; rewrite forallb_forall in S.
  - specialize (S comment (or_introl eq_refl)). rewrite forallb_forall in S.
    apply nth_error_In in Hn. apply S in Hn. rewrite Hk in Hn. discriminate.
  - specialize (S dq_str (or_intror (or_introl eq_refl))). rewrite forallb_forall in S.
    apply nth_error_In in Hn. apply S in Hn. rewrite Hk in Hn. discriminate.
  - specialize (S sq_str (or_intror (or_intror (or_introl eq_refl)))). rewrite forallb_forall in S.
    apply nth_error_In in Hn. apply S in Hn. rewrite Hk in Hn. discriminate.
Qed.

Lemma eof_pop_only_initial c : eof_action_of c = Some E_pop_or_eof -> c = INITIAL.
Proof. destruct c; [reflexivity| | |]; vm_compute; discriminate. Qed.

Definition ret_sc_ok (a : action) (s : lexst) (o : outcome) : Prop :=
  match o with
  | Continue _ _ => True
  | Return t _ s2 _ _ => t <> TErr -> l_sc s2 = INITIAL \/ (ret_keep a = true /\ l_sc s2 = l_sc s)
  end.

Lemma run_action_ret_sc e a y s p : ret_sc_ok a s (run_action e a y s p).
Proof.
  destruct a; cbn [run_action]; split_action e y; cbn [ret_sc_ok ret_keep]; auto;
    intros Hn; first [left; reflexivity | right; split; reflexivity | congruence].
Qed.

(* the loop invariant between token boundaries: the start condition is arbitrary *)
Definition J (s : lexst) : Prop :=
  l_rderr s = false /\ l_inc s = [] /\ q_inv (l_q s) /\ (l_bufs s = [] -> l_sc s = INITIAL).

Lemma tbs_J s : tbs s -> J s.
Proof. intros (A & B & C & D). unfold J. auto. Qed.

Lemma lex_step_J e s p : J s ->
  match lex_step e s p with
  | LCont s2 _ _ => J s2 /\ tl (l_bufs s2) = tl (l_bufs s)
  | LRet t _ s2 _ _ _ => t <> TErr -> tbs s2 /\ tl (l_bufs s2) = tl (l_bufs s)
  end.
Proof.
  intros (Jr & Ji & Jq & Jb). unfold lex_step. destruct (l_bufs s) as [|[id inp] others] eqn:Hb.
  - intros _. split; [|rewrite Hb; reflexivity]. unfold tbs. auto.
  - destruct (munch (active_res (l_sc s)) inp 0 None) as [[i n]|] eqn:Hm.
    + destruct (nth_error (active_rules (l_sc s)) i) as [r|] eqn:Hn.
      * pose proof (run_action_frame e (r_act r) (firstn n inp) (set_bufs s ((id, skipn n inp) :: others)) p) as (Hfb & Hfi & _).
        pose proof (run_action_rderr e (r_act r) (firstn n inp) (set_bufs s ((id, skipn n inp) :: others)) p) as Hrd.
        pose proof (run_action_qinv e (r_act r) (firstn n inp) (set_bufs s ((id, skipn n inp) :: others)) p Jq) as Hq.
        pose proof (run_action_ret_sc e (r_act r) (firstn n inp) (set_bufs s ((id, skipn n inp) :: others)) p) as Hsc.
        destruct (run_action e (r_act r) (firstn n inp) (set_bufs s ((id, skipn n inp) :: others)) p) as [s2 p2|t v s2 p2 d];
          cbn [out_state ret_sc_ok] in *; cbn [set_bufs l_bufs l_inc l_rderr l_sc] in *.
        -- split; [|rewrite Hfb; reflexivity]. unfold J. rewrite Hrd, Hfi, Hfb.
           split; [exact Jr|]. split; [exact Ji|]. split; [exact Hq|]. discriminate.
        -- intros Ht. split; [|rewrite Hfb; reflexivity]. unfold tbs. rewrite Hrd, Hfi.
           split; [|split; [exact Jr|split; [exact Ji|exact Hq]]].
           destruct (Hsc Ht) as [H|[Hk H]]; [exact H|]. rewrite H. apply (keep_only_initial _ _ _ Hn Hk).
      * intros H; contradiction H; reflexivity.
    + destruct inp as [|c rest].
      * unfold run_eof. destruct (eof_action_of (l_sc s)) as [[| | |k]|] eqn:He; try (intros H; contradiction H; reflexivity).
        rewrite Jr, Ji. intros _. split; [|rewrite Hb; reflexivity].
        unfold tbs. split; [apply eof_pop_only_initial, He|auto].
      * split; [|cbn [add_echo set_bufs l_bufs]; reflexivity].
        unfold J. cbn [add_echo set_bufs l_bufs l_inc l_rderr l_sc l_q].
        split; [exact Jr|]. split; [exact Ji|]. split; [exact Jq|]. discriminate.
Qed.

Lemma yylex_tbs_J e : forall fuel s p closed, J s -> r_tok (yylex e fuel s p closed) <> TErr ->
  tbs (r_st (yylex e fuel s p closed)) /\ tl (l_bufs (r_st (yylex e fuel s p closed))) = tl (l_bufs s).
Proof.
  induction fuel as [|fuel IH]; intros s p closed Hj; cbn [yylex].
  - cbn [r_tok]. intros H; contradiction H; reflexivity.
  - pose proof (lex_step_J e s p Hj) as H.
    destruct (lex_step e s p) as [s2 p2 k|t v s2 p2 d k].
    + destruct H as [Hj2 Htl]. intros Ht. destruct (IH s2 p2 (k + closed)%nat Hj2 Ht) as [A B].
      split; [exact A|congruence].
    + cbn [r_tok r_st]. exact H.
Qed.

Lemma yylex_tbs e fuel s p closed : tbs s -> r_tok (yylex e fuel s p closed) <> TErr ->
  r_fuel_out (yylex e fuel s p closed) = false ->
  tbs (r_st (yylex e fuel s p closed)) /\ tl (l_bufs (r_st (yylex e fuel s p closed))) = tl (l_bufs s).
Proof. intros H Ht _. apply yylex_tbs_J; [apply tbs_J, H|exact Ht]. Qed.

Lemma tbs_scan_begin : forall s inp, l_inc s = [] -> q_inv (l_q s) -> tbs (scan_begin s inp).
Proof. intros s inp A B. unfold tbs, scan_begin. cbn [l_sc l_rderr l_inc l_q]. auto. Qed.

Lemma tok_at_pos_indep : forall e s p, let r := yylex e (lex_fuel s) s p 0 in
  l_inc s = [] -> r_tok r <> TErr -> tok_at e s (r_tok r) (r_val r) (r_st r).
Proof.
  intros e s p r Hi Ht. split.
  { intros Hb. apply (yylex_tbs_J e (lex_fuel s) s p 0 (tbs_J s Hb) Ht). }
  intros q fuel Hf. cbv zeta.
  rewrite (yylex_enough_fuel e fuel s q 0 Hf).
  destruct (yylex_indep e (lex_fuel s) s p q 0) as (A & B & C & D & E & F).
  destruct (yylex_noinc e (lex_fuel s) s q 0 Hi) as [K _].
  pose proof (yylex_lex_fuel_suffices e s q 0) as G.
  fold r in A, B, C, D, E, F. destruct (E Ht) as [_ E']. repeat split; auto.
Qed.

Lemma yylex_eof_val e s p : r_tok (yylex e (lex_fuel s) s p 0) = TEof -> r_val (yylex e (lex_fuel s) s p 0) = None.
Proof. intros H. destruct (yylex_indep e (lex_fuel s) s p p 0) as (_ & _ & _ & _ & _ & F). apply F, H. Qed.

(* ---- a TStr token always carries a value ---- *)
Definition out_str (o : outcome) : Prop :=
  match o with Continue _ _ => True | Return t v _ _ _ => t = TStr -> v <> None end.

Lemma run_action_str e a y s p : out_str (run_action e a y s p).
Proof. destruct a; cbn [run_action]; split_action e y; cbn [out_str]; auto; intros; discriminate. Qed.

Lemma run_eof_str a s p : out_str (fst (run_eof a s p)).
Proof.
  unfold run_eof. destruct a as [[| | |k]|]; cbn [fst out_str]; try (intros; discriminate).
  destruct (l_rderr s); [cbn [fst out_str]; intros; discriminate|].
  destruct (l_inc s) as [|f r]; [cbn [fst out_str]; intros; discriminate|].
  destruct (match cur_buf_id s with Some id0 => Nat.eqb id0 (i_buf f) | None => false end);
    cbn [fst out_str]; auto; intros; discriminate.
Qed.

Definition step_str (r : lstep) : Prop :=
  match r with LCont _ _ _ => True | LRet t v _ _ _ _ => t = TStr -> v <> None end.

Lemma lex_step_str e s p : step_str (lex_step e s p).
Proof.
  unfold lex_step. destruct (l_bufs s) as [|[id inp] others] eqn:Hb.
  - cbn [step_str]. intros; discriminate.
  - destruct (munch (active_res (l_sc s)) inp 0 None) as [[i n]|] eqn:Hm.
    + destruct (nth_error (active_rules (l_sc s)) i) as [r|].
      * pose proof (run_action_str e (r_act r) (firstn n inp) (set_bufs s ((id, skipn n inp) :: others)) p) as H.
        destruct (run_action e (r_act r) (firstn n inp) (set_bufs s ((id, skipn n inp) :: others)) p);
          cbn [out_str step_str] in *; auto.
      * cbn [step_str]. intros; discriminate.
    + destruct inp as [|c rest].
      * pose proof (run_eof_str (eof_action_of (l_sc s)) s p) as H.
        destruct (run_eof (eof_action_of (l_sc s)) s p) as [o k]. cbn [fst] in H.
        destruct o; cbn [out_str step_str] in *; auto.
      * cbn [step_str]. auto.
Qed.

Lemma yylex_str_val e : forall fuel s p closed,
  r_tok (yylex e fuel s p closed) = TStr -> r_val (yylex e fuel s p closed) <> None.
Proof.
  induction fuel as [|fuel IH]; intros s p closed; cbn [yylex].
  - cbn [r_tok]. intros; discriminate.
  - pose proof (lex_step_str e s p) as H.
    destruct (lex_step e s p) as [s2 p2 k|t v s2 p2 d k]; cbn [step_str] in H.
    + apply IH.
    + cbn [r_tok r_val]. exact H.
Qed.

(* ---- lex_all ---- *)
Lemma lex_all_S e fuel s p acc dacc :
  lex_all e (S fuel) s p acc dacc =
  match r_tok (yylex e (lex_fuel s) s p 0) with
  | TEof => (rev acc, TEof, r_st (yylex e (lex_fuel s) s p 0), r_pos (yylex e (lex_fuel s) s p 0), dacc ++ r_diags (yylex e (lex_fuel s) s p 0))
  | TErr => (rev acc, TErr, r_st (yylex e (lex_fuel s) s p 0), r_pos (yylex e (lex_fuel s) s p 0), dacc ++ r_diags (yylex e (lex_fuel s) s p 0))
  | t => lex_all e fuel (r_st (yylex e (lex_fuel s) s p 0)) (r_pos (yylex e (lex_fuel s) s p 0))
           ({| lt_tok := t; lt_val := r_val (yylex e (lex_fuel s) s p 0); lt_line := p_line (r_pos (yylex e (lex_fuel s) s p 0)) |} :: acc)
           (dacc ++ r_diags (yylex e (lex_fuel s) s p 0))
  end.
Proof. reflexivity. Qed.

Lemma lex_all_yields_gen e : forall fuel s p acc dacc toks s' p' d,
  l_inc s = [] ->
  lex_all e fuel s p acc dacc = (toks, TEof, s', p', d) ->
  exists ts, toks = rev acc ++ ts /\ yields e s ts.
Proof.
  induction fuel as [|fuel IH]; intros s p acc dacc toks s' p' d Hi H.
  - cbn [lex_all] in H. congruence.
  - rewrite lex_all_S in H.
    pose proof (tok_at_pos_indep e s p) as HT. cbv zeta in HT. specialize (HT Hi).
    pose proof (yylex_eof_val e s p) as HV.
    destruct (yylex_noinc e (lex_fuel s) s p 0 Hi) as [_ HI].
    set (r := yylex e (lex_fuel s) s p 0) in *.
    assert (Hstep : forall t, r_tok r = t -> t <> TEof -> t <> TErr ->
              lex_all e fuel (r_st r) (r_pos r) ({| lt_tok := t; lt_val := r_val r; lt_line := p_line (r_pos r) |} :: acc)
                      (dacc ++ r_diags r) = (toks, TEof, s', p', d) ->
              exists ts, toks = rev acc ++ ts /\ yields e s ts).
    { intros t Ht N1 N2 H'. apply IH in H'; [|exact HI]. destruct H' as (ts & -> & Hy).
      eexists. split; [cbn [rev]; rewrite <- app_assoc; cbn [app]; reflexivity|].
      apply Y_cons with (s' := r_st r); cbn [lt_tok lt_val]; auto.
      - intros E. apply yylex_str_val. fold r. congruence.
      - rewrite <- Ht. apply HT. congruence.
      - apply yylex_measure_le. }
    destruct (r_tok r) eqn:Ht.
    + apply (Hstep TStr); auto; discriminate.
    + apply (Hstep TComment); auto; discriminate.
    + apply (Hstep (TPunct c)); auto; discriminate.
    + exists []. split; [rewrite app_nil_r; congruence|].
      apply Y_eof with (s' := r_st r). rewrite <- (HV eq_refl). apply HT. discriminate.
    + congruence.
Qed.

Theorem lex_all_yields : forall (e : envt) (fuel : nat) (s : lexst) (p : pos) (ts : list ltok) (s' : lexst) (p' : pos) (d : list diag),
  l_inc s = [] ->
  lex_all e fuel s p [] [] = (ts, TEof, s', p', d) ->
  yields e s ts.
Proof.
  intros e fuel s p ts s' p' d Hi H.
  destruct (lex_all_yields_gen e fuel s p [] [] ts s' p' d Hi H) as (ts' & -> & Hy). exact Hy.
Qed.

Print Assumptions tok_at_pos_indep.
Print Assumptions lex_all_yields.
Print Assumptions yylex_measure_le.
Print Assumptions yylex_str_val.
Print Assumptions yylex_tbs.
Print Assumptions tbs_scan_begin.
