(* Properties_C06.v — C06: rejected input is reported with the right file and line.
   Scanner level: the line counter equals its old value plus the number of newline bytes consumed,
   for EVERY input, whatever mixture of code, comments, strings, continuations and ${...} it holds. *)
From Coq Require Import String.
From Coq Require Import List Arith NArith Bool.
From Coq.Strings Require Import Byte.
From LC Require Import Bytes Flex LexAct LexRules Consts Lexer LexLemmas LexAll LineProofs.
Import ListNotations.

Theorem C06_line_invariant :
  forall e fuel s p closed id inp others,
  l_bufs s = (id, inp) :: others -> l_inc s = [] ->
  let r := yylex e fuel s p closed in
  exists u rest, inp = u ++ rest /\ l_bufs (r_st r) = (id, rest) :: others /\ l_inc (r_st r) = [] /\
    p_file (r_pos r) = p_file p /\ p_line (r_pos r) = (p_line p + count_nl u)%N /\ r_closed r = closed.
Proof. exact yylex_line_invariant. Qed.
Print Assumptions C06_line_invariant.

(* the finite obligation behind it, re-checked on the regenerated rule table: in every start
   condition, in every reachable (derivative vector, newlines so far) pair where a rule wins, the
   newline count equals the line increment of that rule's action *)
Theorem C06_rules_count_their_newlines :
  forall c0, closed_ok (active_res c0) (active_rules c0) (reach_sc c0) = true.
Proof. exact okc_all. Qed.
Print Assumptions C06_rules_count_their_newlines.

(* non-vacuity: comments of all styles, a multi-line string, a continuation and a multi-line ${...} *)
Example C06_line_example :
  let txt := bs_of_string ("# c
// d
/* e
 f */ ""g
h\
i"" ${X
Y} k")%string in
  let '(toks, e, st, p, d) := lex_all [] 100 (scan_begin lex_init txt) {| p_file := None; p_line := 1 |} [] [] in
  (e, p_line p, 1 + count_nl txt)%N = (TEof, 7, 7)%N.
Proof. vm_compute. reflexivity. Qed.
