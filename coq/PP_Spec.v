(* PP_Spec.v — C01: Grammar.meaning restated without deep literal patterns (one unfolding equation),
   and basic facts: the rest is a suffix / shorter, fuel independence. *)
From Coq Require String.
From Coq Require Import List Arith NArith ZArith Bool Lia.
From Coq.Strings Require Import Byte.
From LC Require Import Bytes Consts Conv Flex LexAct Lexer LexLemmas LexAll Files Store Parser Grammar
  PP_Base PP_Step PP_Tok PP_Setopt PP_Inv PP_Machine.
Import ListNotations.

Section WithOracles.
Variable strtod_o : str -> strtod_res.

(* title (if the option wants one) and '{' *)
Definition sec_head (o : opt) (r : list gtok) : option (option str * list gtok) :=
  if oflag o CFGF_TITLE then
    match r with
    | GS t :: GP x :: r2 => if (x =? 123)%N then Some (Some t, r2) else None
    | _ => None
    end
  else
    match r with
    | GP x :: r2 => if (x =? 123)%N then Some (None, r2) else None
    | _ => None
    end.

Definition kv_item (name : str) (r : list gtok) : option (str * list gtok) :=
  match name, r with
  | _ :: _, GP x :: GS v :: r' => if (x =? 61)%N then Some (v, r') else None
  | _, _ => None
  end.

Definition mbody (rec : cfg -> bool -> list gtok -> option (cfg * list gtok)) (c : cfg) (top : bool) (ts : list gtok)
  : option (cfg * list gtok) :=
  match ts with
  | [] => if top then Some (c, []) else None
  | GP x :: r => if (x =? 125)%N then (if top then None else Some (c, r)) else None
  | GS name :: r =>
      match fst (cfg_getopt c name) with
      | None =>
          if cflag c CFGF_IGNORE_UNKNOWN then
            match skip_unknown r with Some r' => rec c top r' | None => None end
          else if cflag c CFGF_KEYSTRVAL then
            match kv_item name r with
            | Some (v, r') => rec (set_opts c (c_opts c ++ [Opt name KStr 0 [VStr (Some v)] [] defv0 None cbset0])) top r'
            | None => None
            end
          else None
      | Some ref =>
          match get_opt c ref with
          | None => None
          | Some o =>
              if is_sec (o_kind o) then
                match sec_head o r with
                | Some (ti, r2) =>
                    match open_instance strtod_o (c_flags c) (cflag c CFGF_NOCASE) o ti with
                    | None => None
                    | Some (vals', idx) =>
                        match nth_error vals' idx with
                        | Some (VSec (Some sec)) =>
                            match rec sec false r2 with
                            | None => None
                            | Some (sec', r3) =>
                                rec (put_opt c ref (after_item (set_vals o (upd_nth vals' idx (fun _ => VSec (Some sec')))))) top r3
                            end
                        | _ => None
                        end
                    end
                | None => None
                end
              else if scalar_kind (o_kind o) then
                match val_res strtod_o (o_kind o) (oflag o CFGF_LIST) r with
                | Some (app, vs, r2) => rec (put_opt c ref (after_item (set_vals o ((if app then o_vals o else []) ++ vs)))) top r2
                | None => None
                end
              else None
          end
      end
  end.

Ltac dp y := destruct y as [|y]; [try reflexivity|]; do 8 (try (destruct y as [y|y|]; try reflexivity)).

Lemma meaning_unfold f c top ts : meaning strtod_o (S f) c top ts = mbody (meaning strtod_o f) c top ts.
Proof.
  cbn [meaning]. unfold mbody. destruct ts as [|[name|x] r]; [reflexivity| |dp x].
  destruct (fst (cfg_getopt c name)) as [ref|].
  - destruct (get_opt c ref) as [o|]; [|reflexivity].
    destruct (o_kind o) eqn:K; cbn [is_sec scalar_kind]; try reflexivity.
    1-4: unfold val_res; destruct r as [|[s|x] [|[v|y] r1]]; try reflexivity;
         try (dp x; fail);
         try (dp x; destruct (oflag o CFGF_LIST); cbn [negb andb]; try reflexivity;
              destruct (conv_value strtod_o _ v); reflexivity);
         try (dp x; dp y; destruct (oflag o CFGF_LIST); cbn [negb andb]; try reflexivity;
              match goal with |- context [braced ?a ?b ?c ?d ?e] => destruct (braced a b c d e) as [[? ?]|] end; reflexivity).
    unfold sec_head. destruct (oflag o CFGF_TITLE).
    + destruct r as [|[s|x] [|[v|y] r1]]; try reflexivity; try (dp x; fail); try (dp y; fail).
    + destruct r as [|[s|x] r1]; try reflexivity. dp x.
  - destruct (cflag c CFGF_IGNORE_UNKNOWN); [reflexivity|]. destruct (cflag c CFGF_KEYSTRVAL); [|reflexivity].
    unfold kv_item. destruct name as [|n0 name]; [reflexivity|].
    destruct r as [|[s|x] [|[v|y] r1]]; try reflexivity; dp x.
Qed.

End WithOracles.
