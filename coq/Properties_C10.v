(* Properties_C10.v — C10: a rejected update leaves the option exactly as it was
   (values, count, order, annotation, RESET / MODIFIED markers).
   Only statements here; proofs are in ApiProofs.v.

   MODEL  Api.opt_setmulti / cfg_setmulti, cfg_setnint/float/bool/str, cfg_setlist, cfg_addlist,
          cfg_setcomment, cfg_addtsec, cfg_rmnsec, cfg_rmtsec, cfg_rmsec; Parser.setopt (cfg_setopt)
   VOCABULARY (ApiProofs.v)
     refused res c rc  :=  snd (fst res) = c /\ snd res = rc
                           (the call answered rc and the tree is the one passed in; the world component
                            may have gained diagnostics / callback log entries)
   No side condition is needed anywhere in this file: in particular C10_setmulti_reverts holds for
   every option, every flag word and every fuel (with fuel 0 cfg_setopt answers NULL at once). *)
From Coq Require String.
Import String.StringSyntax.
From Coq Require Import List Arith NArith ZArith Bool.
From Coq.Strings Require Import Byte.
From LC Require Import Bytes Consts Conv Lexer Files Store Parser Api ApiProofs.
Import ListNotations.
Local Open Scope string_scope.
Local Open Scope list_scope.

(* (a) the flagship: when cfg_opt_setmulti fails — some value was refused by cfg_setopt after others
   had already been stored, or no value was given — the option handed back is the original one:
   values, RESET and MODIFIED bits and the annotation restored, everything else untouched. *)
Theorem C10_setmulti_reverts :
  forall (strtod_o : str -> strtod_res) (fuel : nat) (w : pw) (c : cfg) (o : opt)
         (vals : list (option str)) (w' : pw) (o' : opt),
  opt_setmulti strtod_o fuel w c o vals = (w', o', FAIL) -> o' = o.
Proof. exact opt_setmulti_reverts. Qed.
Print Assumptions C10_setmulti_reverts.

(* what (a) rests on: cfg_setopt changes only o_vals and the RESET / MODIFIED bits, can only drop the
   annotation, and the revert expression restores the two bits *)
Theorem C10_setopt_frame :
  forall (strtod_o : str -> strtod_res) (fuel : nat) (w : pw) (c : cfg) (o : opt) (txt : option str),
  let o' := snd (fst (setopt strtod_o fuel w c o txt)) in
  o_name o' = o_name o /\ o_kind o' = o_kind o /\ o_sub o' = o_sub o /\ o_def o' = o_def o /\
  o_cbs o' = o_cbs o /\
  N.ldiff (o_flags o') (N.lor CFGF_RESET CFGF_MODIFIED) = N.ldiff (o_flags o) (N.lor CFGF_RESET CFGF_MODIFIED) /\
  (o_comment o = None -> o_comment o' = None).
Proof. exact setopt_frame_fields. Qed.
Print Assumptions C10_setopt_frame.

Theorem C10_flags_restore :
  forall f f' : N,
  N.ldiff f' (N.lor CFGF_RESET CFGF_MODIFIED) = N.ldiff f (N.lor CFGF_RESET CFGF_MODIFIED) ->
  N.lor (clrf (clrf f' CFGF_RESET) CFGF_MODIFIED) (N.land f (N.lor CFGF_RESET CFGF_MODIFIED)) = f.
Proof. exact flags_restore. Qed.
Print Assumptions C10_flags_restore.

(* writing back the option that was read gives back the tree *)
Theorem C10_put_opt_same :
  forall (c : cfg) (r : optref) (o : opt), get_opt c r = Some o -> put_opt c r o = c.
Proof. exact put_opt_same. Qed.
Print Assumptions C10_put_opt_same.

(* (b) the setters *)
Theorem C10_setter_refusals :
  forall (strtod_o : str -> strtod_res) (w : pw) (c : cfg) (name : str) (index : N),
  (* the name does not resolve *)
  (fst (cfg_getopt c name) = None ->
   forall z b bl s vs ms cm fuel,
     refused (cfg_setnint w c name z index) c FAIL /\
     refused (cfg_setnfloat w c name b index) c FAIL /\
     refused (cfg_setnbool w c name bl index) c FAIL /\
     refused (cfg_setnstr w c name s index) c FAIL /\
     refused (cfg_setlist w c name vs) c FAIL /\
     refused (cfg_addlist w c name vs) c FAIL /\
     refused (cfg_setmulti strtod_o fuel w c name ms) c FAIL /\
     refused (cfg_setcomment w c name cm) c FAIL) /\
  (* the name resolves to the option o *)
  (forall r o, fst (cfg_getopt c name) = Some r -> get_opt c r = Some o ->
   (* the kind differs *)
   (forall z, o_kind o <> KInt -> refused (cfg_setnint w c name z index) c FAIL) /\
   (forall b, o_kind o <> KFloat -> refused (cfg_setnfloat w c name b index) c FAIL) /\
   (forall b, o_kind o <> KBool -> refused (cfg_setnbool w c name b index) c FAIL) /\
   (forall s, o_kind o <> KStr -> refused (cfg_setnstr w c name s index) c FAIL) /\
   (* an index on a plain option *)
   (index <> 0%N -> oflag o CFGF_LIST = false -> oflag o CFGF_MULTI = false ->
    forall z b bl s,
      refused (cfg_setnint w c name z index) c FAIL /\
      refused (cfg_setnfloat w c name b index) c FAIL /\
      refused (cfg_setnbool w c name bl index) c FAIL /\
      refused (cfg_setnstr w c name s index) c FAIL) /\
   (* the validation callback objects *)
   (forall z, snd (run_validcb2 w o (V2Int z)) = true -> refused (cfg_setnint w c name z index) c FAIL) /\
   (forall b, snd (run_validcb2 w o (V2Float b)) = true -> refused (cfg_setnfloat w c name b index) c FAIL) /\
   (forall s, snd (run_validcb2 w o (V2Str s)) = true -> refused (cfg_setnstr w c name s index) c FAIL) /\
   (* list calls on a non-list *)
   (oflag o CFGF_LIST = false ->
    forall vs, refused (cfg_setlist w c name vs) c FAIL /\ refused (cfg_addlist w c name vs) c FAIL) /\
   (* nothing to set *)
   (forall fuel, refused (cfg_setmulti strtod_o fuel w c name []) c FAIL) /\
   refused (cfg_setcomment w c name None) c FAIL).
Proof. exact setter_refusals. Qed.
Print Assumptions C10_setter_refusals.

(* (c) the section calls *)
Theorem C10_section_refusals :
  forall (strtod_o : str -> strtod_res) (w : pw) (c : cfg) (name : str),
  (fst (cfg_getopt c name) = None ->
   forall fuel title, refused (cfg_addtsec strtod_o fuel w c name title) c false) /\
  (rs_opt (getopt_secidx c name true) = None -> refused (cfg_rmsec w c name) c FAIL) /\
  (forall r o, fst (cfg_getopt c name) = Some r -> get_opt c r = Some o ->
   (* cfg_addtsec: the title is taken / not a section *)
   (forall fuel t i, oflag o CFGF_TITLE = true -> o_kind o = KSec -> gettsecidx o t = Some i ->
      refused (cfg_addtsec strtod_o fuel w c name (Some t)) c false) /\
   (forall fuel title, o_kind o <> KSec -> refused (cfg_addtsec strtod_o fuel w c name title) c false) /\
   (* cfg_rmnsec: index out of range / not a section *)
   (forall index, (N.of_nat (length (o_vals o)) <= index)%N -> refused (cfg_rmnsec w c name index) c FAIL) /\
   (forall index, o_kind o <> KSec -> refused (cfg_rmnsec w c name index) c FAIL) /\
   (* cfg_rmtsec: no title given / option without TITLE / unknown title *)
   refused (cfg_rmtsec w c name None) c FAIL /\
   (forall t, oflag o CFGF_TITLE = false -> refused (cfg_rmtsec w c name (Some t)) c FAIL) /\
   (forall t, gettsecidx o t = None -> refused (cfg_rmtsec w c name (Some t)) c FAIL)).
Proof. exact section_refusals. Qed.
Print Assumptions C10_section_refusals.

(* (b)+(c) in general form: whatever the reason, a by-name call that answers CFG_FAIL hands back
   the tree it was given *)
Theorem C10_fail_atomic :
  forall (strtod_o : str -> strtod_res) (w : pw) (c : cfg) (name : str) (w' : pw) (c' : cfg),
  (forall z index, cfg_setnint w c name z index = (w', c', FAIL) -> c' = c) /\
  (forall b index, cfg_setnfloat w c name b index = (w', c', FAIL) -> c' = c) /\
  (forall b index, cfg_setnbool w c name b index = (w', c', FAIL) -> c' = c) /\
  (forall s index, cfg_setnstr w c name s index = (w', c', FAIL) -> c' = c) /\
  (forall vs, cfg_setlist w c name vs = (w', c', FAIL) -> c' = c) /\
  (forall vs, cfg_addlist w c name vs = (w', c', FAIL) -> c' = c) /\
  (forall fuel vals, cfg_setmulti strtod_o fuel w c name vals = (w', c', FAIL) -> c' = c) /\
  (forall cm, cfg_setcomment w c name cm = (w', c', FAIL) -> c' = c) /\
  (forall index, cfg_rmnsec w c name index = (w', c', FAIL) -> c' = c) /\
  (forall title, cfg_rmtsec w c name title = (w', c', FAIL) -> c' = c) /\
  (cfg_rmsec w c name = (w', c', FAIL) -> c' = c).
Proof. exact fail_atomic. Qed.
Print Assumptions C10_fail_atomic.

(* (d) KNOWN FINDING: cfg_setopt itself is not atomic.  A pristine integer option (RESET set, value 7)
   given the text "x": the result is NULL, yet the old value is gone, a zero slot is in its place and
   RESET is cleared (no fuel exhaustion involved). *)
Theorem C10_setopt_text_refuted :
  exists (strtod_o : str -> strtod_res) (fuel : nat) (w : pw) (c : cfg) (o : opt) (txt : str),
    o_kind o = KInt /\ oflag o CFGF_RESET = true /\ o_vals o = [VInt 7] /\
    snd (setopt strtod_o fuel w c o (Some txt)) = None /\
    o_vals (snd (fst (setopt strtod_o fuel w c o (Some txt)))) = [VInt 0] /\
    oflag (snd (fst (setopt strtod_o fuel w c o (Some txt)))) CFGF_RESET = false /\
    w_oof (fst (fst (setopt strtod_o fuel w c o (Some txt)))) = false.
Proof. exact setopt_text_not_atomic. Qed.
Print Assumptions C10_setopt_text_refuted.

(* ---------- a concrete tree: the hypotheses are satisfiable, the calls do what is claimed ---------- *)
Module Ex.
Definition B := bs_of_string.
Definition sd := ex_sd.
Definition w0 := ex_w0.
Definition cbv2 : cbset :=
  {| cb_parse := None; cb_valid := None; cb_valid2 := Some 0%N; cb_print := None; cb_free := false; cb_func := None |}.
Definition oi := Opt (B "i") KInt 0 [VInt 7] [] defv0 None cbset0.
(* a list with two values, an annotation, pristine (LIST|RESET) *)
Definition ol := Opt (B "l") KInt 66 [VInt 1; VInt 2] [] defv0 (Some (B "note")) cbset0.
Definition os := Opt (B "s") KStr 0 [VStr (Some (B "hi"))] [] defv0 None cbset0.
Definition sec (t : String.string) (a : Z) : cfg :=
  Cfg (B "t") (Some (B t)) 0 [Opt (B "a") KInt 0 [VInt a] [] defv0 None cbset0] None 0 true None.
(* a titled multi section (MULTI|TITLE) with two instances *)
Definition ot := Opt (B "t") KSec 9 [VSec (Some (sec "one" 5)); VSec (Some (sec "two" 6))]
                     [Opt (B "a") KInt 0 [] [] defv0 None cbset0] defv0 None cbset0.
(* an integer with a validation callback *)
Definition ov := Opt (B "v") KInt 0 [VInt 0] [] defv0 None cbv2.
Definition c1 := Cfg (B "root") None 0 [oi; ol; os; ot; ov] None 0 true None.
(* a world in which the next callback invocation fails *)
Definition wf : pw := {| w_lex := w_lex w0; w_env := w_env w0; w_fs := w_fs w0; w_pw := w_pw w0; w_path := w_path w0;
  w_cbs := []; w_cnt := 0; w_failat := 1; w_nextptr := 1; w_diags := []; w_open := 0; w_crash := None; w_oof := false |}.

Example C10_ex_lookup :
  map (fun n => fst (cfg_getopt c1 (B n))) ["i"; "l"; "s"; "t"; "v"; "nosuch"]
  = [Some ([], 0); Some ([], 1); Some ([], 2); Some ([], 3); Some ([], 4); None] /\
  get_opt c1 ([], 1) = Some ol /\ get_opt c1 ([], 3) = Some ot.
Proof. vm_compute. repeat split; reflexivity. Qed.

(* (a): the second value is refused after the first was stored (and the old values, the annotation
   and RESET had been dropped): FAIL, and the option is back — values, flags 66, annotation *)
Example C10_ex_setmulti_reverts :
  let '(_, o', rc) := opt_setmulti sd 10 w0 c1 ol [Some (B "3"); Some (B "x")] in rc = FAIL /\ o' = ol.
Proof. vm_compute. split; reflexivity. Qed.

(* ... through the by-name call: the tree is back *)
Example C10_ex_cfg_setmulti_reverts :
  refused (cfg_setmulti sd 10 w0 c1 (B "l") [Some (B "3"); Some (B "x")]) c1 FAIL.
Proof. vm_compute. split; reflexivity. Qed.

(* the success branch does replace the values (so the revert is not vacuous) *)
Example C10_ex_setmulti_ok :
  let '(_, o', rc) := opt_setmulti sd 10 w0 c1 ol [Some (B "3"); Some (B "4")] in
  rc = OK /\ o_vals o' = [VInt 3; VInt 4] /\ o_comment o' = Some (B "note").
Proof. vm_compute. repeat split; reflexivity. Qed.

(* (b) *)
Example C10_ex_setters :
  refused (cfg_setnint w0 c1 (B "nosuch") 5 0) c1 FAIL /\        (* unresolved *)
  refused (cfg_setnint w0 c1 (B "s") 5 0) c1 FAIL /\             (* kind differs *)
  refused (cfg_setnstr w0 c1 (B "i") (Some (B "x")) 0) c1 FAIL /\
  refused (cfg_setnint w0 c1 (B "i") 5 3) c1 FAIL /\             (* index on a plain option *)
  snd (run_validcb2 wf ov (V2Int 5)) = true /\
  refused (cfg_setnint wf c1 (B "v") 5 0) c1 FAIL /\             (* validcb2 objects *)
  refused (cfg_setlist w0 c1 (B "i") [VInt 1]) c1 FAIL /\        (* not a list *)
  refused (cfg_addlist w0 c1 (B "i") [VInt 1]) c1 FAIL /\
  refused (cfg_setmulti sd 10 w0 c1 (B "l") []) c1 FAIL /\
  refused (cfg_setcomment w0 c1 (B "l") None) c1 FAIL.
Proof. vm_compute. repeat split; reflexivity. Qed.

(* the same calls with acceptable arguments do change the tree *)
Example C10_ex_setters_ok :
  snd (cfg_setnint w0 c1 (B "i") 5 0) = OK /\ snd (fst (cfg_setnint w0 c1 (B "i") 5 0)) <> c1 /\
  snd (cfg_setnint w0 c1 (B "v") 5 0) = OK /\
  snd (cfg_setcomment w0 c1 (B "l") (Some (B "c"))) = OK.
Proof. vm_compute. repeat split; try reflexivity; discriminate. Qed.

(* (c) *)
Example C10_ex_sections :
  gettsecidx ot (B "one") = Some 0 /\
  refused (cfg_addtsec sd 10 w0 c1 (B "t") (Some (B "one"))) c1 false /\   (* title taken *)
  refused (cfg_addtsec sd 10 w0 c1 (B "i") (Some (B "x"))) c1 false /\     (* not a section *)
  refused (cfg_rmnsec w0 c1 (B "t") 2) c1 FAIL /\                          (* index = size *)
  refused (cfg_rmtsec w0 c1 (B "t") (Some (B "three"))) c1 FAIL /\         (* unknown title *)
  refused (cfg_rmtsec w0 c1 (B "t") None) c1 FAIL /\
  refused (cfg_rmtsec w0 c1 (B "l") (Some (B "one"))) c1 FAIL /\           (* option without TITLE *)
  refused (cfg_rmsec w0 c1 (B "nosuch")) c1 FAIL.
Proof. vm_compute. repeat split; reflexivity. Qed.

Example C10_ex_sections_ok :
  snd (cfg_addtsec sd 10 w0 c1 (B "t") (Some (B "three"))) = true /\
  snd (cfg_rmnsec w0 c1 (B "t") 1) = OK /\ snd (cfg_rmtsec w0 c1 (B "t") (Some (B "two"))) = OK /\
  snd (cfg_rmsec w0 c1 (B "t=one")) = OK.
Proof. vm_compute. repeat split; reflexivity. Qed.

(* (d) the witness spelled out *)
Example C10_ex_setopt_not_atomic :
  let '(_, o', res) := setopt sd 1 w0 ex_root ex_pristine (Some (B "x")) in
  res = None /\ o' = Opt (B "i") KInt CFGF_MODIFIED [VInt 0] [] defv0 None cbset0.
Proof. vm_compute. split; reflexivity. Qed.
End Ex.
