(* placeholder until ApiProofs lands *)
Example C10_placeholder : True. Proof. exact I. Qed.
