(* Properties_C05b.v — C05, numeric part: what cfg_print writes for integer, boolean and float values
   is read back (scanner + cfg_setopt conversions) as the same value.  Only statements here; proofs are
   in NumRoundProofs.v (MODEL: Conv.v, Print.v, Lexer.v; SPEC for numerals: ConvSpec.v). *)
From Coq Require String.
Import String.StringSyntax.
From Coq Require Import List Arith NArith ZArith Bool Lia.
From Coq.Strings Require Import Byte.
From LC Require Import Bytes Flex LexAct LexRules Consts Lexer LexLemmas Conv Store Print ConvSpec NumRoundProofs.
Import ListNotations.
Local Open Scope string_scope.
Local Open Scope list_scope.

(* ---- integers ---- *)

(* For EVERY z in the range of a C long, the text printf("%ld") writes (print_Z z) is converted back by
   cfg_setopt's integer conversion (radix guess on a leading 0, cfg_is_digits, strtol base 0, end-pointer
   and ERANGE checks) to exactly z. *)
Theorem C05_int_reads_back :
  forall z : Z, (- 2 ^ 63 <= z < 2 ^ 63)%Z -> conv_int (print_Z z) = COk z.
Proof. exact conv_int_print_Z. Qed.
Print Assumptions C05_int_reads_back.

(* the printed numeral is canonical: decimal digits only, no leading zero unless the number is 0
   (a leading "0" would select octal), and the strtol digit loop consumes it whole *)
Theorem C05_print_N_canonical :
  forall n : N,
  (exists c r, print_N n = c :: r /\ forallb is_digit (c :: r) = true /\
               (Byte.eqb c x30 = true -> n = 0%N /\ r = [])) /\
  digits 10 (print_N n) 0%N 0%nat = (n, [], length (print_N n)).
Proof. intro n. split; [apply print_N_canonical|apply digits_print_N]. Qed.
Print Assumptions C05_print_N_canonical.

(* (used by C04 too) print_Z z is a numeral of the C04 grammar denoting z — for every z, unbounded —
   so the C04 specification of the conversion gives z within long and a range error outside *)
Theorem C05_print_Z_canonical :
  forall z : Z,
  int_numeral (print_Z z) = Some z /\
  int_spec (print_Z z) = (if in_long z then COk z else CRange).
Proof. intro z. unfold int_spec. rewrite int_numeral_print_Z. split; reflexivity. Qed.
Print Assumptions C05_print_Z_canonical.

(* the strtol model itself (base 0: sign, no prefix, decimal digits, no clamping) reads the whole text *)
Theorem C05_strtol_reads_back :
  forall z : Z, in_long z = true ->
  strtol (print_Z z) 0 = {| sl_val := z; sl_rest := []; sl_erange := false; sl_noconv := false |}.
Proof. exact strtol_print_Z. Qed.
Print Assumptions C05_strtol_reads_back.

(* outside the long range (where printf("%ld") cannot have been the writer) the conversion reports
   a range error; it never yields a wrong value *)
Theorem C05_int_out_of_range :
  forall z : Z, ~ (- 2 ^ 63 <= z < 2 ^ 63)%Z -> conv_int (print_Z z) = CRange.
Proof. exact conv_int_print_Z_out. Qed.
Print Assumptions C05_int_out_of_range.

(* The scanner.  A "simple word": first byte not a delimiter, not '/' and not '$'; further bytes not
   delimiters and not '/'.  Delimiters are tab, newline, CR, space, the two quotes, #, ( ) * + , = { }.
   Such a word followed by end of input or a delimiter is returned by cfg_yylex from INITIAL as ONE
   CFGT_STR token whose value is the word up to its first NUL; the rest of the input stays, the line
   counter, scratch buffer, include stack and echo are untouched, no diagnostics. *)
Theorem C05_word_token :
  forall e c run st p closed id rest others fuel,
  word_start c = true -> Forall (fun b => word_mid b = true) run ->
  (match rest with [] => True | d :: _ => word_delim d = true end) ->
  l_sc st = INITIAL -> l_bufs st = (id, (c :: run) ++ rest) :: others ->
  yylex e (S fuel) st p closed =
  {| r_tok := TStr; r_val := Some (cstr (c :: run)); r_st := set_bufs st ((id, rest) :: others); r_pos := p;
     r_diags := []; r_closed := closed; r_fuel_out := false |}.
Proof. exact word_token. Qed.
Print Assumptions C05_word_token.

(* the printed integer (any z, unbounded), followed by end of input or a delimiter byte — newline,
   space, ',' and '}' among them — is ONE unquoted-word token with value print_Z z *)
Theorem C05_int_token_reads_back :
  forall e z st p closed id rest others fuel,
  (match rest with [] => True | d :: _ => word_delim d = true end) ->
  l_sc st = INITIAL -> l_bufs st = (id, print_Z z ++ rest) :: others ->
  yylex e (S fuel) st p closed =
  {| r_tok := TStr; r_val := Some (print_Z z); r_st := set_bufs st ((id, rest) :: others); r_pos := p;
     r_diags := []; r_closed := closed; r_fuel_out := false |}.
Proof. exact int_token_reads_back. Qed.
Print Assumptions C05_int_token_reads_back.

(* ---- booleans ---- *)

(* cfg_opt_nprint_var writes "true" / "false" for a boolean option ... *)
Theorem C05_bool_printed :
  forall fmt_f o b,
  o_kind o = KBool -> nth_error (o_vals o) 0 = Some (VBool b) ->
  nprint_var fmt_f o 0 = M (if b then "true" else "false").
Proof. exact nprint_var_bool. Qed.
Print Assumptions C05_bool_printed.

(* ... and cfg_parse_boolean reads that text back as the same boolean *)
Theorem C05_bool_reads_back :
  forall b : bool, conv_bool (M (if b then "true" else "false")) = Some b.
Proof. exact conv_bool_print. Qed.
Print Assumptions C05_bool_reads_back.

Theorem C05_bool_token_reads_back :
  forall e (b : bool) st p closed id rest others fuel,
  (match rest with [] => True | d :: _ => word_delim d = true end) ->
  l_sc st = INITIAL -> l_bufs st = (id, M (if b then "true" else "false") ++ rest) :: others ->
  yylex e (S fuel) st p closed =
  {| r_tok := TStr; r_val := Some (M (if b then "true" else "false")); r_st := set_bufs st ((id, rest) :: others);
     r_pos := p; r_diags := []; r_closed := closed; r_fuel_out := false |}.
Proof. exact bool_token_reads_back. Qed.
Print Assumptions C05_bool_token_reads_back.

(* ---- floats, modulo libc ---- *)

(* printf("%f") and strtod are oracles (fmt_f, strtod).  IF strtod consumes the whole printed text, without
   ERANGE, and reports the bits x', THEN cfg_setopt's float conversion accepts the text and yields x':
   the library adds no rejection of its own.  (Whether x' = x is a property of libc's "%f", which prints
   6 decimals and is NOT exact in general.) *)
Theorem C05_float_reads_back_modulo_libc :
  forall (fmt_f : N -> str) (strtod : str -> strtod_res) (x x' : N),
  fmt_f x <> [] ->
  strtod (fmt_f x) = {| sd_bits := x'; sd_consumed := length (fmt_f x); sd_erange := false |} ->
  conv_float strtod (fmt_f x) = COk x'.
Proof. exact conv_float_print_modulo_libc. Qed.
Print Assumptions C05_float_reads_back_modulo_libc.

(* ---- non-vacuity ---- *)
Example C05b_ex_min : print_Z (- 2 ^ 63) = M "-9223372036854775808" /\ conv_int (print_Z (- 2 ^ 63)) = COk (- 2 ^ 63)%Z.
Proof. vm_compute. split; reflexivity. Qed.
Example C05b_ex_max : print_Z (2 ^ 63 - 1) = M "9223372036854775807".
Proof. vm_compute. reflexivity. Qed.
Example C05b_ex_zero : print_Z 0 = M "0" /\ conv_int (M "0") = COk 0%Z.
Proof. vm_compute. split; reflexivity. Qed.
Example C05b_ex_octal_trap : conv_int (M "010") = COk 8%Z /\ print_Z 10 = M "10".
Proof. vm_compute. split; reflexivity. Qed.
Example C05b_ex_out : conv_int (print_Z (2 ^ 63)) = CRange.
Proof. vm_compute. reflexivity. Qed.
Example C05b_ex_delims : forallb word_delim [x0a; x20; x2c; x7d] = true.
Proof. vm_compute. reflexivity. Qed.
Example C05b_ex_token :
  let st := scan_begin lex_init (M "-42, 7}") in
  let r := yylex [] 5 st {| p_file := None; p_line := 1 |} 0 in
  r_tok r = TStr /\ r_val r = Some (M "-42") /\ l_bufs (r_st r) = [(0%nat, M ", 7}")].
Proof. vm_compute. repeat split; reflexivity. Qed.
Example C05b_ex_float :
  let fmt_f := fun _ : N => M "1.500000" in
  let strtod := fun s : str => {| sd_bits := 4609434218613702656; sd_consumed := length s; sd_erange := false |} in
  conv_float strtod (fmt_f 4609434218613702656%N) = COk 4609434218613702656%N.
Proof. vm_compute. reflexivity. Qed.

(* ================================================================== *)
(* the structural step, for flat configurations (FlatRoundProofs.v)     *)
(* ================================================================== *)
From LC Require Import Files Parser ApiProofs FlatRoundProofs.

Section Flat.
Variable fmt_f : N -> str.                    (* printf("%f"), oracle *)
Variable strtod_o : str -> strtod_res.        (* strtod, oracle *)

(* the value v of an option of kind k is one the printer / parser pair handles:
   a long; a boolean; a string without NUL; a double the two libc oracles round-trip
   (its "%f" text is a simple word that strtod reads back, whole, without ERANGE, as the same bits) *)
Definition C05_val_ok (k : kind) (v : value) : Prop :=
  match k, v with
  | KInt, VInt z => (- 2 ^ 63 <= z < 2 ^ 63)%Z
  | KBool, VBool _ => True
  | KStr, VStr (Some s) => Forall (fun c => c <> x00) s
  | KFloat, VFloat x =>
      (exists c run, fmt_f x = c :: run /\ word_start c = true /\ Forall (fun b => word_mid b = true) run /\
                     Forall (fun b => b <> x00) (fmt_f x)) /\
      strtod_o (fmt_f x) = {| sd_bits := x; sd_consumed := length (fmt_f x); sd_erange := false |}
  | _, _ => False
  end.

Definition C05_scalar (k : kind) : Prop := k = KInt \/ k = KBool \/ k = KStr \/ k = KFloat.

(* the source option so (holding the single value v) and the target declaration to belong together:
   so is a plain scalar with one value, no list flag, no comment, no print callback;
   to has the same name — a simple word without NUL and '|' —, a kind fitting v, no list / deprecated flag,
   no parse or validate callback; string values are at most M bytes long (for the fuel bound) *)
Definition C05_same_decl (M : nat) (so to : opt) : Prop :=
  exists v,
    (C05_scalar (o_kind so) /\ oflag so CFGF_LIST = false /\ o_comment so = None /\ cb_print (o_cbs so) = None /\
     o_vals so = [v] /\ C05_val_ok (o_kind so) v /\ Forall (fun b => b <> x00) (o_name so)) /\
    (o_name to = o_name so /\
     (exists c run, o_name so = c :: run /\ word_start c = true /\ Forall (fun b => word_mid b = true) run /\
                    Forall (fun b => b <> x00) (o_name so) /\ Forall (fun b => Byte.eqb b x7c = false) (o_name so)) /\
     C05_val_ok (o_kind to) v /\
     (C05_scalar (o_kind to) /\ oflag to CFGF_LIST = false /\ oflag to CFGF_DEPRECATED = false /\
      cb_parse (o_cbs to) = None /\ cb_valid (o_cbs to) = None) /\
     (match v with VStr (Some s) => length s | _ => 0%nat end <= M)%nat).

(* no option name equals, under the context's case rule, a later one *)
Fixpoint C05_names_distinct (nc : bool) (l : list str) : Prop :=
  match l with
  | [] => True
  | n :: r => Forall (fun m => name_eqb nc n m = false) r /\ C05_names_distinct nc r
  end.

(* For a section-free source context cs whose options are plain scalars (int / bool / string / float, one
   value each), and ANY target context ct with the same declarations (whatever values it holds), parsing
   the text cfg_print wrote for cs with cfg_parse_buf succeeds, stores in every option exactly the value
   cs has (same name, kind, values), leaves the world unchanged but for the scanner state and the
   free-callback log, and printing the result again gives the same text. *)
Theorem C05_flat_roundtrip :
  forall (M : nat) (cs ct : cfg) (w : pw) (fuel : nat),
  c_pff cs = None -> c_pff ct = None ->
  Forall2 (C05_same_decl M) (c_opts cs) (c_opts ct) ->
  Forall (fun o => o_comment o = None /\ cb_print (o_cbs o) = None) (c_opts ct) ->
  C05_names_distinct (cflag ct CFGF_NOCASE) (map o_name (c_opts ct)) ->
  l_inc (w_lex w) = [] ->
  (3 * length (c_opts cs) + M + 3 <= fuel)%nat ->
  exists w' ct',
    parse_buf strtod_o fuel w ct (Some (print_cfg fmt_f cs None 0)) = (w', ct', CFG_SUCCESS) /\
    (w_env w' = w_env w /\ w_fs w' = w_fs w /\ w_pw w' = w_pw w /\ w_path w' = w_path w /\
     w_cnt w' = w_cnt w /\ w_failat w' = w_failat w /\ w_nextptr w' = w_nextptr w /\
     w_diags w' = w_diags w /\ w_open w' = w_open w /\ w_crash w' = w_crash w /\ w_oof w' = w_oof w) /\
    Forall2 (fun so to' => o_name to' = o_name so /\ o_kind to' = o_kind so /\ o_vals to' = o_vals so)
            (c_opts cs) (c_opts ct') /\
    print_cfg fmt_f ct' None 0 = print_cfg fmt_f cs None 0.
Proof. exact (flat_roundtrip_idempotent fmt_f strtod_o). Qed.
End Flat.
Print Assumptions C05_flat_roundtrip.

(* the printed line of a scalar option is  NAME=VALUE\n  ... *)
Theorem C05_print_opt_line :
  forall fmt_f strtod_o o v, printable fmt_f strtod_o o v ->
  print_opt fmt_f o None 0 = o_name o ++ x3d :: vtext fmt_f v ++ [x0a].
Proof. exact print_opt_line. Qed.
Print Assumptions C05_print_opt_line.

(* ... and cfg_yylex splits the line  NAME=<printed integer>\n  into exactly the three tokens
   CFGT_STR NAME, '=', CFGT_STR <numeral>, then end of input (the `lex` view of the harness) *)
Theorem C05_int_line_tokens :
  forall e st p id others c run z,
  word_start c = true -> Forall (fun b => word_mid b = true) run -> Forall (fun b => b <> x00) (c :: run) ->
  l_sc st = INITIAL /\ l_bufs st = (id, (c :: run) ++ x3d :: print_Z z ++ [x0a]) :: others /\
    l_inc st = [] /\ l_rderr st = false ->
  exists st',
    lex_all e 4 st p [] [] =
    ([ {| lt_tok := TStr; lt_val := Some (c :: run); lt_line := p_line p |};
       {| lt_tok := TPunct 61; lt_val := Some [x3d]; lt_line := p_line p |};
       {| lt_tok := TStr; lt_val := Some (print_Z z); lt_line := p_line p |} ],
     TEof, st', line_incr p, []) /\
    (l_sc st' = INITIAL /\ l_bufs st' = (id, []) :: others /\ l_inc st' = [] /\ l_rderr st' = false).
Proof. exact int_line_tokens. Qed.
Print Assumptions C05_int_line_tokens.

(* ---- non-vacuity of the flat round trip ---- *)
Definition ex_fmt (_ : N) : str := M "1.500000".
Definition ex_strtod (s : str) : strtod_res := {| sd_bits := 99; sd_consumed := length s; sd_erange := false |}.
Definition ex_src : cfg :=
  Cfg (M "root") None 0
    [Opt (M "count") KInt 0 [VInt (-42)] [] defv0 None cbset0;
     Opt (M "enabled") KBool 0 [VBool true] [] defv0 None cbset0;
     Opt (M "motd") KStr 0 [VStr (Some [x61; x22; x5c; x24; x7b; x48; x7d; x0a; x23])] [] defv0 None cbset0;
     Opt (M "ratio") KFloat 0 [VFloat 99] [] defv0 None cbset0] None 0 true None.
Definition ex_tgt : cfg :=
  Cfg (M "root") None 0
    [Opt (M "count") KInt 0 [VInt 7] [] defv0 None cbset0;
     Opt (M "enabled") KBool 0 [VBool false] [] defv0 None cbset0;
     Opt (M "motd") KStr 0 [VStr None] [] defv0 None cbset0;
     Opt (M "ratio") KFloat 0 [] [] defv0 None cbset0] None 0 true None.

Example C05b_ex_flat_text :
  print_cfg ex_fmt ex_src None 0 =
  M "count=-42" ++ [x0a] ++ M "enabled=true" ++ [x0a] ++
  M "motd=" ++ [x22; x61; x5c; x22; x5c; x5c; x5c; x24; x7b; x48; x7d; x0a; x23; x22; x0a] ++
  M "ratio=1.500000" ++ [x0a].
Proof. vm_compute. reflexivity. Qed.

Ltac ex_bytes := repeat (constructor; [first [discriminate | reflexivity]|]); constructor.

Example C05b_ex_flat_hyps :
  Forall2 (C05_same_decl ex_fmt ex_strtod 16) (c_opts ex_src) (c_opts ex_tgt) /\
  Forall (fun o => o_comment o = None /\ cb_print (o_cbs o) = None) (c_opts ex_tgt) /\
  C05_names_distinct (cflag ex_tgt CFGF_NOCASE) (map o_name (c_opts ex_tgt)) /\
  l_inc (w_lex ex_w0) = [] /\ c_pff ex_src = None /\ c_pff ex_tgt = None.
Proof.
  split; [|split; [repeat constructor|split; [vm_compute; repeat split; repeat constructor|repeat split]]].
  unfold ex_src, ex_tgt, c_opts.
  constructor; [|constructor; [|constructor; [|constructor; [|constructor]]]].
  - exists (VInt (-42)). unfold C05_scalar. cbn [o_kind o_vals o_name o_comment o_cbs C05_val_ok].
    repeat split; try reflexivity; try (left; reflexivity); try (cbn; lia); try ex_bytes.
    eexists; eexists; split; [reflexivity|]. split; [reflexivity|]. repeat split; ex_bytes.
  - exists (VBool true). unfold C05_scalar. cbn [o_kind o_vals o_name o_comment o_cbs C05_val_ok].
    repeat split; try reflexivity; try (right; left; reflexivity); try (cbn; lia); try ex_bytes.
    eexists; eexists; split; [reflexivity|]. split; [reflexivity|]. repeat split; ex_bytes.
  - eexists (VStr (Some _)). unfold C05_scalar. cbn [o_kind o_vals o_name o_comment o_cbs C05_val_ok].
    repeat split; try reflexivity; try (right; right; left; reflexivity); try (cbn; lia); try ex_bytes.
    eexists; eexists; split; [reflexivity|]. split; [reflexivity|]. repeat split; ex_bytes.
  - exists (VFloat 99). unfold C05_scalar. cbn [o_kind o_vals o_name o_comment o_cbs C05_val_ok].
    repeat split; try reflexivity; try (right; right; right; reflexivity); try (cbn; lia); try ex_bytes.
    + eexists; eexists; split; [reflexivity|]. split; [reflexivity|]. split; ex_bytes.
    + eexists; eexists; split; [reflexivity|]. split; [reflexivity|]. repeat split; ex_bytes.
    + eexists; eexists; split; [reflexivity|]. split; [reflexivity|]. split; ex_bytes.
Qed.

(* the executable model agrees on this instance *)
Example C05b_ex_flat_run :
  let '(w', ct', rc) := parse_buf ex_strtod 64 ex_w0 ex_tgt (Some (print_cfg ex_fmt ex_src None 0)) in
  rc = CFG_SUCCESS /\ map o_vals (c_opts ct') = map o_vals (c_opts ex_src) /\ w_diags w' = [] /\
  print_cfg ex_fmt ct' None 0 = print_cfg ex_fmt ex_src None 0.
Proof. vm_compute. repeat split; reflexivity. Qed.
