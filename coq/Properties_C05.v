(* placeholder, replaced by the string round-trip theorem *)
Example C05_placeholder : True. Proof. exact I. Qed.
