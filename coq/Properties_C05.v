(* Properties_C05.v — C05: the printed configuration parses back to the same configuration.
   Lexical core proved here; the structural part (layout of sections/lists, re-parse = same tree,
   print idempotence) is checked by the differential round-trip run against the library and the model. *)
From Coq Require Import List Arith NArith Bool.
From Coq.Strings Require Import Byte.
From LC Require Import Bytes Flex LexAct LexRules Consts Lexer LexSpec LexLemmas DqProofs Conv Store Print RoundProofs.
Import ListNotations.

(* For EVERY string s without NUL (any length, any bytes: quotes, backslashes, '$', "${...}", braces,
   comment markers, newlines), what cfg_print writes for a string value or a section title — quoted s —
   followed by any text, is scanned by cfg_yylex (over the rule table regenerated from lexer.l) as ONE
   string token whose value is exactly s; nothing is substituted, reported or echoed, and the line
   counter advances by the newlines in s. *)
Theorem C05_string_reads_back :
  forall e s st p closed id rest others fuel,
  Forall (fun c => c <> x00) s -> l_sc st = INITIAL ->
  l_bufs st = (id, quoted (Some s) ++ rest) :: others -> (S (length s) < fuel)%nat ->
  observe (yylex e fuel st p closed) =
  {| ob_tok := TStr; ob_val := Some s; ob_bufs := (id, rest) :: others;
     ob_sc := INITIAL; ob_line := p_line p + count_nl s; ob_file := p_file p; ob_diags := []; ob_echo := l_echo st;
     ob_inc := l_inc st; ob_closed := closed; ob_oof := false |}.
Proof. exact quoted_reads_back. Qed.
Print Assumptions C05_string_reads_back.

(* non-vacuity: a hostile string *)
Example C05_string_example :
  let s := [x61; x22; x5c; x24; x7b; x48; x7d; x0a; x2f; x2a] in
  quoted (Some s) = [x22; x61; x5c; x22; x5c; x5c; x5c; x24; x7b; x48; x7d; x0a; x2f; x2a; x22] /\
  Forall (fun c => c <> x00) s.
Proof. split; [vm_compute; reflexivity|repeat constructor; discriminate]. Qed.
