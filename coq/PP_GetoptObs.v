(* PP_GetoptObs.v — C01: the option reference found by the path resolver (cfg_getopt) depends only
   on the observation obs_c of the tree (values, titles, declared flags; not RESET/MODIFIED/DEFINIT/
   COMMENTS, comments or positions). *)
From Coq Require Import List Arith NArith ZArith Bool Lia.
From Coq.Strings Require Import Byte.
From LC Require Import Bytes Consts Conv Flex LexAct Lexer Files Store Parser Grammar PP_Base PathProofs.
Import ListNotations.

Local Opaque strtol.

(* ---------------- single-level lookup ---------------- *)
Lemma find_idx_map {A B} (h : A -> B) (f : A -> bool) (g : B -> bool) l :
  (forall x, f x = g (h x)) -> forall i, find_idx f l i = find_idx g (map h l) i.
Proof.
  intros H. induction l as [|x l IH]; intros i; cbn [find_idx map]; [reflexivity|].
  rewrite <- H. destruct (f x); [reflexivity|apply IH].
Qed.

Lemma o_name_obs o : o_name (obs_o o) = o_name o.
Proof. rewrite obs_o_eq. reflexivity. Qed.

Lemma getopt_leaf_obs : forall c1 c2 n, obs_c c1 = obs_c c2 -> getopt_leaf c1 n = getopt_leaf c2 n.
Proof.
  intros c1 c2 n H. apply obs_c_inj_parts in H as (_ & _ & Hf & Ho).
  unfold getopt_leaf, cflag. rewrite Hf.
  rewrite (find_idx_map obs_o _ (fun o => name_eqb (has (c_flags c2) CFGF_NOCASE) (o_name o) n) (c_opts c1))
    by (intros x; rewrite o_name_obs; reflexivity).
  rewrite (find_idx_map obs_o _ (fun o => name_eqb (has (c_flags c2) CFGF_NOCASE) (o_name o) n) (c_opts c2))
    by (intros x; rewrite o_name_obs; reflexivity).
  rewrite Ho. reflexivity.
Qed.

(* ---------------- the options of obs-equal contexts ---------------- *)
Lemma nth_opts_obs c1 c2 k : obs_c c1 = obs_c c2 ->
  match nth_error (c_opts c1) k, nth_error (c_opts c2) k with
  | Some o, Some o' => obs_o o = obs_o o'
  | None, None => True
  | _, _ => False
  end.
Proof. intros H. exact (get_opt_obs_rel c1 c2 ([], k) H). Qed.

Lemma obs_o_kind o o' : obs_o o = obs_o o' -> o_kind o = o_kind o'.
Proof. intros H. apply obs_o_split in H as [H _]. apply shape_kind, H. Qed.

Lemma obs_o_oflag o o' m : obs_o o = obs_o o' -> N.land IMASK m = 0%N -> oflag o m = oflag o' m.
Proof. intros H. apply obs_o_split in H as [H _]. apply shape_oflag, H. Qed.

Lemma obs_o_vals o o' : obs_o o = obs_o o' -> map obs_v (o_vals o) = map obs_v (o_vals o').
Proof. intros H. apply obs_o_split in H as [_ H]. exact H. Qed.

Lemma c_title_obs s s' : obs_c s = obs_c s' -> c_title s = c_title s'.
Proof. intros H. apply obs_c_inj_parts in H as (_ & H & _). exact H. Qed.

Lemma cflag_obs s s' m : obs_c s = obs_c s' -> cflag s m = cflag s' m.
Proof. intros H. apply obs_c_inj_parts in H as (_ & _ & H & _). unfold cflag. rewrite H. reflexivity. Qed.

Lemma gettsecidx_from_obs nocase t : forall l l' i, map obs_v l = map obs_v l' ->
  gettsecidx_from nocase l t i = gettsecidx_from nocase l' t i.
Proof.
  induction l as [|v l IH]; intros [|v' l'] i H; cbn [map] in H; try discriminate; [reflexivity|].
  injection H as Hv Hl. specialize (IH l' (S i) Hl).
  destruct v as [| | | |[s|]|], v' as [| | | |[s'|]|]; cbn [obs_v] in Hv; try discriminate; cbn [gettsecidx_from]; try reflexivity.
  injection Hv as Hs. rewrite (c_title_obs s s' Hs), (cflag_obs s s' CFGF_NOCASE Hs).
  destruct (c_title s') as [tt|]; [|reflexivity].
  destruct (name_eqb (nocase || cflag s' CFGF_NOCASE) t tt); [reflexivity|exact IH].
Qed.

Lemma gettsecidx_obs o o' t : obs_o o = obs_o o' -> gettsecidx o t = gettsecidx o' t.
Proof.
  intros H. unfold gettsecidx. rewrite (obs_o_oflag o o' CFGF_NOCASE H eq_refl).
  apply gettsecidx_from_obs, obs_o_vals, H.
Qed.

Lemma nth_sec_obs_rel o o' v : obs_o o = obs_o o' -> option_map obs_c (nth_sec o v) = option_map obs_c (nth_sec o' v).
Proof. intros H. rewrite <- !nth_sec_obs, H. reflexivity. Qed.

Lemma opt_getnsec_obs o o' i : obs_o o = obs_o o' ->
  option_map obs_c (opt_getnsec o i) = option_map obs_c (opt_getnsec o' i).
Proof.
  intros H. unfold opt_getnsec. rewrite (obs_o_kind o o' H).
  assert (L : length (o_vals o) = length (o_vals o')).
  { rewrite <- (map_length obs_v (o_vals o)), (obs_o_vals o o' H). apply map_length. }
  rewrite L. destruct (o_kind o'); try reflexivity.
  destruct (i <? N.of_nat (length (o_vals o')))%N; [|reflexivity]. apply nth_sec_obs_rel, H.
Qed.

(* ---------------- the loop body ---------------- *)
Lemma mtuple_obs sec1 sec2 name len after secname : obs_c sec1 = obs_c sec2 ->
  mtuple sec1 name len after secname = mtuple sec2 name len after secname.
Proof.
  intros H. unfold mtuple. rewrite (getopt_leaf_obs sec1 sec2 secname H).
  destruct (getopt_leaf sec2 secname) as [k|]; [|reflexivity].
  pose proof (nth_opts_obs sec1 sec2 k H) as Hk.
  destruct (nth_error (c_opts sec1) k) as [o|], (nth_error (c_opts sec2) k) as [o'|]; try contradiction; [|reflexivity].
  rewrite (obs_o_kind o o' Hk), (obs_o_oflag o o' CFGF_MULTI Hk eq_refl), (obs_o_oflag o o' CFGF_TITLE Hk eq_refl).
  destruct (negb (kind_eqb (o_kind o') KSec)); [reflexivity|].
  destruct after as [|c after']; [reflexivity|].
  destruct (negb (Byte.eqb c x3d)); [reflexivity|].
  destruct (negb (oflag o' CFGF_MULTI)); [reflexivity|].
  destruct (parse_title after') as [[t l]|]; [|reflexivity].
  rewrite (gettsecidx_obs o o' t Hk). reflexivity.
Qed.

Lemma msec_obs sec1 sec2 oi i : obs_c sec1 = obs_c sec2 ->
  match msec sec1 oi i, msec sec2 oi i with
  | Some (k, v, s), Some (k', v', s') => k = k' /\ v = v' /\ obs_c s = obs_c s'
  | None, None => True
  | _, _ => False
  end.
Proof.
  intros H. unfold msec. destruct oi as [k|]; [|exact I].
  destruct (0 <=? i)%Z; [|exact I].
  pose proof (nth_opts_obs sec1 sec2 k H) as Hk.
  destruct (nth_error (c_opts sec1) k) as [o|], (nth_error (c_opts sec2) k) as [o'|]; try contradiction; [|exact I].
  pose proof (opt_getnsec_obs o o' (to_uint i) Hk) as Hn.
  destruct (opt_getnsec o (to_uint i)) as [s|], (opt_getnsec o' (to_uint i)) as [s'|]; cbn [option_map] in Hn;
    try discriminate; [|exact I].
  injection Hn as Hn. auto.
Qed.

Lemma finish_obs root1 root2 sec1 sec2 steps last index name : obs_c sec1 = obs_c sec2 ->
  rs_opt (finish_r root1 sec1 steps false last index name) = rs_opt (finish_r root2 sec2 steps false last index name).
Proof.
  intros H. unfold finish_r. destruct name as [|c n]; [reflexivity|].
  rewrite (getopt_leaf_obs sec1 sec2 (c :: n) H). destruct (getopt_leaf sec2 (c :: n)); reflexivity.
Qed.

Lemma secidx_loop_obs : forall fuel root1 root2 sec1 sec2 steps name last index,
  obs_c sec1 = obs_c sec2 ->
  rs_opt (secidx_loop fuel root1 sec1 steps name false last index) =
  rs_opt (secidx_loop fuel root2 sec2 steps name false last index).
Proof.
  induction fuel as [|fuel IH]; intros root1 root2 sec1 sec2 steps name last index H; [reflexivity|].
  rewrite !secidx_loop_eq.
  destruct name as [|c n]; [apply finish_obs, H|].
  cbv beta iota zeta. set (nm := c :: n). set (len := strcspn nm is_bar_eq).
  destruct (negb false && match skipn len nm with [] => true | _ :: _ => false end); [apply finish_obs, H|].
  destruct (Nat.eqb len 0); [reflexivity|].
  rewrite (mtuple_obs sec1 sec2 nm len (skipn len nm) (firstn len nm) H).
  destruct (mtuple sec2 nm len (skipn len nm) (firstn len nm)) as [[[[oi i] title] name1] len1].
  pose proof (msec_obs sec1 sec2 oi i H) as Hm.
  destruct (msec sec1 oi i) as [[[k v] s]|], (msec sec2 oi i) as [[[k' v'] s']|]; try contradiction; [|reflexivity].
  destruct Hm as (-> & -> & Hs).
  destruct (_ || _); [reflexivity|].
  apply IH, Hs.
Qed.

(* ---------------- the theorem ---------------- *)
Theorem getopt_obs : forall (c1 c2 : cfg) (name : str),
  obs_c c1 = obs_c c2 -> fst (cfg_getopt c1 name) = fst (cfg_getopt c2 name).
Proof.
  intros c1 c2 name H. unfold cfg_getopt, getopt_secidx. cbn [fst].
  destruct name as [|c n]; [reflexivity|]. apply secidx_loop_obs, H.
Qed.

Lemma getopt_ceq : forall a b name, ceq a b -> fst (cfg_getopt a name) = fst (cfg_getopt b name).
Proof. intros a b name H. apply getopt_obs, ceq_obs, H. Qed.

Print Assumptions getopt_obs.
