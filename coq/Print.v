(* Print.v — cfg_opt_nprint_var, cfg_opt_print_pff_indent, cfg_print_pff_indent. *)
From Coq Require String.
Import String.StringSyntax.
From Coq Require Import List Arith NArith ZArith Bool.
From Coq.Strings Require Import Byte.
From LC Require Import Bytes Consts Conv Lexer Store.
Import ListNotations.
Local Open Scope string_scope.
Local Open Scope list_scope.

Section WithOracles.
Variable fmt_f : N -> str.           (* printf("%f") of the double with these bits *)

Definition dq : byte := x22.
Definition bsl : byte := x5c.

(* the printer's string escape *)
Definition esc1 (c : byte) : str :=
  if Byte.eqb c dq then [bsl; dq] else if Byte.eqb c bsl then [bsl; bsl] else if Byte.eqb c x24 then [bsl; x24] else [c].
Definition escape (s : str) : str := flat_map esc1 s.
(* cfg_print_quoted: NULL prints as "" *)
Definition quoted (s : option str) : str := dq :: escape (match s with Some t => cstr t | None => [] end) ++ [dq].

(* cfg_opt_nprint_var(opt, index, fp): getters fall back to 0 / NULL / false when the slot is missing *)
Definition nprint_var (o : opt) (index : nat) : str :=
  let v := nth_error (o_vals o) index in
  match o_kind o with
  | KInt => print_Z (match v with Some (VInt z) => z | _ => 0%Z end)
  | KFloat => fmt_f (match v with Some (VFloat b) => b | _ => 0%N end)
  | KStr => quoted (match v with Some (VStr s) => s | _ => None end)
  | KBool => M (if match v with Some (VBool b) => b | _ => false end then "true" else "false")
  | _ => []
  end.

Definition indent_str (n : nat) : str := concat (repeat (M "  ") n).

(* the scripted print callback: <name#index> *)
Definition pf_text (o : opt) (index : nat) : str :=
  x3c :: cstr (o_name o) ++ x23 :: print_N (N.of_nat index) ++ [x3e].

Definition print_value (o : opt) (index : nat) : str :=
  match cb_print (o_cbs o) with Some _ => pf_text o index | None => nprint_var o index end.

Definition nl : byte := x0a.

Fixpoint sep_by (sep : str) (l : list str) : str :=
  match l with [] => [] | [x] => x | x :: r => x ++ sep ++ sep_by sep r end.

Definition name_in (n : str) (l : list str) : bool := existsb (str_eqb n) l.

(* cfg_print_pff_indent / cfg_opt_print_pff_indent; a filter is the set of names it suppresses *)
Fixpoint print_cfg (c : cfg) (fb : option (list str)) (indent : nat) {struct c} : str :=
  match c with
  | Cfg _ _ _ opts _ _ _ pff =>
      let eff := match pff with Some f => Some f | None => fb end in
      (fix go (l : list opt) : str :=
         match l with
         | [] => []
         | o :: r =>
             (if match eff with Some f => name_in (o_name o) f | None => false end then []
              else print_opt o eff indent) ++ go r
         end) opts
  end
with print_opt (o : opt) (pff : option (list str)) (indent : nat) {struct o} : str :=
  match o with
  | Opt name k flags vals sub def comment cbs =>
      let cm := match comment with
                | Some t => if has flags CFGF_COMMENTS then indent_str indent ++ M "/* " ++ cstr t ++ M " */" ++ [nl] else []
                | None => [] end in
      cm ++
      match k with
      | KSec =>
          (fix secs (l : list value) : str :=
             match l with
             | [] => []
             | v :: r =>
                 (match v with
                  | VSec (Some s) =>
                      indent_str indent ++
                      (if has flags CFGF_TITLE
                       then cstr name ++ M " " ++ quoted (c_title s) ++ M " {" ++ [nl]
                       else cstr name ++ M " {" ++ [nl]) ++
                      print_cfg s pff (S indent) ++ indent_str indent ++ M "}" ++ [nl]
                  | _ => []          (* a NULL section would crash cfg_print_pff_indent *)
                  end) ++ secs r
             end) vals
      | KFunc | KNone =>
          match cb_print cbs with
          | Some _ => indent_str indent ++ pf_text o 0 ++ [nl]
          | None => []
          end
      | _ =>
          if has flags CFGF_LIST then
            indent_str indent ++ cstr name ++ M " = {" ++
            sep_by (M ", ") (map (fun i => print_value o i) (seq 0 (length vals))) ++ M "}" ++ [nl]
          else
            indent_str indent ++
            (if Nat.eqb (length vals) 0 ||
                (kind_eqb k KStr && match nth_error vals 0 with Some (VStr (Some _)) => false | _ => true end)
             then M "# " else []) ++
            cstr name ++ M "=" ++ print_value o 0 ++ [nl]
      end
  end.

Definition cfg_print_indent (c : cfg) (indent : nat) : str := print_cfg c None indent.
Definition cfg_opt_print (o : opt) : str := print_opt o None 0.

End WithOracles.
