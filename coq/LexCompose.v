(* LexCompose.v — C15, lexical level, part 2b: scanning composes at a delimiter (proofs; sweeps are in LexClasses.v). *)
From Coq Require Import List Arith NArith Bool Lia.
From Coq.Strings Require Import Byte.
From LC Require Import Bytes Flex LexAct LexRules Consts Lexer LexSpec LexLemmas DqProofs SqProofs LexAll
                       Files Store Parser Grammar PP_Step PP_Tok PP_LexYields PP_LexFrame LineProofs LexComments LexClasses.
Import ListNotations.

(* ================================================================== *)
(* 1. munch on a prefix; reachable residual vectors *)

Lemma munch_pre_snoc (u : str) c : forall rs n best,
  munch_pre rs (u ++ [c]) n best =
  match munch_pre rs u n best with
  | Some (V, n1, b1) =>
      if forallb is_emp (map (deriv c) V) then None
      else Some (map (deriv c) V, S n1, match first_nullable (map (deriv c) V) 0 with Some i => Some (i, S n1) | None => b1 end)
  | None => None
  end.
Proof.
  induction u as [|x u IH]; intros rs n best; cbn [app munch_pre].
  - destruct (forallb is_emp (map (deriv c) rs)); reflexivity.
  - destruct (forallb is_emp (map (deriv x) rs)); [reflexivity|]. apply IH.
Qed.

Lemma munch_app_None rs (x b : str) : forall n best,
  munch_pre rs x n best = None -> munch rs (x ++ b) n best = munch rs x n best.
Proof.
  revert rs. induction x as [|c x IH]; intros rs n best H; cbn [munch_pre] in H; [discriminate|].
  cbn [app munch]. destruct (forallb is_emp (map (deriv c) rs)); [reflexivity|]. apply IH. exact H.
Qed.

Lemma munch_app_Some rs (x b : str) n best V n' b' :
  munch_pre rs x n best = Some (V, n', b') ->
  munch rs (x ++ b) n best = munch V b n' b' /\ munch rs x n best = b'.
Proof.
  intros H. split; [exact (munch_pre_app rs x n best V n' b' b H)|].
  rewrite <- (app_nil_r x) at 1. rewrite (munch_pre_app rs x n best V n' b' [] H). reflexivity.
Qed.

Lemma closed_ok_init (R : list re) (A : list rule) (S : list lstate) : closed_ok R A S = true -> In (R, 0%nat) S.
Proof. intros H. unfold closed_ok in H. apply andb_prop in H as [H _]. apply ls_in_eq in H. exact H. Qed.

Lemma closed_ok_step (R : list re) (A : list rule) (S : list lstate) V k c :
  closed_ok R A S = true -> In (V, k) S -> forallb is_emp (map (deriv c) V) = false -> In (map (deriv c) V, bump k c) S.
Proof.
  intros H Hin Hal. unfold closed_ok in H. apply andb_prop in H as [_ H].
  rewrite forallb_forall in H. specialize (H _ Hin). pose proof (sweep _ H c) as Hc. cbv beta zeta in Hc.
  cbn [fst snd] in Hc. unfold LineProofs.alive in Hc. cbn [fst] in Hc. rewrite Hal in Hc. cbn [negb orb] in Hc.
  apply andb_prop in Hc as [Hc _]. apply ls_in_eq in Hc. exact Hc.
Qed.

Lemma reach_init c0 : In (active_res c0, 0%nat) (reach_sc c0).
Proof. exact (closed_ok_init _ _ _ (okc_all c0)). Qed.

Lemma reach_step c0 V k c : In (V, k) (reach_sc c0) -> forallb is_emp (map (deriv c) V) = false ->
  In (map (deriv c) V, bump k c) (reach_sc c0).
Proof. exact (closed_ok_step _ _ _ V k c (okc_all c0)). Qed.

Lemma reach_pre c0 (u : str) : forall V n b,
  munch_pre (active_res c0) u 0 None = Some (V, n, b) -> exists k, In (V, k) (reach_sc c0).
Proof.
  induction u as [|c u IH] using rev_ind; intros V n b H.
  - cbn [munch_pre] in H. injection H as <- _ _. exists 0%nat. apply reach_init.
  - rewrite munch_pre_snoc in H.
    destruct (munch_pre (active_res c0) u 0 None) as [[[V' n1] b1]|] eqn:E; [|discriminate].
    destruct (forallb is_emp (map (deriv c) V')) eqn:Hal; [discriminate|]. injection H as <- _ _.
    destruct (IH V' n1 b1 eq_refl) as [k Hk]. exists (bump k c). apply reach_step; assumption.
Qed.

Lemma last_cases {T} (l : list T) : l = [] \/ exists l' x, l = l' ++ [x].
Proof. destruct l as [|y l]; [left; reflexivity|right]. destruct (@exists_last T (y :: l)) as (l' & x & E); [discriminate|eauto]. Qed.

(* ================================================================== *)
(* 2. the text that leads into an open dollar-brace / into a one-line comment *)

Lemma envl_init c0 : envl (active_res c0) = false /\ envpre (active_res c0) = false.
Proof.
  pose proof e0_sweep as H. rewrite forallb_forall in H. specialize (H c0 (all_sc_complete c0)).
  apply andb_prop in H as [H1 H2]. apply negb_true_iff in H1, H2. auto.
Qed.

Lemma env_chain c0 (u : str) : forall V n b,
  munch_pre (active_res c0) u 0 None = Some (V, n, b) -> envl V = true ->
  exists (u1 u2 : str), u = u1 ++ dollar :: lbrace :: u2 /\ ~ In rbrace u2.
Proof.
  induction u as [|c u IH] using rev_ind; intros V n b H He.
  - cbn [munch_pre] in H. injection H as <- _ _. destruct (envl_init c0) as [E _]. congruence.
  - rewrite munch_pre_snoc in H.
    destruct (munch_pre (active_res c0) u 0 None) as [[[V' n1] b1]|] eqn:E; [|discriminate].
    destruct (forallb is_emp (map (deriv c) V')) eqn:Hal; [discriminate|]. injection H as <- _ _.
    destruct (reach_pre c0 u V' n1 b1 E) as [k Hk].
    pose proof (over_reach_elim _ e1_sweep c0 V' k c Hk) as S1. cbv beta in S1. rewrite He in S1.
    destruct (envl V') eqn:EV'.
    + destruct (IH V' n1 b1 eq_refl EV') as (u1 & u2 & -> & Hn).
      exists u1, (u2 ++ [c]). split; [rewrite <- app_assoc; reflexivity|].
      intros Hin. apply in_app_or in Hin as [Hin|[Hin|[]]]; [exact (Hn Hin)|].
      subst c. discriminate.
    + destruct (Byte.eqb c lbrace) eqn:Ec; [|discriminate]. apply byte_eqb_eq in Ec. subst c.
      destruct (last_cases u) as [->|(u' & c' & ->)].
      * cbn [munch_pre] in E. injection E as <- _ _. destruct (envl_init c0) as [_ E2]. congruence.
      * rewrite munch_pre_snoc in E.
        destruct (munch_pre (active_res c0) u' 0 None) as [[[V'' n2] b2]|] eqn:E'; [|discriminate].
        destruct (forallb is_emp (map (deriv c') V'')) eqn:Hal'; [discriminate|]. injection E as <- _ _.
        destruct (reach_pre c0 u' V'' n2 b2 E') as [k' Hk'].
        pose proof (over_reach_elim _ e2_sweep c0 V'' k' c' Hk') as S2. cbv beta in S2. rewrite S1 in S2.
        apply byte_eqb_eq in S2. subst c'.
        exists u', []. split; [rewrite <- app_assoc; reflexivity|intros []].
Qed.

Lemma lcl_init : lcl (active_res INITIAL) = false /\ slpre (active_res INITIAL) = false.
Proof. pose proof l0_sweep as H. apply andb_prop in H as [H1 H2]. apply negb_true_iff in H1, H2. auto. Qed.

Lemma lcl_init' c0 : sc_is_initial c0 = true -> lcl (active_res c0) = false /\ slpre (active_res c0) = false.
Proof. destruct c0; try discriminate. intros _. exact lcl_init. Qed.

Lemma lc_chain c0 (Hc0 : sc_is_initial c0 = true) (u : str) : forall V n b,
  munch_pre (active_res c0) u 0 None = Some (V, n, b) -> lcl V = true ->
  exists (u1 u2 : str), u = u1 ++ u2 /\ lc_start u2 = true /\ ~ In nl u2.
Proof.
  induction u as [|c u IH] using rev_ind; intros V n b H He.
  - cbn [munch_pre] in H. injection H as <- _ _. destruct (lcl_init' c0 Hc0) as [E _]. congruence.
  - rewrite munch_pre_snoc in H.
    destruct (munch_pre (active_res c0) u 0 None) as [[[V' n1] b1]|] eqn:E; [|discriminate].
    destruct (forallb is_emp (map (deriv c) V')) eqn:Hal; [discriminate|]. injection H as <- _ _.
    destruct (reach_pre c0 u V' n1 b1 E) as [k Hk].
    pose proof (over_reach_elim _ l1_sweep c0 V' k c Hk) as S1. cbv beta in S1. rewrite Hc0 in S1.
    rewrite He in S1. destruct (notnl c) eqn:Hnl; [|discriminate].
    assert (Hcnl : c <> nl) by (intros ->; discriminate).
    destruct (lcl V') eqn:EV'.
    + destruct (IH V' n1 b1 eq_refl EV') as (u1 & u2 & -> & Hs & Hn).
      exists u1, (u2 ++ [c]). split; [rewrite <- app_assoc; reflexivity|]. split.
      * destruct u2 as [|y [|z u2]]; [discriminate|cbn [app lc_start] in *|exact Hs].
        destruct (Byte.eqb y hash); [reflexivity|]. destruct (Byte.eqb y slash); discriminate.
      * intros Hin. apply in_app_or in Hin as [Hin|[Hin|[]]]; [exact (Hn Hin)|congruence].
    + destruct (Byte.eqb c hash) eqn:Eh.
      * apply byte_eqb_eq in Eh. subst c. exists u, [hash]. split; [reflexivity|]. split; [reflexivity|].
        intros [Hin|[]]. discriminate.
      * destruct (Byte.eqb c slash) eqn:Es; [|discriminate]. apply byte_eqb_eq in Es. subst c.
        destruct (last_cases u) as [->|(u' & c' & ->)].
        -- cbn [munch_pre] in E. injection E as <- _ _. destruct (lcl_init' c0 Hc0) as [_ E2]. congruence.
        -- rewrite munch_pre_snoc in E.
           destruct (munch_pre (active_res c0) u' 0 None) as [[[V'' n2] b2]|] eqn:E'; [|discriminate].
           destruct (forallb is_emp (map (deriv c') V'')) eqn:Hal'; [discriminate|]. injection E as <- _ _.
           destruct (reach_pre c0 u' V'' n2 b2 E') as [k' Hk'].
           pose proof (over_reach_elim _ l2_sweep c0 V'' k' c' Hk') as S2. cbv beta in S2. rewrite Hc0 in S2.
           rewrite S1 in S2. apply byte_eqb_eq in S2. subst c'.
           exists u', [slash; slash]. split; [rewrite <- app_assoc; reflexivity|]. split; [reflexivity|].
           intros [Hin|[Hin|[]]]; discriminate.
Qed.

(* ================================================================== *)
(* 3. munch on a sealed text followed by anything *)

Lemma bl_mloop : mloop bl_states isbl bl_idx = true.
Proof.
  pose proof bl_run_ok as H. unfold run_check2 in H. apply andb_prop in H as [H _]. apply andb_prop in H as [H _]. exact H.
Qed.

Lemma mloop_accepts Vs K i V : mloop Vs K i = true -> In V Vs -> first_nullable V 0 = Some i.
Proof.
  unfold mloop. intros H Hin. rewrite forallb_forall in H. specialize (H V Hin).
  apply andb_prop in H as [H _]. apply andb_prop in H as [_ H]. unfold accepts in H.
  destruct (first_nullable V 0) as [j|]; [|discriminate]. apply Nat.eqb_eq in H. subst. reflexivity.
Qed.

Section Seal.
Variable c0 : sc.
Notation R := (active_res c0).
Notation A := (active_rules c0).

Lemma seal_cases (x : str) : sealed x ->
  (forall b : str, munch R (x ++ b) 0 None = munch R x 0 None)
  \/ (c0 = INITIAL /\ munch R x 0 None = Some (bl_idx, length x) /\
      forall b : str, munch R (x ++ b) 0 None = Some (bl_idx, length x + length (take_while isbl b))%nat)
  \/ (c0 <> INITIAL /\ exists j r, munch R x 0 None = Some (j, length x) /\ nth_error A j = Some r /\ stays (r_act r) = true).
Proof.
  intros ((x' & d & Ex & Hd) & Ho & Hl).
  destruct (munch_pre R x 0 None) as [[[W n'] b']|] eqn:E.
  2:{ left. intros b. apply munch_app_None. exact E. }
  pose proof (munch_pre_len _ _ _ _ _ _ _ E) as Hn'. cbn [Nat.add] in Hn'.
  assert (HI : forall b : str, munch R (x ++ b) 0 None = munch W b n' b' /\ munch R x 0 None = b').
  { intros b. exact (munch_app_Some R x b 0 None W n' b' E). }
  pose proof E as E0. rewrite Ex, munch_pre_snoc in E.
  destruct (munch_pre R x' 0 None) as [[[V' n1] b1]|] eqn:E'; [|discriminate].
  destruct (forallb is_emp (map (deriv d) V')) eqn:Hal; [discriminate|].
  injection E as EW En Eb.
  destruct (reach_pre c0 x' V' n1 b1 E') as [k Hk].
  pose proof (over_reach_elim _ class_sweep c0 V' k d Hk) as HC. cbv beta in HC. rewrite Hd, EW in HC.
  rewrite EW in Hal, Eb. unfold cls in HC. rewrite Hal in HC.
  assert (Hdead : dead W = true -> forall b : str, munch R (x ++ b) 0 None = munch R x 0 None).
  { intros Hdd b. destruct (HI b) as [H1 H2]. rewrite H1, H2. apply munch_dead. exact Hdd. }
  assert (Hacc : forall j, first_nullable W 0 = Some j -> munch R x 0 None = Some (j, length x)).
  { intros j Hj. destruct (HI []) as [_ H2]. rewrite H2, <- Eb, Hj, En, Hn'. reflexivity. }
  destruct (envl W) eqn:Eenv.
  { exfalso. destruct (env_chain c0 x W n' b' E0 Eenv) as (u1 & u2 & Eu & Hnr). exact (Hnr (Ho u1 u2 Eu)). }
  destruct c0 eqn:Ec0; cbn [sc_is_initial] in HC.
  - (* INITIAL *)
    destruct (wsl W) eqn:Ews.
    + right; left. split; [reflexivity|].
      unfold wsl in Ews. apply existsb_exists in Ews as (W' & Hin & Heq). apply vec_eqb_eq in Heq. subst W'.
      pose proof (mloop_accepts _ _ _ W bl_mloop Hin) as Hfn.
      split; [apply Hacc, Hfn|]. intros b. destruct (HI b) as [H1 _]. rewrite H1.
      assert (Hb' : b' = Some (bl_idx, n')) by (rewrite <- Eb, Hfn, En; reflexivity).
      rewrite Hb', <- (take_drop isbl b) at 1.
      rewrite (munch_mloop bl_states isbl bl_idx bl_mloop (take_while isbl b) W (drop_while isbl b) n' Hin
                 (take_while_all isbl b) (drop_while_head isbl b)).
      rewrite Hn'. reflexivity.
    + destruct (lcl W) eqn:Elc.
      * exfalso. destruct (lc_chain INITIAL eq_refl x W n' b' E0 Elc) as (u1 & u2 & Eu & Hs & Hnn).
        rewrite (Hl u1 u2 Eu Hnn) in Hs. discriminate.
      * left. apply Hdead, HC.
  - destruct (contacc comment W) eqn:Eca; [|left; apply Hdead, HC].
    right; right. split; [discriminate|]. unfold contacc in Eca.
    destruct (first_nullable W 0) as [j|] eqn:Hj; [|discriminate].
    destruct (nth_error (active_rules comment) j) as [r|] eqn:Hr; [|discriminate].
    exists j, r. split; [apply Hacc; reflexivity|]. split; [exact Hr|exact Eca].
  - destruct (contacc dq_str W) eqn:Eca; [|left; apply Hdead, HC].
    right; right. split; [discriminate|]. unfold contacc in Eca.
    destruct (first_nullable W 0) as [j|] eqn:Hj; [|discriminate].
    destruct (nth_error (active_rules dq_str) j) as [r|] eqn:Hr; [|discriminate].
    exists j, r. split; [apply Hacc; reflexivity|]. split; [exact Hr|exact Eca].
  - destruct (contacc sq_str W) eqn:Eca; [|left; apply Hdead, HC].
    right; right. split; [discriminate|]. unfold contacc in Eca.
    destruct (first_nullable W 0) as [j|] eqn:Hj; [|discriminate].
    destruct (nth_error (active_rules sq_str) j) as [r|] eqn:Hr; [|discriminate].
    exists j, r. split; [apply Hacc; reflexivity|]. split; [exact Hr|exact Eca].
Qed.
End Seal.

(* ================================================================== *)
(* 4. one scanning step on `x ++ b` versus on `x` *)

Definition app_tail (b : str) (s : lexst) : lexst :=
  set_bufs s (match l_bufs s with (id, x) :: o => (id, x ++ b) :: o | [] => [] end).
Definition omap (f : lexst -> lexst) (o : outcome) : outcome :=
  match o with Continue s p => Continue (f s) p | Return t v s p d => Return t v (f s) p d end.
Definition smap (f : lexst -> lexst) (r : lstep) : lstep :=
  match r with LCont s p k => LCont (f s) p k | LRet t v s p d k => LRet t v (f s) p d k end.

Lemma run_action_bufs e a y s p B :
  run_action e a y (set_bufs s B) p = omap (fun t => set_bufs t B) (run_action e a y s p).
Proof.
  destruct a; cbn [run_action]; unfold qend_trim, qbeg; cbn [set_bufs set_q set_sc l_q omap];
    repeat match goal with
    | |- context [match env_lookup e y with _ => _ end] => destruct (env_lookup e y)
    | |- context [if (?a <? ?b)%N then _ else _] => destruct (a <? b)%N
    | |- context [if q_null ?q then _ else _] => destruct (q_null q)
    end; reflexivity.
Qed.

Lemma lex_step_tail e s p (id : nat) (x : str) (others : list (nat * str)) (b : str) i n :
  l_bufs s = (id, x) :: others ->
  munch (active_res (l_sc s)) x 0 None = Some (i, n) -> munch (active_res (l_sc s)) (x ++ b) 0 None = Some (i, n) ->
  lex_step e (app_tail b s) p = smap (app_tail b) (lex_step e s p).
Proof.
  intros Hb Hm HmB.
  assert (Hn : (n <= length x)%nat).
  { apply munch_len in Hm. destruct Hm as [Hm|Hm]; [discriminate|]. lia. }
  unfold lex_step. unfold app_tail at 1. rewrite Hb. cbn [set_bufs l_bufs l_sc].
  change (l_sc (app_tail b s)) with (l_sc s). rewrite Hm, HmB.
  change (set_bufs (app_tail b s) ((id, skipn n (x ++ b)) :: others)) with (set_bufs s ((id, skipn n (x ++ b)) :: others)).
  rewrite firstn_app, skipn_app. replace (n - length x)%nat with 0%nat by lia. cbn [firstn skipn]. rewrite app_nil_r.
  destruct (nth_error (active_rules (l_sc s)) i) as [r|].
  - rewrite !run_action_bufs.
    destruct (run_action e (r_act r) (firstn n x) s p); reflexivity.
  - reflexivity.
Qed.

Lemma bl_rule : exists r, nth_error (active_rules INITIAL) bl_idx = Some r /\ r_act r = A_skip.
Proof.
  pose proof bl_run_ok as H. unfold run_check2 in H. apply andb_prop in H as [_ H].
  destruct (nth_error (active_rules INITIAL) bl_idx) as [r|]; [|discriminate]. apply action_eqb_eq in H. eauto.
Qed.

Lemma step_trichotomy e s p (id : nat) (x : str) (others : list (nat * str)) :
  l_bufs s = (id, x) :: others -> sealed x ->
  (forall b : str, lex_step e (app_tail b s) p = smap (app_tail b) (lex_step e s p))
  \/ (l_sc s = INITIAL /\ lex_step e s p = LCont (set_bufs s ((id, []) :: others)) p 0 /\
      forall b : str, lex_step e (app_tail b s) p = LCont (set_bufs s ((id, drop_while isbl b) :: others)) p 0)
  \/ (l_sc s <> INITIAL /\ exists q, lex_step e s p = LCont (set_q (set_bufs s ((id, []) :: others)) q) p 0).
Proof.
  intros Hb Hs.
  destruct (seal_cases (l_sc s) x Hs) as [H|[(Hsc & Hm & HB)|(Hsc & j & r & Hm & Hr & Hst)]].
  - left. intros b. destruct x as [|c x']; [exfalso; exact (sealed_nonempty _ Hs eq_refl)|].
    destruct (munch_covered (l_sc s) c x') as [[i n] Hm].
    apply (lex_step_tail e s p id (c :: x') others b i n Hb Hm). rewrite H. exact Hm.
  - right; left. split; [exact Hsc|]. destruct bl_rule as (r & Hr & Ha). rewrite Hsc in Hm. split.
    + assert (Hb' : l_bufs s = (id, x ++ []) :: others) by (rewrite app_nil_r; exact Hb).
      assert (Hm' : munch (active_res INITIAL) (x ++ []) 0 None = Some (bl_idx, length x)) by (rewrite app_nil_r; exact Hm).
      rewrite (lex_step_unit INITIAL e s p id x [] others bl_idx r Hsc Hb' Hm' Hr), Ha. reflexivity.
    + intros b. specialize (HB b). rewrite Hsc in HB.
      assert (Hb' : l_bufs (app_tail b s) = (id, (x ++ take_while isbl b) ++ drop_while isbl b) :: others).
      { unfold app_tail. rewrite Hb. cbn [set_bufs l_bufs]. rewrite <- app_assoc, take_drop. reflexivity. }
      assert (Hm' : munch (active_res INITIAL) ((x ++ take_while isbl b) ++ drop_while isbl b) 0 None
                    = Some (bl_idx, length (x ++ take_while isbl b))).
      { rewrite <- app_assoc, take_drop, app_length. exact HB. }
      rewrite (lex_step_unit INITIAL e (app_tail b s) p id _ _ others bl_idx r Hsc Hb' Hm' Hr), Ha. reflexivity.
  - right; right. split; [exact Hsc|].
    assert (Hb' : l_bufs s = (id, x ++ []) :: others) by (rewrite app_nil_r; exact Hb).
    assert (Hm' : munch (active_res (l_sc s)) (x ++ []) 0 None = Some (j, length x)) by (rewrite app_nil_r; exact Hm).
    rewrite (lex_step_unit (l_sc s) e s p id x [] others j r eq_refl Hb' Hm' Hr).
    destruct (r_act r); try discriminate; cbn [run_action]; eexists; reflexivity.
Qed.

(* at the end of the buffer *)
Lemma lex_step_eof_initial e s p (id : nat) (others : list (nat * str)) :
  l_bufs s = (id, []) :: others -> l_sc s = INITIAL -> l_inc s = [] -> l_rderr s = false ->
  lex_step e s p = LRet TEof None s p [] 0.
Proof.
  intros Hb Hsc Hi Hr. unfold lex_step. rewrite Hb, Hsc. cbn [munch].
  change (eof_action_of INITIAL) with (Some E_pop_or_eof). unfold run_eof. rewrite Hr, Hi. reflexivity.
Qed.

Lemma lex_step_eof_other e s p (id : nat) (others : list (nat * str)) :
  l_bufs s = (id, []) :: others -> l_sc s <> INITIAL -> exists d, lex_step e s p = LRet TErr None s p d 0.
Proof.
  intros Hb Hsc. unfold lex_step. rewrite Hb. cbn [munch].
  destruct (l_sc s); [contradiction| | |].
  - change (eof_action_of comment) with (Some E_unterminated). cbn [run_eof]. eauto.
  - change (eof_action_of dq_str) with (Some E_unterminated). cbn [run_eof]. eauto.
  - change (eof_action_of sq_str) with (Some E_sq_unterminated). cbn [run_eof]. eauto.
Qed.

(* a rule action never returns the end-of-input token *)
Lemma run_action_not_eof e a y s p : match run_action e a y s p with Return t _ _ _ _ => t <> TEof | Continue _ _ => True end.
Proof.
  destruct a; cbn [run_action]; unfold qend_trim, qbeg;
    repeat match goal with
    | |- context [match env_lookup e y with _ => _ end] => destruct (env_lookup e y)
    | |- context [if (?a <? ?b)%N then _ else _] => destruct (a <? b)%N
    | |- context [if q_null ?q then _ else _] => destruct (q_null q)
    end; try exact I; discriminate.
Qed.

Lemma lex_step_not_eof e s p (id : nat) c (x : str) (others : list (nat * str)) :
  l_bufs s = (id, c :: x) :: others ->
  match lex_step e s p with LRet t _ _ _ _ _ => t <> TEof | LCont _ _ _ => True end.
Proof.
  intros Hb. unfold lex_step. rewrite Hb.
  destruct (munch_covered (l_sc s) c x) as [[i n] Hm]. rewrite Hm.
  destruct (nth_error (active_rules (l_sc s)) i) as [r|]; [|discriminate].
  pose proof (run_action_not_eof e (r_act r) (firstn n (c :: x)) (set_bufs s ((id, skipn n (c :: x)) :: others)) p) as H.
  destruct (run_action e (r_act r) (firstn n (c :: x)) (set_bufs s ((id, skipn n (c :: x)) :: others)) p); exact H.
Qed.

Lemma lex_step_rderr e s p : l_rderr s = false -> l_rderr (step_state (lex_step e s p)) = false.
Proof.
  intros Hr. unfold lex_step. destruct (l_bufs s) as [|[id inp] others]; [exact Hr|].
  destruct (munch (active_res (l_sc s)) inp 0 None) as [[i n]|].
  - destruct (nth_error (active_rules (l_sc s)) i) as [r|]; [|exact Hr].
    pose proof (run_action_rderr e (r_act r) (firstn n inp) (set_bufs s ((id, skipn n inp) :: others)) p) as H.
    destruct (run_action e (r_act r) (firstn n inp) (set_bufs s ((id, skipn n inp) :: others)) p);
      cbn [step_state out_state] in *; rewrite H; exact Hr.
  - destruct inp as [|c rest]; [|exact Hr].
    unfold run_eof. destruct (eof_action_of (l_sc s)) as [[| | |k]|]; cbn [step_state]; try exact Hr.
    rewrite Hr. destruct (l_inc s) as [|f r]; [exact Hr|].
    destruct (match cur_buf_id s with Some id0 => Nat.eqb id0 (i_buf f) | None => false end); cbn [step_state]; exact Hr.
Qed.

(* the invariant of the scan of `a` alone: what is left of `a` is empty or sealed *)
Definition aside (id : nat) (others : list (nat * str)) (s : lexst) : Prop :=
  l_inc s = [] /\ l_rderr s = false /\ q_inv (l_q s) /\ exists x : str, l_bufs s = (id, x) :: others /\ (x = [] \/ sealed x).

Lemma lex_step_aside e id others s p : aside id others s -> aside id others (step_state (lex_step e s p)).
Proof.
  intros (Hi & Hr & Hq & x & Hb & Hx).
  destruct (lex_step_line e s p id x others Hb Hi) as (u & rest & E & B & I & _).
  split; [exact I|]. split; [apply lex_step_rderr, Hr|]. split; [apply lex_step_qinv, Hq|].
  exists rest. split; [exact B|]. destruct rest as [|c r]; [left; reflexivity|right].
  destruct Hx as [->|Hx]; [destruct u; discriminate|]. subst x. apply (sealed_suffix u); [exact Hx|discriminate].
Qed.

(* ================================================================== *)
(* 5. one call of cfg_yylex on `x ++ b` versus on `x` *)

Definition retail (b : str) (r : lexres) : lexres :=
  mkres (r_tok r) (r_val r) (app_tail b (r_st r)) (r_pos r) (r_diags r) (r_closed r).

Lemma lexL_tail e id others : forall n s p, (measure s <= n)%nat -> aside id others s ->
  r_tok (lexL e s p) <> TErr ->
  (r_tok (lexL e s p) <> TEof /\ aside id others (r_st (lexL e s p)) /\
   forall b : str, lexL e (app_tail b s) p = retail b (lexL e s p))
  \/ (r_tok (lexL e s p) = TEof /\ l_sc (r_st (lexL e s p)) = INITIAL /\
      l_bufs (r_st (lexL e s p)) = (id, []) :: others /\ aside id others (r_st (lexL e s p)) /\
      forall b : str, exists b1 : str, (b1 = b \/ b1 = drop_while isbl b) /\
        lexL e (app_tail b s) p = lexL e (app_tail b1 (r_st (lexL e s p))) (r_pos (lexL e s p))).
Proof.
  induction n as [|n IH]; intros s p Hm Ha Ht.
  { exfalso. unfold measure in Hm. destruct Ha as (_ & _ & _ & x & Hb & _). rewrite Hb in Hm. cbn [fold_left] in Hm.
    rewrite fold_measure_shift in Hm. lia. }
  pose proof Ha as (Hi & Hr & Hq & x & Hb & Hx).
  destruct Hx as [->|Hx].
  - (* end of `a` *)
    destruct (l_sc s) eqn:Hsc.
    2,3,4: exfalso; destruct (lex_step_eof_other e s p id others Hb) as [d Hd]; [rewrite Hsc; discriminate|];
           rewrite (lexL_ret e s p _ _ _ _ _ _ Hd) in Ht; apply Ht; reflexivity.
    pose proof (lex_step_eof_initial e s p id others Hb Hsc Hi Hr) as Hs.
    rewrite (lexL_ret e s p _ _ _ _ _ _ Hs). cbn [mkres r_tok r_st r_pos].
    right. split; [reflexivity|]. split; [exact Hsc|]. split; [exact Hb|]. split; [exact Ha|].
    intros b. exists b. split; [left; reflexivity|reflexivity].
  - destruct (step_trichotomy e s p id x others Hb Hx) as [Hc|[(Hsc & Hs & HB)|(Hsc & q & Hs)]].
    + (* the step commutes *)
      pose proof (lex_step_aside e id others s p Ha) as Ha2.
      destruct (lex_step_noinc e s p Hi) as [Hk _].
      destruct (lex_step e s p) as [s2 p2 k|t v s2 p2 d k] eqn:Hs; cbn [step_state step_k] in Ha2, Hk; subst k.
      * assert (Hm2 : (measure s2 <= n)%nat) by (apply lex_step_decreases in Hs; lia).
        rewrite (lexL_cont e s p s2 p2 Hs) in Ht |- *.
        destruct (IH s2 p2 Hm2 Ha2 Ht) as [(A1 & A2 & A3)|(A1 & A2 & A3 & A4 & A5)].
        -- left. split; [exact A1|]. split; [exact A2|]. intros b.
           rewrite (lexL_cont e (app_tail b s) p (app_tail b s2) p2); [apply A3|]. rewrite Hc. reflexivity.
        -- right. split; [exact A1|]. split; [exact A2|]. split; [exact A3|]. split; [exact A4|]. intros b.
           destruct (A5 b) as (b1 & Hb1 & E). exists b1. split; [exact Hb1|].
           rewrite (lexL_cont e (app_tail b s) p (app_tail b s2) p2); [exact E|]. rewrite Hc. reflexivity.
      * rewrite (lexL_ret e s p _ _ _ _ _ _ Hs) in Ht |- *. cbn [mkres r_tok r_st r_pos] in Ht |- *.
        left. split.
        { destruct x as [|c x']; [exfalso; exact (sealed_nonempty _ Hx eq_refl)|].
          pose proof (lex_step_not_eof e s p id c x' others Hb) as Hne. rewrite Hs in Hne. exact Hne. }
        split; [exact Ha2|]. intros b.
        rewrite (lexL_ret e (app_tail b s) p t v (app_tail b s2) p2 d 0); [reflexivity|]. rewrite Hc. reflexivity.
    + (* the last step of `a` is a run of blanks, which goes on into `b` *)
      set (s0 := set_bufs s ((id, []) :: others)) in *.
      assert (Hs0 : lex_step e s0 p = LRet TEof None s0 p [] 0).
      { apply (lex_step_eof_initial e s0 p id others); [reflexivity|exact Hsc|exact Hi|exact Hr]. }
      assert (HL : lexL e s p = mkres TEof None s0 p [] 0).
      { rewrite (lexL_cont e s p s0 p Hs). apply lexL_ret. exact Hs0. }
      rewrite HL. cbn [mkres r_tok r_st r_pos].
      right. split; [reflexivity|]. split; [exact Hsc|]. split; [reflexivity|]. split.
      { split; [exact Hi|]. split; [exact Hr|]. split; [exact Hq|]. exists []. split; [reflexivity|left; reflexivity]. }
      intros b. exists (drop_while isbl b). split; [right; reflexivity|].
      rewrite (lexL_cont e (app_tail b s) p _ p (HB b)). reflexivity.
    + (* stuck in an exclusive start condition at the end of `a`: the scan of `a` alone fails *)
      exfalso. set (s2 := set_q (set_bufs s ((id, []) :: others)) q) in *.
      destruct (lex_step_eof_other e s2 p id others eq_refl Hsc) as [d Hd].
      rewrite (lexL_cont e s p s2 p Hs), (lexL_ret e s2 p _ _ _ _ _ _ Hd) in Ht. apply Ht. reflexivity.
Qed.

(* ================================================================== *)
(* 6. related scanner states (PP_LexFrame.R: same text ahead, scratch buffers may differ) give the same tokens,
      positions and diagnostics when started at the same position *)

Definition opd (o : outcome) : pos * list diag * bool :=
  match o with Continue _ p => (p, [], false) | Return _ _ _ p d => (p, d, true) end.

Lemma run_action_pd e a y s1 s2 p : opd (run_action e a y s1 p) = opd (run_action e a y s2 p).
Proof.
  destruct a; cbn [run_action]; unfold qend_trim, qbeg;
    repeat match goal with
    | |- context [match env_lookup e y with _ => _ end] => destruct (env_lookup e y)
    | |- context [if (?a <? ?b)%N then _ else _] => destruct (a <? b)%N
    | |- context [if q_null ?q then _ else _] => destruct (q_null q)
    end; reflexivity.
Qed.

Definition spd (r : lstep) : pos * list diag * bool * nat :=
  match r with LCont _ p k => (p, [], false, k) | LRet _ _ _ p d k => (p, d, true, k) end.

Lemma lex_step_Rpd e s1 s2 p : R s1 s2 -> spd (lex_step e s1 p) = spd (lex_step e s2 p).
Proof.
  intros HR. pose proof HR as (Hsc & Hrd & Hi1 & Hi2 & Ht & HQ). unfold lex_step.
  destruct (l_bufs s1) as [|[id1 inp] o1] eqn:Hb1; destruct (l_bufs s2) as [|[id2 inp2] o2] eqn:Hb2;
    cbn [top] in Ht; try discriminate.
  - reflexivity.
  - injection Ht as <-. rewrite <- Hsc.
    destruct (munch (active_res (l_sc s1)) inp 0 None) as [[i n]|] eqn:Hm.
    + destruct (nth_error (active_rules (l_sc s1)) i) as [r|]; [|reflexivity].
      pose proof (run_action_pd e (r_act r) (firstn n inp) (set_bufs s1 ((id1, skipn n inp) :: o1))
                    (set_bufs s2 ((id2, skipn n inp) :: o2)) p) as H.
      destruct (run_action e (r_act r) (firstn n inp) (set_bufs s1 ((id1, skipn n inp) :: o1)) p);
      destruct (run_action e (r_act r) (firstn n inp) (set_bufs s2 ((id2, skipn n inp) :: o2)) p);
        cbn [opd] in H; inversion H; reflexivity.
    + destruct inp as [|c rest]; [|reflexivity].
      unfold run_eof. destruct (eof_action_of (l_sc s1)) as [[| | |k]|]; try reflexivity.
      rewrite <- Hrd, Hi1, Hi2. destruct (l_rderr s1); reflexivity.
Qed.

Lemma yylex_Rpd e : forall f1 f2 s1 s2 p c, R s1 s2 ->
  r_fuel_out (yylex e f1 s1 p c) = false -> r_fuel_out (yylex e f2 s2 p c) = false ->
  r_pos (yylex e f1 s1 p c) = r_pos (yylex e f2 s2 p c) /\
  r_diags (yylex e f1 s1 p c) = r_diags (yylex e f2 s2 p c) /\
  r_closed (yylex e f1 s1 p c) = r_closed (yylex e f2 s2 p c).
Proof.
  induction f1 as [|f1 IH]; intros f2 s1 s2 p c HR; [cbn [yylex r_fuel_out]; discriminate|].
  destruct f2 as [|f2]; [cbn [yylex r_fuel_out]; discriminate|]. cbn [yylex].
  pose proof (lex_step_R e s1 s2 p p HR) as H. pose proof (lex_step_Rpd e s1 s2 p HR) as Hp.
  destruct (lex_step e s1 p) as [a1 q1 k1|t1 v1 a1 q1 d1 k1]; destruct (lex_step e s2 p) as [a2 q2 k2|t2 v2 a2 q2 d2 k2];
    cbn [step_R] in H; try contradiction; cbn [spd] in Hp.
  - inversion Hp; subst. apply IH. exact H.
  - inversion Hp; subst. intros _ _. cbn [r_pos r_diags r_closed]. auto.
Qed.

Lemma lexL_R e s1 s2 p : R s1 s2 ->
  r_tok (lexL e s1 p) = r_tok (lexL e s2 p) /\ r_val (lexL e s1 p) = r_val (lexL e s2 p) /\
  R (r_st (lexL e s1 p)) (r_st (lexL e s2 p)) /\ r_pos (lexL e s1 p) = r_pos (lexL e s2 p) /\
  r_diags (lexL e s1 p) = r_diags (lexL e s2 p).
Proof.
  intros HR. unfold lexL.
  pose proof (yylex_lex_fuel_suffices e s1 p 0) as F1. pose proof (yylex_lex_fuel_suffices e s2 p 0) as F2.
  destruct (yylex_R e (lex_fuel s1) (lex_fuel s2) s1 s2 p p 0 0 HR F1 F2) as (A & B & C).
  destruct (yylex_Rpd e (lex_fuel s1) (lex_fuel s2) s1 s2 p 0 HR F1 F2) as (D & E & _).
  auto.
Qed.

Lemma lex_all_R e : forall F s1 s2 p acc dacc ts x s1' p' d',
  R s1 s2 -> lex_all e F s1 p acc dacc = (ts, x, s1', p', d') ->
  exists s2', lex_all e F s2 p acc dacc = (ts, x, s2', p', d') /\ R s1' s2'.
Proof.
  induction F as [|F IH]; intros s1 s2 p acc dacc ts x s1' p' d' HR H.
  - cbn [lex_all] in H |- *. injection H as <- <- <- <- <-. eauto.
  - rewrite lex_all_lexL in H |- *.
    destruct (lexL_R e s1 s2 p HR) as (A & B & C & D & E). rewrite <- A, <- B, <- D, <- E.
    destruct (r_tok (lexL e s1 p)); try (eapply IH; [exact C|exact H]);
      injection H as <- <- <- <- <-; eauto.
Qed.

(* the accumulators of lex_all are just prefixes of the result *)
Lemma lex_all_acc e : forall F s p acc dacc,
  lex_all e F s p acc dacc =
  (let '(ts, x, s', p', ds) := lex_all e F s p [] [] in (rev acc ++ ts, x, s', p', dacc ++ ds)).
Proof.
  induction F as [|F IH]; intros s p acc dacc.
  - cbn [lex_all rev]. rewrite !app_nil_r. reflexivity.
  - rewrite !lex_all_lexL. cbn [rev app].
    destruct (r_tok (lexL e s p));
      try (rewrite !app_nil_r; reflexivity);
      (rewrite IH; symmetry; rewrite IH; symmetry;
       destruct (lex_all e F (r_st (lexL e s p)) (r_pos (lexL e s p)) [] []) as [[[[ts x] s'] p'] ds];
       cbn [rev app]; rewrite <- !app_assoc; reflexivity).
Qed.

Lemma lexL_diags_nil e s p : r_tok (lexL e s p) <> TErr -> r_diags (lexL e s p) = [].
Proof.
  intros H. unfold lexL in *. destruct (yylex_indep e (lex_fuel s) s p p 0) as (_ & _ & _ & _ & E & _).
  destruct (E H) as [E1 _]. exact E1.
Qed.

(* ================================================================== *)
(* 7. all the tokens of `x ++ b` versus those of `x` *)

Lemma lex_all_tail e id others : forall fuel s p acc dacc ta sa pa da,
  aside id others s -> lex_all e fuel s p acc dacc = (ta, TEof, sa, pa, da) ->
  exists ts, ta = rev acc ++ ts /\ l_sc sa = INITIAL /\ l_bufs sa = (id, []) :: others /\ aside id others sa /\
    forall b : str, exists b1 : str, (b1 = b \/ b1 = drop_while isbl b) /\
      forall F, lex_all e (length ts + S F) (app_tail b s) p acc dacc
                = lex_all e (S F) (app_tail b1 sa) pa (rev ts ++ acc) da.
Proof.
  induction fuel as [|fuel IH]; intros s p acc dacc ta sa pa da Ha H.
  - cbn [lex_all] in H. discriminate.
  - rewrite lex_all_lexL in H.
    assert (Hstep : forall t, r_tok (lexL e s p) = t -> t <> TEof -> t <> TErr ->
      lex_all e fuel (r_st (lexL e s p)) (r_pos (lexL e s p))
        ({| lt_tok := t; lt_val := r_val (lexL e s p); lt_line := p_line (r_pos (lexL e s p)) |} :: acc)
        (dacc ++ r_diags (lexL e s p)) = (ta, TEof, sa, pa, da) ->
      exists ts, ta = rev acc ++ ts /\ l_sc sa = INITIAL /\ l_bufs sa = (id, []) :: others /\ aside id others sa /\
        forall b : str, exists b1 : str, (b1 = b \/ b1 = drop_while isbl b) /\
          forall F, lex_all e (length ts + S F) (app_tail b s) p acc dacc
                    = lex_all e (S F) (app_tail b1 sa) pa (rev ts ++ acc) da).
    { intros t Et N1 N2 H'.
      assert (Ht : r_tok (lexL e s p) <> TErr) by (rewrite Et; exact N2).
      destruct (lexL_tail e id others (measure s) s p (le_n _) Ha Ht) as [(A1 & A2 & A3)|(A1 & _)]; [|congruence].
      destruct (IH _ _ _ _ _ _ _ _ A2 H') as (ts' & Eta & S1 & S2 & S3 & S4).
      exists ({| lt_tok := t; lt_val := r_val (lexL e s p); lt_line := p_line (r_pos (lexL e s p)) |} :: ts').
      split; [rewrite Eta; cbn [rev]; rewrite <- app_assoc; reflexivity|].
      split; [exact S1|]. split; [exact S2|]. split; [exact S3|].
      intros b. destruct (S4 b) as (b1 & Hb1 & E). exists b1. split; [exact Hb1|]. intros F.
      cbn [length Nat.add]. rewrite lex_all_lexL, (A3 b). unfold retail. cbn [mkres r_tok r_val r_st r_pos r_diags].
      rewrite Et. cbn [rev]. rewrite <- app_assoc. cbn [app].
      destruct t; try (exact (E F)); contradiction. }
    destruct (r_tok (lexL e s p)) eqn:Et.
    + apply (Hstep TStr); auto; discriminate.
    + apply (Hstep TComment); auto; discriminate.
    + apply (Hstep (TPunct c)); auto; discriminate.
    + injection H as <- <- <- <-.
      assert (Ht : r_tok (lexL e s p) <> TErr) by (rewrite Et; discriminate).
      rewrite (lexL_diags_nil e s p Ht), app_nil_r.
      destruct (lexL_tail e id others (measure s) s p (le_n _) Ha Ht) as [(A1 & _)|(A1 & A2 & A3 & A4 & A5)]; [congruence|].
      exists []. split; [rewrite app_nil_r; reflexivity|]. split; [exact A2|]. split; [exact A3|]. split; [exact A4|].
      intros b. destruct (A5 b) as (b1 & Hb1 & E). exists b1. split; [exact Hb1|]. intros F.
      cbn [length Nat.add rev app]. apply lex_all_lexL_eq. exact E.
    + discriminate.
Qed.

Lemma aside_begin (a : str) : sealed a -> aside 0%nat [] (scan_begin lex_init a).
Proof.
  intros H. split; [reflexivity|]. split; [reflexivity|]. split; [apply q_inv_empty|].
  exists a. split; [reflexivity|right; exact H].
Qed.

Lemma blanks_silent e (b : str) F p :
  lex_all e (S F) (scan_begin lex_init (drop_while isbl b)) p [] [] = lex_all e (S F) (scan_begin lex_init b) p [] [].
Proof.
  symmetry. apply lex_all_lexL_eq.
  assert (Hws : Forall (fun c => isws c = true) (take_while isbl b)).
  { eapply Forall_impl; [|apply take_while_all]. intros c. apply isbl_isws. }
  rewrite (ws_silent_lexL e (take_while isbl b) (drop_while isbl b) (scan_begin lex_init b) p 0%nat [] Hws eq_refl).
  - rewrite (count_nl_bl _ (take_while_all isbl b)), add_lines_0. reflexivity.
  - cbn [scan_begin l_bufs lex_init]. rewrite take_drop. reflexivity.
Qed.

(* THE COMPOSITION THEOREM.  `a` sealed and scanned alone to the end of input without error; then for every `b`, scanned
   alone from the position where the scan of `a` stopped (same file, line advanced by the newlines of `a`), whatever its
   outcome x (end of input or error): the scan of `a ++ b` delivers the tokens of `a`, then those of `b`, same outcome,
   same final position, same diagnostics. *)
Theorem lexing_composes e (a b : str) p fa ta sa pa da F tb x sb pb db :
  sealed a ->
  lex_all e fa (scan_begin lex_init a) p [] [] = (ta, TEof, sa, pa, da) ->
  lex_all e (S F) (scan_begin lex_init b) pa [] [] = (tb, x, sb, pb, db) ->
  exists s', lex_all e (length ta + S F) (scan_begin lex_init (a ++ b)) p [] [] = (ta ++ tb, x, s', pb, da ++ db).
Proof.
  intros Hs Ha Hb.
  destruct (lex_all_tail e 0%nat [] fa _ p [] [] ta sa pa da (aside_begin a Hs) Ha)
    as (ts & Eta & S1 & S2 & (S3i & S3r & S3q & _) & S4).
  cbn [rev app] in Eta. subst ts.
  destruct (S4 b) as (b1 & Hb1 & E). specialize (E F). rewrite app_nil_r in E.
  change (app_tail b (scan_begin lex_init a)) with (scan_begin lex_init (a ++ b)) in E. rewrite E.
  assert (Hb' : lex_all e (S F) (scan_begin lex_init b1) pa [] [] = (tb, x, sb, pb, db)).
  { destruct Hb1 as [->| ->]; [exact Hb|]. rewrite blanks_silent. exact Hb. }
  assert (HR : R (scan_begin lex_init b1) (app_tail b1 sa)).
  { unfold R, app_tail. rewrite S2. cbn [scan_begin set_bufs l_sc l_rderr l_inc l_bufs l_q lex_init top app].
    rewrite S1, S3i, S3r.
    refine (conj eq_refl (conj eq_refl (conj eq_refl (conj eq_refl (conj eq_refl _))))).
    split; [apply q_inv_empty|]. split; [exact S3q|]. intros K; contradiction K; reflexivity. }
  destruct (lex_all_R e (S F) _ _ pa [] [] tb x sb pb db HR Hb') as (s2' & H2 & _).
  rewrite lex_all_acc, H2. rewrite rev_involutive. eauto.
Qed.

(* ================================================================== *)
(* 8. positions: where a scan stops, and scanning the same text from another line *)

Lemma lex_all_lines e : forall F s p acc dacc ts x s' p' d (id : nat) (inp : str) (others : list (nat * str)),
  l_bufs s = (id, inp) :: others -> l_inc s = [] ->
  lex_all e F s p acc dacc = (ts, x, s', p', d) ->
  exists u rest : str, inp = u ++ rest /\ l_bufs s' = (id, rest) :: others /\
    p_file p' = p_file p /\ p_line p' = (p_line p + count_nl u)%N.
Proof.
  induction F as [|F IH]; intros s p acc dacc ts x s' p' d id inp others Hb Hi H.
  - cbn [lex_all] in H. injection H as _ _ <- <- _. exists [], inp. cbn [app]. change (count_nl []) with 0%N.
    rewrite N.add_0_r. auto.
  - rewrite lex_all_lexL in H.
    destruct (yylex_line_invariant e (lex_fuel s) s p 0 id inp others Hb Hi) as (u & rest & E & B & I & Fp & Lp & _).
    fold (lexL e s p) in B, I, Fp, Lp.
    assert (Hrec : forall acc' dacc', lex_all e F (r_st (lexL e s p)) (r_pos (lexL e s p)) acc' dacc' = (ts, x, s', p', d) ->
              exists u0 rest0 : str, inp = u0 ++ rest0 /\ l_bufs s' = (id, rest0) :: others /\
                p_file p' = p_file p /\ p_line p' = (p_line p + count_nl u0)%N).
    { intros acc' dacc' H'. destruct (IH _ _ _ _ _ _ _ _ _ id rest others B I H') as (u2 & rest2 & E2 & B2 & F2 & L2).
      exists (u ++ u2), rest2. rewrite <- app_assoc, <- E2. split; [exact E|]. split; [exact B2|].
      split; [congruence|]. rewrite L2, Lp, count_nl_app. lia. }
    destruct (r_tok (lexL e s p)); try (eapply Hrec; exact H);
      injection H as _ _ <- <- _; exists u, rest; auto.
Qed.

(* the scan of a sealed text stops at the position advanced by its newlines *)
Lemma scan_end_pos e (a : str) p fa ta sa pa da : sealed a ->
  lex_all e fa (scan_begin lex_init a) p [] [] = (ta, TEof, sa, pa, da) -> pa = add_lines p (count_nl a).
Proof.
  intros Hs H.
  destruct (lex_all_tail e 0%nat [] fa _ p [] [] ta sa pa da (aside_begin a Hs) H) as (_ & _ & _ & S2 & _).
  destruct (lex_all_lines e fa (scan_begin lex_init a) p [] [] ta TEof sa pa da 0%nat a [] eq_refl eq_refl H) as (u & rest & E & B & Fp & Lp).
  rewrite S2 in B. injection B as <-. rewrite app_nil_r in E. subst u.
  apply pos_eq; [exact Fp|exact Lp].
Qed.

Definition shift_tok (dl : N) (t : ltok) : ltok := {| lt_tok := lt_tok t; lt_val := lt_val t; lt_line := (lt_line t + dl)%N |}.

Lemma lexL_shift e s p q dl (id : nat) (inp : str) (others : list (nat * str)) :
  l_bufs s = (id, inp) :: others -> l_inc s = [] -> q = add_lines p dl ->
  r_tok (lexL e s q) = r_tok (lexL e s p) /\ r_val (lexL e s q) = r_val (lexL e s p) /\
  r_st (lexL e s q) = r_st (lexL e s p) /\ r_pos (lexL e s q) = add_lines (r_pos (lexL e s p)) dl.
Proof.
  intros Hb Hi ->. unfold lexL.
  destruct (yylex_indep e (lex_fuel s) s p (add_lines p dl) 0) as (A & B & C & _).
  destruct (yylex_line_invariant e (lex_fuel s) s p 0 id inp others Hb Hi) as (u & rest & E & B1 & _ & F1 & L1 & _).
  destruct (yylex_line_invariant e (lex_fuel s) s (add_lines p dl) 0 id inp others Hb Hi) as (u2 & rest2 & E2 & B2 & _ & F2 & L2 & _).
  cbv zeta in *. rewrite <- C in B2. rewrite B1 in B2. injection B2 as <-.
  rewrite E in E2. apply app_inv_tail in E2. subst u2.
  repeat split; auto. apply pos_eq; [rewrite F2; cbn [add_lines p_file]; symmetry; exact F1|].
  rewrite L2. cbn [add_lines p_line]. rewrite L1. lia.
Qed.

Lemma lex_all_shift e dl : forall F s p acc dacc dacc' ts x s' p' d (id : nat) (inp : str) (others : list (nat * str)),
  l_bufs s = (id, inp) :: others -> l_inc s = [] ->
  lex_all e F s p acc dacc = (ts, x, s', p', d) ->
  exists d', lex_all e F s (add_lines p dl) (map (shift_tok dl) acc) dacc'
             = (map (shift_tok dl) ts, x, s', add_lines p' dl, d').
Proof.
  induction F as [|F IH]; intros s p acc dacc dacc' ts x s' p' d id inp others Hb Hi H.
  - cbn [lex_all] in H |- *. injection H as <- <- <- <- _. rewrite map_rev. eauto.
  - rewrite lex_all_lexL in H |- *.
    destruct (lexL_shift e s p (add_lines p dl) dl id inp others Hb Hi eq_refl) as (A & B & C & D).
    rewrite A, B, C, D.
    destruct (yylex_line_invariant e (lex_fuel s) s p 0 id inp others Hb Hi) as (u & rest & E & B1 & I1 & _).
    fold (lexL e s p) in B1, I1.
    destruct (r_tok (lexL e s p));
      try (exact (IH _ _ ({| lt_tok := _; lt_val := _; lt_line := _ |} :: acc) _ _ _ _ _ _ _ id rest others B1 I1 H));
      injection H as <- <- <- <- _; rewrite map_rev; eauto.
Qed.

Lemma gtoks_shift dl ts : gtoks (map (shift_tok dl) ts) = gtoks ts.
Proof. induction ts as [|t ts IH]; [reflexivity|]. cbn [map]. unfold gtoks in *. cbn [flat_map]. rewrite IH. reflexivity. Qed.

(* ================================================================== *)
(* 9. comments and white space between two texts *)

Inductive cform := CHash (body : str) | CSlash (body : str) | CBlock (body : str).
Definition ctext (c : cform) : str :=
  match c with
  | CHash body => hash :: body ++ [nl]
  | CSlash body => slash :: slash :: body ++ [nl]
  | CBlock body => slash :: star :: body ++ [star; slash]
  end.
Definition cwf (c : cform) : Prop :=
  match c with
  | CHash body | CSlash body => Forall (fun x => notnl x = true) body
  | CBlock body => nss body = true
  end.
(* the token is returned before the newline that ends a one-line comment is read *)
Definition cline (c : cform) : N := match c with CBlock body => count_nl body | _ => 0%N end.
Definition cval_ok (c : cform) (v : str) : Prop :=
  match c with
  | CHash body => v = trim_ws (cstr (drop_run hash (hash :: body)))
  | CSlash body => v = trim_ws (cstr (drop_run slash (slash :: slash :: body)))
  | CBlock _ => True
  end.

Lemma lex_all_first e F s p t v s' p' :
  lexL e s p = mkres t v s' p' [] 0 -> t <> TEof -> t <> TErr ->
  lex_all e (S F) s p [] [] =
  (let '(ts, x, s'', p'', ds) := lex_all e F s' p' [] [] in
   ({| lt_tok := t; lt_val := v; lt_line := p_line p' |} :: ts, x, s'', p'', ds)).
Proof.
  intros H N1 N2. rewrite lex_all_lexL, H. cbn [mkres r_tok r_val r_st r_pos r_diags app].
  destruct t; try contradiction; rewrite lex_all_acc;
    destruct (lex_all e F s' p' [] []) as [[[[ts x] s''] p''] ds]; reflexivity.
Qed.

Lemma token_then e (text rest : str) p v st' p' F tb x sb pb db :
  lexL e (scan_begin lex_init (text ++ rest)) p = mkres TComment (Some v) st' p' [] 0 ->
  l_sc st' = INITIAL -> l_bufs st' = [(0%nat, rest)] -> l_inc st' = [] -> l_rderr st' = false -> q_inv (l_q st') ->
  lex_all e F (scan_begin lex_init rest) p' [] [] = (tb, x, sb, pb, db) ->
  exists s', lex_all e (S F) (scan_begin lex_init (text ++ rest)) p [] []
             = ({| lt_tok := TComment; lt_val := Some v; lt_line := p_line p' |} :: tb, x, s', pb, db).
Proof.
  intros HL Hsc Hb Hi Hr Hq Hrest.
  rewrite (lex_all_first e F _ p TComment (Some v) st' p' HL) by discriminate.
  assert (HR : R (scan_begin lex_init rest) st').
  { unfold R. rewrite Hb, Hsc, Hi, Hr. cbn [scan_begin l_sc l_rderr l_inc l_bufs l_q lex_init top].
    refine (conj eq_refl (conj eq_refl (conj eq_refl (conj eq_refl (conj eq_refl _))))).
    split; [apply q_inv_empty|]. split; [exact Hq|]. intros K; contradiction K; reflexivity. }
  destruct (lex_all_R e F _ _ p' [] [] tb x sb pb db HR Hrest) as (s2' & H2 & _).
  rewrite H2. eauto.
Qed.

Lemma count_nl_notnl (body : str) : Forall (fun x => notnl x = true) body -> count_nl body = 0%N.
Proof.
  induction 1 as [|c u Hc _ IH]; [reflexivity|]. rewrite count_nl_cons, IH. unfold notnl in Hc.
  apply negb_true_iff in Hc. rewrite Hc. reflexivity.
Qed.

Lemma count_nl_ctext c : cwf c -> count_nl (ctext c) = (match c with CBlock body => count_nl body | _ => 1 end)%N.
Proof.
  destruct c as [body|body|body]; cbn [ctext cwf]; intros H.
  - rewrite count_nl_cons, count_nl_app, (count_nl_notnl body H). reflexivity.
  - rewrite !count_nl_cons, count_nl_app, (count_nl_notnl body H). reflexivity.
  - apply count_nl_block.
Qed.

Lemma nl_then e (b : str) F p :
  lex_all e (S F) (scan_begin lex_init (nl :: b)) p [] [] = lex_all e (S F) (scan_begin lex_init b) (add_lines p 1) [] [].
Proof.
  exact (ws_silent_lex_all e [nl] b (scan_begin lex_init (nl :: b)) p 0%nat [] (S F) [] []
           (Forall_cons nl eq_refl (Forall_nil _)) eq_refl eq_refl).
Qed.

Lemma lexL_qinv e s p : q_inv (l_q s) -> q_inv (l_q (r_st (lexL e s p))).
Proof. unfold lexL. apply yylex_qinv. Qed.

(* every comment form, in front of any text b: exactly one TComment token, then the tokens of b *)
Theorem comment_one_token e (c : cform) (b : str) p F tb x sb pb db : cwf c ->
  lex_all e (S F) (scan_begin lex_init b) (add_lines p (count_nl (ctext c))) [] [] = (tb, x, sb, pb, db) ->
  exists v s', cval_ok c v /\
    lex_all e (S (S F)) (scan_begin lex_init (ctext c ++ b)) p [] []
    = ({| lt_tok := TComment; lt_val := Some v; lt_line := (p_line p + cline c)%N |} :: tb, x, s', pb, db).
Proof.
  intros Hwf Hb. rewrite (count_nl_ctext c Hwf) in Hb.
  destruct c as [body|body|body]; cbn [ctext cwf cline cval_ok] in *.
  - assert (Ht : (hash :: body ++ [nl]) ++ b = (hash :: body) ++ nl :: b)
      by (cbn [app]; rewrite <- app_assoc; reflexivity).
    pose proof (hash_comment_token e body (nl :: b) (scan_begin lex_init ((hash :: body) ++ nl :: b)) p 0%nat []
                  Hwf eq_refl eq_refl eq_refl) as HL.
    rewrite <- nl_then in Hb.
    destruct (token_then e (hash :: body) (nl :: b) p _ _ p (S F) tb x sb pb db HL eq_refl eq_refl eq_refl eq_refl) as (s' & H');
      [apply qmat_inv, q_inv_qputs, q_inv_reset, q_inv_empty|exact Hb|].
    eexists. exists s'. split; [apply qstr_val_inv, q_inv_empty|]. rewrite Ht, N.add_0_r. exact H'.
  - assert (Ht : (slash :: slash :: body ++ [nl]) ++ b = (slash :: slash :: body) ++ nl :: b)
      by (cbn [app]; rewrite <- app_assoc; reflexivity).
    pose proof (ss_comment_token e body (nl :: b) (scan_begin lex_init ((slash :: slash :: body) ++ nl :: b)) p 0%nat []
                  Hwf eq_refl eq_refl eq_refl) as HL.
    rewrite <- nl_then in Hb.
    destruct (token_then e (slash :: slash :: body) (nl :: b) p _ _ p (S F) tb x sb pb db HL eq_refl eq_refl eq_refl eq_refl) as (s' & H');
      [apply qmat_inv, q_inv_qputs, q_inv_reset, q_inv_empty|exact Hb|].
    eexists. exists s'. split; [apply qstr_val_inv, q_inv_empty|]. rewrite Ht, N.add_0_r. exact H'.
  - destruct (block_comment_token e body b (scan_begin lex_init ((slash :: star :: body ++ [star; slash]) ++ b)) p 0%nat []
                Hwf eq_refl eq_refl eq_refl) as (v & q' & HL).
    assert (Hq : q_inv q').
    { pose proof (lexL_qinv e (scan_begin lex_init ((slash :: star :: body ++ [star; slash]) ++ b)) p q_inv_empty) as K.
      rewrite HL in K. exact K. }
    assert (Hb' : lex_all e (S F) (scan_begin lex_init b) (add_lines p (count_nl body)) [] [] = (tb, x, sb, pb, db)) by exact Hb.
    destruct (token_then e (slash :: star :: body ++ [star; slash]) b p _ _ _ (S F) tb x sb pb db HL eq_refl eq_refl eq_refl eq_refl Hq Hb')
      as (s' & H').
    exists v, s'. split; [exact I|]. exact H'.
Qed.

(* ================================================================== *)
(* 10. inserting a comment or white space after a sealed prefix *)

Definition cm_tok (v : str) (line : N) : ltok := {| lt_tok := TComment; lt_val := Some v; lt_line := line |}.

Theorem insert_comment_tokens e (a : str) (c : cform) (b : str) p fa ta sa pa da F tb x sb pb db :
  sealed a -> cwf c ->
  lex_all e fa (scan_begin lex_init a) p [] [] = (ta, TEof, sa, pa, da) ->
  lex_all e (S F) (scan_begin lex_init b) pa [] [] = (tb, x, sb, pb, db) ->
  exists v s' db', cval_ok c v /\
    lex_all e (length ta + S (S F)) (scan_begin lex_init (a ++ ctext c ++ b)) p [] [] =
    (ta ++ cm_tok v (p_line pa + cline c) :: map (shift_tok (count_nl (ctext c))) tb,
     x, s', add_lines pb (count_nl (ctext c)), da ++ db').
Proof.
  intros Hs Hwf Ha Hb.
  destruct (lex_all_shift e (count_nl (ctext c)) (S F) (scan_begin lex_init b) pa [] [] [] tb x sb pb db 0%nat b [] eq_refl eq_refl Hb) as (d' & Hb').
  cbn [map] in Hb'.
  destruct (comment_one_token e c b pa F _ x sb _ d' Hwf Hb') as (v & s1 & Hv & H1).
  destruct (lexing_composes e a (ctext c ++ b) p fa ta sa pa da (S F) _ x s1 _ d' Hs Ha H1) as (s' & H').
  exists v, s', d'. split; [exact Hv|exact H'].
Qed.

Theorem insert_ws_tokens e (a ws b : str) p fa ta sa pa da F tb x sb pb db :
  sealed a -> Forall (fun c => isws c = true) ws ->
  lex_all e fa (scan_begin lex_init a) p [] [] = (ta, TEof, sa, pa, da) ->
  lex_all e (S F) (scan_begin lex_init b) pa [] [] = (tb, x, sb, pb, db) ->
  exists s' db',
    lex_all e (length ta + S F) (scan_begin lex_init (a ++ ws ++ b)) p [] [] =
    (ta ++ map (shift_tok (count_nl ws)) tb, x, s', add_lines pb (count_nl ws), da ++ db').
Proof.
  intros Hs Hws Ha Hb.
  destruct (lex_all_shift e (count_nl ws) (S F) (scan_begin lex_init b) pa [] [] [] tb x sb pb db 0%nat b [] eq_refl eq_refl Hb) as (d' & Hb').
  cbn [map] in Hb'.
  assert (H1 : lex_all e (S F) (scan_begin lex_init (ws ++ b)) pa [] []
               = (map (shift_tok (count_nl ws)) tb, x, sb, add_lines pb (count_nl ws), d')).
  { rewrite (ws_silent_lex_all e ws b (scan_begin lex_init (ws ++ b)) pa 0%nat [] (S F) [] [] Hws eq_refl eq_refl). exact Hb'. }
  destruct (lexing_composes e a (ws ++ b) p fa ta sa pa da F _ x sb _ d' Hs Ha H1) as (s' & H').
  exists s', d'. exact H'.
Qed.

(* ================================================================== *)
(* 11. the two TEXTS are parsed alike *)
From LC Require Import Conv PP_Inv PP_SpecLemmas ParserProofs Properties_C15.

Lemma no_nul_app_inv (u v : str) : no_nul (u ++ v) -> no_nul u /\ no_nul v.
Proof. unfold no_nul. apply Forall_app. Qed.

Lemma gtoks_cm v line ts : gtoks (cm_tok v line :: ts) = gtoks ts.
Proof. reflexivity. Qed.

Section Transparent.
Variable strtod_o : str -> strtod_res.

Lemma parse_alike DC k w c (b1 b2 : str) ts1 ts2 lf1 lf2 p1 p2 s1 s2 q1 q2 d1 d2 fuel :
  wready w -> Inv strtod_o (w_env w) DC k c ->
  lex_all (w_env w) lf1 (scan_begin lex_init (cstr b1)) p1 [] [] = (ts1, TEof, s1, q1, d1) ->
  lex_all (w_env w) lf2 (scan_begin lex_init (cstr b2)) p2 [] [] = (ts2, TEof, s2, q2, d2) ->
  gtoks ts1 = gtoks ts2 ->
  length (cstr b1) + measure (w_lex w) + length ts1 + 2 * k + 4 + DC < fuel ->
  length (cstr b2) + measure (w_lex w) + length ts2 + 2 * k + 4 + DC < fuel ->
  let '(w1, c1, rc1) := parse_buf strtod_o fuel w c (Some b1) in
  let '(w2, c2, rc2) := parse_buf strtod_o fuel w c (Some b2) in
  rc1 = rc2 /\ (rc1 = CFG_SUCCESS -> obs_c c1 = obs_c c2).
Proof.
  intros Hw HI L1 L2 HG F1 F2.
  pose proof (c01_parse_buf strtod_o DC k w c b1 ts1 lf1 p1 s1 q1 d1 fuel Hw HI L1 F1) as H1.
  pose proof (c01_parse_buf strtod_o DC k w c b2 ts2 lf2 p2 s2 q2 d2 fuel Hw HI L2 F2) as H2.
  destruct (parse_buf strtod_o fuel w c (Some b1)) as [[w1 c1] rc1].
  destruct (parse_buf strtod_o fuel w c (Some b2)) as [[w2 c2] rc2].
  unfold text_meaning in H1, H2. rewrite HG in H1.
  destruct H1 as [_ H1]. destruct H2 as [_ H2].
  destruct (meaning strtod_o (S (length (gtoks ts2))) c true (gtoks ts2)) as [[c' rest]|].
  - destruct H1 as [R1 [O1 _]]. destruct H2 as [R2 [O2 _]]. split; [congruence|]. intros _. congruence.
  - split; [congruence|]. intros E. rewrite H1 in E. discriminate.
Qed.

Theorem text_transparent_comment DC k w c (a : str) (cm : cform) (b : str) p fa ta sa pa da F tb sb pb db fuel :
  wready w -> Inv strtod_o (w_env w) DC k c ->
  sealed a -> cwf cm -> no_nul (a ++ ctext cm ++ b) ->
  lex_all (w_env w) fa (scan_begin lex_init a) p [] [] = (ta, TEof, sa, pa, da) ->
  lex_all (w_env w) (S F) (scan_begin lex_init b) pa [] [] = (tb, TEof, sb, pb, db) ->
  length (a ++ ctext cm ++ b) + measure (w_lex w) + S (length ta + length tb) + 2 * k + 4 + DC < fuel ->
  let '(w1, c1, rc1) := parse_buf strtod_o fuel w c (Some (a ++ b)) in
  let '(w2, c2, rc2) := parse_buf strtod_o fuel w c (Some (a ++ ctext cm ++ b)) in
  rc1 = rc2 /\ (rc1 = CFG_SUCCESS -> obs_c c1 = obs_c c2).
Proof.
  intros Hw HI Hs Hwf Hnn Ha Hb Hf.
  destruct (lexing_composes (w_env w) a b p fa ta sa pa da F tb TEof sb pb db Hs Ha Hb) as (s1 & L1).
  destruct (insert_comment_tokens (w_env w) a cm b p fa ta sa pa da F tb TEof sb pb db Hs Hwf Ha Hb) as (v & s2 & db' & _ & L2).
  destruct (no_nul_app_inv _ _ Hnn) as [Na Nr]. destruct (no_nul_app_inv _ _ Nr) as [_ Nb].
  assert (N1 : cstr (a ++ b) = a ++ b) by (apply cstr_no_nul, Forall_app; split; assumption).
  assert (N2 : cstr (a ++ ctext cm ++ b) = a ++ ctext cm ++ b) by (apply cstr_no_nul, Hnn).
  rewrite <- N1 in L1. rewrite <- N2 in L2.
  apply (parse_alike DC k w c (a ++ b) (a ++ ctext cm ++ b) _ _ _ _ p p _ _ _ _ _ _ fuel Hw HI L1 L2).
  - rewrite !gtoks_app, gtoks_cm, gtoks_shift. reflexivity.
  - rewrite N1, !app_length in *. lia.
  - rewrite N2. rewrite (app_length ta). cbn [length]. rewrite map_length. lia.
Qed.

Theorem text_transparent_ws DC k w c (a ws b : str) p fa ta sa pa da F tb sb pb db fuel :
  wready w -> Inv strtod_o (w_env w) DC k c ->
  sealed a -> Forall (fun x => isws x = true) ws -> no_nul (a ++ b) ->
  lex_all (w_env w) fa (scan_begin lex_init a) p [] [] = (ta, TEof, sa, pa, da) ->
  lex_all (w_env w) (S F) (scan_begin lex_init b) pa [] [] = (tb, TEof, sb, pb, db) ->
  length (a ++ ws ++ b) + measure (w_lex w) + (length ta + length tb) + 2 * k + 4 + DC < fuel ->
  let '(w1, c1, rc1) := parse_buf strtod_o fuel w c (Some (a ++ b)) in
  let '(w2, c2, rc2) := parse_buf strtod_o fuel w c (Some (a ++ ws ++ b)) in
  rc1 = rc2 /\ (rc1 = CFG_SUCCESS -> obs_c c1 = obs_c c2).
Proof.
  intros Hw HI Hs Hws Hnn Ha Hb Hf.
  destruct (lexing_composes (w_env w) a b p fa ta sa pa da F tb TEof sb pb db Hs Ha Hb) as (s1 & L1).
  destruct (insert_ws_tokens (w_env w) a ws b p fa ta sa pa da F tb TEof sb pb db Hs Hws Ha Hb) as (s2 & db' & L2).
  destruct (no_nul_app_inv _ _ Hnn) as [Na Nb].
  assert (Nw : no_nul ws).
  { unfold no_nul. eapply Forall_impl; [|exact Hws]. intros x Hx ->. discriminate. }
  assert (N1 : cstr (a ++ b) = a ++ b) by (apply cstr_no_nul, Hnn).
  assert (N2 : cstr (a ++ ws ++ b) = a ++ ws ++ b) by (apply cstr_no_nul; repeat (apply Forall_app; split); assumption).
  rewrite <- N1 in L1. rewrite <- N2 in L2.
  apply (parse_alike DC k w c (a ++ b) (a ++ ws ++ b) _ _ _ _ p p _ _ _ _ _ _ fuel Hw HI L1 L2).
  - rewrite !gtoks_app, gtoks_shift. reflexivity.
  - rewrite N1, !app_length in *. lia.
  - rewrite N2. rewrite (app_length ta), map_length. lia.
Qed.
End Transparent.

(* ================================================================== *)
(* 12. white space and comments in front of a fresh text; a one-line comment at the very end of the input *)

Theorem ws_tokens e (ws rest : str) p F ts x s' p' d :
  Forall (fun c => isws c = true) ws ->
  lex_all e (S F) (scan_begin lex_init rest) p [] [] = (ts, x, s', p', d) ->
  exists d', lex_all e (S F) (scan_begin lex_init (ws ++ rest)) p [] []
             = (map (shift_tok (count_nl ws)) ts, x, s', add_lines p' (count_nl ws), d').
Proof.
  intros Hws H.
  destruct (lex_all_shift e (count_nl ws) (S F) (scan_begin lex_init rest) p [] [] [] ts x s' p' d 0%nat rest [] eq_refl eq_refl H)
    as (d' & H').
  exists d'. rewrite (ws_silent_lex_all e ws rest (scan_begin lex_init (ws ++ rest)) p 0%nat [] (S F) [] [] Hws eq_refl eq_refl).
  exact H'.
Qed.

Lemma empty_scan e p F : lex_all e (S F) (scan_begin lex_init []) p [] [] = ([], TEof, scan_begin lex_init [], p, []).
Proof.
  rewrite lex_all_lexL.
  rewrite (lexL_ret e _ p _ _ _ _ _ _ (lex_step_eof_initial e (scan_begin lex_init []) p 0%nat [] eq_refl eq_refl eq_refl eq_refl)).
  reflexivity.
Qed.

(* "# c" or "// c" with the end of input instead of the newline: the comment token, then end of input, no error *)
Theorem line_comment_at_eof e (body : str) p :
  Forall (fun x => notnl x = true) body ->
  (exists s', lex_all e 2 (scan_begin lex_init (hash :: body)) p [] []
              = ([cm_tok (trim_ws (cstr (drop_run hash (hash :: body)))) (p_line p)], TEof, s', p, []))
  /\ (exists s', lex_all e 2 (scan_begin lex_init (slash :: slash :: body)) p [] []
              = ([cm_tok (trim_ws (cstr (drop_run slash (slash :: slash :: body)))) (p_line p)], TEof, s', p, [])).
Proof.
  intros Hb. split.
  - pose proof (hash_comment_token e body [] (scan_begin lex_init ((hash :: body) ++ [])) p 0%nat [] Hb I eq_refl eq_refl) as HL.
    destruct (token_then e (hash :: body) [] p _ _ p 1 [] TEof (scan_begin lex_init []) p [] HL eq_refl eq_refl eq_refl eq_refl) as (s' & H');
      [apply qmat_inv, q_inv_qputs, q_inv_reset, q_inv_empty|apply empty_scan|].
    exists s'. rewrite app_nil_r in H'. rewrite H'. unfold cm_tok. rewrite qstr_val_inv by apply q_inv_empty. reflexivity.
  - pose proof (ss_comment_token e body [] (scan_begin lex_init ((slash :: slash :: body) ++ [])) p 0%nat [] Hb I eq_refl eq_refl) as HL.
    destruct (token_then e (slash :: slash :: body) [] p _ _ p 1 [] TEof (scan_begin lex_init []) p [] HL eq_refl eq_refl eq_refl eq_refl) as (s' & H');
      [apply qmat_inv, q_inv_qputs, q_inv_reset, q_inv_empty|apply empty_scan|].
    exists s'. rewrite app_nil_r in H'. rewrite H'. unfold cm_tok. rewrite qstr_val_inv by apply q_inv_empty. reflexivity.
Qed.

(* a text that ends in a newline is sealed as soon as it has no unclosed dollar-brace *)
Lemma sealed_newline (a' : str) : no_open_env (a' ++ [nl]) -> sealed (a' ++ [nl]).
Proof.
  intros Ho. split; [exists a', nl; split; reflexivity|]. split; [exact Ho|].
  intros u1 u2 E Hn. destruct (last_cases u2) as [->|(u2' & x & ->)]; [reflexivity|].
  exfalso. rewrite app_assoc in E. apply app_inj_tail in E as [_ <-]. apply Hn, in_or_app. right. left. reflexivity.
Qed.
