(* Properties_C13b.v — C13, second half: including a file equals reading its text in place, and the position
   (file name, line) of the including file is restored when the included file ends.
   Only statements here; proofs are in IncludeProofs.v (scanner, position, failing includes), IncludeSim.v
   (forgetting positions; runs outside the comparison) and IncludeInline.v (the parser simulation).

   MODEL  Lexer.lex_step / yylex with the buffer stack l_bufs and the include frames l_inc (rule <<EOF>> = E_pop_or_eof),
          Parser.lexer_include (cfg_lexer_include), Parser.next_token, Parser.parse_internal / setopt / init_defaults.

   Vocabulary (IncludeProofs.v):
     include_state s file line F   the scanner state cfg_lexer_include builds from s: frame (file, line, new buffer id)
                                   pushed on l_inc, buffer (new id, F) pushed on l_bufs, start condition INITIAL.
     resume_state s                s with an empty scratch buffer and one more buffer id used: what the pop leaves.
     tok_step e s t v s' k         one call of cfg_yylex from s, for every position passed in and every fuel above
                                   LexAll.measure s: token t, text v, next state s', k FILEs closed, no diagnostic.
     delivers e s ts n s'          the scanner in state s delivers the tokens ts (kinds and texts), closing n FILEs on
                                   the way, and is then in state s'.  Unlike PP_Tok.yields it tolerates include frames.
     pops_to e sF sB pos0          the call of cfg_yylex from sF (any position, enough fuel) closes the current include
                                   file and from then on IS the call from sB at position pos0: same token, text, next
                                   state, position and diagnostics, one more FILE closed.
     InlOK post c G                scanning G from start condition c, every match made on G alone is also the match
                                   made on G ++ post (same rule, same length), and G ends in INITIAL: "G ends at a
                                   token boundary with respect to what follows".  Decided by inl_chk (inl_chk_sound).
     LRs s1 s2                     s1 reads an included file through a pushed buffer where s2 reads the same text in
                                   place (plus, on both sides, any buffers pushed later); lex_step_LRs / yylex_LRs:
                                   such scanners stay in lockstep, the include side making one extra step at the pop.
   (IncludeSim.v)
     ec c                          c with every file name and line number forgotten, at every depth of the tree;
                                   ec c1 = ec c2 implies obs_c c1 = obs_c c2 (ec_obs). *)
From Coq Require String.
Import String.StringSyntax.
From Coq Require Import List Arith NArith ZArith Bool Lia.
From Coq.Strings Require Import Byte.
From LC Require Import Bytes Consts Conv Flex LexAct Lexer LexLemmas LexAll Files Store Parser Grammar
  ApiProofs BalanceProofs PP_Tok PP_LexYields PP_LexFrame IncludeProofs IncludeSim IncludeInline.
Import ListNotations.
Local Open Scope string_scope.
Local Open Scope list_scope.

(* ------------------------------------------------------------------------------------------------------------
   1. SCANNER LEVEL.  s is the scanner when cfg_lexer_include is called (current buffer (id, post), anything
      below, any include frames, consistent scratch buffer).  If F alone scans to the tokens tsF and post alone to
      tsP (both without lexical error), then from the state cfg_lexer_include builds the scanner delivers tsF
      without popping anything; the next call pops the frame, closes one FILE and continues exactly as a call from
      the includer's state at the saved position; altogether tsF ++ tsP is delivered with one FILE closed, and the
      include frames and buffers are then those of the includer. *)
Theorem C13_tokens_inline :
  forall (e : envt) (s : lexst) (id : nat) (post : str) (others : list (nat * str))
         (F : str) (cfile : option str) (cline : N),
  q_inv (l_q s) -> l_bufs s = (id, post) :: others ->
  forall tsF tsP : list ltok,
  yields e (scan_begin lex_init F) tsF ->
  yields e (scan_begin lex_init post) tsP ->
  exists sF : lexst,
    delivers e (include_state s cfile cline F) tsF 0 sF /\
    l_inc sF = {| i_file := cfile; i_line := cline; i_buf := l_next s |} :: l_inc s /\
    tl (l_bufs sF) = (id, post) :: others /\
    pops_to e sF (resume_state s) {| p_file := cfile; p_line := cline |} /\
    l_inc (resume_state s) = l_inc s /\ l_bufs (resume_state s) = (id, post) :: others /\
    match tsP with
    | [] => True
    | _ :: _ => exists sP : lexst,
        delivers e (include_state s cfile cline F) (tsF ++ tsP) 1 sP /\
        l_inc sP = l_inc s /\ tl (l_bufs sP) = others /\ cur_buf_id sP = Some id
    end.
Proof. exact tokens_inline. Qed.
Print Assumptions C13_tokens_inline.

(* cfg_lexer_include, when it succeeds, builds exactly that state (and counts one more open FILE, and moves the
   context to line 1 of the file) *)
Theorem C13_lexer_include_state :
  forall w c a x content,
  length (l_inc (w_lex w)) < MAX_INCLUDE_DEPTH -> include_name w a = Some x -> open_input (w_fs w) x = Some content ->
  lexer_include w c a =
  (set_open (upd_lex w (include_state (w_lex w) (c_file c) (c_line c) content)) (S (w_open w)),
   set_line (set_file c (Some x)) 1, false).
Proof. exact lexer_include_ok. Qed.
Print Assumptions C13_lexer_include_state.

(* ------------------------------------------------------------------------------------------------------------
   2. POSITION.  What the model does: cfg_lexer_include saves the context's file name and line — the line on which
      the closing parenthesis of the include call was read — in the frame and sets the context to (file, 1); the
      <<EOF>> rule of the included buffer restores the saved pair; newlines of the includer's text read afterwards
      are counted from there.  So the call of next_token that reaches the end of F returns the includer's next token
      in a context whose file is the includer's and whose line is the saved line plus the newlines of `post` consumed
      (u is the part of `post` this call consumed). *)
Theorem C13_position_restored_scanner :
  forall (e : envt) (s : lexst) (id : nat) (post : str) (others : list (nat * str))
         (F : str) (cfile : option str) (cline : N),
  q_inv (l_q s) -> l_bufs s = (id, post) :: others ->
  forall (tsF : list ltok) (t : ltok) (tsP : list ltok),
  yields e (scan_begin lex_init F) tsF ->
  yields e (scan_begin lex_init post) (t :: tsP) ->
  exists sF : lexst,
    delivers e (include_state s cfile cline F) tsF 0 sF /\
    forall (p : pos) (fuel : nat), measure sF < fuel ->
      let r := yylex e fuel sF p 0 in
      r_tok r = lt_tok t /\ r_val r = lt_val t /\ r_closed r = 1 /\ r_diags r = [] /\ r_fuel_out r = false /\
      l_inc (r_st r) = l_inc s /\
      p_file (r_pos r) = cfile /\
      exists u rest, post = u ++ rest /\ l_bufs (r_st r) = (id, rest) :: others /\
                     p_line (r_pos r) = (cline + count_nl u)%N.
Proof. exact position_restored_scanner. Qed.
Print Assumptions C13_position_restored_scanner.

Theorem C13_position_restored :
  forall (w : pw) (c : cfg) (a x F : str) (id : nat) (post : str) (others : list (nat * str))
         (tsF : list ltok) (t : ltok) (tsP : list ltok),
  q_inv (l_q (w_lex w)) ->
  l_bufs (w_lex w) = (id, post) :: others ->
  length (l_inc (w_lex w)) < MAX_INCLUDE_DEPTH -> include_name w a = Some x -> open_input (w_fs w) x = Some F ->
  yields (w_env w) (scan_begin lex_init F) tsF ->
  yields (w_env w) (scan_begin lex_init post) (t :: tsP) ->
  exists w1 c1 sF,
    lexer_include w c a = (w1, c1, false) /\
    c_file c1 = Some x /\ c_line c1 = 1%N /\ w_open w1 = S (w_open w) /\
    delivers (w_env w) (w_lex w1) tsF 0 sF /\
    forall wF cF fuel, w_lex wF = sF -> w_env wF = w_env w -> measure sF < fuel ->
      exists w' c', next_token fuel wF cF = (w', c', lt_tok t, lt_val t) /\
        c_file c' = c_file c /\
        (exists u rest, post = u ++ rest /\ l_bufs (w_lex w') = (id, rest) :: others /\
                        c_line c' = (c_line c + count_nl u)%N) /\
        l_inc (w_lex w') = l_inc (w_lex w) /\ w_open w' = w_open wF - 1 /\ w_oof w' = w_oof wF /\
        w_diags w' = w_diags wF.
Proof. exact position_restored. Qed.
Print Assumptions C13_position_restored.

(* ------------------------------------------------------------------------------------------------------------
   3. PARSER LEVEL (PARTIAL).  Run A: cfg_parse_internal in state 0 on a scanner whose next tokens are
      iname ( "fname" )  followed by `post`, iname being the include function of the schema and fname resolving to
      a readable file with content F.  Run B: the same on the scanner that has F ++ post in place of the call
      (inline_world), four units of fuel less (the four tokens of the call).
      If run A stays within fuel, meets no would-be crash and pushes no flex buffer other than that of this include,
      then run B returns the same code (accepted or rejected alike), the same configuration up to positions (ec,
      hence obs_c), the same callback log and counters, the same diagnostics up to positions, and is itself clean.
      PARTIAL because of the proviso "no other buffer pushed" on run A (l_next grows by exactly one): F and post
      contain no further (successful) include, and no section with a parsed default text is opened.  Reasons: a
      default text that itself includes a file which ends the nested parse early leaves an orphan include frame
      (Properties_C13.C13_ex_init_default_include_leaks), under which the proof's scanner relation cannot be kept;
      nested includes would need the relation extended by a renaming of buffer ids (the scanner part, LRs with its
      constructors SR_buf / SR_inc and lex_step_LRs / yylex_LRs, is already general).
      The depth hypothesis is one stricter than what the include itself needs: with the include at depth MAX-1 a
      further include inside F is refused where the inlined text's include is not (C13b_ex_depth_limit).
      Positions are necessarily excepted: file names and lines of diagnostics and of the contexts differ. *)
Theorem C13_include_is_inline_partial :
  forall (strtod_o : str -> strtod_res) (w : pw) (c : cfg) (fuel id : nat) (post : str) (others : list (nat * str))
         (iname fname x F : str) (r : optref) (o : opt) (L1 : lexst) (tn tl ta tr : ltok),
  (* the scanner is at a token boundary *)
  l_sc (w_lex w) = INITIAL -> l_rderr (w_lex w) = false -> q_inv (l_q (w_lex w)) -> lex_wf (w_lex w) ->
  (* its next four tokens are  iname ( "fname" ) ; then `post` is what is left of the current buffer *)
  delivers (w_env w) (w_lex w) [tn; tl; ta; tr] 0 L1 ->
  lt_tok tn = TStr /\ lt_val tn = Some iname -> lt_tok tl = TPunct 40 ->
  lt_tok ta = TStr /\ lt_val ta = Some fname -> lt_tok tr = TPunct 41 ->
  l_bufs L1 = (id, post) :: others -> l_inc L1 = l_inc (w_lex w) ->
  measure (w_lex w) < fuel ->
  (* iname is the include function, not deprecated *)
  cfg_getopt c iname = (Some r, []) -> get_opt c r = Some o -> o_kind o = KFunc ->
  cb_func (o_cbs o) = Some FInclude -> oflag o CFGF_DEPRECATED = false ->
  (* the file can be included, one level to spare *)
  S (length (l_inc (w_lex w))) < MAX_INCLUDE_DEPTH -> include_name w fname = Some x -> open_input (w_fs w) x = Some F ->
  (* F ends at a token boundary with respect to post *)
  InlOK post INITIAL F ->
  forall wA cA rcA wB cB rcB,
  parse_internal strtod_o (4 + fuel) w c 0 (pst0 0 None) = (wA, cA, rcA) ->
  parse_internal strtod_o fuel (inline_world w id post others F) c 0 (pst0 0 None) = (wB, cB, rcB) ->
  w_oof wA = false -> w_crash wA = None -> l_next (w_lex wA) = S (l_next (w_lex w)) ->
  rcA = rcB /\ ec cA = ec cB /\ obs_c cA = obs_c cB /\
  w_cbs wA = w_cbs wB /\ w_cnt wA = w_cnt wB /\ w_nextptr wA = w_nextptr wB /\
  map d_fmt (w_diags wA) = map d_fmt (w_diags wB) /\ w_oof wB = false /\ w_crash wB = None.
Proof. exact include_is_inline_partial. Qed.
Print Assumptions C13_include_is_inline_partial.

(* the engine of 3: scanners related by LRs answer every call of cfg_yylex alike (token, text, diagnostics up to
   positions), the inline side needing no more iterations than the include side; and the whole of
   parse_internal / setopt / init_defaults respects the relation (RESpi etc.: either run A is out of scope — out of
   fuel, would-be crash, a buffer pushed beyond the N-th — or the results are related; after a rejection the scanners
   are no longer compared) *)
Theorem C13_scanners_in_lockstep :
  forall e f1 f2 s1 s2 p1 p2 c1 c2, LRs s1 s2 -> f1 <= f2 ->
  r_fuel_out (yylex e f1 s1 p1 c1) = false ->
  r_fuel_out (yylex e f2 s2 p2 c2) = false /\
  r_tok (yylex e f1 s1 p1 c1) = r_tok (yylex e f2 s2 p2 c2) /\
  r_val (yylex e f1 s1 p1 c1) = r_val (yylex e f2 s2 p2 c2) /\
  map d_fmt (r_diags (yylex e f1 s1 p1 c1)) = map d_fmt (r_diags (yylex e f2 s2 p2 c2)) /\
  LRs (r_st (yylex e f1 s1 p1 c1)) (r_st (yylex e f2 s2 p2 c2)).
Proof. exact yylex_LRs. Qed.
Print Assumptions C13_scanners_in_lockstep.

Theorem C13_parser_respects_relation :
  forall strtod_o N f,
  (forall w1 w2 c1 c2 level p, WR N w1 w2 -> ec c1 = ec c2 ->
     RESpi N (parse_internal strtod_o f w1 c1 level p) (parse_internal strtod_o f w2 c2 level p)) /\
  (forall w1 w2 c1 c2 o1 o2 txt, WR N w1 w2 -> ec c1 = ec c2 -> eo o1 = eo o2 ->
     RESso N (setopt strtod_o f w1 c1 o1 txt) (setopt strtod_o f w2 c2 o2 txt)) /\
  (forall w1 w2 c1 c2, WR N w1 w2 -> ec c1 = ec c2 ->
     RESid N (init_defaults strtod_o f w1 c1) (init_defaults strtod_o f w2 c2)).
Proof. exact sim_all. Qed.
Print Assumptions C13_parser_respects_relation.

(* ------------------------------------------------------------------------------------------------------------
   4. FAILING INCLUDES.  The three ways cfg_lexer_include fails, each with its diagnostic, the scanner untouched;
      and the parser turns the failure into a parse error at the closing parenthesis. *)
Theorem C13_include_fails_too_deep :
  forall w c a, MAX_INCLUDE_DEPTH <= length (l_inc (w_lex w)) ->
  lexer_include w c a = (add_diags w (cfg_diag c "includes nested too deeply"), c, true).
Proof. exact include_fails_depth. Qed.
Print Assumptions C13_include_fails_too_deep.

Theorem C13_include_fails_not_in_searchpath :
  forall w c a, length (l_inc (w_lex w)) < MAX_INCLUDE_DEPTH -> include_name w a = None ->
  lexer_include w c a = (add_diags w (cfg_diag c "%s: Not found in search path"), c, true).
Proof. exact include_fails_notfound. Qed.
Print Assumptions C13_include_fails_not_in_searchpath.

Theorem C13_include_fails_missing_or_directory :
  forall w c a x, length (l_inc (w_lex w)) < MAX_INCLUDE_DEPTH -> include_name w a = Some x ->
  (fs_lookup (w_fs w) x = FMissing \/ fs_lookup (w_fs w) x = FDir) ->
  lexer_include w c a = (add_diags w (cfg_diag c "%s: %s"), c, true).
Proof. exact include_fails_open. Qed.
Print Assumptions C13_include_fails_missing_or_directory.

(* whichever way: the context and the scanner (hence l_inc, l_bufs) and the FILE count are untouched, and exactly one
   diagnostic is reported at the context's position when the context reports errors *)
Theorem C13_include_failure_shape :
  forall w c a w1 c1, lexer_include w c a = (w1, c1, true) ->
  c1 = c /\ w_lex w1 = w_lex w /\ w_open w1 = w_open w /\
  exists fmt, w1 = add_diags w (cfg_diag c fmt) /\
    (c_err c = true -> w_diags w1 = {| d_file := c_file c; d_line := c_line c; d_fmt := M fmt |} :: w_diags w) /\
    (fmt = "includes nested too deeply" \/ fmt = "%s: Not found in search path" \/ fmt = "%s: %s").
Proof. exact include_fails_shape. Qed.
Print Assumptions C13_include_failure_shape.

Theorem C13_failing_include_reported :
  forall strtod_o fuel w c level p w' c' v r o a w'' c'',
  next_token fuel w c = (w', c', TPunct 41, v) ->
  (s_state p = 8 \/ s_state p = 9) -> s_opt p = Some r -> get_opt c' r = Some o ->
  cb_func (o_cbs o) = Some FInclude -> s_args p = [a] ->
  lexer_include w' c' a = (w'', c'', true) ->
  parse_internal strtod_o (S fuel) w c level p = (w'', c', PERR) /\
  w_lex w'' = w_lex w' /\ w_open w'' = w_open w' /\
  exists fmt, w'' = add_diags w' (cfg_diag c' fmt).
Proof. exact failing_include_perr. Qed.
Print Assumptions C13_failing_include_reported.

(* ------------------------------------------------------------------------------------------------------------
   Examples *)
Module Ex.
Definition B := bs_of_string.
Definition sd := ex_sd.
Definition mki n := Opt (B n) KInt 0 [] [] defv0 None cbset0.
Definition cbinc : cbset :=
  {| cb_parse := None; cb_valid := None; cb_valid2 := None; cb_print := None; cb_free := false; cb_func := Some FInclude |}.
Definition oinc := Opt (B "include") KFunc 0 [] [] defv0 None cbinc.
Definition osec := Opt (B "s") KSec 0 [] [mki "a"] defv0 None cbset0.
Definition decls := [mki "x"; mki "y"; mki "i"; mki "j"; mki "k"; osec; oinc].

Definition nl : String.string := String.String (Ascii.ascii_of_nat 10) String.EmptyString.
Definition lines (l : list String.string) : str := B (String.concat nl l).

Definition a_conf := lines ["i = 1"; "include(""b.conf"")"; "j = 2"; ""].
Definition b_conf := lines ["k = 3"; "s { a = 4 }"; ""].
Definition fs0 : fsys :=
  {| fs_root := B "/R";
     fs_ents := [(B "a.conf", FFile a_conf); (B "b.conf", FFile b_conf); (B "d", FDir);
                 (B "loop.conf", FFile (B "include(""loop.conf"")"))] |}.
Definition w0 : pw :=
  {| w_lex := lex_init; w_env := []; w_fs := fs0;
     w_pw := {| pw_tab := []; pw_self := None |}; w_path := []; w_cbs := []; w_cnt := 0; w_failat := 0;
     w_nextptr := 1; w_diags := []; w_open := 0; w_crash := None; w_oof := false |}.
Definition init := cfg_init sd 50 w0 decls 0.
Definition wI := fst init.
Definition root := snd init.
Definition run (t : str) := parse_buf sd 400 wI root (Some t).

(* (a) a two-level include chain equals its flat text: same return code, same observation, scanner left clean *)
Definition main2 := lines ["x = 0"; "include(""a.conf"")"; "y = 9"; ""].
Definition flat2 := lines ["x = 0"; "i = 1"; "k = 3"; "s { a = 4 }"; ""; "j = 2"; ""; "y = 9"; ""].
Example C13b_ex_two_levels :
  let '(wA, cA, rcA) := run main2 in
  let '(wB, cB, rcB) := run flat2 in
  rcA = CFG_SUCCESS /\ rcB = CFG_SUCCESS /\ obs_c cA = obs_c cB /\ ec cA = ec cB /\
  w_oof wA = false /\ w_crash wA = None /\ l_inc (w_lex wA) = [] /\ l_bufs (w_lex wA) = [] /\ w_open wA = 0 /\
  map (fun o => (o_name o, o_vals o)) (firstn 5 (c_opts cA)) =
    [(B "x", [VInt 0]); (B "y", [VInt 9]); (B "i", [VInt 1]); (B "j", [VInt 2]); (B "k", [VInt 3])].
Proof. vm_compute. repeat split; reflexivity. Qed.

(* (b) positions: an unknown option after the include is reported in the includer, on the includer's line; one inside
   the included file is reported in that file, lines counted from 1 *)
Example C13b_ex_position_after_include :
  let '(w, _, rc) := run (lines ["x = 0"; "include(""b.conf"")"; ""; "zzz = 1"]) in
  rc = CFG_PARSE_ERROR /\
  map (fun d => (d_file d, d_line d, d_fmt d)) (w_diags w) = [(Some (B "[buf]"), 4%N, B "no such option '%s'")].
Proof. vm_compute. split; reflexivity. Qed.

Definition fs1 : fsys := fs_set fs0 (B "e.conf") (FFile (lines ["k = 1"; ""; "zzz = 1"])).
Example C13b_ex_position_inside_include :
  let '(w, _, rc) := parse_buf sd 400 (fst (cfg_init sd 50 {| w_lex := lex_init; w_env := []; w_fs := fs1;
      w_pw := {| pw_tab := []; pw_self := None |}; w_path := []; w_cbs := []; w_cnt := 0; w_failat := 0;
      w_nextptr := 1; w_diags := []; w_open := 0; w_crash := None; w_oof := false |} decls 0)) root
      (Some (lines ["x = 0"; ""; "include(""e.conf"")"])) in
  rc = CFG_PARSE_ERROR /\
  map (fun d => (d_file d, d_line d, d_fmt d)) (w_diags w) = [(Some (B "e.conf"), 3%N, B "no such option '%s'")] /\
  l_inc (w_lex w) = [] /\ w_open w = 0.
Proof. vm_compute. repeat split; reflexivity. Qed.

(* (c) failing includes: missing file, directory, too deep — a reported parse error, no include level left open *)
Example C13b_ex_failing_includes :
  (let '(w, _, rc) := run (B "include(""nope.conf"")") in
   rc = CFG_PARSE_ERROR /\ map d_fmt (w_diags w) = [B "%s: %s"] /\ l_inc (w_lex w) = [] /\ l_bufs (w_lex w) = [] /\ w_open w = 0) /\
  (let '(w, _, rc) := run (B "include(""d"")") in
   rc = CFG_PARSE_ERROR /\ map d_fmt (w_diags w) = [B "%s: %s"] /\ l_inc (w_lex w) = [] /\ l_bufs (w_lex w) = [] /\ w_open w = 0) /\
  (let '(w, _, rc) := run (B "include(""loop.conf"")") in
   rc = CFG_PARSE_ERROR /\ map d_fmt (w_diags w) = [B "includes nested too deeply"] /\ l_inc (w_lex w) = [] /\
   l_bufs (w_lex w) = [] /\ w_open w = 0).
Proof. vm_compute. repeat split; reflexivity. Qed.

(* (d) the hypotheses of C13_tokens_inline are satisfiable, and the scanner does what it says *)
Definition pos1 : pos := {| p_file := None; p_line := 1 |}.
Definition toks_of (t : str) : list ltok :=
  let '(ts, _, _, _, _) := lex_all [] (S (length t)) (scan_begin lex_init t) pos1 [] [] in ts.
Definition tv (t : ltok) := (lt_tok t, lt_val t).
Definition postP := lines [""; "y = 9"; ""].

Example C13b_ex_scanner_hypotheses :
  yields [] (scan_begin lex_init b_conf) (toks_of b_conf) /\ yields [] (scan_begin lex_init postP) (toks_of postP) /\
  length (toks_of b_conf) = 9 /\ length (toks_of postP) = 3.
Proof.
  assert (A : exists s' p' d, lex_all [] (S (length b_conf)) (scan_begin lex_init b_conf) pos1 [] [] = (toks_of b_conf, TEof, s', p', d))
    by (vm_compute; do 3 eexists; reflexivity).
  assert (A' : exists s' p' d, lex_all [] (S (length postP)) (scan_begin lex_init postP) pos1 [] [] = (toks_of postP, TEof, s', p', d))
    by (vm_compute; do 3 eexists; reflexivity).
  destruct A as (s1 & p1 & d1 & A), A' as (s2 & p2 & d2 & A').
  split; [eapply lex_all_yields; [reflexivity|exact A]|].
  split; [eapply lex_all_yields; [reflexivity|exact A']|].
  split; vm_compute; reflexivity.
Qed.

Example C13b_ex_scanner_conclusion :
  let s := scan_begin lex_init postP in
  let '(ts, last, s', p', d) := lex_all [] 100 (include_state s (Some (B "main")) 7 b_conf) pos1 [] [] in
  map tv ts = map tv (toks_of b_conf ++ toks_of postP) /\ last = TEof /\ l_inc s' = [] /\ d = [] /\
  p' = {| p_file := Some (B "main"); p_line := 9 |}.
Proof. vm_compute. repeat split; reflexivity. Qed.

(* (e) the hypotheses of C13_include_is_inline_partial hold on a concrete instance, and the theorem then gives the
   equality of the two observations (this Example is proved BY the theorem, the runs being computed only to check
   its provisos) *)
Definition textA := lines ["include(""b.conf"")"; "y = 9"; ""].
Definition wA0 : pw := upd_lex wI (scan_begin (w_lex wI) textA).
Definition cA0 : cfg := set_line (set_file root (Some (B "[buf]"))) 1.

Definition oincI : opt := nth 6 (c_opts root) oinc.

Example C13b_ex_inline_by_theorem :
  obs_c (snd (fst (parse_internal sd (4 + 100) wA0 cA0 0 (pst0 0 None)))) =
  obs_c (snd (fst (parse_internal sd 100 (inline_world wA0 0 postP [] b_conf) cA0 0 (pst0 0 None)))) /\
  snd (parse_internal sd (4 + 100) wA0 cA0 0 (pst0 0 None)) =
  snd (parse_internal sd 100 (inline_world wA0 0 postP [] b_conf) cA0 0 (pst0 0 None)).
Proof.
  destruct (lex_n [] 4 (w_lex wA0) pos1) as [[[ts L1] p1]|] eqn:E; [|vm_compute in E; discriminate].
  destruct (lex_n_delivers [] 4 (w_lex wA0) pos1 ts L1 p1 eq_refl E) as [D _].
  assert (Ets : map tv ts = [(TStr, Some (B "include")); (TPunct 40, Some (B "(")); (TStr, Some (B "b.conf")); (TPunct 41, Some (B ")"))]
                /\ l_bufs L1 = [(0, postP)] /\ l_inc L1 = [])
    by (vm_compute in E; injection E as <- <- _; vm_compute; repeat split; reflexivity).
  destruct Ets as (Ets & Eb & Ei).
  destruct ts as [|tn [|tl [|ta [|tr [|]]]]]; try discriminate Ets.
  cbn [map tv] in Ets. inversion Ets as [[E1a E1b E2a E2b E3a E3b E4a E4b]].
  destruct (parse_internal sd (4 + 100) wA0 cA0 0 (pst0 0 None)) as [[wA cA] rcA] eqn:EA.
  destruct (parse_internal sd 100 (inline_world wA0 0 postP [] b_conf) cA0 0 (pst0 0 None)) as [[wB cB] rcB] eqn:EB.
  assert (Prov : w_oof wA = false /\ w_crash wA = None /\ l_next (w_lex wA) = S (l_next (w_lex wA0))).
  { vm_compute in EA. injection EA as <- <- <-. vm_compute. repeat split; reflexivity. }
  destruct Prov as (P2 & P3 & P4).
  assert (E3a' : lt_tok ta = TStr) by congruence.
  destruct (C13_include_is_inline_partial sd wA0 cA0 100 0 postP [] (B "include") (B "b.conf") (B "b.conf") b_conf
              ([], 6) oincI L1 tn tl ta tr) with (wA := wA) (cA := cA) (rcA := rcA) (wB := wB) (cB := cB) (rcB := rcB)
    as (R1 & _ & R3 & _); try assumption; try (split; assumption);
    try (vm_compute; reflexivity); try (vm_compute; lia); try (apply q_inv_empty);
    try (apply (inl_chk_sound postP 100); vm_compute; reflexivity);
    try (unfold lex_wf; vm_compute; constructor).
  (* the main goal is closed by `split; assumption` from the theorem's conclusions R3 (obs_c) and R1 (rcA = rcB) *)
Qed.

(* (f) a rejected text: include and inline reject alike, with the same diagnostics up to positions *)
Example C13b_ex_rejected_alike :
  let '(wA, cA, rcA) := run (lines ["x = 0"; "include(""b.conf"")"; "y = "]) in
  let '(wB, cB, rcB) := run (lines ["x = 0"; "k = 3"; "s { a = 4 }"; ""; "y = "]) in
  rcA = CFG_PARSE_ERROR /\ rcB = CFG_PARSE_ERROR /\ obs_c cA = obs_c cB /\
  map d_fmt (w_diags wA) = map d_fmt (w_diags wB) /\ map d_fmt (w_diags wA) = [B "premature end of file"].
Proof. vm_compute. repeat split; reflexivity. Qed.

(* (g) why the depth hypothesis of C13_include_is_inline_partial is one stricter than the include needs: a chain of
   ten includes is accepted; with an eleventh the innermost include is refused, although the same chain with the
   innermost file's text in place is accepted *)
Definition inc_of (n : String.string) : str := B (String.append "include(""" (String.append n """)")).
Definition names : list String.string :=
  ["l1.conf"; "l2.conf"; "l3.conf"; "l4.conf"; "l5.conf"; "l6.conf"; "l7.conf"; "l8.conf"; "l9.conf"; "l10.conf"].
(* l_k includes l_(k+1) for k = 1..9 *)
Definition fsd (last : str) : fsys :=
  {| fs_root := B "/R";
     fs_ents := (B "l10.conf", FFile last) :: (B "l11.conf", FFile (B "k = 3")) ::
                map (fun p => (B (fst p), FFile (inc_of (snd p)))) (combine (firstn 9 names) (skipn 1 names)) |}.
Definition wd (last : str) : pw :=
  {| w_lex := lex_init; w_env := []; w_fs := fsd last;
     w_pw := {| pw_tab := []; pw_self := None |}; w_path := []; w_cbs := []; w_cnt := 0; w_failat := 0;
     w_nextptr := 1; w_diags := []; w_open := 0; w_crash := None; w_oof := false |}.
Definition rund (last : str) := parse_buf sd 400 (fst (cfg_init sd 50 (wd last) decls 0)) root (Some (inc_of "l1.conf")).
Example C13b_ex_depth_limit :
  (let '(w, c, rc) := rund (inc_of "l11.conf") in
   rc = CFG_PARSE_ERROR /\ map d_fmt (w_diags w) = [B "includes nested too deeply"] /\ l_inc (w_lex w) = []) /\
  (let '(w, c, rc) := rund (B "k = 3") in
   rc = CFG_SUCCESS /\ w_diags w = [] /\ l_inc (w_lex w) = []).
Proof. vm_compute. repeat split; reflexivity. Qed.

(* (h) why InlOK is needed: a file that does not end at a token boundary with respect to what follows.  Included, its
   last token `3` ends with the file; in place it runs into the next word *)
Definition fs2 : fsys := fs_set fs0 (B "c.conf") (FFile (B "k = 3")).
Example C13b_ex_token_boundary_needed :
  inl_chk 100 (B "y = 9") INITIAL (B "k = 3") = false /\
  inl_chk 100 postP INITIAL b_conf = true /\
  (let '(w, c, rc) := parse_buf sd 400 (fst (cfg_init sd 50 {| w_lex := lex_init; w_env := []; w_fs := fs2;
       w_pw := {| pw_tab := []; pw_self := None |}; w_path := []; w_cbs := []; w_cnt := 0; w_failat := 0;
       w_nextptr := 1; w_diags := []; w_open := 0; w_crash := None; w_oof := false |} decls 0)) root
       (Some (B "include(""c.conf"")y = 9")) in
   rc = CFG_SUCCESS /\ map (fun o => o_vals o) (firstn 5 (c_opts c)) = [[VInt 0]; [VInt 9]; [VInt 0]; [VInt 0]; [VInt 3]]) /\
  (let '(w, c, rc) := run (B "k = 3y = 9") in rc = CFG_PARSE_ERROR).
Proof. vm_compute. repeat split; reflexivity. Qed.
End Ex.
