(* Properties_C06b.v — C06 at the PARSER level (the scanner level is Properties_C06.v):
   rejected input is reported, and the report carries the right file and line.
   Statements only; the proofs are in DiagGen.v, DiagProofs.v, DiagGenJ.v and PosProofs.v.

   Vocabulary (all defined in DiagProofs.v / PosProofs.v):
     failed_entry e     the callback-log entry e records a user callback that returned non-zero
     reported w w'      w' has at least one more diagnostic than w:  w_diags w' = (d :: ds) ++ w_diags w,
                        or its callback log gained a failed entry:   w_cbs w' = es ++ w_cbs w, existsb failed_entry es
     pok c p            the locals of cfg_parse_internal are consistent with the context: in state 1 `opt` points
                        at an option of c; in states 5/6 `opt` (if it resolves) is a section, and a CFGF_TITLE
                        section has its title in state 5.  Trivially true for the entry state (pst0 0 None).
     einval o txt       the silent NULL returns of cfg_setopt that remain (errno = EINVAL, no message); both need
                        value = NULL, which cfg_parse_internal never passes for them (API-only):
                        value NULL for an int/float/string option without parse callback; value NULL for a
                        CFGF_TITLE section.  (A CFGT_PTR option without parse callback is now reported:
                        "no value parser for option '%s'".)
     noinc w            no file can be opened: every cfg_include() fails *)
From Coq Require String.
Import String.StringSyntax.
From Coq Require Import List Arith NArith ZArith Bool.
From Coq.Strings Require Import Byte.
From LC Require Import Bytes Consts Conv Flex LexAct Lexer LexAll Files Store Parser ApiProofs DiagProofs PosProofs IncProofs FuelProofs.
Import ListNotations.
Local Open Scope string_scope.
Local Open Scope list_scope.

(* ------------------------------------------------------------------ *)
(* (0) diagnostics are only ever added                                 *)
(* ------------------------------------------------------------------ *)
Theorem C06_diags_only_grow : forall strtod_o fuel,
  (forall w c o txt, exists ds, w_diags (fst (fst (setopt strtod_o fuel w c o txt))) = ds ++ w_diags w) /\
  (forall w c, exists ds, w_diags (fst (init_defaults strtod_o fuel w c)) = ds ++ w_diags w) /\
  (forall w c l p, exists ds, w_diags (fst (fst (parse_internal strtod_o fuel w c l p))) = ds ++ w_diags w).
Proof. exact diags_only_grow. Qed.
Print Assumptions C06_diags_only_grow.

Theorem C06_parse_buf_diags_only_grow : forall strtod_o fuel w c buf,
  exists ds, w_diags (fst (fst (parse_buf strtod_o fuel w c buf))) = ds ++ w_diags w.
Proof. exact parse_buf_diags_only_grow. Qed.
Print Assumptions C06_parse_buf_diags_only_grow.

(* ------------------------------------------------------------------ *)
(* (1) a parse error is reported                                       *)
(* ------------------------------------------------------------------ *)
(* Two silent STATE_ERROR paths existed when this was first proved (a malformed option path such as "|", and a
   value for a CFGT_PTR option without parse callback); both are fixed in confuse.c and in the model, see the
   examples C06b_ex_bar_now_reported / C06b_ex_ptr_now_reported below.  Now, for every input, schema, state
   and fuel: *)
Theorem C06_error_is_reported : forall strtod_o fuel w c level p w' c',
  parse_internal strtod_o fuel w c level p = (w', c', PERR) ->
  c_err c = true ->                    (* the error function is installed *)
  pok c p ->
  w_oof w' = false -> w_crash w' = None ->
  reported w w'.
Proof. exact parse_internal_error_reported. Qed.
Print Assumptions C06_error_is_reported.

Theorem C06_setopt_error_is_reported : forall strtod_o fuel w c o txt w' o',
  setopt strtod_o fuel w c o txt = (w', o', None) ->
  c_err c = true -> w_oof w' = false -> w_crash w' = None ->
  reported w w' \/ einval o txt.
Proof. exact setopt_error_reported. Qed.
Print Assumptions C06_setopt_error_is_reported.

(* cfg_parse_buf (cfg_parse_fp is the same statement on parse_fp_gen) *)
Theorem C06_parse_buf_error_is_reported : forall strtod_o fuel w c b w' c',
  parse_buf strtod_o fuel w c (Some b) = (w', c', CFG_PARSE_ERROR) ->
  c_err c = true -> w_oof w' = false -> w_crash w' = None ->
  reported w w'.
Proof. exact parse_buf_error_reported. Qed.
Print Assumptions C06_parse_buf_error_is_reported.

Theorem C06_parse_fp_error_is_reported : forall strtod_o fuel w c content w' c',
  parse_fp_gen strtod_o fuel w c content = (w', c', CFG_PARSE_ERROR) ->
  c_err c = true -> w_oof w' = false -> w_crash w' = None ->
  reported w w'.
Proof. exact parse_fp_gen_error_reported. Qed.
Print Assumptions C06_parse_fp_error_is_reported.

(* the resolver itself: an unresolved non-empty name is reported unless the context ignores unknown options or
   is a key-value context *)
Theorem C06_unknown_name_is_reported : forall c name ds,
  c_err c = true -> cflag c CFGF_IGNORE_UNKNOWN = false -> cflag c CFGF_KEYSTRVAL = false -> name <> [] ->
  cfg_getopt c name = (None, ds) -> ds <> [].
Proof. exact getopt_loud. Qed.
Print Assumptions C06_unknown_name_is_reported.

(* ------------------------------------------------------------------ *)
(* (2) the position carried by the diagnostics                         *)
(* ------------------------------------------------------------------ *)
(* The bound first proposed — "the line of every diagnostic is at most the line of the context returned" —
   is FALSE: after an error inside a section the enclosing contexts keep the line of the opening brace. *)
Theorem C06_diag_line_le_exit_line_refuted :
  exists strtod_o fuel w c b w' c' rc d,
    parse_buf strtod_o fuel w c (Some b) = (w', c', rc) /\ noinc w /\ l_inc (w_lex w) = [] /\
    In d (w_diags w') /\ (c_line c' < d_line d)%N.
Proof. exact diag_line_le_exit_line_refuted. Qed.
Print Assumptions C06_diag_line_le_exit_line_refuted.

(* What holds (no include can be opened, no include frame active, current buffer (id, inp)):
   every diagnostic added carries the file of the context, a line >= the line at entry, and — when no
   default-value string was scanned in between (l_next counts the buffers ever pushed) — a line
   <= line at entry + the newlines of the input consumed so far; the context returned is on the same file,
   between the entry line and that bound. *)
Theorem C06_diag_position : forall strtod_o fuel w c level p w' c' rc f id inp others,
  noinc w -> l_inc (w_lex w) = [] -> l_bufs (w_lex w) = (id, inp) :: others -> c_file c = Some f ->
  parse_internal strtod_o fuel w c level p = (w', c', rc) ->
  exists ds, w_diags w' = ds ++ w_diags w /\ c_file c' = Some f /\ (c_line c <= c_line c')%N /\
    (forall d, In d ds -> d_file d = Some f /\ (c_line c <= d_line d)%N) /\
    (l_next (w_lex w') = l_next (w_lex w) ->
       exists u rest, inp = u ++ rest /\ l_bufs (w_lex w') = (id, rest) :: others /\
         (c_line c' <= c_line c + count_nl u)%N /\
         forall d, In d ds -> (d_line d <= c_line c + count_nl u)%N).
Proof. exact parse_internal_diag_position. Qed.
Print Assumptions C06_diag_position.

Theorem C06_setopt_diag_position : forall strtod_o fuel w c o txt w' o' res f id inp others,
  noinc w -> l_inc (w_lex w) = [] -> l_bufs (w_lex w) = (id, inp) :: others -> c_file c = Some f ->
  setopt strtod_o fuel w c o txt = (w', o', res) ->
  exists ds, w_diags w' = ds ++ w_diags w /\
    (forall d, In d ds -> d_file d = Some f /\ (c_line c <= d_line d)%N) /\
    (l_next (w_lex w') = l_next (w_lex w) ->
       exists u rest, inp = u ++ rest /\ l_bufs (w_lex w') = (id, rest) :: others /\
         forall d, In d ds -> (d_line d <= c_line c + count_nl u)%N).
Proof. exact setopt_diag_position. Qed.
Print Assumptions C06_setopt_diag_position.

(* cfg_parse_buf: file "[buf]", 1-based lines within the text *)
Theorem C06_parse_buf_diag_position : forall strtod_o fuel w c b w' c' rc,
  noinc w -> l_inc (w_lex w) = [] ->
  parse_buf strtod_o fuel w c (Some b) = (w', c', rc) ->
  exists ds, w_diags w' = ds ++ w_diags w /\
    (forall d, In d ds -> d_file d = Some (M "[buf]") /\ (1 <= d_line d)%N) /\
    (l_next (w_lex w') = S (l_next (w_lex w)) ->
       forall d, In d ds -> (d_line d <= 1 + count_nl (cstr b))%N).
Proof. exact parse_buf_diag_position. Qed.
Print Assumptions C06_parse_buf_diag_position.

(* With includes (any file system, any include depth): every diagnostic — and the context returned — names
   the file of the context at entry, the file of an include frame pending at entry, or a file that
   cfg_include() could open.     file_ok w c x := exists name, x = Some name /\ (c_file c = Some name \/
   In (Some name) (map i_file (l_inc (w_lex w))) \/ exists content, open_input (w_fs w) name = Some content) *)
Theorem C06_diag_files : forall strtod_o fuel w c level p w' c' rc,
  c_file c <> None -> Forall (fun fr => i_file fr <> None) (l_inc (w_lex w)) ->
  parse_internal strtod_o fuel w c level p = (w', c', rc) ->
  exists ds, w_diags w' = ds ++ w_diags w /\ (forall d, In d ds -> file_ok w c (d_file d)) /\ file_ok w c (c_file c').
Proof. exact parse_internal_diag_files. Qed.
Print Assumptions C06_diag_files.

(* ------------------------------------------------------------------ *)
(* examples: the hypotheses are satisfiable, the conclusions informative *)
(* ------------------------------------------------------------------ *)
Definition show (r : pw * cfg * Z) :=
  let '(w, c, rc) := r in
  (rc, map (fun d => (d_file d, d_line d, d_fmt d)) (w_diags w), w_oof w, w_crash w, l_next (w_lex w)).

(* an unknown option on line 2 *)
Example C06b_ex_unknown_option :
  show (ex_run "a = 1
bogus = 2
") = (CFG_PARSE_ERROR, [(Some (M "[buf]"), 2%N, M "no such option '%s'")], false, None, 1).
Proof. vm_compute. reflexivity. Qed.

(* a bad value on line 3, after a multi-line comment *)
Example C06b_ex_bad_value :
  show (ex_run "/* one
two */
a = x1") = (CFG_PARSE_ERROR, [(Some (M "[buf]"), 3%N, M "invalid integer value for option '%s'")], false, None, 1).
Proof. vm_compute. reflexivity. Qed.

(* an unterminated string that starts on line 2 and runs to the end of the text on line 4 *)
Example C06b_ex_unterminated :
  show (ex_run "a = 1
a = ""x
y
") = (CFG_PARSE_ERROR, [(Some (M "[buf]"), 4%N, M "unterminated %s")], false, None, 1).
Proof. vm_compute. reflexivity. Qed.

(* a section left open: reported at the line where the text ends *)
Example C06b_ex_missing_brace :
  show (ex_run "s {
a = 1
") = (CFG_PARSE_ERROR, [(Some (M "[buf]"), 3%N, M "missing closing brace for section '%s'")], false, None, 1).
Proof. vm_compute. reflexivity. Qed.

(* the hypotheses of C06_parse_buf_diag_position hold for the example world, and its bound is tight *)
Example C06b_ex_hyps : noinc ex_wI /\ l_inc (w_lex ex_wI) = [] /\ c_err ex_root = true /\ l_next (w_lex ex_wI) = 0.
Proof. split; [apply noinc_empty; vm_compute; reflexivity|]. vm_compute. auto. Qed.

(* an error on line 3 of an included file is reported against that file; a missing include file against
   the including text *)
Example C06b_ex_include :
  show (ex_run1 "a = 1
include(""bad.conf"")
") = (CFG_PARSE_ERROR, [(Some (M "bad.conf"), 3%N, M "no such option '%s'")], false, None, 2).
Proof. vm_compute. reflexivity. Qed.

Example C06b_ex_include_missing :
  show (ex_run1 "a = 1

include(""nothere.conf"")
") = (CFG_PARSE_ERROR, [(Some (M "[buf]"), 3%N, M "%s: %s")], false, None, 1).
Proof. vm_compute. reflexivity. Qed.

(* the two formerly silent rejections are reported now *)
Example C06b_ex_bar_now_reported :
  show (ex_run "|") = (CFG_PARSE_ERROR, [(Some (M "[buf]"), 1%N, M "no such option '%s'")], false, None, 1).
Proof. vm_compute. reflexivity. Qed.

Example C06b_ex_trailing_bar_now_reported :
  show (ex_run "s|") = (CFG_PARSE_ERROR, [(Some (M "[buf]"), 1%N, M "no such option '%s'")], false, None, 1).
Proof. vm_compute. reflexivity. Qed.

(* p is a CFGT_PTR option declared without a parse callback *)
Example C06b_ex_ptr_now_reported :
  show (ex_run "p = x") = (CFG_PARSE_ERROR, [(Some (M "[buf]"), 1%N, M "no value parser for option '%s'")], false, None, 1).
Proof. vm_compute. reflexivity. Qed.
