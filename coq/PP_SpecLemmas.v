(* PP_SpecLemmas.v — C01: facts about the SPEC functions: what they return is a proper suffix of
   their input; they only depend on the observation of the tree; values they produce are plain. *)
From Coq Require String.
From Coq Require Import List Arith NArith ZArith Bool Lia.
From Coq.Strings Require Import Byte.
From LC Require Import Bytes Consts Conv Flex LexAct Lexer LexLemmas LexAll Files Store Parser Grammar
  PP_Base PP_Step PP_Tok PP_Setopt PP_Inv PP_Machine PP_Default PP_Inst PP_Spec PP_InvLemmas PP_GetoptObs.
Import ListNotations.

(* ---------- suffixes ---------- *)
Definition psfx {A} (r g : list A) : Prop := exists a, a <> [] /\ g = a ++ r.
Lemma psfx_cons {A} (x : A) r : psfx r (x :: r). Proof. exists [x]. split; [discriminate|reflexivity]. Qed.
Lemma psfx_cons_r {A} (x : A) r g : psfx r g -> psfx r (x :: g).
Proof. intros (a & N & ->). exists (x :: a). split; [discriminate|reflexivity]. Qed.
Lemma psfx_trans {A} (a b c : list A) : psfx a b -> psfx b c -> psfx a c.
Proof. intros (x & Nx & ->) (y & Ny & ->). exists (y ++ x). split; [destruct y; [congruence|discriminate]|apply app_assoc]. Qed.
Lemma psfx_len {A} (r g : list A) : psfx r g -> length r < length g.
Proof. intros (a & N & ->). rewrite app_length. destruct a; [congruence|cbn; lia]. Qed.

Section WithOracles.
Variable strtod_o : str -> strtod_res.

Lemma braced_psfx : forall F k g acc vs rest, braced strtod_o F k g acc = Some (vs, rest) -> psfx rest g.
Proof.
  induction F as [|F IH]; intros k g acc vs rest H; [discriminate|].
  destruct g as [|[v|x] r]; [discriminate| |].
  - rewrite braced_GS in H. destruct (conv_value strtod_o k v); [|discriminate].
    destruct r as [|[s|y] r']; try discriminate.
    destruct (y =? 44)%N.
    + apply IH in H. apply psfx_cons_r, psfx_cons_r. exact H.
    + destruct (y =? 125)%N; [|discriminate]. injection H as _ <-. apply psfx_cons_r, psfx_cons.
  - rewrite braced_GP in H. destruct (x =? 125)%N; [|discriminate]. injection H as _ <-. apply psfx_cons.
Qed.

Lemma val_res_psfx k l g app vs rest : val_res strtod_o k l g = Some (app, vs, rest) -> psfx rest g.
Proof.
  unfold val_res. destruct g as [|[s|x] g1]; try discriminate.
  destruct ((x =? 61)%N || (x =? 43)%N); [|discriminate].
  destruct ((x =? 43)%N && negb l); [discriminate|].
  destruct g1 as [|[v|y] g2]; try discriminate.
  - destruct (conv_value strtod_o k v); [|discriminate]. intros H; injection H as _ _ <-. apply psfx_cons_r, psfx_cons.
  - destruct ((y =? 123)%N && l); [|discriminate].
    destruct (braced strtod_o (S (length g2)) k g2 []) as [[vs' r]|] eqn:B; [|discriminate].
    intros H; injection H as _ _ <-. apply braced_psfx in B. apply psfx_cons_r, psfx_cons_r. exact B.
Qed.

Lemma skip_until_psfx c : forall g r, skip_until c g = Some r -> psfx r g.
Proof.
  induction g as [|t g IH]; intros r H; cbn [skip_until] in H; [discriminate|].
  destruct (is_p t c); [injection H as <-; apply psfx_cons|apply psfx_cons_r, IH, H].
Qed.

Lemma skip_braces_psfx : forall g d r, skip_braces d g = Some r -> psfx r g.
Proof.
  induction g as [|t g IH]; intros d r H; cbn [skip_braces] in H; [discriminate|].
  destruct (is_p t 123); [apply psfx_cons_r; eapply IH; eauto|].
  destruct (is_p t 125); [|apply psfx_cons_r; eapply IH; eauto].
  destruct d; [injection H as <-; apply psfx_cons|apply psfx_cons_r; eapply IH; eauto].
Qed.

Lemma skip_unknown_psfx g r : skip_unknown g = Some r -> psfx r g.
Proof.
  unfold skip_unknown. destruct g as [|t g]; [discriminate|].
  destruct (is_p t 61 || is_p t 43).
  - destruct g as [|[s|x] g']; [discriminate| |].
    + intros H; injection H as <-. apply psfx_cons_r, psfx_cons.
    + destruct (is_p (GP x) 123); [|discriminate]. intros H. apply skip_until_psfx in H. apply psfx_cons_r, psfx_cons_r, H.
  - destruct (is_p t 40); [intros H; apply skip_until_psfx in H; apply psfx_cons_r, H|].
    destruct (is_p t 123); [intros H; apply skip_braces_psfx in H; apply psfx_cons_r, H|].
    destruct t as [s|x]; [|discriminate]. destruct g as [|t' g']; [discriminate|].
    destruct (is_p t' 123); [|discriminate]. intros H. apply skip_braces_psfx in H. apply psfx_cons_r, psfx_cons_r, H.
Qed.

Lemma kv_item_psfx name g v r : kv_item name g = Some (v, r) -> psfx r g.
Proof.
  unfold kv_item. destruct name; [discriminate|]. destruct g as [|[s|x] [|[s'|y] g']]; try discriminate.
  destruct (x =? 61)%N; [|discriminate]. intros H; injection H as _ <-. apply psfx_cons_r, psfx_cons.
Qed.

Lemma sec_head_psfx o g ti r : sec_head o g = Some (ti, r) -> psfx r g.
Proof.
  unfold sec_head. destruct (oflag o CFGF_TITLE).
  - destruct g as [|[s|x] [|[s'|y] g']]; try discriminate. destruct (y =? 123)%N; [|discriminate].
    intros H; injection H as _ <-. apply psfx_cons_r, psfx_cons.
  - destruct g as [|[s|x] g']; try discriminate. destruct (x =? 123)%N; [|discriminate].
    intros H; injection H as _ <-. apply psfx_cons.
Qed.

(* the rest of a non-empty input is a proper suffix; name / title / flags of the context are kept *)
Lemma meaning_props : forall F c top g c' rest, meaning strtod_o F c top g = Some (c', rest) ->
  (g <> [] -> psfx rest g) /\ (g = [] -> rest = []) /\ c_title c' = c_title c.
Proof.
  induction F as [|F IH]; intros c top g c' rest H; [discriminate|].
  rewrite meaning_unfold in H. unfold mbody in H.
  destruct g as [|[name|x] r].
  - destruct top; [|discriminate]. injection H as <- <-. spl; auto. congruence.
  - assert (REC : forall c1 r1, psfx r1 (GS name :: r) -> c_title c1 = c_title c -> meaning strtod_o F c1 top r1 = Some (c', rest) ->
              (GS name :: r <> [] -> psfx rest (GS name :: r)) /\ (GS name :: r = [] -> rest = []) /\ c_title c' = c_title c).
    { intros c1 r1 P T M. apply IH in M. destruct M as (M1 & M2 & M3). spl.
      - intros _. destruct r1 as [|y r1']; [rewrite (M2 eq_refl); exact P|]. eapply psfx_trans; [apply M1; discriminate|exact P].
      - discriminate.
      - congruence. }
    destruct (fst (cfg_getopt c name)) as [ref|].
    + destruct (get_opt c ref) as [o|]; [|discriminate].
      destruct (is_sec (o_kind o)).
      * destruct (sec_head o r) as [[ti r2]|] eqn:SH; [|discriminate].
        destruct (open_instance strtod_o (c_flags c) (cflag c CFGF_NOCASE) o ti) as [[vals' idx]|]; [|discriminate].
        destruct (nth_error vals' idx) as [[| | | |[sec|]|]|]; try discriminate.
        destruct (meaning strtod_o F sec false r2) as [[sec' r3]|] eqn:M2; [|discriminate].
        apply sec_head_psfx in SH. apply IH in M2. destruct M2 as (A1 & A2 & _).
        eapply REC; [|idtac|exact H].
        -- apply psfx_cons_r. destruct r2 as [|y r2']; [rewrite (A2 eq_refl); exact SH|]. eapply psfx_trans; [apply A1; discriminate|exact SH].
        -- unfold put_opt, upd_opt. apply c_title_upd_sec. intros s; destruct s; reflexivity.
      * destruct (scalar_kind (o_kind o)); [|discriminate].
        destruct (val_res strtod_o (o_kind o) (oflag o CFGF_LIST) r) as [[[app vs] r2]|] eqn:V; [|discriminate].
        apply val_res_psfx in V. eapply REC; [|idtac|exact H].
        -- apply psfx_cons_r, V.
        -- unfold put_opt, upd_opt. apply c_title_upd_sec. intros s; destruct s; reflexivity.
    + destruct (cflag c CFGF_IGNORE_UNKNOWN).
      * destruct (skip_unknown r) as [r'|] eqn:SK; [|discriminate]. apply skip_unknown_psfx in SK.
        eapply REC; [|idtac|exact H]; [apply psfx_cons_r, SK|reflexivity].
      * destruct (cflag c CFGF_KEYSTRVAL); [|discriminate].
        destruct (kv_item name r) as [[v r']|] eqn:KV; [|discriminate]. apply kv_item_psfx in KV.
        eapply REC; [|idtac|exact H]; [apply psfx_cons_r, KV|destruct c; reflexivity].
  - destruct (x =? 125)%N; [|discriminate]. destruct top; [discriminate|]. injection H as <- <-. spl; auto.
    + intros _. apply psfx_cons.
    + discriminate.
Qed.

(* ---------- plain values ---------- *)
Lemma conv_value_plain k v x : conv_value strtod_o k v = Some x -> plainv x = true.
Proof.
  unfold conv_value. destruct k; try discriminate.
  - destruct (conv_int v); try discriminate. intros H; injection H as <-. reflexivity.
  - destruct (conv_float strtod_o v); try discriminate. intros H; injection H as <-. reflexivity.
  - intros H; injection H as <-. reflexivity.
  - destruct (conv_bool v); try discriminate. intros H; injection H as <-. reflexivity.
Qed.

Lemma braced_plain : forall F k g acc vs rest, braced strtod_o F k g acc = Some (vs, rest) ->
  forallb plainv acc = true -> forallb plainv vs = true.
Proof.
  induction F as [|F IH]; intros k g acc vs rest H A; [discriminate|].
  destruct g as [|[v|x] r]; [discriminate| |].
  - rewrite braced_GS in H. destruct (conv_value strtod_o k v) as [xv|] eqn:CV; [|discriminate].
    apply conv_value_plain in CV.
    assert (A' : forallb plainv (acc ++ [xv]) = true) by (rewrite forallb_app, A; cbn; rewrite CV; reflexivity).
    destruct r as [|[s|y] r']; try discriminate.
    destruct (y =? 44)%N; [eapply IH; eauto|].
    destruct (y =? 125)%N; [|discriminate]. injection H as <- _. exact A'.
  - rewrite braced_GP in H. destruct (x =? 125)%N; [|discriminate]. injection H as <- _. exact A.
Qed.

Lemma val_res_plain k l g app vs rest : val_res strtod_o k l g = Some (app, vs, rest) -> forallb plainv vs = true.
Proof.
  unfold val_res. destruct g as [|[s|x] g1]; try discriminate.
  destruct ((x =? 61)%N || (x =? 43)%N); [|discriminate].
  destruct ((x =? 43)%N && negb l); [discriminate|].
  destruct g1 as [|[v|y] g2]; try discriminate.
  - destruct (conv_value strtod_o k v) as [xv|] eqn:CV; [|discriminate]. intros H; injection H as _ <- _.
    apply conv_value_plain in CV. cbn. rewrite CV. reflexivity.
  - destruct ((y =? 123)%N && l); [|discriminate].
    destruct (braced strtod_o (S (length g2)) k g2 []) as [[vs' r]|] eqn:B; [|discriminate].
    intros H; injection H as _ <- _. eapply braced_plain; eauto.
Qed.

(* a free-form key is a string assignment *)
Lemma kv_val name r : name <> [] ->
  val_res strtod_o KStr false r =
  match kv_item name r with Some (v, r') => Some (false, [VStr (Some v)], r') | None => None end.
Proof.
  intros N. destruct name as [|n0 name]; [congruence|]. unfold val_res, kv_item.
  destruct r as [|[s|x] g1]; [reflexivity|reflexivity|].
  destruct (x =? 43)%N eqn:X43.
  - apply N.eqb_eq in X43. subst x. cbn. destruct g1 as [|[v|y] g2]; reflexivity.
  - rewrite orb_false_r. cbn [andb]. destruct (x =? 61)%N eqn:X61.
    + destruct g1 as [|[v|y] g2]; try reflexivity. cbn [conv_value]. rewrite andb_false_r. reflexivity.
    + destruct g1 as [|[v|y] g2]; reflexivity.
Qed.

(* ---------- after_item and open_instance only see the observation ---------- *)
Lemma after_item_obs a b : obs_o a = obs_o b -> obs_o (after_item a) = obs_o (after_item b).
Proof.
  intros H. rewrite !after_item_eq. apply obs_o_split in H as [S V]. rewrite (dropped_shape a b S).
  destruct (dropped b); [|apply obs_o_split; auto]. apply obs_o_split. rewrite !shape_set_vals, !o_vals_set_vals. auto.
Qed.

Lemma instance_shape ctx o o' ti : shape o = shape o' -> instance strtod_o ctx o ti = instance strtod_o ctx o' ti.
Proof.
  intros S. rewrite !instance_eq. unfold inst_fl.
  rewrite (shape_name _ _ S), (shape_sub _ _ S), (shape_oflag o o' CFGF_KEYSTRVAL S eq_refl). reflexivity.
Qed.

Lemma title_pred_obs nocase t v : title_pred nocase t (obs_v v) = title_pred nocase t v.
Proof. destruct v as [| | | |[s|]|]; try reflexivity. cbn [obs_v title_pred]. rewrite obs_c_eq. reflexivity. Qed.

Lemma find_idx_obs nocase t l l' : map obs_v l = map obs_v l' -> forall i,
  find_idx (title_pred nocase t) l i = find_idx (title_pred nocase t) l' i.
Proof.
  revert l'. induction l as [|x l IH]; intros [|y l'] H i; try discriminate; [reflexivity|].
  cbn [map] in H. injection H as Hx Hl. cbn [find_idx].
  rewrite <- (title_pred_obs nocase t x), Hx, title_pred_obs. destruct (title_pred nocase t y); [reflexivity|apply IH, Hl].
Qed.

Lemma open_instance_obs ctx nocase o o' ti : obs_o o = obs_o o' ->
  match open_instance strtod_o ctx nocase o ti, open_instance strtod_o ctx nocase o' ti with
  | Some (v, i), Some (v', i') => i = i' /\ map obs_v v = map obs_v v'
  | None, None => True
  | _, _ => False
  end.
Proof.
  intros H. apply obs_o_split in H as [S V]. unfold open_instance.
  rewrite (shape_oflag o o' CFGF_MULTI S eq_refl), (shape_oflag o o' CFGF_TITLE S eq_refl),
    (shape_oflag o o' CFGF_NO_TITLE_DUPES S eq_refl), (instance_shape ctx o o' ti S).
  assert (LEN : length (o_vals o) = length (o_vals o')) by (rewrite <- (map_length obs_v (o_vals o)), V, map_length; reflexivity).
  destruct (oflag o' CFGF_MULTI); cbn [negb].
  - destruct (oflag o' CFGF_TITLE); cbn [negb].
    + destruct ti as [t|]; [|exact I].
      fold (title_pred nocase t). rewrite (find_idx_obs nocase t _ _ V 0).
      destruct (find_idx (title_pred nocase t) (o_vals o') 0) as [i|].
      * destruct (oflag o' CFGF_NO_TITLE_DUPES); [exact I|]. split; [reflexivity|].
        rewrite !(map_upd_nth obs_v _ i _ (fun _ => obs_v (VSec (Some (instance strtod_o ctx o' (Some t)))))) by reflexivity.
        rewrite V. reflexivity.
      * split; [exact LEN|]. rewrite !map_app, V. reflexivity.
    + split; [exact LEN|]. rewrite !map_app, V. reflexivity.
  - destruct (o_vals o) as [|x l], (o_vals o') as [|x' l']; try discriminate; split; auto.
Qed.

End WithOracles.
