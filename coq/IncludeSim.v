(* IncludeSim.v — C13, include = text in place, parser level.
   Two runs of cfg_parse_internal whose scanners are related by IncludeProofs.LRs (one reads an included file
   through a pushed buffer, the other reads the same text in place) go through the same steps; contexts are
   compared up to positions (file names and line numbers, at every depth of the tree). *)
From Coq Require String.
Import String.StringSyntax.
From Coq Require Import List Arith NArith ZArith Bool Lia.
From Coq.Strings Require Import Byte.
From LC Require Import Bytes Consts Conv Flex LexAct LexRules Lexer LexLemmas LexAll LineProofs Files Store Parser
  Grammar HdrProofs BalanceProofs PathProofs PP_Step PP_Setopt PP_Base PP_GetoptObs PP_Tok PP_LexYields PP_LexFrame IncludeProofs.
Import ListNotations.
Local Open Scope string_scope.
Local Open Scope list_scope.

(* ================================================================== *)
(* 1. forgetting positions                                              *)
(* ================================================================== *)

Fixpoint ev (v : value) : value :=
  match v with VSec (Some c) => VSec (Some (ec c)) | x => x end
with eo (o : opt) : opt :=
  match o with
  | Opt n k f vals sub def cm cb =>
      Opt n k f ((fix go (l : list value) := match l with [] => [] | v :: r => ev v :: go r end) vals) sub def cm cb
  end
with ec (c : cfg) : cfg :=
  match c with
  | Cfg n t f opts _ _ e p =>
      Cfg n t f ((fix go (l : list opt) := match l with [] => [] | o :: r => eo o :: go r end) opts) None 0 e p
  end.

Lemma eo_eq o : eo o = Opt (o_name o) (o_kind o) (o_flags o) (map ev (o_vals o)) (o_sub o) (o_def o) (o_comment o) (o_cbs o).
Proof. destruct o as [n k f vals sub d cm cb]; reflexivity. Qed.
Lemma ec_eq c : ec c = Cfg (c_name c) (c_title c) (c_flags c) (map eo (c_opts c)) None 0 (c_err c) (c_pff c).
Proof. destruct c as [n t f opts fi l e p]; reflexivity. Qed.

(* ---- structural induction on the tree ---- *)
Section TreeInd.
Variables (Pv : value -> Prop) (Po : opt -> Prop) (Pc : cfg -> Prop).
Hypothesis Hv_sec : forall c, Pc c -> Pv (VSec (Some c)).
Hypothesis Hv_other : forall v, (forall c, v <> VSec (Some c)) -> Pv v.
Hypothesis Ho : forall n k f vals sub d cm cb, Forall Pv vals -> Po (Opt n k f vals sub d cm cb).
Hypothesis Hc : forall n t f opts fi l e p, Forall Po opts -> Pc (Cfg n t f opts fi l e p).

Lemma tree_ind_c : forall c, Pc c.
Proof.
  fix IHc 1 with (IHo (o : opt) : Po o) (IHv (v : value) : Pv v).
  - intros [n t f opts fi l e p]. apply Hc. induction opts as [|o r IHr]; constructor; [apply IHo|exact IHr].
  - destruct o as [n k f vals sub d cm cb]. apply Ho. induction vals as [|v r IHr]; constructor; [apply IHv|exact IHr].
  - destruct v as [z|b|b|s|[c|]|i]; try (apply Hv_other; intros c' H; discriminate).
    apply Hv_sec, IHc.
Qed.
End TreeInd.

Lemma tree_ind_all (Pv : value -> Prop) (Po : opt -> Prop) (Pc : cfg -> Prop) :
  (forall c, Pc c -> Pv (VSec (Some c))) -> (forall v, (forall c, v <> VSec (Some c)) -> Pv v) ->
  (forall n k f vals sub d cm cb, Forall Pv vals -> Po (Opt n k f vals sub d cm cb)) ->
  (forall n t f opts fi l e p, Forall Po opts -> Pc (Cfg n t f opts fi l e p)) ->
  (forall c, Pc c) /\ (forall o, Po o) /\ (forall v, Pv v).
Proof.
  intros H1 H2 H3 H4.
  assert (C : forall c, Pc c) by (apply (tree_ind_c Pv Po Pc); assumption).
  assert (V : forall v, Pv v).
  { intros [z|b|b|s|[c|]|i]; try (apply H2; intros c' H; discriminate). apply H1, C. }
  split; [exact C|]. split; [|exact V].
  intros [n k f vals sub d cm cb]. apply H3. induction vals; constructor; auto.
Qed.

Lemma map_ext_Forall {A B} (f g : A -> B) l : Forall (fun x => f x = g x) l -> map f l = map g l.
Proof. induction 1; cbn; congruence. Qed.

(* obs_c forgets more than ec *)
Lemma obs_ec_all : (forall c, obs_c (ec c) = obs_c c) /\ (forall o, obs_o (eo o) = obs_o o) /\ (forall v, obs_v (ev v) = obs_v v).
Proof.
  apply tree_ind_all.
  - intros c H. cbn [ev obs_v]. rewrite H. reflexivity.
  - intros v H. destruct v as [z|b|b|s|[c|]|i]; try reflexivity. exfalso. apply (H c). reflexivity.
  - intros n k f vals sub d cm cb H. rewrite eo_eq, !obs_o_eq. cbn [o_name o_kind o_flags o_vals o_sub o_def o_cbs].
    f_equal. rewrite map_map. apply map_ext_Forall, H.
  - intros n t f opts fi l e p H. rewrite ec_eq, !obs_c_eq. cbn [c_name c_title c_flags c_opts].
    f_equal. rewrite map_map. apply map_ext_Forall, H.
Qed.

Lemma ec_obs c1 c2 : ec c1 = ec c2 -> obs_c c1 = obs_c c2.
Proof. intros H. destruct obs_ec_all as (A & _). rewrite <- (A c1), <- (A c2), H. reflexivity. Qed.
Lemma eo_obs o1 o2 : eo o1 = eo o2 -> obs_o o1 = obs_o o2.
Proof. intros H. destruct obs_ec_all as (_ & A & _). rewrite <- (A o1), <- (A o2), H. reflexivity. Qed.

(* released pointers do not depend on positions *)
Lemma frees_o_eq o : frees_o o = flat_map (frees_v (match o_kind o with KPtr => cb_free (o_cbs o) | _ => false end)) (o_vals o).
Proof.
  destruct o as [n k f vals sub d cm cb]. cbn [frees_o o_kind o_cbs o_vals].
  induction vals as [|v r IH]; cbn [flat_map]; [reflexivity|]. rewrite <- IH. reflexivity.
Qed.
Lemma frees_c_eq c : frees_c c = flat_map frees_o (c_opts c).
Proof.
  destruct c as [n t f opts fi l e p]. cbn [frees_c c_opts].
  induction opts as [|o r IH]; cbn [flat_map]; [reflexivity|]. rewrite <- IH. reflexivity.
Qed.

Lemma flat_map_ext_Forall {A B} (f g : A -> list B) l : Forall (fun x => f x = g x) l -> flat_map f l = flat_map g l.
Proof. induction 1; cbn; congruence. Qed.

Lemma frees_ec_all :
  (forall c, frees_c (ec c) = frees_c c) /\ (forall o, frees_o (eo o) = frees_o o) /\ (forall v, forall b, frees_v b (ev v) = frees_v b v).
Proof.
  apply (tree_ind_all (fun v => forall b, frees_v b (ev v) = frees_v b v)).
  - intros c H b. cbn [ev frees_v]. exact H.
  - intros v H b. destruct v as [z|b0|b0|s|[c|]|i]; try reflexivity. exfalso. apply (H c). reflexivity.
  - intros n k f vals sub d cm cb H. rewrite eo_eq, !frees_o_eq. cbn [o_name o_kind o_flags o_vals o_sub o_def o_cbs].
    rewrite flat_map_concat_map, map_map, <- flat_map_concat_map. apply flat_map_ext_Forall.
    eapply Forall_impl; [|exact H]. cbv beta. intros v Hv. apply Hv.
  - intros n t f opts fi l e p H. rewrite ec_eq, !frees_c_eq. cbn [c_opts].
    rewrite flat_map_concat_map, map_map, <- flat_map_concat_map. apply flat_map_ext_Forall, H.
Qed.

Lemma frees_c_ec c1 c2 : ec c1 = ec c2 -> frees_c c1 = frees_c c2.
Proof. intros H. destruct frees_ec_all as (A & _). rewrite <- (A c1), <- (A c2), H. reflexivity. Qed.
Lemma frees_o_eo o1 o2 : eo o1 = eo o2 -> frees_o o1 = frees_o o2.
Proof. intros H. destruct frees_ec_all as (_ & A & _). rewrite <- (A o1), <- (A o2), H. reflexivity. Qed.

(* ---- projections ---- *)
Lemma eo_parts o1 o2 : eo o1 = eo o2 ->
  o_name o1 = o_name o2 /\ o_kind o1 = o_kind o2 /\ o_flags o1 = o_flags o2 /\ map ev (o_vals o1) = map ev (o_vals o2) /\
  o_sub o1 = o_sub o2 /\ o_def o1 = o_def o2 /\ o_comment o1 = o_comment o2 /\ o_cbs o1 = o_cbs o2.
Proof. rewrite !eo_eq. intros H; inversion H; auto 10. Qed.
Lemma ec_parts c1 c2 : ec c1 = ec c2 ->
  c_name c1 = c_name c2 /\ c_title c1 = c_title c2 /\ c_flags c1 = c_flags c2 /\ map eo (c_opts c1) = map eo (c_opts c2) /\
  c_err c1 = c_err c2 /\ c_pff c1 = c_pff c2.
Proof. rewrite !ec_eq. intros H; inversion H; auto 10. Qed.

Lemma eo_intro o1 o2 :
  o_name o1 = o_name o2 -> o_kind o1 = o_kind o2 -> o_flags o1 = o_flags o2 -> map ev (o_vals o1) = map ev (o_vals o2) ->
  o_sub o1 = o_sub o2 -> o_def o1 = o_def o2 -> o_comment o1 = o_comment o2 -> o_cbs o1 = o_cbs o2 -> eo o1 = eo o2.
Proof. rewrite !eo_eq. congruence. Qed.
Lemma ec_intro c1 c2 :
  c_name c1 = c_name c2 -> c_title c1 = c_title c2 -> c_flags c1 = c_flags c2 -> map eo (c_opts c1) = map eo (c_opts c2) ->
  c_err c1 = c_err c2 -> c_pff c1 = c_pff c2 -> ec c1 = ec c2.
Proof. rewrite !ec_eq. congruence. Qed.

Lemma eo_name o1 o2 : eo o1 = eo o2 -> o_name o1 = o_name o2. Proof. intros H; apply eo_parts in H; tauto. Qed.
Lemma eo_kind o1 o2 : eo o1 = eo o2 -> o_kind o1 = o_kind o2. Proof. intros H; apply eo_parts in H; tauto. Qed.
Lemma eo_flags o1 o2 : eo o1 = eo o2 -> o_flags o1 = o_flags o2. Proof. intros H; apply eo_parts in H; tauto. Qed.
Lemma eo_vals o1 o2 : eo o1 = eo o2 -> map ev (o_vals o1) = map ev (o_vals o2). Proof. intros H; apply eo_parts in H; tauto. Qed.
Lemma eo_sub o1 o2 : eo o1 = eo o2 -> o_sub o1 = o_sub o2. Proof. intros H; apply eo_parts in H; tauto. Qed.
Lemma eo_def o1 o2 : eo o1 = eo o2 -> o_def o1 = o_def o2. Proof. intros H; apply eo_parts in H; tauto. Qed.
Lemma eo_comment o1 o2 : eo o1 = eo o2 -> o_comment o1 = o_comment o2. Proof. intros H; apply eo_parts in H; tauto. Qed.
Lemma eo_cbs o1 o2 : eo o1 = eo o2 -> o_cbs o1 = o_cbs o2. Proof. intros H; apply eo_parts in H; tauto. Qed.
Lemma eo_oflag o1 o2 m : eo o1 = eo o2 -> oflag o1 m = oflag o2 m.
Proof. intros H. unfold oflag. rewrite (eo_flags _ _ H). reflexivity. Qed.
Lemma eo_vlen o1 o2 : eo o1 = eo o2 -> length (o_vals o1) = length (o_vals o2).
Proof. intros H. apply eo_vals in H. rewrite <- (map_length ev (o_vals o1)), H. apply map_length. Qed.

Lemma ec_name c1 c2 : ec c1 = ec c2 -> c_name c1 = c_name c2. Proof. intros H; apply ec_parts in H; tauto. Qed.
Lemma ec_title c1 c2 : ec c1 = ec c2 -> c_title c1 = c_title c2. Proof. intros H; apply ec_parts in H; tauto. Qed.
Lemma ec_flags c1 c2 : ec c1 = ec c2 -> c_flags c1 = c_flags c2. Proof. intros H; apply ec_parts in H; tauto. Qed.
Lemma ec_opts c1 c2 : ec c1 = ec c2 -> map eo (c_opts c1) = map eo (c_opts c2). Proof. intros H; apply ec_parts in H; tauto. Qed.
Lemma ec_err c1 c2 : ec c1 = ec c2 -> c_err c1 = c_err c2. Proof. intros H; apply ec_parts in H; tauto. Qed.
Lemma ec_cflag c1 c2 m : ec c1 = ec c2 -> cflag c1 m = cflag c2 m.
Proof. intros H. unfold cflag. rewrite (ec_flags _ _ H). reflexivity. Qed.
Lemma ec_olen c1 c2 : ec c1 = ec c2 -> length (c_opts c1) = length (c_opts c2).
Proof. intros H. apply ec_opts in H. rewrite <- (map_length eo (c_opts c1)), H. apply map_length. Qed.

(* ---- setters ---- *)
Lemma ec_set_file c f : ec (set_file c f) = ec c. Proof. destruct c; reflexivity. Qed.
Lemma ec_set_line c l : ec (set_line c l) = ec c. Proof. destruct c; reflexivity. Qed.
Lemma ec_set_pos c p : ec (set_pos c p) = ec c. Proof. destruct c; reflexivity. Qed.
Lemma ec_set_err c e : ec (set_err c e) = set_err (ec c) e. Proof. destruct c; reflexivity. Qed.
Lemma ec_set_opts c l : ec (set_opts c l) = set_opts (ec c) (map eo l). Proof. rewrite !ec_eq. destruct c; reflexivity. Qed.
Lemma eo_set_vals o l : eo (set_vals o l) = set_vals (eo o) (map ev l). Proof. rewrite !eo_eq. destruct o; reflexivity. Qed.
Lemma eo_set_flags o f : eo (set_flags o f) = set_flags (eo o) f. Proof. destruct o; reflexivity. Qed.
Lemma eo_set_comment o c : eo (set_comment o c) = set_comment (eo o) c. Proof. destruct o; reflexivity. Qed.
Lemma o_flags_eo o : o_flags (eo o) = o_flags o. Proof. destruct o; reflexivity. Qed.
Lemma o_kind_eo o : o_kind (eo o) = o_kind o. Proof. destruct o; reflexivity. Qed.
Lemma o_vals_eo o : o_vals (eo o) = map ev (o_vals o). Proof. rewrite eo_eq. reflexivity. Qed.
Lemma o_comment_eo o : o_comment (eo o) = o_comment o. Proof. destruct o; reflexivity. Qed.
Lemma c_opts_ec c : c_opts (ec c) = map eo (c_opts c). Proof. rewrite ec_eq. reflexivity. Qed.
Lemma eo_setf o m : eo (o_setf o m) = o_setf (eo o) m. Proof. destruct o; reflexivity. Qed.
Lemma eo_clrf o m : eo (o_clrf o m) = o_clrf (eo o) m. Proof. destruct o; reflexivity. Qed.
Lemma oflag_eo o m : oflag (eo o) m = oflag o m. Proof. destruct o; reflexivity. Qed.

Lemma E_setf o1 o2 m : eo o1 = eo o2 -> eo (o_setf o1 m) = eo (o_setf o2 m). Proof. intros H. rewrite !eo_setf, H. reflexivity. Qed.
Lemma E_clrf o1 o2 m : eo o1 = eo o2 -> eo (o_clrf o1 m) = eo (o_clrf o2 m). Proof. intros H. rewrite !eo_clrf, H. reflexivity. Qed.
Lemma E_set_vals o1 o2 l1 l2 : eo o1 = eo o2 -> map ev l1 = map ev l2 -> eo (set_vals o1 l1) = eo (set_vals o2 l2).
Proof. intros H1 H2. rewrite !eo_set_vals, H1, H2. reflexivity. Qed.
Lemma E_set_comment o1 o2 c : eo o1 = eo o2 -> eo (set_comment o1 c) = eo (set_comment o2 c).
Proof. intros H. rewrite !eo_set_comment, H. reflexivity. Qed.
Lemma E_setcomment o1 o2 c : eo o1 = eo o2 -> eo (opt_setcomment o1 c) = eo (opt_setcomment o2 c).
Proof. intros H. unfold opt_setcomment. apply E_setf, E_setf, E_set_comment, H. Qed.
Lemma C_set_pos c1 c2 p1 p2 : ec c1 = ec c2 -> ec (set_pos c1 p1) = ec (set_pos c2 p2).
Proof. rewrite !ec_set_pos. auto. Qed.
Lemma C_set_line c1 c2 l1 l2 : ec c1 = ec c2 -> ec (set_line c1 l1) = ec (set_line c2 l2).
Proof. rewrite !ec_set_line. auto. Qed.
Lemma C_set_file c1 c2 l1 l2 : ec c1 = ec c2 -> ec (set_file c1 l1) = ec (set_file c2 l2).
Proof. rewrite !ec_set_file. auto. Qed.
Lemma C_set_opts c1 c2 l1 l2 : ec c1 = ec c2 -> map eo l1 = map eo l2 -> ec (set_opts c1 l1) = ec (set_opts c2 l2).
Proof. intros H1 H2. rewrite !ec_set_opts, H1, H2. reflexivity. Qed.

(* ---- reading the tree ---- *)
Lemma nth_sec_eo o v : nth_sec (eo o) v = option_map ec (nth_sec o v).
Proof.
  unfold nth_sec. rewrite o_vals_eo, nth_error_map.
  destruct (nth_error (o_vals o) v) as [[| | | |[s|]|]|]; reflexivity.
Qed.

Lemma get_sec_ec : forall steps c, get_sec (ec c) steps = option_map ec (get_sec c steps).
Proof.
  induction steps as [|[i v] r IH]; intros c; cbn [get_sec]; [reflexivity|].
  rewrite c_opts_ec, nth_error_map. destruct (nth_error (c_opts c) i) as [o|]; cbn [option_map]; [|reflexivity].
  rewrite nth_sec_eo. destruct (nth_sec o v) as [s|]; cbn [option_map]; [apply IH|reflexivity].
Qed.

Lemma get_opt_ec c r : get_opt (ec c) r = option_map eo (get_opt c r).
Proof.
  unfold get_opt. rewrite get_sec_ec. destruct (get_sec c (fst r)) as [s|]; cbn [option_map]; [|reflexivity].
  rewrite c_opts_ec. apply nth_error_map.
Qed.

Definition orel {A} (R : A -> A -> Prop) (a b : option A) : Prop :=
  match a, b with Some x, Some y => R x y | None, None => True | _, _ => False end.

Lemma orel_map {A B} (f : A -> B) a b : option_map f a = option_map f b -> orel (fun x y => f x = f y) a b.
Proof. destruct a, b; cbn; intros H; try discriminate; auto. inversion H; auto. Qed.

Lemma get_opt_rel c1 c2 r : ec c1 = ec c2 -> orel (fun o1 o2 => eo o1 = eo o2) (get_opt c1 r) (get_opt c2 r).
Proof. intros H. apply orel_map. rewrite <- !get_opt_ec, H. reflexivity. Qed.

Lemma nth_sec_rel o1 o2 v : eo o1 = eo o2 -> orel (fun s1 s2 => ec s1 = ec s2) (nth_sec o1 v) (nth_sec o2 v).
Proof. intros H. apply orel_map. rewrite <- !nth_sec_eo, H. reflexivity. Qed.

Lemma nth_opts_rel c1 c2 i : ec c1 = ec c2 -> orel (fun o1 o2 => eo o1 = eo o2) (nth_error (c_opts c1) i) (nth_error (c_opts c2) i).
Proof. intros H. exact (get_opt_rel c1 c2 ([], i) H). Qed.

Lemma nth_vals_rel o1 o2 i : eo o1 = eo o2 -> orel (fun v1 v2 => ev v1 = ev v2) (nth_error (o_vals o1) i) (nth_error (o_vals o2) i).
Proof. intros H. apply orel_map. rewrite <- !nth_error_map, (eo_vals _ _ H). reflexivity. Qed.

(* ---- updating the tree ---- *)
Lemma upd_sec_ec : forall steps c g g', (forall s, ec (g s) = g' (ec s)) -> ec (upd_sec c steps g) = upd_sec (ec c) steps g'.
Proof.
  induction steps as [|[i v] r IH]; intros c g g' H; cbn [upd_sec]; [apply H|].
  rewrite ec_set_opts. f_equal. rewrite c_opts_ec.
  apply map_upd_nth. intros o. rewrite eo_set_vals. f_equal. rewrite o_vals_eo.
  apply map_upd_nth. intros [| | | |[s|]|]; try reflexivity. cbn [ev]. rewrite (IH s g g' H). reflexivity.
Qed.

Lemma ec_put c r o : ec (put_opt c r o) = put_opt (ec c) r (eo o).
Proof.
  unfold put_opt, upd_opt. apply upd_sec_ec. intros s. rewrite ec_set_opts. f_equal.
  rewrite c_opts_ec. apply map_upd_nth. reflexivity.
Qed.

Lemma C_put c1 c2 r o1 o2 : ec c1 = ec c2 -> eo o1 = eo o2 -> ec (put_opt c1 r o1) = ec (put_opt c2 r o2).
Proof. intros H1 H2. rewrite !ec_put, H1, H2. reflexivity. Qed.

Lemma ec_upd_opt c r g g' : (forall o, eo (g o) = g' (eo o)) -> ec (upd_opt c r g) = upd_opt (ec c) r g'.
Proof.
  intros H. unfold upd_opt. apply upd_sec_ec. intros s. rewrite ec_set_opts. f_equal.
  rewrite c_opts_ec. apply map_upd_nth. exact H.
Qed.

Lemma C_upd_opt c1 c2 r g g' : (forall o, eo (g o) = g' (eo o)) -> ec c1 = ec c2 -> ec (upd_opt c1 r g) = ec (upd_opt c2 r g).
Proof. intros H H1. rewrite !(ec_upd_opt _ _ g g' H), H1. reflexivity. Qed.

(* ---- cfg_addval, cfg_free_value, cfg_opt_getval ---- *)
Lemma ev_zero k : ev (zero_value k) = zero_value k. Proof. destruct k; reflexivity. Qed.

Lemma eo_addval o : eo (addval o) = addval (eo o).
Proof.
  unfold addval. rewrite eo_setf, eo_set_vals, map_app, o_vals_eo, o_kind_eo. cbn [map]. rewrite ev_zero. reflexivity.
Qed.
Lemma E_addval o1 o2 : eo o1 = eo o2 -> eo (addval o1) = eo (addval o2).
Proof. intros H. rewrite !eo_addval, H. reflexivity. Qed.

Lemma free_value_fst o : fst (free_value o) =
  set_vals (if match o_comment o with Some _ => negb (oflag o CFGF_RESET) | None => false end then set_comment o None else o) [].
Proof. reflexivity. Qed.
Lemma free_value_snd o : snd (free_value o) = frees_o o. Proof. reflexivity. Qed.

Lemma E_free_value o1 o2 : eo o1 = eo o2 -> eo (fst (free_value o1)) = eo (fst (free_value o2)) /\ snd (free_value o1) = snd (free_value o2).
Proof.
  intros H. rewrite !free_value_fst, !free_value_snd. split; [|apply frees_o_eo, H].
  rewrite (eo_comment _ _ H), (eo_oflag _ _ CFGF_RESET H).
  destruct (match o_comment o2 with Some _ => negb (oflag o2 CFGF_RESET) | None => false end);
    apply E_set_vals; auto. apply E_set_comment, H.
Qed.

(* ================================================================== *)
(* 2. runs outside the scope of the comparison: out of fuel, a would-be crash, or a flex buffer pushed       *)
(*    beyond the N-th (a further include, or a default text scanned by cfg_init_defaults).  The two flags   *)
(*    are write-only and never reset and buffer ids only grow, so a run that ends clean was clean throughout *)
(* ================================================================== *)
Definition flags (w : pw) : bool * option str * nat := (w_oof w, w_crash w, l_next (w_lex w)).
Definition fle (x y : bool * option str * nat) : Prop :=
  (fst (fst x) = true -> fst (fst y) = true) /\ (snd (fst x) <> None -> snd (fst y) <> None) /\ snd x <= snd y.
Definition badf (N : nat) (x : bool * option str * nat) : Prop := fst (fst x) = true \/ snd (fst x) <> None \/ N < snd x.
Definition bad (N : nat) (w : pw) : Prop := badf N (flags w).

Lemma fle_refl x : fle x x. Proof. unfold fle; auto. Qed.
Lemma bad_le N w w' : fle (flags w) (flags w') -> bad N w -> bad N w'.
Proof. unfold bad, badf, fle. intros (A & B & C) [H|[H|H]]; auto. right; right; lia. Qed.

Lemma fl_add_diags w d : flags (add_diags w d) = flags w. Proof. reflexivity. Qed.
Lemma fl_add_cb w e : flags (add_cb w e) = flags w. Proof. reflexivity. Qed.
Lemma fl_set_cnt w n : flags (set_cnt w n) = flags w. Proof. reflexivity. Qed.
Lemma fl_set_nextptr w n : flags (set_nextptr w n) = flags w. Proof. reflexivity. Qed.
Lemma fl_set_open w n : flags (set_open w n) = flags w. Proof. reflexivity. Qed.
Lemma fl_scan_end w : flags (upd_lex w (scan_end (w_lex w))) = flags w. Proof. reflexivity. Qed.
Lemma fl_log_frees ids : forall w, flags (log_frees w ids) = flags w.
Proof. unfold log_frees. induction ids as [|i ids IH]; intro w; [reflexivity|]. cbn [fold_left]. rewrite IH. reflexivity. Qed.
Lemma fl_tick w : flags (fst (tick w)) = flags w. Proof. reflexivity. Qed.
Lemma fl_run_validcb w o : flags (fst (run_validcb w o)) = flags w.
Proof. unfold run_validcb. destruct (cb_valid (o_cbs o)); reflexivity. Qed.
Lemma fl_run_parsecb w k o v : flags (fst (run_parsecb w k o v)) = flags w. Proof. reflexivity. Qed.
Lemma fl_handle_deprecated w c r : flags (fst (handle_deprecated w c r)) = flags w.
Proof.
  unfold handle_deprecated. destruct (get_opt c r) as [o|]; [|reflexivity].
  destruct (oflag o CFGF_DEPRECATED); [|reflexivity]. destruct (oflag o CFGF_DROP); [|reflexivity].
  destruct (free_value o) as [o1 fr]. unfold fst. rewrite fl_log_frees. reflexivity.
Qed.
Lemma fle_lexer_include w c a : fle (flags w) (flags (fst (fst (lexer_include w c a)))).
Proof.
  rewrite lexer_include_unfold. destruct (Nat.leb _ _); [apply fle_refl|].
  destruct (include_name w a); [|apply fle_refl]. destruct (open_input _ _); [|apply fle_refl].
  unfold fle, flags. cbn. auto.
Qed.

Lemma bad_set_crash N w k : bad N w -> bad N (set_crash w k).
Proof.
  apply bad_le. unfold fle, flags, set_crash. cbn [fst snd w_oof w_crash w_lex]. split; [auto|]. split; [|auto].
  destruct (w_crash w); [discriminate|intros H; contradiction H; reflexivity].
Qed.
Lemma bad_set_crash_now N w k : bad N (set_crash w k).
Proof. unfold bad, badf, flags, set_crash. cbn [fst snd w_oof w_crash]. right; left. destruct (w_crash w); discriminate. Qed.
Lemma bad_set_oof N w : bad N (set_oof w).
Proof. left. reflexivity. Qed.
Lemma bad_flags N w w' : flags w' = flags w -> bad N w -> bad N w'.
Proof. unfold bad. intros ->. auto. Qed.

Lemma next_token_next fl w c : l_next (w_lex (fst (fst (fst (next_token fl w c))))) = l_next (w_lex w).
Proof. rewrite next_token_lex. apply yylex_next. Qed.

Lemma bad_next_token N fl w c : bad N w -> bad N (fst (fst (fst (next_token fl w c)))).
Proof.
  apply bad_le. pose proof (next_token_next fl w c) as Hn. revert Hn. unfold next_token. cbv zeta.
  unfold fle, flags. destruct (r_fuel_out _); destruct (c_err c); cbn [fst snd w_oof w_crash w_lex set_open upd_lex add_diags set_oof];
    intros ->; auto.
Qed.

Ltac fl_norm :=
  repeat (rewrite ?fl_add_diags, ?fl_add_cb, ?fl_set_cnt, ?fl_set_nextptr, ?fl_set_open, ?fl_log_frees, ?fl_scan_end).

(* P-closure, copied in shape from BalanceProofs.closed_all *)
Section BadMono.
Variable strtod_o : str -> strtod_res.
Variable N : nat.
Notation bad := (bad N).

Ltac bleaf :=
  lazymatch goal with
  | |- IncludeSim.bad _ (set_crash _ _) => apply bad_set_crash_now
  | |- IncludeSim.bad _ (set_oof _) => apply bad_set_oof
  | |- IncludeSim.bad _ _ => unfold IncludeSim.bad in *; fl_norm; assumption
  end.

Section Bodies.
Variable so : pw -> cfg -> opt -> option str -> pw * opt * option nat.
Variable pi : pw -> cfg -> nat -> pst -> pw * cfg * prc.
Variable initd : pw -> cfg -> pw * cfg.
Hypothesis Hso : forall w c o txt, bad w -> bad (fst (fst (so w c o txt))).
Hypothesis Hpi : forall w c l p, bad w -> bad (fst (fst (pi w c l p))).
Hypothesis Hid : forall w c, bad w -> bad (fst (initd w c)).

Lemma id_loop_bad todo : forall i w c, bad w -> bad (fst (HdrProofs.id_loop so pi todo i w c)).
Proof.
  induction todo as [|x todo IH]; intros i w c HP; [exact HP|].
  cbn [HdrProofs.id_loop]. fold (HdrProofs.id_loop so pi).
  destruct (nth_error (c_opts c) i) as [o|]; [|exact HP].
  cbv zeta.
  match goal with |- context [if ?d then add_diags w ?x else w] =>
    assert (HP1 : bad (if d then add_diags w x else w)) by (destruct d; [apply (bad_flags N w); [reflexivity|]|]; exact HP);
    revert HP1; generalize (if d then add_diags w x else w) end.
  intros w1 HP1.
  destruct (oflag o CFGF_NODEFAULT); [apply IH; exact HP1|].
  destruct (negb (kind_eqb (o_kind o) KSec)).
  - destruct (oflag (o_setf o CFGF_DEFINIT) CFGF_LIST || _).
    + destruct (d_parsed (o_def (o_setf o CFGF_DEFINIT))) as [[|b buf]|].
      * apply IH; exact HP1.
      * match goal with |- context [pi ?a ?b ?c ?d] =>
          assert (H2 : bad (fst (fst (pi a b c d)))) by
            (apply Hpi; revert HP1; apply bad_le; unfold fle, flags; cbn; auto);
          destruct (pi a b c d) as [[w2 c2] rc] end.
        unfold fst in H2.
        destruct rc; try (apply IH; apply (bad_flags N w2); [reflexivity|exact H2]). unfold fst. apply bad_set_crash_now.
      * apply IH; exact HP1.
    + apply IH; exact HP1.
  - destruct (negb (oflag o CFGF_MULTI)); [|apply IH; exact HP1].
    assert (H2 := Hso w1 c o None HP1). destruct (so w1 c o None) as [[w2 o1] res]. apply IH. exact H2.
Qed.

Ltac sstep :=
  first
  [ lazymatch goal with
    | |- bad (fst (fst (ApiProofs.so_store _ _ _ _))) => unfold ApiProofs.so_store, fst; bleaf
    | |- bad (fst (fst (_, _, _))) => unfold fst; bleaf
    end
  | match goal with
    | |- context [match run_parsecb ?w ?k ?o ?t with _ => _ end] =>
        let H := fresh "HP" in
        assert (H : bad (fst (run_parsecb w k o t))) by (apply (bad_flags N w); [apply fl_run_parsecb|bleaf]);
        destruct (run_parsecb w k o t) as [? ?]; unfold fst in H
    | |- context [match initd ?w ?c with _ => _ end] =>
        let H := fresh "HP" in
        assert (H : bad (fst (initd w c))) by (apply Hid; bleaf);
        destruct (initd w c) as [? ?]; unfold fst in H
    end
  | match goal with
    | |- context [match ?x with _ => _ end] => destr_inner x
    end ].

Lemma so_conv_bad c w1 o1 idx txt : bad w1 -> bad (fst (fst (ApiProofs.so_conv strtod_o initd c w1 o1 idx txt))).
Proof. intro HP. unfold ApiProofs.so_conv. cbv beta zeta. repeat sstep. Qed.

Lemma so_slot_fl c w0 o0 txt w1 o1 idx : ApiProofs.so_slot c w0 o0 txt = Some (w1, o1, idx) -> bad w0 -> bad w1.
Proof.
  unfold ApiProofs.so_slot. cbv zeta.
  repeat match goal with |- context [match ?x with _ => _ end] => destruct x end;
  intro H; try discriminate H; injection H as <- _ _; auto. intros; apply bad_set_crash_now.
Qed.

Lemma so_body_bad w c o txt : bad w -> bad (fst (fst (ApiProofs.so_body strtod_o initd w c o txt))).
Proof.
  intro HP. unfold ApiProofs.so_body.
  assert (R : bad (fst (ApiProofs.so_reset w o))).
  { unfold ApiProofs.so_reset. destruct (oflag o CFGF_RESET); [|exact HP]. destruct (free_value o) as [x fr]. unfold fst.
    apply (bad_flags N w); [apply fl_log_frees|exact HP]. }
  destruct (ApiProofs.so_reset w o) as [w0 o0]. unfold fst in R.
  destruct (ApiProofs.so_slot c w0 o0 txt) as [[[w1 o1] idx]|] eqn:S.
  - apply so_conv_bad. exact (so_slot_fl _ _ _ _ _ _ _ S R).
  - cbv zeta. match goal with |- context [if ?d then _ else _] => destruct d end; unfold fst; bleaf.
Qed.

Ltac pstep :=
  first
  [ lazymatch goal with
    | |- bad (fst (fst (pi _ _ _ _))) => apply Hpi; bleaf
    | |- bad (fst (fst (_, _, _))) => unfold fst; bleaf
    end
  | match goal with
    | |- context [match handle_deprecated ?w ?c ?r with _ => _ end] =>
        let H := fresh "HP" in
        assert (H : bad (fst (handle_deprecated w c r))) by (apply (bad_flags N w); [apply fl_handle_deprecated|bleaf]);
        destruct (handle_deprecated w c r) as [? ?]; unfold fst in H
    | |- context [match lexer_include ?w ?c ?a with _ => _ end] =>
        let H := fresh "HP" in
        assert (H : bad (fst (fst (lexer_include w c a)))) by (apply (bad_le N w); [apply fle_lexer_include|bleaf]);
        destruct (lexer_include w c a) as [[? ?] ?]; unfold fst in H
    | |- context [match so ?w ?c ?o ?t with _ => _ end] =>
        let H := fresh "HP" in
        assert (H : bad (fst (fst (so w c o t)))) by (apply Hso; bleaf);
        destruct (so w c o t) as [[? ?] ?]; unfold fst in H
    | |- context [match pi ?w ?c ?l ?q with _ => _ end] =>
        let H := fresh "HP" in
        assert (H : bad (fst (fst (pi w c l q)))) by (apply Hpi; bleaf);
        destruct (pi w c l q) as [[? ?] ?]; unfold fst in H
    | |- context [match run_validcb ?w ?o with _ => _ end] =>
        let H := fresh "HP" in
        assert (H : bad (fst (run_validcb w o))) by (apply (bad_flags N w); [apply fl_run_validcb|bleaf]);
        destruct (run_validcb w o) as [? ?]; unfold fst in H
    | |- context [match tick ?w with _ => _ end] =>
        let H := fresh "HP" in
        assert (H : bad (fst (tick w))) by (apply (bad_flags N w); [apply fl_tick|bleaf]);
        destruct (tick w) as [? ?]; unfold fst in H
    end
  | match goal with
    | |- context [match ?x with _ => _ end] => destr_inner x
    end ].

Lemma pi_body_bad fl w c level p : bad w -> bad (fst (fst (HdrProofs.pi_body so pi fl w c level p))).
Proof.
  intros HP. unfold HdrProofs.pi_body.
  pose proof (bad_next_token N fl w c HP) as NT.
  destruct (next_token fl w c) as [[[w1 c1] t] yylval]. unfold fst in NT.
  cbv beta zeta. clear HP.
  destruct (s_opt p) as [r0|].
  all: repeat pstep.
Qed.
End Bodies.

Theorem bad_mono fuel :
  (forall w c o txt, bad w -> bad (fst (fst (setopt strtod_o fuel w c o txt)))) /\
  (forall w c, bad w -> bad (fst (init_defaults strtod_o fuel w c))) /\
  (forall w c l p, bad w -> bad (fst (fst (parse_internal strtod_o fuel w c l p)))).
Proof.
  induction fuel as [|fuel (IHs & IHi & IHp)].
  - split; [|split]; intros; apply bad_set_oof.
  - split; [|split]; intros.
    + rewrite ApiProofs.setopt_S. apply so_body_bad; [exact IHi|assumption].
    + rewrite init_defaults_S. apply id_loop_bad; [exact IHs|exact IHp|assumption].
    + rewrite parse_internal_S. apply pi_body_bad; [exact IHs|exact IHp|assumption].
Qed.
End BadMono.

(* ================================================================== *)
(* 3. diagnostics up to positions; the path resolver                    *)
(* ================================================================== *)
Notation fm := (map d_fmt).

Lemma fm_cfg_diag c m : fm (cfg_diag c m) = if c_err c then [M m] else [].
Proof. unfold cfg_diag. destruct (c_err c); reflexivity. Qed.

Lemma fm_cfg_diag_eq c1 c2 m : c_err c1 = c_err c2 -> fm (cfg_diag c1 m) = fm (cfg_diag c2 m).
Proof. intros H. rewrite !fm_cfg_diag, H. reflexivity. Qed.

Local Opaque strtol.

Lemma finish_dfmt root1 root2 sec1 sec2 steps last index name :
  obs_c sec1 = obs_c sec2 -> c_err root1 = c_err root2 -> c_flags root1 = c_flags root2 ->
  fm (rs_diags (finish_r root1 sec1 steps false last index name)) = fm (rs_diags (finish_r root2 sec2 steps false last index name)).
Proof.
  intros H He Hf. unfold finish_r, cflag. rewrite Hf. destruct name as [|c n].
  - cbn [rs_diags]. destruct (has (c_flags root2) CFGF_IGNORE_UNKNOWN); [reflexivity|apply fm_cfg_diag_eq, He].
  - rewrite (getopt_leaf_obs sec1 sec2 (c :: n) H). destruct (getopt_leaf sec2 (c :: n)); [reflexivity|].
    cbn [rs_diags]. pose proof (cflag_obs sec1 sec2 CFGF_KEYSTRVAL H) as Hk. unfold cflag in Hk. rewrite Hk.
    destruct (_ && _); [apply fm_cfg_diag_eq, He|reflexivity].
Qed.

Lemma mdiag_dfmt root1 root2 sec1 sec2 oi title :
  obs_c sec1 = obs_c sec2 -> c_err root1 = c_err root2 -> c_flags root1 = c_flags root2 ->
  fm (mdiag root1 sec1 oi title) = fm (mdiag root2 sec2 oi title).
Proof.
  intros H He Hf. unfold mdiag, cflag. rewrite Hf.
  destruct (has (c_flags root2) CFGF_IGNORE_UNKNOWN); [reflexivity|].
  destruct oi as [k|].
  - pose proof (nth_opts_obs sec1 sec2 k H) as Hk.
    destruct (nth_error (c_opts sec1) k) as [o|], (nth_error (c_opts sec2) k) as [o'|]; try contradiction; [|reflexivity].
    rewrite (obs_o_oflag o o' CFGF_MULTI Hk eq_refl).
    destruct (negb (oflag o' CFGF_MULTI)); [apply fm_cfg_diag_eq, He|]. destruct title; apply fm_cfg_diag_eq, He.
  - destruct title; apply fm_cfg_diag_eq, He.
Qed.

Lemma secidx_loop_dfmt : forall fuel root1 root2 sec1 sec2 steps name last index,
  obs_c sec1 = obs_c sec2 -> c_err root1 = c_err root2 -> c_flags root1 = c_flags root2 ->
  fm (rs_diags (secidx_loop fuel root1 sec1 steps name false last index)) =
  fm (rs_diags (secidx_loop fuel root2 sec2 steps name false last index)).
Proof.
  induction fuel as [|fuel IH]; intros root1 root2 sec1 sec2 steps name last index H He Hf; [reflexivity|].
  rewrite !secidx_loop_eq.
  destruct name as [|c n]; [apply finish_dfmt; assumption|].
  cbv beta iota zeta. set (nm := c :: n). set (len := strcspn nm is_bar_eq).
  destruct (negb false && match skipn len nm with [] => true | _ :: _ => false end); [apply finish_dfmt; assumption|].
  destruct (Nat.eqb len 0).
  { cbn [rs_diags]. unfold cflag. rewrite Hf. destruct (has (c_flags root2) CFGF_IGNORE_UNKNOWN); [reflexivity|apply fm_cfg_diag_eq, He]. }
  rewrite (mtuple_obs sec1 sec2 nm len (skipn len nm) (firstn len nm) H).
  destruct (mtuple sec2 nm len (skipn len nm) (firstn len nm)) as [[[[oi i] title] name1] len1].
  pose proof (msec_obs sec1 sec2 oi i H) as Hm.
  destruct (msec sec1 oi i) as [[[k v] s]|], (msec sec2 oi i) as [[[k' v'] s']|]; try contradiction.
  - destruct Hm as (-> & -> & Hs).
    destruct (_ || _).
    + cbn [rs_diags]. unfold cflag. rewrite Hf. destruct (has (c_flags root2) CFGF_IGNORE_UNKNOWN); [reflexivity|apply fm_cfg_diag_eq, He].
    + apply IH; assumption.
  - cbn [rs_diags]. apply mdiag_dfmt; assumption.
Qed.

Lemma cfg_getopt_ec c1 c2 name : ec c1 = ec c2 ->
  fst (cfg_getopt c1 name) = fst (cfg_getopt c2 name) /\ fm (snd (cfg_getopt c1 name)) = fm (snd (cfg_getopt c2 name)).
Proof.
  intros H. split; [apply getopt_obs, ec_obs, H|].
  unfold cfg_getopt, getopt_secidx. cbn [snd]. destruct name as [|c n]; [reflexivity|].
  apply secidx_loop_dfmt; [apply ec_obs, H|apply ec_err, H|apply ec_flags, H].
Qed.


(* ================================================================== *)
(* 3b. more tree operations up to positions                             *)
(* ================================================================== *)
Lemma ec_sec_prep c s : ec (sec_prep c s) = set_err (ec s) (c_err c).
Proof.
  unfold sec_prep. cbv zeta.
  destruct (c_file c) as [fn|]; [|rewrite ec_set_err, ec_set_line; reflexivity].
  destruct (c_file (set_err (set_line s (c_line c)) (c_err c))) as [sf|].
  - destruct (str_eqb sf fn); rewrite ?ec_set_file, ec_set_err, ec_set_line; reflexivity.
  - rewrite ec_set_file, ec_set_err, ec_set_line. reflexivity.
Qed.
Lemma C_sec_prep c1 c2 s1 s2 : ec c1 = ec c2 -> ec s1 = ec s2 -> ec (sec_prep c1 s1) = ec (sec_prep c2 s2).
Proof. intros H1 H2. rewrite !ec_sec_prep, H2, (ec_err _ _ H1). reflexivity. Qed.

Lemma map_ev_store l i v : map ev (upd_nth l i (fun _ => v)) = upd_nth (map ev l) i (fun _ => ev v).
Proof. apply map_upd_nth. reflexivity. Qed.
Lemma E_store o1 o2 i v1 v2 : eo o1 = eo o2 -> ev v1 = ev v2 ->
  eo (set_vals o1 (upd_nth (o_vals o1) i (fun _ => v1))) = eo (set_vals o2 (upd_nth (o_vals o2) i (fun _ => v2))).
Proof. intros H1 H2. apply E_set_vals; [exact H1|]. rewrite !map_ev_store, (eo_vals _ _ H1), H2. reflexivity. Qed.
Lemma ev_sec s1 s2 : ec s1 = ec s2 -> ev (VSec (Some s1)) = ev (VSec (Some s2)).
Proof. intros H. cbn [ev]. rewrite H. reflexivity. Qed.

Lemma C_addopt c1 c2 o : ec c1 = ec c2 -> ec (set_opts c1 (c_opts c1 ++ [o])) = ec (set_opts c2 (c_opts c2 ++ [o])).
Proof. intros H. apply C_set_opts; [exact H|]. rewrite !map_app, (ec_opts _ _ H). reflexivity. Qed.

Lemma c_title_ec s : c_title (ec s) = c_title s. Proof. destruct s; reflexivity. Qed.

Lemma title_look_ev nocase txt : forall l1 l2 i, map ev l1 = map ev l2 -> title_look nocase txt l1 i = title_look nocase txt l2 i.
Proof.
  induction l1 as [|v1 l1 IH]; intros [|v2 l2] i H; cbn [map] in H; try discriminate; [reflexivity|].
  injection H as Hv Hl. specialize (IH l2 (S i) Hl).
  destruct v1 as [| | | |[s1|]|], v2 as [| | | |[s2|]|]; cbn [ev] in Hv; try discriminate; cbn [title_look]; try reflexivity.
  injection Hv as Hs. rewrite <- (c_title_ec s1), Hs, c_title_ec.
  destruct (c_title s2) as [tt|]; [|reflexivity]. destruct txt as [tx|]; [|reflexivity].
  destruct (name_eqb nocase tx tt); [reflexivity|exact IH].
Qed.
Lemma title_look_eo nocase txt o1 o2 i : eo o1 = eo o2 -> title_look nocase txt (o_vals o1) i = title_look nocase txt (o_vals o2) i.
Proof. intros H. apply title_look_ev, eo_vals, H. Qed.

Definition existing_sec (o : opt) (idx : nat) : option cfg :=
  match nth_error (o_vals o) idx with Some (VSec (Some s)) => Some s | _ => None end.
Lemma existing_rel o1 o2 idx : eo o1 = eo o2 -> orel (fun s1 s2 => ec s1 = ec s2) (existing_sec o1 idx) (existing_sec o2 idx).
Proof.
  intros H. unfold existing_sec. pose proof (nth_vals_rel o1 o2 idx H) as Hv.
  destruct (nth_error (o_vals o1) idx) as [v1|], (nth_error (o_vals o2) idx) as [v2|]; cbn [orel] in Hv; try contradiction; [|exact I].
  destruct v1 as [| | | |[s1|]|], v2 as [| | | |[s2|]|]; cbn [ev] in Hv; try discriminate; cbn [orel]; auto.
  injection Hv; auto.
Qed.

Definition old_ptr (o : opt) (idx : nat) : option N :=
  match nth_error (o_vals o) idx with Some (VPtr old) => Some old | _ => None end.
Lemma old_ptr_eo o1 o2 idx : eo o1 = eo o2 -> old_ptr o1 idx = old_ptr o2 idx.
Proof.
  intros H. unfold old_ptr. pose proof (nth_vals_rel o1 o2 idx H) as Hv.
  destruct (nth_error (o_vals o1) idx) as [v1|], (nth_error (o_vals o2) idx) as [v2|]; cbn [orel] in Hv; try contradiction; [|reflexivity].
  destruct v1 as [| | | |[s1|]|], v2 as [| | | |[s2|]|]; cbn [ev] in Hv; try discriminate; try reflexivity. injection Hv as ->. reflexivity.
Qed.

(* cfg_opt_getval at index 0 *)
Lemma E_opt_getval0 o1 o2 : eo o1 = eo o2 ->
  match opt_getval o1 0, opt_getval o2 0 with
  | Some (a1, i1, f1), Some (a2, i2, f2) => eo a1 = eo a2 /\ i1 = i2 /\ f1 = f2
  | None, None => True
  | _, _ => False
  end.
Proof.
  intros H. unfold opt_getval. cbn [N.eqb negb andb].
  rewrite (eo_oflag _ _ CFGF_RESET H).
  destruct (oflag o2 CFGF_RESET).
  - destruct (E_free_value o1 o2 H) as [A B].
    destruct (free_value o1) as [x1 f1], (free_value o2) as [x2 f2]. cbn [fst snd] in A, B. subst f2.
    rewrite (eo_vlen _ _ (E_clrf _ _ CFGF_RESET A)).
    destruct (N.of_nat (length (o_vals (o_clrf x2 CFGF_RESET))) <=? 0)%N.
    + split; [apply E_addval, E_clrf, A|auto].
    + split; [apply E_clrf, A|auto].
  - rewrite (eo_vlen _ _ H). destruct (N.of_nat (length (o_vals o2)) <=? 0)%N.
    + split; [apply E_addval, H|auto].
    + auto.
Qed.

Lemma E_id_setn o1 o2 v1 v2 : eo o1 = eo o2 -> ev v1 = ev v2 -> eo (id_setn o1 v1) = eo (id_setn o2 v2).
Proof.
  intros H Hv. unfold id_setn. pose proof (E_opt_getval0 o1 o2 H) as G.
  destruct (opt_getval o1 0) as [[[a1 i1] f1]|], (opt_getval o2 0) as [[[a2 i2] f2]|]; try contradiction; [|exact H].
  destruct G as (A & -> & _). apply E_setf, E_store; assumption.
Qed.

Lemma E_id_scalar o1 o2 : eo o1 = eo o2 -> eo (id_scalar o1) = eo (id_scalar o2).
Proof.
  intros H. unfold id_scalar. cbv zeta. apply E_clrf, E_setf. rewrite (eo_kind _ _ H), (eo_def _ _ H).
  destruct (o_kind o2); try exact H; apply E_id_setn; auto.
Qed.

Lemma existsb_ext' {A} (g h : A -> bool) l : (forall x, g x = h x) -> existsb g l = existsb h l.
Proof. intros H. induction l as [|x l IH]; cbn; [reflexivity|]. rewrite H, IH. reflexivity. Qed.

Lemma id_dup_ec c1 c2 o1 o2 i : ec c1 = ec c2 -> eo o1 = eo o2 -> id_dup c1 o1 i = id_dup c2 o2 i.
Proof.
  intros HC HE. unfold id_dup. apply existsb_ext'. intros j.
  pose proof (nth_opts_rel c1 c2 j HC) as Hj.
  destruct (nth_error (c_opts c1) j) as [a|], (nth_error (c_opts c2) j) as [b|]; cbn [orel] in Hj; try contradiction; [|reflexivity].
  rewrite (eo_flags _ _ HE), (eo_flags _ _ Hj), (eo_name _ _ HE), (eo_name _ _ Hj). reflexivity.
Qed.

Lemma eo_upd_reset o : eo (o_clrf (o_setf o CFGF_RESET) CFGF_MODIFIED) = o_clrf (o_setf (eo o) CFGF_RESET) CFGF_MODIFIED.
Proof. rewrite eo_clrf, eo_setf. reflexivity. Qed.
