(* PP_InvLemmas.v — C01: the invariant along option references (get / put), the deprecated handler. *)
From Coq Require String.
From Coq Require Import List Arith NArith ZArith Bool Lia.
From Coq.Strings Require Import Byte.
From LC Require Import Bytes Consts Conv Flex LexAct Lexer LexLemmas LexAll Files Store Parser Grammar
  PP_Base PP_Step PP_Tok PP_Setopt PP_Inv PP_Machine PP_Default PP_Inst.
Import ListNotations.

Lemma invO_is_sec_parts sc k o : invO sc k o = true -> is_sec (o_kind o) = true ->
  exists k', k = S k' /\ forallb (tmplO sc k') (o_sub o) = true /\ forallb (vok sc k' o) (o_vals o) = true.
Proof. intros H K. apply invO_sec_parts; auto. destruct (o_kind o); try discriminate; reflexivity. Qed.

Lemma invO_plain sc k o : invO sc k o = true -> is_sec (o_kind o) = false -> forallb plainv (o_vals o) = true.
Proof. intros H K. destruct k; cbn [invO] in H; rewrite K in H; apply andb_prop in H as [_ H]; exact H. Qed.

(* one section step keeps the invariant, one level down *)
Lemma inv_step sc k c i v o s :
  invC sc k c = true -> nth_error (c_opts c) i = Some o -> nth_sec o v = Some s ->
  exists k', k = S k' /\ o_kind o = KSec /\ invC sc k' s = true.
Proof.
  intros H Hi Hv. unfold invC in H. pose proof (forallb_nth_error _ _ _ _ H Hi) as IO.
  unfold nth_sec in Hv. destruct (nth_error (o_vals o) v) as [[| | | |[s'|]|]|] eqn:E; try discriminate. injection Hv as ->.
  destruct (is_sec (o_kind o)) eqn:K.
  - destruct (invO_is_sec_parts _ _ _ IO K) as (k' & -> & TS & VS). exists k'. split; [reflexivity|].
    split; [destruct (o_kind o); try discriminate; reflexivity|].
    pose proof (forallb_nth_error _ _ _ _ VS E) as V. unfold vok in V. apply andb_prop in V as [_ V]. exact V.
  - pose proof (invO_plain _ _ _ IO K) as P. pose proof (forallb_nth_error _ _ _ _ P E) as V. discriminate.
Qed.

Lemma inv_get_sec sc : forall steps k c s, invC sc k c = true -> get_sec c steps = Some s ->
  length steps <= k /\ invC sc (k - length steps) s = true.
Proof.
  induction steps as [|[i v] r IH]; intros k c s H G; cbn [get_sec length] in *.
  - injection G as <-. rewrite Nat.sub_0_r. split; [lia|exact H].
  - destruct (nth_error (c_opts c) i) as [o|] eqn:Hi; [|discriminate].
    destruct (nth_sec o v) as [s0|] eqn:Hv; [|discriminate].
    destruct (inv_step _ _ _ _ _ _ _ H Hi Hv) as (k' & -> & _ & I0).
    destruct (IH k' s0 s I0 G) as (L & I). split; [lia|]. cbn [Nat.sub]. exact I.
Qed.

Lemma inv_get sc k c steps i o : invC sc k c = true -> get_opt c (steps, i) = Some o ->
  length steps <= k /\ invO sc (k - length steps) o = true.
Proof.
  unfold get_opt. cbn [fst snd]. intros H G. destruct (get_sec c steps) as [s|] eqn:GS; [|discriminate].
  destruct (inv_get_sec _ _ _ _ _ H GS) as (L & I). split; [exact L|]. eapply forallb_nth_error; eauto.
Qed.

Lemma c_title_upd_sec steps s g : (forall x, c_title (g x) = c_title x) -> c_title (upd_sec s steps g) = c_title s.
Proof. intros H. destruct steps as [|[i v] r]; cbn [upd_sec]; [apply H|destruct s; reflexivity]. Qed.

Lemma title_ok_set_vals o v s : title_ok (set_vals o v) s = title_ok o s.
Proof. unfold title_ok. rewrite !oflag_set_vals. reflexivity. Qed.

Lemma base_ok_set_vals o v : base_ok (set_vals o v) = base_ok o.
Proof. unfold base_ok. rewrite o_kind_set_vals, o_cbs_set_vals, !oflag_set_vals. reflexivity. Qed.

Lemma inv_upd_sec sc : forall steps k c g, invC sc k c = true -> (forall x, c_title (g x) = c_title x) ->
  (forall s, get_sec c steps = Some s -> invC sc (k - length steps) s = true -> invC sc (k - length steps) (g s) = true) ->
  invC sc k (upd_sec c steps g) = true.
Proof.
  induction steps as [|[i v] r IH]; intros k c g H T G; cbn [upd_sec length get_sec] in *.
  - rewrite Nat.sub_0_r in G. apply G; auto.
  - unfold invC. rewrite c_opts_set_opts. apply forallb_upd_nth; [exact H|]. intros o Hi.
    unfold invC in H. pose proof (forallb_nth_error _ _ _ _ H Hi) as IO. rewrite Hi in G.
    destruct (is_sec (o_kind o)) eqn:K.
    + destruct (invO_is_sec_parts _ _ _ IO K) as (k' & -> & TS & VS).
      apply invO_sec.
      * rewrite base_ok_set_vals. eapply invO_base; eauto.
      * rewrite o_kind_set_vals. exact K.
      * rewrite o_sub_set_vals. exact TS.
      * rewrite o_vals_set_vals. fold (vok sc k' (set_vals o (upd_nth (o_vals o) v
          (fun x => match x with VSec (Some s) => VSec (Some (upd_sec s r g)) | _ => x end)))).
        apply forallb_upd_nth.
        -- rewrite (forallb_ext' _ (vok sc k' o)); [exact VS|]. intros y. apply vok_shape. apply shape_set_vals.
        -- intros x Hx. pose proof (forallb_nth_error _ _ _ _ VS Hx) as V. unfold vok in V |- *.
           destruct x as [| | | |[s|]|]; try discriminate. apply andb_prop in V as [V1 V2].
           rewrite title_ok_set_vals. unfold title_ok in *. rewrite (c_title_upd_sec r s g T), V1. cbn [andb].
           apply (IH k' s g V2 T). intros s' GS' I'. cbn [Nat.sub] in G. apply G; auto.
           unfold nth_sec. rewrite Hx. exact GS'.
    + pose proof (invO_plain _ _ _ IO K) as P. apply invO_nonsec.
      * rewrite base_ok_set_vals. eapply invO_base; eauto.
      * rewrite o_kind_set_vals. exact K.
      * rewrite o_vals_set_vals. apply forallb_upd_nth; [exact P|]. intros x Hx.
        pose proof (forallb_nth_error _ _ _ _ P Hx) as V. destruct x as [| | | |[s|]|]; try discriminate; reflexivity.
Qed.

Lemma inv_put sc k c steps i o0 o : invC sc k c = true -> get_opt c (steps, i) = Some o0 ->
  invO sc (k - length steps) o = true -> invC sc k (put_opt c (steps, i) o) = true.
Proof.
  intros H G IO. unfold put_opt, upd_opt. cbn [fst snd]. apply inv_upd_sec; [exact H|intros x; destruct x; reflexivity|].
  intros s GS I. unfold invC. rewrite c_opts_set_opts. apply forallb_upd_nth; [exact I|]. intros; exact IO.
Qed.

Lemma after_item_eq o : after_item o = if dropped o then set_vals o [] else o.
Proof. reflexivity. Qed.

Lemma obs_free_value o : obs_o (fst (free_value o)) = obs_o (set_vals o []).
Proof.
  apply obs_o_split. destruct (free_value_props o) as (V & S & _). rewrite V, S, shape_set_vals, o_vals_set_vals. auto.
Qed.

(* after an item that left option o' at r: handling the deprecation = the SPEC's after_item *)
Lemma obs_depc c r o : get_opt c r = Some o -> obs_c (depc c (Some r)) = obs_c (put_opt c r (after_item o)).
Proof.
  intros G. unfold depc. rewrite G, after_item_eq. destruct (dropped o).
  - rewrite !obs_put, obs_free_value. reflexivity.
  - rewrite (put_same c r o G). reflexivity.
Qed.

Lemma invO_free_value sc k o : invO sc k o = true -> invO sc k (fst (free_value o)) = true.
Proof.
  intros H. destruct (free_value_props o) as (V & S & F).
  assert (B : base_ok (fst (free_value o)) = true).
  { rewrite (base_ok_shape _ o S); [eapply invO_base; eauto|]. left. apply F. }
  destruct (is_sec (o_kind o)) eqn:K.
  - destruct (invO_is_sec_parts _ _ _ H K) as (k' & -> & TS & VS). apply invO_sec; auto.
    + rewrite (shape_kind _ _ S). exact K.
    + rewrite (shape_sub _ _ S). exact TS.
    + rewrite V. reflexivity.
  - apply invO_nonsec; auto. rewrite (shape_kind _ _ S). exact K. rewrite V. reflexivity.
Qed.

Lemma inv_depc sc k c ro : invC sc k c = true -> invC sc k (depc c ro) = true.
Proof.
  intros H. unfold depc. destruct ro as [[steps i]|]; [|exact H].
  destruct (get_opt c (steps, i)) as [o|] eqn:G; [|exact H]. destruct (dropped o); [|exact H].
  destruct (inv_get _ _ _ _ _ _ H G) as (L & IO). eapply inv_put; eauto. apply invO_free_value, IO.
Qed.

Lemma depc_idem c ro : obs_c (depc (depc c ro) ro) = obs_c (depc c ro).
Proof.
  destruct ro as [r|]; [|reflexivity]. unfold depc at 2 3. destruct (get_opt c r) as [o|] eqn:G.
  - destruct (dropped o) eqn:D.
    + unfold depc. rewrite (get_put c r _ o G).
      destruct (free_value_props o) as (V & S & F). rewrite (dropped_shape _ o S), D.
      rewrite put_put, !obs_put. f_equal. rewrite !obs_free_value.
      apply obs_o_split. rewrite !shape_set_vals, !o_vals_set_vals. split; [exact S|reflexivity].
    + unfold depc. rewrite G, D. reflexivity.
  - unfold depc. rewrite G. reflexivity.
Qed.

(* the same, for a reference kept abstract *)
Lemma inv_get' sc k c (r : optref) o : invC sc k c = true -> get_opt c r = Some o ->
  length (fst r) <= k /\ invO sc (k - length (fst r)) o = true.
Proof. destruct r as [steps i]. apply inv_get. Qed.

Lemma inv_put' sc k c (r : optref) o0 o : invC sc k c = true -> get_opt c r = Some o0 ->
  invO sc (k - length (fst r)) o = true -> invC sc k (put_opt c r o) = true.
Proof. destruct r as [steps i]. apply inv_put. Qed.
