(* LexLemmas.v — generic lemmas that turn computed facts about the GENERATED rule
   table into statements about cfg_yylex for inputs of any length. *)
From Coq Require Import List Arith NArith Bool Lia.
From Coq.Strings Require Import Byte.
From LC Require Import Bytes Flex LexAct LexRules Consts Lexer.
Import ListNotations.

(* ---------- running munch over a known prefix ---------- *)
Fixpoint munch_pre (rs : list re) (u : list byte) (n : nat) (best : option (nat * nat))
  : option (list re * nat * option (nat * nat)) :=
  match u with
  | [] => Some (rs, n, best)
  | c :: u' =>
      let rs' := map (deriv c) rs in
      if forallb is_emp rs' then None
      else munch_pre rs' u' (S n) (match first_nullable rs' 0 with Some i => Some (i, S n) | None => best end)
  end.

Lemma munch_pre_app rs u : forall n best V n' b' rest,
  munch_pre rs u n best = Some (V, n', b') -> munch rs (u ++ rest) n best = munch V rest n' b'.
Proof.
  revert rs. induction u as [|c u IH]; intros rs n best V n' b' rest H; cbn [munch_pre] in H.
  - inversion H; subst. reflexivity.
  - cbn [app munch]. destruct (forallb is_emp (map (deriv c) rs)); [discriminate|].
    apply IH. exact H.
Qed.

Definition dies_on (V : list re) (c : byte) : bool := forallb is_emp (map (deriv c) V).

Lemma munch_dies V c rest n best : dies_on V c = true -> munch V (c :: rest) n best = best.
Proof. unfold dies_on. intros H. cbn [munch]. rewrite H. reflexivity. Qed.

(* what follows a unit: end of input, or a byte satisfying F *)
Definition follows (F : byte -> bool) (rest : list byte) : Prop :=
  match rest with [] => True | c :: _ => F c = true end.

(* equality of actions *)
Definition action_eqb (a b : action) : bool :=
  match a, b with
  | A_skip, A_skip | A_line, A_line | A_begin_comment, A_begin_comment | A_qput, A_qput | A_qput_nl, A_qput_nl
  | A_qend_comment, A_qend_comment | A_begin_dq, A_begin_dq | A_begin_sq, A_begin_sq | A_str_end, A_str_end
  | A_env_dq, A_env_dq | A_env_initial, A_env_initial | A_putc_nl_line, A_putc_nl_line | A_octal, A_octal
  | A_bad_escape, A_bad_escape | A_hex, A_hex | A_putc_yy0, A_putc_yy0 | A_putc_yy1, A_putc_yy1
  | A_putc_yy01, A_putc_yy01 | A_put_all, A_put_all | A_word, A_word => true
  | A_qstr x, A_qstr y | A_punct x, A_punct y | A_putc_lit x, A_putc_lit y => (x =? y)%N
  | _, _ => false
  end.

Lemma action_eqb_eq a b : action_eqb a b = true -> a = b.
Proof. destruct a, b; cbn; intros H; try discriminate; try reflexivity; apply N.eqb_eq in H; subst; reflexivity. Qed.

Section Table.
Variable c0 : sc.
Let R := active_res c0.
Let A := active_rules c0.

Definition act_is (j : nat) (a : action) : bool :=
  match nth_error A j with Some r => action_eqb (r_act r) a | None => false end.

(* the unit text u is matched, whole, by a rule whose action is a, whenever F holds of the next byte *)
Definition unit_ok (u : list byte) (a : action) (F : byte -> bool) : bool :=
  match munch_pre R u 0 None with
  | Some (V, _, Some (j, m)) =>
      act_is j a && Nat.eqb m (length u) && forallb (fun c => implb (F c) (dies_on V c)) all_bytes
  | _ => false
  end.

Lemma unit_ok_munch u a F rest :
  unit_ok u a F = true -> follows F rest ->
  exists j r, munch R (u ++ rest) 0 None = Some (j, length u) /\ nth_error A j = Some r /\ r_act r = a.
Proof.
  unfold unit_ok. destruct (munch_pre R u 0 None) as [[[V n'] [[j m]|]]|] eqn:Hp; try discriminate.
  intros H Hf. apply andb_prop in H as [H H3]. apply andb_prop in H as [H1 H2].
  unfold act_is in H1. destruct (nth_error A j) as [r|] eqn:Hr; [|discriminate].
  apply action_eqb_eq in H1. apply Nat.eqb_eq in H2. subst m.
  exists j, r. split; [|split; assumption].
  rewrite (munch_pre_app _ _ _ _ _ _ _ rest Hp).
  destruct rest as [|c rest]; [reflexivity|].
  apply munch_dies. pose proof (sweep _ H3 c) as Hc. cbv beta in Hc. cbn in Hf. rewrite Hf in Hc. exact Hc.
Qed.

(* a stable loop that accepts nothing: the vector is unchanged by K-bytes and has no nullable rule *)
Definition silent_loop (V : list re) (K : byte -> bool) : bool :=
  match first_nullable V 0 with Some _ => false | None => true end &&
  negb (forallb is_emp V) &&
  forallb (fun c => implb (K c) (vec_eqb (map (deriv c) V) V)) all_bytes.

Lemma munch_silent_loop V K : silent_loop V K = true ->
  forall run rest n best, Forall (fun c => K c = true) run ->
  munch V (run ++ rest) n best = munch V rest (n + length run) best.
Proof.
  unfold silent_loop. intros H. apply andb_prop in H as [H H3]. apply andb_prop in H as [H1 H2].
  destruct (first_nullable V 0) eqn:Hfn; [discriminate|]. apply negb_true_iff in H2.
  induction run as [|c run IH]; intros rest n best HK.
  - cbn. rewrite Nat.add_0_r. reflexivity.
  - inversion HK as [|? ? Hc HK']; subst. cbn [app munch].
    pose proof (sweep _ H3 c) as Hs. cbv beta in Hs. rewrite Hc in Hs. cbn in Hs. apply vec_eqb_eq in Hs.
    rewrite Hs, H2, Hfn. rewrite IH by assumption. cbn [length]. f_equal. lia.
Qed.

(* ---------- one step of cfg_yylex on a recognised unit ---------- *)
Lemma yylex_step e fuel st p closed id u rest others j r :
  l_sc st = c0 -> l_bufs st = (id, u ++ rest) :: others ->
  munch R (u ++ rest) 0 None = Some (j, length u) -> nth_error A j = Some r ->
  yylex e (S fuel) st p closed =
  match run_action e (r_act r) u (set_bufs st ((id, rest) :: others)) p with
  | Continue s2 p2 => yylex e fuel s2 p2 closed
  | Return t v s2 p2 d => {| r_tok := t; r_val := v; r_st := s2; r_pos := p2; r_diags := d; r_closed := closed; r_fuel_out := false |}
  end.
Proof.
  intros Hsc Hb Hm Hn. cbn [yylex]. unfold lex_step. rewrite Hb, Hsc. fold R. rewrite Hm. fold A. rewrite Hn.
  rewrite firstn_app, Nat.sub_diag, firstn_all, app_nil_r.
  rewrite skipn_app, Nat.sub_diag, skipn_all. cbn [skipn app].
  destruct (run_action e (r_act r) u (set_bufs st ((id, rest) :: others)) p); reflexivity.
Qed.

End Table.

(* ---------- the scratch buffer ---------- *)
Lemma q_data_qputc q c : q_data (qputc q c) = q_data q ++ [c].
Proof. unfold q_data, qputc. cbn. reflexivity. Qed.

Lemma q_data_qputs s : forall q, q_data (qputs q s) = q_data q ++ s.
Proof.
  unfold qputs. induction s as [|c s IH]; intros q; cbn [fold_left].
  - rewrite app_nil_r. reflexivity.
  - rewrite IH, q_data_qputc, <- app_assoc. reflexivity.
Qed.

(* the index never exceeds the allocated length, and a non-empty buffer is allocated *)
Definition q_inv (q : qbuf) : Prop :=
  (q_idx q <= q_len q)%nat /\ q_idx q = length (q_rev q) /\ (q_null q = true -> q_len q = 0%nat).

Lemma q_inv_empty : q_inv q_empty. Proof. unfold q_inv, q_empty; cbn. repeat split; auto. Qed.

Lemma q_inv_qputc q c : q_inv q -> q_inv (qputc q c).
Proof.
  unfold q_inv, qputc. intros (H1 & H2 & H3). cbn.
  destruct (Nat.leb_spec (q_len q) (q_idx q)).
  - repeat split; [unfold CFG_QSTRING_BUFSIZ in *; lia | lia | discriminate].
  - repeat split; [lia | lia | intros Hn; specialize (H3 Hn); lia].
Qed.

Lemma q_inv_qputs s : forall q, q_inv q -> q_inv (qputs q s).
Proof. unfold qputs. induction s as [|c s IH]; intros q H; cbn [fold_left]; [exact H|]. apply IH, q_inv_qputc, H. Qed.

Lemma q_inv_reset q : q_inv q -> q_inv (q_reset q).
Proof. unfold q_inv, q_reset. intros (H1 & H2 & H3). cbn. repeat split; auto; lia. Qed.
