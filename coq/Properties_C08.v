(* Properties_C08.v — C08: a parse depends only on its own input, not on earlier parses.
   Stated on the scanner bookkeeping of the model (coq/Lexer.v, coq/Parser.v): the flex buffer stack,
   the include stack, the scratch buffer, the pending-read-error flag and the count of FILEs that
   includes opened.  Proofs are in coq/BalanceProofs.v. *)
From Coq Require String.
Import String.StringSyntax.
From Coq Require Import List Arith NArith ZArith Bool.
From Coq.Strings Require Import Byte.
From LC Require Import Bytes Consts Conv Flex LexAct Lexer Files Store Parser ApiProofs BalanceProofs.
Import ListNotations.
Local Open Scope string_scope.
Local Open Scope list_scope.

(* quiescent l := l_bufs l = [] /\ l_inc l = [] /\ l_q l = q_empty /\ l_rderr l = false
   lex_wf l    := every include frame names a buffer id below l_next l
   Bal base inc0 next0 r0 open0 m (l, n) :=
     l_bufs l = tops ++ base, l_inc l = frames ++ inc0, |tops| = |frames| + m, every buffer of tops and every
     frame of frames was created since the start (id >= next0, < l_next l), n = open0 + |frames|,
     frames = [] or |frames ++ inc0| <= MAX_INCLUDE_DEPTH, and the read-error flag is set only if r0.
   m counts the parse's own buffer plus the default-value scans in progress. *)

(* (1) STACK DISCIPLINE.  cfg_setopt, cfg_init_defaults and cfg_parse_internal (with every include, nested
   default-value scan, error exit and fuel exhaustion inside them) never touch the buffers [base] and
   the include frames [inc0] they found, pop exactly what they pushed, and keep the FILE count in step. *)
Theorem C08_stack_discipline :
  forall strtod_o base inc0 next0 r0 open0,
  Forall (fun f => i_buf f < next0) inc0 ->
  forall fuel,
  (forall m w c o txt, Bal base inc0 next0 r0 open0 m (lx w) ->
     Bal base inc0 next0 r0 open0 m (lx (fst (fst (setopt strtod_o fuel w c o txt))))) /\
  (forall m w c, Bal base inc0 next0 r0 open0 m (lx w) ->
     Bal base inc0 next0 r0 open0 m (lx (fst (init_defaults strtod_o fuel w c)))) /\
  (forall m w c l p, 1 <= m -> Bal base inc0 next0 r0 open0 m (lx w) ->
     Bal base inc0 next0 r0 open0 m (lx (fst (fst (parse_internal strtod_o fuel w c l p))))).
Proof. exact stack_discipline. Qed.
Print Assumptions C08_stack_discipline.

(* (2) cfg_parse_fp hands the scanner back exactly as it found it — for every content (Some text, or None:
   a stream that cannot be read), context, fuel and outcome. *)
Theorem C08_parse_restores_scanner :
  forall strtod_o fuel w c content,
  lex_wf (w_lex w) ->
  let w' := fst (fst (parse_fp_gen strtod_o fuel w c content)) in
  l_bufs (w_lex w') = l_bufs (w_lex w) /\
  l_inc (w_lex w') = l_inc (w_lex w) /\
  l_q (w_lex w') = q_empty /\
  w_open w' = w_open w /\
  l_next (w_lex w) <= l_next (w_lex w') /\
  (l_rderr (w_lex w') = true -> content = None).
Proof. exact parse_fp_gen_restores. Qed.
Print Assumptions C08_parse_restores_scanner.

Theorem C08_parse_ends_quiescent :
  forall strtod_o fuel w c content,
  quiescent (w_lex w) -> (content <> None \/ 2 <= fuel) ->
  let '(w', c', rc) := parse_fp_gen strtod_o fuel w c content in
  quiescent (w_lex w') /\ w_open w' = w_open w.
Proof. exact parse_fp_gen_quiescent. Qed.
Print Assumptions C08_parse_ends_quiescent.

(* without the side condition everything but the read-error flag: the only run that leaves the flag set is
   the model run of an unreadable stream with fuel < 2, which stops before the first token is scanned *)
Theorem C08_parse_ends_quiescent_any_fuel :
  forall strtod_o fuel w c content,
  quiescent (w_lex w) ->
  let '(w', c', rc) := parse_fp_gen strtod_o fuel w c content in
  quiescent0 (w_lex w') /\ w_open w' = w_open w.
Proof. exact parse_fp_gen_quiescent0. Qed.
Print Assumptions C08_parse_ends_quiescent_any_fuel.

Theorem C08_parse_fp_ends_quiescent :
  forall strtod_o fuel w c content,
  quiescent (w_lex w) ->
  let '(w', c', rc) := parse_fp strtod_o fuel w c content in
  quiescent (w_lex w') /\ w_open w' = w_open w.
Proof. exact parse_fp_quiescent. Qed.
Print Assumptions C08_parse_fp_ends_quiescent.

Theorem C08_parse_buf_ends_quiescent :
  forall strtod_o fuel w c buf,
  quiescent (w_lex w) ->
  let '(w', c', rc) := parse_buf strtod_o fuel w c buf in
  quiescent (w_lex w') /\ w_open w' = w_open w.
Proof. exact parse_buf_quiescent. Qed.
Print Assumptions C08_parse_buf_ends_quiescent.

Theorem C08_parse_file_ends_quiescent :
  forall strtod_o fuel w c filename,
  quiescent (w_lex w) ->
  let '(w', c', rc) := parse_file strtod_o fuel w c filename in
  quiescent (w_lex w') /\ w_open w' = w_open w.
Proof. exact parse_file_quiescent. Qed.
Print Assumptions C08_parse_file_ends_quiescent.

Theorem C08_initial_state_quiescent : quiescent lex_init.
Proof. exact quiescent_init. Qed.
Print Assumptions C08_initial_state_quiescent.

(* (4) the one thing an abandoned scan leaves behind — the start condition — is overwritten before the
   next parse scans anything: two worlds that differ at most there give the SAME result *)
Theorem C08_history_free :
  forall strtod_o fuel w1 w2 c content,
  world_agree w1 w2 ->
  parse_fp_gen strtod_o fuel w1 c content = parse_fp_gen strtod_o fuel w2 c content.
Proof. exact parse_fp_gen_history_free. Qed.
Print Assumptions C08_history_free.

Theorem C08_history_free_components :
  forall strtod_o fuel w1 w2 c content,
  world_agree w1 w2 ->
  let '(w1', c1', rc1) := parse_fp_gen strtod_o fuel w1 c content in
  let '(w2', c2', rc2) := parse_fp_gen strtod_o fuel w2 c content in
  c1' = c2' /\ rc1 = rc2 /\ world_agree w1' w2'.
Proof. exact parse_fp_gen_history_free'. Qed.
Print Assumptions C08_history_free_components.

Theorem C08_history_free_buf :
  forall strtod_o fuel w1 w2 c buf,
  world_agree w1 w2 ->
  let '(w1', c1', rc1) := parse_buf strtod_o fuel w1 c buf in
  let '(w2', c2', rc2) := parse_buf strtod_o fuel w2 c buf in
  c1' = c2' /\ rc1 = rc2 /\ world_agree w1' w2'.
Proof. exact parse_buf_history_free. Qed.
Print Assumptions C08_history_free_buf.

(* (4b) since cfg_scan_fp_end returns to INITIAL, not even the start condition survives: after ANY parse —
   accepted, rejected inside a string or comment, failed in an included file, out of include depth — the scanner
   is in INITIAL.  This is what a parse that was running a callback when the other parse was started relies on. *)
Theorem C08_parse_ends_in_INITIAL :
  forall strtod_o fuel w c content,
  l_sc (w_lex (fst (fst (parse_fp_gen strtod_o fuel w c content)))) = INITIAL.
Proof.
  intros sd fuel w c content. unfold parse_fp_gen.
  destruct (parse_internal sd fuel _ _ 0 (pst0 0 None)) as [[w2 c3] rc]. reflexivity.
Qed.
Print Assumptions C08_parse_ends_in_INITIAL.

(* (5) cfg_free of the root context resets the scanner *)
Theorem C08_free_resets :
  forall w c, c_name c = M "root" ->
  l_sc (w_lex (cfg_free w c)) = INITIAL /\ l_bufs (w_lex (cfg_free w c)) = [].
Proof. exact cfg_free_resets. Qed.
Print Assumptions C08_free_resets.

(* ---------- examples ---------- *)
Definition B := bs_of_string.
Definition sd := ex_sd.
Definition oi := Opt (B "i") KInt 0 [] [] defv0 None cbset0.
Definition os := Opt (B "s") KStr 0 [] [] defv0 None cbset0.
Definition cbinc : cbset :=
  {| cb_parse := None; cb_valid := None; cb_valid2 := None; cb_print := None; cb_free := false; cb_func := Some FInclude |}.
Definition oinc := Opt (B "include") KFunc 0 [] [] defv0 None cbinc.
Definition fs0 : fsys :=
  {| fs_root := B "/R";
     fs_ents := [(B "bad.conf", FFile (B "s = ""never closed"));
                 (B "loop.conf", FFile (B "include(""loop.conf"")"));
                 (B "good.conf", FFile (B "i = 7"))] |}.
Definition w0 : pw :=
  {| w_lex := lex_init; w_env := []; w_fs := fs0;
     w_pw := {| pw_tab := []; pw_self := None |}; w_path := []; w_cbs := []; w_cnt := 0; w_failat := 0;
     w_nextptr := 1; w_diags := []; w_open := 0; w_crash := None; w_oof := false |}.
Definition init := cfg_init sd 50 w0 [oi; os; oinc] 0.
Definition wI := fst init.
Definition root := snd init.
Definition run (w : pw) (c : cfg) (t : String.string) := parse_buf sd 300 w c (Some (B t)).

(* what is left of the scanner: start condition, buffers, frames, scratch buffer, read error, open FILEs *)
Definition left_over (r : pw * cfg * Z) :=
  let '(w, c, rc) := r in
  (rc, l_sc (w_lex w), l_bufs (w_lex w), l_inc (w_lex w), l_q (w_lex w), l_rderr (w_lex w), w_open w, w_oof w).
Definition getint (c : cfg) : list value :=
  match c_opts c with o :: _ => o_vals o | [] => [] end.

(* a text that ends inside a string is rejected; nothing survives, not even the start condition
   (cfg_scan_fp_end goes back to INITIAL: needed when the parse was started from a callback of another parse) *)
Example C08_ex_unterminated_string :
  left_over (run wI root "s = ""abc") = (CFG_PARSE_ERROR, INITIAL, [], [], q_empty, false, 0, false).
Proof. vm_compute. reflexivity. Qed.

Example C08_ex_unterminated_comment :
  left_over (run wI root "i = 5 /* open") = (CFG_PARSE_ERROR, INITIAL, [], [], q_empty, false, 0, false).
Proof. vm_compute. reflexivity. Qed.

(* ... and the next parse does not see it: same context, same return code as on the fresh scanner *)
Example C08_ex_then_good :
  let '(wbad, _, _) := run wI root "s = ""abc" in
  let '(w1, c1, rc1) := run wbad root "i = 5 s = 'x'" in
  let '(w2, c2, rc2) := run wI root "i = 5 s = 'x'" in
  rc1 = CFG_SUCCESS /\ rc2 = CFG_SUCCESS /\ c1 = c2 /\ getint c1 = [VInt 5] /\
  left_over (w1, c1, rc1) = (CFG_SUCCESS, INITIAL, [], [], q_empty, false, 0, false).
Proof. vm_compute. repeat split; reflexivity. Qed.

(* an error inside an included file: both buffers and the frame are gone, the FILE is closed *)
Example C08_ex_error_in_include :
  left_over (run wI root "include(""bad.conf"")") = (CFG_PARSE_ERROR, INITIAL, [], [], q_empty, false, 0, false).
Proof. vm_compute. reflexivity. Qed.

(* out of fuel in the middle of the text *)
Example C08_ex_out_of_fuel :
  left_over (parse_buf sd 3 wI root (Some (B "i = 5 s = 'x'"))) = (CFG_PARSE_ERROR, INITIAL, [], [], q_empty, false, 0, true).
Proof. vm_compute. reflexivity. Qed.

(* an unreadable stream: the read error is reported and consumed ... *)
Example C08_ex_unreadable :
  left_over (parse_fp_gen sd 2 wI root None) = (CFG_PARSE_ERROR, INITIAL, [], [], q_empty, false, 0, false).
Proof. vm_compute. reflexivity. Qed.
(* ... unless the model run is starved of fuel before the first token (why C08_parse_ends_quiescent asks 2 <= fuel) *)
Example C08_ex_unreadable_starved :
  left_over (parse_fp_gen sd 1 wI root None) = (CFG_PARSE_ERROR, INITIAL, [], [], q_empty, true, 0, true).
Proof. vm_compute. reflexivity. Qed.
