Example C08_placeholder : True. Proof. exact I. Qed.
