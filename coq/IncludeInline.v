(* IncludeInline.v — C13, include = text in place, parser level: the simulation proper. *)
From Coq Require String.
Import String.StringSyntax.
From Coq Require Import List Arith NArith ZArith Bool Lia.
From Coq.Strings Require Import Byte.
From LC Require Import Bytes Consts Conv Flex LexAct LexRules Lexer LexLemmas LexAll LineProofs Files Store Parser
  Grammar HdrProofs BalanceProofs PathProofs PP_Step PP_Setopt PP_Base PP_GetoptObs PP_Tok PP_LexYields PP_LexFrame
  IncludeProofs IncludeSim.
Import ListNotations.
Local Open Scope string_scope.
Local Open Scope list_scope.

(* ================================================================== *)
(* 4. related worlds                                                    *)
(* ================================================================== *)
Section Sim.
Variable strtod_o : str -> strtod_res.
Variable N : nat.
Notation PI := (parse_internal strtod_o).
Notation SO := (setopt strtod_o).
Notation ID := (init_defaults strtod_o).
Notation bad := (bad N).

(* everything the parser's control flow depends on agrees; the scanners are related; diagnostics agree up to
   positions; the include side has pushed exactly the buffers up to id N *)
Definition WR (w1 w2 : pw) : Prop :=
  w_oof w1 = w_oof w2 /\ w_crash w1 = w_crash w2 /\
  w_env w1 = w_env w2 /\ w_fs w1 = w_fs w2 /\ w_pw w1 = w_pw w2 /\ w_path w1 = w_path w2 /\
  w_cbs w1 = w_cbs w2 /\ w_cnt w1 = w_cnt w2 /\ w_failat w1 = w_failat w2 /\ w_nextptr w1 = w_nextptr w2 /\
  fm (w_diags w1) = fm (w_diags w2) /\ LRs (w_lex w1) (w_lex w2) /\ l_sc (w_lex w1) = INITIAL /\ l_next (w_lex w1) = N /\
  length (l_inc (w_lex w1)) < MAX_INCLUDE_DEPTH.

(* the same without the scanners: what is still compared after a lexical error or a rejected text *)
Definition WRc (w1 w2 : pw) : Prop :=
  w_oof w1 = w_oof w2 /\ w_crash w1 = w_crash w2 /\
  w_env w1 = w_env w2 /\ w_fs w1 = w_fs w2 /\ w_pw w1 = w_pw w2 /\ w_path w1 = w_path w2 /\
  w_cbs w1 = w_cbs w2 /\ w_cnt w1 = w_cnt w2 /\ w_failat w1 = w_failat w2 /\ w_nextptr w1 = w_nextptr w2 /\
  fm (w_diags w1) = fm (w_diags w2).

Lemma WR_c w1 w2 : WR w1 w2 -> WRc w1 w2.
Proof. unfold WR, WRc. intros (X1 & X2 & A & B & C & D & E & F & G & H & I & J). auto 15. Qed.

Lemma WR_diags w1 w2 d1 d2 : WR w1 w2 -> fm d1 = fm d2 -> WR (add_diags w1 d1) (add_diags w2 d2).
Proof.
  unfold WR, add_diags. cbn [w_oof w_crash w_env w_fs w_pw w_path w_cbs w_cnt w_failat w_nextptr w_diags w_lex].
  intros (X1 & X2 & A & B & C & D & E & F & G & H & I & J) Hd. rewrite !map_app, !map_rev, Hd, I. auto 17.
Qed.
Lemma WR_cdiag w1 w2 c1 c2 m : WR w1 w2 -> ec c1 = ec c2 -> WR (add_diags w1 (cfg_diag c1 m)) (add_diags w2 (cfg_diag c2 m)).
Proof. intros H1 H2. apply WR_diags; [exact H1|]. apply fm_cfg_diag_eq, ec_err, H2. Qed.
Lemma WR_cb w1 w2 e : WR w1 w2 -> WR (add_cb w1 e) (add_cb w2 e).
Proof.
  unfold WR, add_cb. cbn [w_oof w_crash w_env w_fs w_pw w_path w_cbs w_cnt w_failat w_nextptr w_diags w_lex].
  intros (X1 & X2 & A & B & C & D & E & F & G & H & I & J). rewrite E. auto 17.
Qed.
Lemma WR_frees ids : forall w1 w2, WR w1 w2 -> WR (log_frees w1 ids) (log_frees w2 ids).
Proof. unfold log_frees. induction ids as [|i ids IH]; intros w1 w2 H; cbn [fold_left]; [exact H|]. apply IH, WR_cb, H. Qed.
Lemma WR_nextptr w1 w2 n : WR w1 w2 -> WR (set_nextptr w1 n) (set_nextptr w2 n).
Proof.
  unfold WR, set_nextptr. cbn [w_oof w_crash w_env w_fs w_pw w_path w_cbs w_cnt w_failat w_nextptr w_diags w_lex].
  intros (X1 & X2 & A & B & C & D & E & F & G & H & I & J). auto 17.
Qed.
Lemma WR_tick w1 w2 : WR w1 w2 -> snd (tick w1) = snd (tick w2) /\ WR (fst (tick w1)) (fst (tick w2)).
Proof.
  unfold WR, tick, set_cnt. cbn [fst snd w_env w_fs w_pw w_path w_cbs w_cnt w_failat w_nextptr w_diags w_lex].
  intros (X1 & X2 & A & B & C & D & E & F & G & H & I & J). rewrite F, G. auto 17.
Qed.
Lemma WR_nextptr_eq w1 w2 : WR w1 w2 -> w_nextptr w1 = w_nextptr w2.
Proof. unfold WR. tauto. Qed.

Lemma WR_run_validcb w1 w2 o1 o2 : WR w1 w2 -> eo o1 = eo o2 ->
  snd (run_validcb w1 o1) = snd (run_validcb w2 o2) /\ WR (fst (run_validcb w1 o1)) (fst (run_validcb w2 o2)).
Proof.
  intros HW HE. unfold run_validcb. rewrite (eo_cbs _ _ HE), (eo_name _ _ HE), (eo_vlen _ _ HE).
  destruct (cb_valid (o_cbs o2)) as [k|]; [|auto].
  destruct (WR_tick w1 w2 HW) as [A B]. destruct (tick w1) as [w1' f1], (tick w2) as [w2' f2]. cbn [fst snd] in *. subst f2.
  split; [reflexivity|]. apply WR_cb, B.
Qed.
Lemma WR_run_parsecb w1 w2 k o1 o2 v : WR w1 w2 -> eo o1 = eo o2 ->
  snd (run_parsecb w1 k o1 v) = snd (run_parsecb w2 k o2 v) /\ WR (fst (run_parsecb w1 k o1 v)) (fst (run_parsecb w2 k o2 v)).
Proof.
  intros HW HE. unfold run_parsecb. rewrite (eo_name _ _ HE).
  destruct (WR_tick w1 w2 HW) as [A B]. destruct (tick w1) as [w1' f1], (tick w2) as [w2' f2]. cbn [fst snd] in *. subst f2.
  split; [reflexivity|]. apply WR_cb, B.
Qed.

Lemma WR_handle_deprecated w1 w2 c1 c2 r : WR w1 w2 -> ec c1 = ec c2 ->
  WR (fst (handle_deprecated w1 c1 r)) (fst (handle_deprecated w2 c2 r)) /\
  ec (snd (handle_deprecated w1 c1 r)) = ec (snd (handle_deprecated w2 c2 r)).
Proof.
  intros HW HC. unfold handle_deprecated. pose proof (get_opt_rel c1 c2 r HC) as Ho.
  destruct (get_opt c1 r) as [o1|], (get_opt c2 r) as [o2|]; cbn [orel] in Ho; try contradiction; [|auto].
  rewrite (eo_oflag _ _ CFGF_DEPRECATED Ho), (eo_oflag _ _ CFGF_DROP Ho).
  destruct (oflag o2 CFGF_DEPRECATED); [|auto]. destruct (oflag o2 CFGF_DROP).
  - destruct (E_free_value o1 o2 Ho) as [A B].
    destruct (free_value o1) as [x1 f1], (free_value o2) as [x2 f2]. cbn [fst snd] in *. subst f2.
    split; [apply WR_frees, WR_cdiag; assumption|apply C_put; assumption].
  - cbn [fst snd]. split; [apply WR_cdiag; assumption|exact HC].
Qed.

(* ---- results ---- *)
Definition RESpi (r1 r2 : pw * cfg * prc) : Prop :=
  bad (fst (fst r1)) \/
  (snd r1 = snd r2 /\ ec (snd (fst r1)) = ec (snd (fst r2)) /\ WRc (fst (fst r1)) (fst (fst r2)) /\
   (snd r1 <> PERR -> WR (fst (fst r1)) (fst (fst r2)))).
Definition RESso (r1 r2 : pw * opt * option nat) : Prop :=
  bad (fst (fst r1)) \/
  (snd r1 = snd r2 /\ eo (snd (fst r1)) = eo (snd (fst r2)) /\ WR (fst (fst r1)) (fst (fst r2))).
Definition RESid (r1 r2 : pw * cfg) : Prop :=
  bad (fst r1) \/ (ec (snd r1) = ec (snd r2) /\ WR (fst r1) (fst r2)).

(* ---- one token ---- *)
Lemma next_token_sim fl w1 w2 c1 c2 : WR w1 w2 -> ec c1 = ec c2 ->
  let n1 := next_token fl w1 c1 in let n2 := next_token fl w2 c2 in
  bad (fst (fst (fst n1))) \/
  (snd (fst n1) = snd (fst n2) /\ snd n1 = snd n2 /\ ec (snd (fst (fst n1))) = ec (snd (fst (fst n2))) /\
   WRc (fst (fst (fst n1))) (fst (fst (fst n2))) /\
   (snd (fst n1) <> TErr -> WR (fst (fst (fst n1))) (fst (fst (fst n2))))).
Proof.
  intros (X1 & X2 & A & B & C & D & E & F & G & H & I & J & K & L & Dp) HC. cbv zeta. unfold next_token. cbv zeta. rewrite <- A.
  set (r1 := yylex (w_env w1) fl (w_lex w1) (c_pos c1) 0). set (r2 := yylex (w_env w1) fl (w_lex w2) (c_pos c2) 0).
  destruct (r_fuel_out r1) eqn:Ho.
  - left. unfold IncludeSim.bad, badf, flags. destruct (c_err c1); cbn; auto.
  - right. destruct (yylex_LRs (w_env w1) fl fl (w_lex w1) (w_lex w2) (c_pos c1) (c_pos c2) 0 0 J (le_n _) Ho) as (Ho2 & Ht & Hv & Hd & Hs).
    fold r1 r2 in Ho2, Ht, Hv, Hd, Hs. rewrite Ho2. cbn [fst snd].
    split; [exact Ht|]. split; [exact Hv|]. split; [apply C_set_pos, HC|].
    rewrite (ec_err _ _ HC). split.
    { unfold WRc. destruct (c_err c2); cbn [w_oof w_crash w_env w_fs w_pw w_path w_cbs w_cnt w_failat w_nextptr w_diags w_lex set_open upd_lex add_diags];
        rewrite ?map_app, ?map_rev, ?Hd, ?I; auto 17. }
    intros Hne.
    assert (Hsc : l_sc (r_st r1) = INITIAL).
    { apply yylex_ret_sc; [intros _; exact K|exact Hne]. }
    assert (Hn : l_next (r_st r1) = N) by (unfold r1; rewrite yylex_next; exact L).
    assert (Hdp : length (l_inc (r_st r1)) < MAX_INCLUDE_DEPTH).
    { eapply Nat.le_lt_trans; [apply yylex_inc|exact Dp]. }
    unfold WR. destruct (c_err c2); cbn [w_oof w_crash w_env w_fs w_pw w_path w_cbs w_cnt w_failat w_nextptr w_diags w_lex set_open upd_lex add_diags];
      rewrite ?map_app, ?map_rev, ?Hd, ?I; auto 19.
Qed.

Lemma next_token_ctx fl w c : exists pos, snd (fst (fst (next_token fl w c))) = set_pos c pos.
Proof. unfold next_token. cbv zeta. eexists. reflexivity. Qed.

(* ================================================================== *)
(* 5. one level of the three functions, the level below given           *)
(* ================================================================== *)
Variable f : nat.
Hypothesis IHpi : forall w1 w2 c1 c2 level p, WR w1 w2 -> ec c1 = ec c2 -> RESpi (PI f w1 c1 level p) (PI f w2 c2 level p).
Hypothesis IHso : forall w1 w2 c1 c2 o1 o2 txt, WR w1 w2 -> ec c1 = ec c2 -> eo o1 = eo o2 ->
  RESso (SO f w1 c1 o1 txt) (SO f w2 c2 o2 txt).
Hypothesis IHid : forall w1 w2 c1 c2, WR w1 w2 -> ec c1 = ec c2 -> RESid (ID f w1 c1) (ID f w2 c2).

Lemma Mso w c o txt : bad w -> bad (fst (fst (SO f w c o txt))).
Proof. destruct (bad_mono strtod_o N f) as (A & _ & _). apply A. Qed.
Lemma Mid w c : bad w -> bad (fst (ID f w c)).
Proof. destruct (bad_mono strtod_o N f) as (_ & A & _). apply A. Qed.
Lemma Mpi w c l p : bad w -> bad (fst (fst (PI f w c l p))).
Proof. destruct (bad_mono strtod_o N f) as (_ & _ & A). apply A. Qed.

Lemma ptr_w_eq (o : opt) (idx : nat) (w3 : pw) :
  match nth_error (o_vals o) idx with
  | Some (VPtr old) => if cb_free (o_cbs o) && negb (old =? 0)%N then add_cb w3 (CbFree old) else w3
  | _ => w3 end =
  match old_ptr o idx with
  | Some old => if cb_free (o_cbs o) && negb (old =? 0)%N then add_cb w3 (CbFree old) else w3
  | None => w3 end.
Proof. unfold old_ptr. destruct (nth_error (o_vals o) idx) as [[| | | | |]|]; reflexivity. Qed.

Lemma C_newsec o1 o2 c1 c2 txt : eo o1 = eo o2 -> ec c1 = ec c2 ->
  ec (Cfg (o_name o1) txt (if oflag o1 CFGF_KEYSTRVAL then setf (c_flags c1) CFGF_KEYSTRVAL else c_flags c1)
          (o_sub o1) (c_file c1) (c_line c1) (c_err c1) None) =
  ec (Cfg (o_name o2) txt (if oflag o2 CFGF_KEYSTRVAL then setf (c_flags c2) CFGF_KEYSTRVAL else c_flags c2)
          (o_sub o2) (c_file c2) (c_line c2) (c_err c2) None).
Proof.
  intros HE HC. rewrite !ec_eq. cbn [c_name c_title c_flags c_opts c_err c_pff].
  rewrite (eo_name _ _ HE), (eo_oflag _ _ CFGF_KEYSTRVAL HE), (ec_flags _ _ HC), (eo_sub _ _ HE), (ec_err _ _ HC). reflexivity.
Qed.

(* ---- solving side conditions ---- *)
Ltac Esolve :=
  solve [ repeat first
    [ assumption | reflexivity
    | apply E_id_scalar | apply E_store | apply ev_sec | apply C_newsec | apply E_setcomment | apply E_addval
    | apply E_setf | apply E_clrf | apply E_set_comment
    | apply C_put | apply C_set_pos | apply C_set_line | apply C_set_file | apply C_sec_prep | apply C_addopt
    | apply WR_cdiag | apply WR_cb | apply WR_frees | apply WR_nextptr
    | apply WR_diags
    | apply WR_c
    | apply fm_cfg_diag_eq, ec_err
    | match goal with H : ?a = ?b |- ?b = ?a => symmetry; exact H end ] ].

Ltac eqs :=
  solve [ repeat first
    [ reflexivity | assumption
    | apply eo_oflag; Esolve | apply ec_cflag; Esolve | apply eo_kind; Esolve | apply eo_vlen; Esolve
    | apply eo_name; Esolve | apply eo_cbs; Esolve | apply eo_def; Esolve | apply eo_sub; Esolve | apply eo_comment; Esolve
    | apply ec_err; Esolve | apply ec_flags; Esolve | apply ec_olen; Esolve
    | apply title_look_eo; Esolve | apply id_dup_ec; Esolve | apply old_ptr_eo; Esolve
    | match goal with
      | |- negb _ = negb _ => apply f_equal
      | |- (_ && _)%bool = (_ && _)%bool => apply f_equal2
      | |- (_ || _)%bool = (_ || _)%bool => apply f_equal2
      | |- kind_eqb _ _ = kind_eqb _ _ => apply f_equal2
      | |- Nat.eqb _ _ = Nat.eqb _ _ => apply f_equal2
      | |- cb_parse _ = cb_parse _ => apply f_equal
      | |- cb_func _ = cb_func _ => apply f_equal
      | |- cb_valid _ = cb_valid _ => apply f_equal
      | |- cb_free _ = cb_free _ => apply f_equal
      | |- d_parsed _ = d_parsed _ => apply f_equal
      | |- has _ _ = has _ _ => apply f_equal2
      | |- setf _ _ = setf _ _ => apply f_equal2
      | |- (if ?a then _ else _) = (if ?b then _ else _) => replace b with a; [destruct a|]
      end ] ].

(* ---- unary: once bad, bad to the end ---- *)
Ltac bleaf :=
  lazymatch goal with
  | |- IncludeSim.bad _ (set_crash _ _) => apply bad_set_crash_now
  | |- IncludeSim.bad _ (set_oof _) => apply bad_set_oof
  | |- IncludeSim.bad _ _ => unfold IncludeSim.bad in *; fl_norm; assumption
  end.

Ltac bstep :=
  first
  [ lazymatch goal with
    | |- IncludeSim.bad _ (fst (fst (PI f _ _ _ _))) => apply Mpi; bleaf
    | |- IncludeSim.bad _ (fst (fst (perr _ _))) => unfold perr, fst; bleaf
    | |- IncludeSim.bad _ (fst (fst (errd _ _ _))) => unfold errd, fst; bleaf
    | |- IncludeSim.bad _ (fst (fst (so_store _ _ _ _))) => unfold so_store, fst; bleaf
    | |- IncludeSim.bad _ (fst (fst (_, _, _))) => unfold fst; bleaf
    | |- IncludeSim.bad _ (fst (_, _)) => unfold fst; bleaf
    end
  | match goal with
    | |- context [match handle_deprecated ?w ?c ?r with _ => _ end] =>
        let H := fresh "HP" in
        assert (H : bad (fst (handle_deprecated w c r))) by (apply (bad_flags N w); [apply fl_handle_deprecated|bleaf]);
        destruct (handle_deprecated w c r) as [? ?]; unfold fst in H
    | |- context [match lexer_include ?w ?c ?a with _ => _ end] =>
        let H := fresh "HP" in
        assert (H : bad (fst (fst (lexer_include w c a)))) by (apply (bad_le N w); [apply fle_lexer_include|bleaf]);
        destruct (lexer_include w c a) as [[? ?] ?]; unfold fst in H
    | |- context [match SO f ?w ?c ?o ?t with _ => _ end] =>
        let H := fresh "HP" in
        assert (H : bad (fst (fst (SO f w c o t)))) by (apply Mso; bleaf);
        destruct (SO f w c o t) as [[? ?] ?]; unfold fst in H
    | |- context [match PI f ?w ?c ?l ?q with _ => _ end] =>
        let H := fresh "HP" in
        assert (H : bad (fst (fst (PI f w c l q)))) by (apply Mpi; bleaf);
        destruct (PI f w c l q) as [[? ?] ?]; unfold fst in H
    | |- context [match run_validcb ?w ?o with _ => _ end] =>
        let H := fresh "HP" in
        assert (H : bad (fst (run_validcb w o))) by (apply (bad_flags N w); [apply fl_run_validcb|bleaf]);
        destruct (run_validcb w o) as [? ?]; unfold fst in H
    | |- context [match tick ?w with _ => _ end] =>
        let H := fresh "HP" in
        assert (H : bad (fst (tick w))) by (apply (bad_flags N w); [apply fl_tick|bleaf]);
        destruct (tick w) as [? ?]; unfold fst in H
    end
  | match goal with
    | |- context [match ?x with _ => _ end] => destr_inner x
    end ].

(* ---- binary ---- *)
Ltac inner x :=
  lazymatch x with
  | context [match ?y with _ => _ end] => inner y
  | _ => x
  end.

Ltac rleaf :=
  lazymatch goal with
  | |- RESpi (PI f _ _ ?l ?p) (PI f _ _ ?l ?p) => apply IHpi; Esolve
  | |- RESpi (set_crash _ _, _, _) _ => left; apply bad_set_crash_now
  | |- RESpi (perr _ _) (perr _ _) =>
      unfold perr; right; cbn [fst snd]; split; [reflexivity|split; [Esolve|split; [Esolve|intros K; contradiction K; reflexivity]]]
  | |- RESpi (errd _ _ _) (errd _ _ _) =>
      unfold errd; right; cbn [fst snd]; split; [reflexivity|split; [Esolve|split; [Esolve|intros K; contradiction K; reflexivity]]]
  | |- RESpi (_, _, PERR) (_, _, PERR) =>
      right; cbn [fst snd]; split; [reflexivity|split; [Esolve|split; [Esolve|intros K; contradiction K; reflexivity]]]
  | |- RESpi (_, _, PEOF) (_, _, PEOF) =>
      right; cbn [fst snd]; split; [reflexivity|split; [Esolve|split; [Esolve|intros _; Esolve]]]
  | |- RESso (so_store _ _ _ _) (so_store _ _ _ _) =>
      unfold so_store; right; cbn [fst snd]; split; [reflexivity|split; Esolve]
  | |- RESso (_, _, _) (_, _, _) =>
      right; cbn [fst snd]; split; [reflexivity|split; Esolve]
  | |- RESid (_, _) (_, _) => right; cbn [fst snd]; split; Esolve
  end.

Ltac rel_opt H := cbn [orel] in H; try contradiction.

Ltac rspecial x1 x2 :=
  lazymatch x1 with
  | get_opt ?c1 ?r =>
      lazymatch x2 with get_opt ?c2 r =>
        let H := fresh "Ho" in
        assert (H := get_opt_rel c1 c2 r ltac:(Esolve));
        destruct (get_opt c1 r), (get_opt c2 r); rel_opt H end
  | nth_sec ?o1 ?i =>
      lazymatch x2 with nth_sec ?o2 i =>
        let H := fresh "Hs" in
        assert (H := nth_sec_rel o1 o2 i ltac:(Esolve));
        destruct (nth_sec o1 i), (nth_sec o2 i); rel_opt H end
  | nth_error (c_opts ?c1) ?i =>
      lazymatch x2 with nth_error (c_opts ?c2) i =>
        let H := fresh "Ho" in
        assert (H := nth_opts_rel c1 c2 i ltac:(Esolve));
        destruct (nth_error (c_opts c1) i), (nth_error (c_opts c2) i); rel_opt H end
  | free_value ?o1 =>
      lazymatch x2 with free_value ?o2 =>
        let H := fresh "Hf" in let H' := fresh "Hf" in
        destruct (E_free_value o1 o2 ltac:(Esolve)) as [H H'];
        destruct (free_value o1), (free_value o2); cbn [fst snd] in H, H'; subst end
  | run_validcb ?w1 ?o1 =>
      lazymatch x2 with run_validcb ?w2 ?o2 =>
        let H := fresh "Hv" in let H' := fresh "Hv" in
        destruct (WR_run_validcb w1 w2 o1 o2 ltac:(Esolve) ltac:(Esolve)) as [H H'];
        destruct (run_validcb w1 o1), (run_validcb w2 o2); cbn [fst snd] in H, H'; subst end
  | run_parsecb ?w1 ?k ?o1 ?v =>
      lazymatch x2 with run_parsecb ?w2 k ?o2 v =>
        let H := fresh "Hv" in let H' := fresh "Hv" in
        destruct (WR_run_parsecb w1 w2 k o1 o2 v ltac:(Esolve) ltac:(Esolve)) as [H H'];
        destruct (run_parsecb w1 k o1 v), (run_parsecb w2 k o2 v); cbn [fst snd] in H, H'; subst end
  | tick ?w1 =>
      lazymatch x2 with tick ?w2 =>
        let H := fresh "Hv" in let H' := fresh "Hv" in
        destruct (WR_tick w1 w2 ltac:(Esolve)) as [H H'];
        destruct (tick w1), (tick w2); cbn [fst snd] in H, H'; subst end
  | handle_deprecated ?w1 ?c1 ?r =>
      lazymatch x2 with handle_deprecated ?w2 ?c2 r =>
        let H := fresh "Hd" in let H' := fresh "Hd" in
        destruct (WR_handle_deprecated w1 w2 c1 c2 r ltac:(Esolve) ltac:(Esolve)) as [H H'];
        destruct (handle_deprecated w1 c1 r), (handle_deprecated w2 c2 r); cbn [fst snd] in H, H' end
  | cfg_getopt ?c1 ?n =>
      lazymatch x2 with cfg_getopt ?c2 n =>
        let H := fresh "Hg" in let H' := fresh "Hg" in
        destruct (cfg_getopt_ec c1 c2 n ltac:(Esolve)) as [H H'];
        destruct (cfg_getopt c1 n), (cfg_getopt c2 n); cbn [fst snd] in H, H'; subst end
  | SO f ?w1 ?c1 ?o1 ?t =>
      lazymatch x2 with SO f ?w2 ?c2 ?o2 t =>
        let H := fresh "Hso" in
        assert (H := IHso w1 w2 c1 c2 o1 o2 t ltac:(Esolve) ltac:(Esolve) ltac:(Esolve));
        destruct (SO f w1 c1 o1 t) as [[? ?] ?], (SO f w2 c2 o2 t) as [[? ?] ?];
        unfold RESso in H; cbn [fst snd] in H;
        destruct H as [H|(? & ? & ?)]; [left; repeat bstep|subst] end
  | ID f ?w1 ?c1 =>
      lazymatch x2 with ID f ?w2 ?c2 =>
        let H := fresh "Hid" in
        assert (H := IHid w1 w2 c1 c2 ltac:(Esolve) ltac:(Esolve));
        destruct (ID f w1 c1) as [? ?], (ID f w2 c2) as [? ?];
        unfold RESid in H; cbn [fst snd] in H;
        destruct H as [H|(? & ?)]; [left; repeat bstep|] end
  | PI f ?w1 ?c1 ?l ?p =>
      lazymatch x2 with PI f ?w2 ?c2 l p =>
        let H := fresh "Hpi" in
        assert (H := IHpi w1 w2 c1 c2 l p ltac:(Esolve) ltac:(Esolve));
        destruct (PI f w1 c1 l p) as [[? ?] ?], (PI f w2 c2 l p) as [[? ?] ?];
        unfold RESpi in H; cbn [fst snd] in H;
        destruct H as [H|(? & ? & ? & H)]; [left; repeat bstep|subst] end
  end.

Ltac rstep :=
  first
  [ progress cbv beta iota zeta
  | match goal with H : PEOF <> PERR -> _ |- _ => specialize (H ltac:(discriminate)) end
  | match goal with H : PCONT <> PERR -> _ |- _ => specialize (H ltac:(discriminate)) end
  | match goal with H : PERR <> PERR -> _ |- _ => clear H end
  | progress (rewrite ?ptr_w_eq)
  | match goal with H : WR ?a ?b |- context [w_nextptr ?a] => rewrite (WR_nextptr_eq a b H) end
  | rleaf
  | lazymatch goal with
    | |- ?REL ?L ?R =>
      let x1 := inner L in let x2 := inner R in
      first
      [ constr_eq x1 x2; destruct x1
      | rspecial x1 x2
      | let H := fresh "Heq" in assert (H : x1 = x2) by eqs; rewrite H; clear H; destruct x2 ]
    end ].

Lemma st4_sim level p w1 w2 c1 c2 t v : WR w1 w2 -> ec c1 = ec c2 ->
  RESpi (st4 strtod_o f level p w1 c1 t v) (st4 strtod_o f level p w2 c2 t v).
Proof.
  intros HW HC. unfold st4, curopt_of. repeat rstep.
Qed.

Lemma st1_sim level p w1 w2 c1 c2 t v : WR w1 w2 -> ec c1 = ec c2 ->
  RESpi (st1 strtod_o f level p w1 c1 t v) (st1 strtod_o f level p w2 c2 t v).
Proof. intros HW HC. unfold st1, curopt_of. repeat rstep. Qed.

Lemma st6_sim level p w1 w2 c1 c2 t v : WR w1 w2 -> ec c1 = ec c2 ->
  RESpi (st6 strtod_o f level p w1 c1 t v) (st6 strtod_o f level p w2 c2 t v).
Proof. intros HW HC. unfold st6. repeat rstep. Qed.
Lemma st7_sim level p w1 w2 c1 c2 t v : WR w1 w2 -> ec c1 = ec c2 ->
  RESpi (st7 strtod_o f level p w1 c1 t v) (st7 strtod_o f level p w2 c2 t v).
Proof. intros HW HC. unfold st7. repeat rstep. Qed.
Lemma st10_sim level p w1 w2 c1 c2 t v : WR w1 w2 -> ec c1 = ec c2 ->
  RESpi (st10 strtod_o f level p w1 c1 t v) (st10 strtod_o f level p w2 c2 t v).
Proof. intros HW HC. unfold st10. cbv zeta. repeat rstep. Qed.
Lemma st11_sim level p w1 w2 c1 c2 t v : WR w1 w2 -> ec c1 = ec c2 ->
  RESpi (st11 strtod_o f level p w1 c1 t v) (st11 strtod_o f level p w2 c2 t v).
Proof. intros HW HC. unfold st11. repeat rstep. Qed.
Lemma st12_sim level p w1 w2 c1 c2 t v : WR w1 w2 -> ec c1 = ec c2 ->
  RESpi (st12 strtod_o f level p w1 c1 t v) (st12 strtod_o f level p w2 c2 t v).
Proof. intros HW HC. unfold st12. repeat rstep. Qed.
Lemma st13_sim level p w1 w2 c1 c2 t v : WR w1 w2 -> ec c1 = ec c2 ->
  RESpi (st13 strtod_o f level p w1 c1 t v) (st13 strtod_o f level p w2 c2 t v).
Proof. intros HW HC. unfold st13. repeat rstep. Qed.
Lemma st14_sim level p w1 w2 c1 c2 t v : WR w1 w2 -> ec c1 = ec c2 ->
  RESpi (st14 strtod_o f level p w1 c1 t v) (st14 strtod_o f level p w2 c2 t v).
Proof. intros HW HC. unfold st14. repeat rstep. Qed.

Lemma st0_sim level p w1 w2 c1 c2 t v : WR w1 w2 -> ec c1 = ec c2 ->
  RESpi (st0 strtod_o f level p w1 c1 t v) (st0 strtod_o f level p w2 c2 t v).
Proof.
  intros HW HC. unfold st0, dep_w, addopt. repeat rstep.
  all: match goal with H : ec ?a = ec ?b |- context [length (c_opts ?a)] => rewrite (ec_olen _ _ H) end; repeat rstep.
Qed.

Lemma st2_sim level p w1 w2 c1 c2 t v : WR w1 w2 -> ec c1 = ec c2 ->
  RESpi (st2 strtod_o f level p w1 c1 t v) (st2 strtod_o f level p w2 c2 t v).
Proof. intros HW HC. unfold st2, curopt_of. repeat rstep. Qed.

Lemma st3_sim level p w1 w2 c1 c2 t v : WR w1 w2 -> ec c1 = ec c2 ->
  RESpi (st3 strtod_o f level p w1 c1 t v) (st3 strtod_o f level p w2 c2 t v).
Proof. intros HW HC. unfold st3, curopt_of. repeat rstep. Qed.

Lemma st5_sim level p w1 w2 c1 c2 t v : WR w1 w2 -> ec c1 = ec c2 ->
  RESpi (st5 strtod_o f level p w1 c1 t v) (st5 strtod_o f level p w2 c2 t v).
Proof. intros HW HC. unfold st5, curopt_of. repeat rstep. Qed.

(* a further include on the include side pushes a buffer beyond the N-th *)
Lemma include_pushes w1 w2 c a w' c' : WR w1 w2 -> lexer_include w1 c a = (w', c', false) -> bad w'.
Proof.
  intros (_ & _ & _ & _ & _ & _ & _ & _ & _ & _ & _ & _ & _ & L & _). rewrite lexer_include_unfold.
  destruct (Nat.leb _ _); [discriminate|]. destruct (include_name w1 a); [|discriminate].
  destruct (open_input _ _); [|discriminate]. intros H. injection H as <- _.
  unfold IncludeSim.bad, badf, flags. cbn. right; right. lia.
Qed.

Lemma SR_len c b1 i1 b2 i2 : SR c b1 i1 b2 i2 -> length i2 <= length i1.
Proof. induction 1; cbn [length]; lia. Qed.

(* a failing include fails alike on both sides (the include side is below the depth limit) *)
Lemma include_fail_sim w1 w2 c1 c2 a w1' c1' : WR w1 w2 -> ec c1 = ec c2 ->
  lexer_include w1 c1 a = (w1', c1', true) ->
  exists w2', lexer_include w2 c2 a = (w2', c2, true) /\ c1' = c1 /\ WR w1' w2'.
Proof.
  intros HW HC. pose proof HW as (_ & _ & _ & B & C & D & _ & _ & _ & _ & _ & (_ & _ & _ & HS & _) & _ & _ & Dp).
  rewrite !lexer_include_unfold.
  assert (In : include_name w1 a = include_name w2 a) by (unfold include_name; rewrite B, C, D; reflexivity).
  pose proof (SR_len _ _ _ _ _ HS) as Hl.
  destruct (Nat.leb_spec MAX_INCLUDE_DEPTH (length (l_inc (w_lex w1)))); [lia|].
  destruct (Nat.leb_spec MAX_INCLUDE_DEPTH (length (l_inc (w_lex w2)))); [lia|].
  rewrite <- In, <- B.
  destruct (include_name w1 a) as [x|].
  - destruct (open_input (w_fs w1) x); [discriminate|].
    intros E; injection E as <- <-. eexists. split; [reflexivity|]. split; [reflexivity|]. apply WR_cdiag; assumption.
  - intros E; injection E as <- <-. eexists. split; [reflexivity|]. split; [reflexivity|]. apply WR_cdiag; assumption.
Qed.

Definition call89 (level : nat) (p : pst) (w : pw) (c : cfg) : pw * cfg * prc :=
    match curopt_of c p with
    | None => (set_crash w "null-deref:call_function", c, PERR)
    | Some o =>
        let args := s_args p in
        let p1 := st_args p [] in
        match cb_func (o_cbs o) with
        | Some FInclude =>
            match args with
            | [a] => let '(w1, c1, failed) := lexer_include w c a in
                     if failed then perr w1 c1 else PI f w1 c1 level (st_state p1 0)
            | _ => errd w c "wrong number of arguments to cfg_include()"
            end
        | Some (FUser k) =>
            let '(w1, fl) := tick w in
            let w2 := add_cb w1 (CbFunc k (o_name o) args fl) in
            if fl then perr w2 c else PI f w2 c level (st_state p1 0)
        | None => (set_crash w "null-call:call_function", c, PERR)
        end
    end.

Lemma st89_eq level p w c t v :
  st89 strtod_o f level p w c t v =
  if Nat.eqb (s_state p) 8 then
    if tok_is t 41 then call89 level p w c
    else if tok_is_str t then PI f w c level (st_state (st_args p (s_args p ++ [sval v])) 9)
    else errd w c "syntax error in call of function '%s'"
  else
    if tok_is t 41 then call89 level p w c
    else if tok_is t 44 then PI f w c level (st_state p 8)
    else errd w c "syntax error in call of function '%s'".
Proof. reflexivity. Qed.

Lemma call89_sim level p w1 w2 c1 c2 : WR w1 w2 -> ec c1 = ec c2 ->
  RESpi (call89 level p w1 c1) (call89 level p w2 c2).
Proof.
  intros HW HC. unfold call89, curopt_of.
  destruct (s_opt p) as [r|]; [|rleaf].
  pose proof (get_opt_rel c1 c2 r HC) as Ho.
  destruct (get_opt c1 r) as [o1|], (get_opt c2 r) as [o2|]; cbn [orel] in Ho; try contradiction; [|rleaf].
  cbv zeta. rewrite (eo_cbs _ _ Ho), (eo_name _ _ Ho).
  destruct (cb_func (o_cbs o2)) as [[|k]|]; [| |rleaf].
  - destruct (s_args p) as [|a [|b l]]; try rleaf.
    destruct (lexer_include w1 c1 a) as [[w1' c1'] [|]] eqn:E1.
    + destruct (include_fail_sim w1 w2 c1 c2 a w1' c1' HW HC E1) as (w2' & E2 & -> & HW'). rewrite E2. rleaf.
    + left. destruct (lexer_include w2 c2 a) as [[w2' c2'] fl2]. apply Mpi. eapply include_pushes; eauto.
  - repeat rstep.
Qed.

Lemma st89_sim level p w1 w2 c1 c2 t v : WR w1 w2 -> ec c1 = ec c2 ->
  RESpi (st89 strtod_o f level p w1 c1 t v) (st89 strtod_o f level p w2 c2 t v).
Proof.
  intros HW HC. rewrite !st89_eq.
  destruct (Nat.eqb (s_state p) 8); destruct (tok_is t 41); try (apply call89_sim; assumption); repeat rstep.
Qed.

Lemma st_dispatch_sim level p w1 w2 c1 c2 t v : WR w1 w2 -> ec c1 = ec c2 ->
  RESpi (st_dispatch strtod_o f level p w1 c1 t v) (st_dispatch strtod_o f level p w2 c2 t v).
Proof.
  intros HW HC. unfold st_dispatch.
  destruct (s_state p) as [|[|[|[|[|[|[|[|[|[|[|[|[|[|[|n]]]]]]]]]]]]]]];
    first [ apply st0_sim | apply st1_sim | apply st2_sim | apply st3_sim | apply st4_sim | apply st5_sim | apply st6_sim
          | apply st7_sim | apply st89_sim | apply st10_sim | apply st11_sim | apply st12_sim | apply st13_sim | apply st14_sim
          | rleaf ]; assumption.
Qed.

Lemma pi_body_sim level p w1 w2 c1 c2 t v : WRc w1 w2 -> (t <> TErr -> WR w1 w2) -> ec c1 = ec c2 ->
  RESpi (PP_Step.pi_body strtod_o f level p w1 c1 t v) (PP_Step.pi_body strtod_o f level p w2 c2 t v).
Proof.
  intros HWc HW HC. unfold PP_Step.pi_body.
  destruct t as [| |x| |]; try (assert (HW' : WR w1 w2) by (apply HW; discriminate)); try rleaf.
  - cbn. apply st_dispatch_sim; assumption.
  - destruct (negb (Nat.eqb (s_state p) 0)); [rleaf|apply st_dispatch_sim; assumption].
  - cbn. apply st_dispatch_sim; assumption.
  - unfold dep_w. repeat rstep.
Qed.

Lemma pi_bad_rest level p w c t v : bad w -> bad (fst (fst (PP_Step.pi_body strtod_o f level p w c t v))).
Proof.
  intros HB.
  unfold PP_Step.pi_body, st_dispatch, st0, st1, st2, st3, st4, st5, st6, st7, st89, st10, st11, st12, st13, st14, dep_w, curopt_of.
  destruct t; repeat bstep.
Qed.

Lemma PI_S_sim w1 w2 c1 c2 level p : WR w1 w2 -> ec c1 = ec c2 ->
  RESpi (PI (S f) w1 c1 level p) (PI (S f) w2 c2 level p).
Proof.
  intros HW HC. rewrite !pi_unfold.
  pose proof (next_token_sim f w1 w2 c1 c2 HW HC) as H. cbv zeta in H.
  destruct (next_token f w1 c1) as [[[w1' c1'] t1] v1], (next_token f w2 c2) as [[[w2' c2'] t2] v2]. cbn [fst snd] in H.
  destruct H as [H|(-> & -> & HC' & HWc & HW')].
  - left. apply pi_bad_rest, H.
  - apply pi_body_sim; assumption.
Qed.

(* ---- cfg_setopt ---- *)
Lemma so_reset_sim w1 w2 o1 o2 : WR w1 w2 -> eo o1 = eo o2 ->
  WR (fst (so_reset w1 o1)) (fst (so_reset w2 o2)) /\ eo (snd (so_reset w1 o1)) = eo (snd (so_reset w2 o2)).
Proof.
  intros HW HE. unfold so_reset. rewrite (eo_oflag _ _ CFGF_RESET HE). destruct (oflag o2 CFGF_RESET); [|auto].
  destruct (E_free_value o1 o2 HE) as [A B].
  destruct (free_value o1) as [x1 f1], (free_value o2) as [x2 f2]. cbn [fst snd] in *. subst f2.
  split; [apply WR_frees, HW|apply E_clrf, A].
Qed.

Lemma so_slot_sim w1 w2 c1 c2 o1 o2 txt : WR w1 w2 -> ec c1 = ec c2 -> eo o1 = eo o2 ->
  match so_slot w1 c1 o1 txt, so_slot w2 c2 o2 txt with
  | Some (a1, b1, i1), Some (a2, b2, i2) => (bad a1 \/ WR a1 a2) /\ eo b1 = eo b2 /\ i1 = i2
  | None, None => True
  | _, _ => False
  end.
Proof.
  intros HW HC HE. unfold so_slot. cbv zeta.
  rewrite (eo_vlen _ _ HE), (eo_oflag _ _ CFGF_MULTI HE), (eo_oflag _ _ CFGF_LIST HE), (eo_oflag _ _ CFGF_TITLE HE),
    (eo_oflag _ _ CFGF_NO_TITLE_DUPES HE), (eo_kind _ _ HE), (ec_cflag _ _ CFGF_NOCASE HC),
    (title_look_eo (cflag c2 CFGF_NOCASE) txt o1 o2 0 HE).
  destruct (Nat.eqb (length (o_vals o2)) 0 || oflag o2 CFGF_MULTI || oflag o2 CFGF_LIST); [|auto].
  destruct (kind_eqb (o_kind o2) KSec && oflag o2 CFGF_TITLE); [|split; [right; exact HW|split; [apply E_addval, HE|reflexivity]]].
  destruct (negb (Nat.eqb (length (o_vals o2)) 0) && match txt with None => true | Some _ => false end); [exact I|].
  destruct (title_look (cflag c2 CFGF_NOCASE) txt (o_vals o2) 0) as [[i|]|u].
  - destruct (oflag o2 CFGF_NO_TITLE_DUPES); [exact I|auto].
  - split; [right; exact HW|split; [apply E_addval, HE|reflexivity]].
  - split; [left; apply bad_set_crash_now|split; [apply E_addval, HE|reflexivity]].
Qed.

Lemma so_kind_sim c1 c2 txt w1 w2 o1 o2 idx : WR w1 w2 -> ec c1 = ec c2 -> eo o1 = eo o2 ->
  RESso (so_kind strtod_o f c1 txt w1 o1 idx) (so_kind strtod_o f c2 txt w2 o2 idx).
Proof.
  intros HW HC HE. unfold so_kind. cbv zeta. rewrite (eo_kind _ _ HE).
  destruct (o_kind o2).
  - repeat rstep.
  - repeat rstep.
  - repeat rstep.
  - repeat rstep.
  - repeat rstep.
  - (* a section *)
    fold (existing_sec o1 idx). fold (existing_sec o2 idx).
    pose proof (C_newsec o1 o2 c1 c2 txt HE HC) as Hn.
    set (n1 := Cfg (o_name o1) txt _ (o_sub o1) (c_file c1) (c_line c1) (c_err c1) None) in *.
    set (n2 := Cfg (o_name o2) txt _ (o_sub o2) (c_file c2) (c_line c2) (c_err c2) None) in *.
    clearbody n1 n2.
    pose proof (existing_rel o1 o2 idx HE) as Hx.
    rewrite (eo_oflag _ _ CFGF_MULTI HE).
    destruct (existing_sec o1 idx) as [s1|], (existing_sec o2 idx) as [s2|]; cbn [orel] in Hx; try contradiction.
    + rewrite (frees_c_ec _ _ Hx). destruct (oflag o2 CFGF_MULTI); cbn [orb]; repeat rstep.
    + rewrite orb_true_r. repeat rstep.
  - repeat rstep.
  - (* a user pointer *)
    repeat rstep.
Qed.

Lemma so_kind_bad c txt w o idx : bad w -> bad (fst (fst (so_kind strtod_o f c txt w o idx))).
Proof.
  intros HB. change (so_kind strtod_o f c txt w o idx) with (ApiProofs.so_conv strtod_o (ID f) c w o idx txt).
  apply so_conv_bad; [apply Mid|exact HB].
Qed.

Lemma SO_S_sim w1 w2 c1 c2 o1 o2 txt : WR w1 w2 -> ec c1 = ec c2 -> eo o1 = eo o2 ->
  RESso (SO (S f) w1 c1 o1 txt) (SO (S f) w2 c2 o2 txt).
Proof.
  intros HW HC HE. rewrite !so_unfold. unfold so_body.
  destruct (so_reset_sim w1 w2 o1 o2 HW HE) as [A B].
  destruct (so_reset w1 o1) as [a1 b1], (so_reset w2 o2) as [a2 b2]. cbn [fst snd] in A, B.
  pose proof (so_slot_sim a1 a2 c1 c2 b1 b2 txt A HC B) as S.
  destruct (so_slot a1 c1 b1 txt) as [[[x1 y1] i1]|], (so_slot a2 c2 b2 txt) as [[[x2 y2] i2]|]; try contradiction.
  - destruct S as ([S|S] & S2 & ->).
    + left. apply so_kind_bad, S.
    + apply so_kind_sim; assumption.
  - cbv zeta. rewrite (eo_kind _ _ B), (eo_oflag _ _ CFGF_TITLE B), (eo_oflag _ _ CFGF_NO_TITLE_DUPES B).
    destruct (kind_eqb (o_kind b2) KSec && oflag b2 CFGF_TITLE && oflag b2 CFGF_NO_TITLE_DUPES && match txt with Some _ => true | None => false end);
      rleaf.
Qed.

(* ---- cfg_init_defaults ---- *)
Lemma id_loop_conv todo i w c : id_loop strtod_o f todo i w c = HdrProofs.id_loop (SO f) (PI f) todo i w c.
Proof. reflexivity. Qed.

Lemma id_loop_bad' todo i w c : bad w -> bad (fst (id_loop strtod_o f todo i w c)).
Proof. rewrite id_loop_conv. apply id_loop_bad; [apply Mso|apply Mpi]. Qed.

Lemma push_bad w1 w2 t : WR w1 w2 -> bad (upd_lex w1 (scan_begin (w_lex w1) t)).
Proof.
  intros (_ & _ & _ & _ & _ & _ & _ & _ & _ & _ & _ & _ & _ & L & _).
  unfold IncludeSim.bad, badf, flags. cbn. right; right. lia.
Qed.

Lemma id_loop_sim : forall todo1 todo2 i w1 w2 c1 c2, length todo1 = length todo2 -> WR w1 w2 -> ec c1 = ec c2 ->
  RESid (id_loop strtod_o f todo1 i w1 c1) (id_loop strtod_o f todo2 i w2 c2).
Proof.
  induction todo1 as [|x todo1 IH]; intros [|y todo2] i w1 w2 c1 c2 Hl HW HC; try discriminate.
  - cbn [id_loop]. rleaf.
  - injection Hl as Hl. cbn [id_loop]. fold (id_loop strtod_o f).
    assert (Next : forall i' a1 a2 b1 b2, WR a1 a2 -> ec b1 = ec b2 ->
              RESid (id_loop strtod_o f todo1 i' a1 b1) (id_loop strtod_o f todo2 i' a2 b2)) by (intros; apply IH; assumption).
    clear IH.
    pose proof (nth_opts_rel c1 c2 i HC) as Ho.
    destruct (nth_error (c_opts c1) i) as [o1|], (nth_error (c_opts c2) i) as [o2|]; cbn [orel] in Ho; try contradiction; [|rleaf].
    cbv zeta. rewrite (id_dup_ec c1 c2 o1 o2 i HC Ho).
    assert (HW' : WR (if id_dup c2 o2 i then add_diags w1 (cfg_diag c1 "duplicate option '%s' not allowed") else w1)
                     (if id_dup c2 o2 i then add_diags w2 (cfg_diag c2 "duplicate option '%s' not allowed") else w2))
      by (destruct (id_dup c2 o2 i); Esolve).
    revert HW'. generalize (if id_dup c2 o2 i then add_diags w1 (cfg_diag c1 "duplicate option '%s' not allowed") else w1).
    generalize (if id_dup c2 o2 i then add_diags w2 (cfg_diag c2 "duplicate option '%s' not allowed") else w2).
    intros v2 v1 HV.
    rewrite (eo_oflag _ _ CFGF_NODEFAULT Ho), (eo_kind _ _ Ho), (eo_oflag _ _ CFGF_MULTI Ho).
    destruct (oflag o2 CFGF_NODEFAULT); [apply Next; assumption|].
    destruct (negb (kind_eqb (o_kind o2) KSec)).
    + assert (HE1 : eo (o_setf o1 CFGF_DEFINIT) = eo (o_setf o2 CFGF_DEFINIT)) by (apply E_setf, Ho).
      rewrite (eo_oflag _ _ CFGF_LIST HE1), (eo_def _ _ HE1).
      destruct (oflag (o_setf o2 CFGF_DEFINIT) CFGF_LIST || match d_parsed (o_def (o_setf o2 CFGF_DEFINIT)) with Some _ => true | None => false end).
      * destruct (d_parsed (o_def (o_setf o2 CFGF_DEFINIT))) as [[|b buf]|].
        -- apply Next; [assumption|Esolve].
        -- (* a default text is scanned: a buffer is pushed *)
           left. pose proof (push_bad v1 v2 (cstr (b :: buf)) HV) as HB.
           match goal with |- context [PI f ?a ?b ?c ?d] =>
             assert (H2 : bad (fst (fst (PI f a b c d)))) by (apply Mpi; exact HB);
             destruct (PI f a b c d) as [[w2' c2'] rc] end.
           unfold fst in H2.
           destruct rc; try (apply id_loop_bad'; apply (bad_flags N w2'); [reflexivity|exact H2]).
           unfold fst. apply bad_set_crash_now.
        -- apply Next; [assumption|Esolve].
      * apply Next; [assumption|Esolve].
    + destruct (negb (oflag o2 CFGF_MULTI)); [|apply Next; assumption].
      pose proof (IHso v1 v2 c1 c2 o1 o2 None HV HC Ho) as Hs.
      destruct (SO f v1 c1 o1 None) as [[a1 b1] r1], (SO f v2 c2 o2 None) as [[a2 b2] r2].
      unfold RESso in Hs. cbn [fst snd] in Hs. destruct Hs as [Hs|(_ & Hb & Ha)].
      * left. apply id_loop_bad', Hs.
      * apply Next; [assumption|Esolve].
Qed.

Lemma ID_S_sim w1 w2 c1 c2 : WR w1 w2 -> ec c1 = ec c2 -> RESid (ID (S f) w1 c1) (ID (S f) w2 c2).
Proof.
  intros HW HC. rewrite !id_unfold. apply id_loop_sim; [|assumption|assumption].
  apply ec_olen, HC.
Qed.


(* ---- the include call leaves its option in the parser's `opt' variable; harmless unless it is deprecated ---- *)
Lemma hd_nodep w c r o : get_opt c r = Some o -> oflag o CFGF_DEPRECATED = false -> handle_deprecated w c r = (w, c).
Proof. intros H1 H2. unfold handle_deprecated. rewrite H1, H2. reflexivity. Qed.

Definition BR (g : nat) : Prop :=
  forall w1 w2 c1 c2 level p r o, WR w1 w2 -> ec c1 = ec c2 -> s_state p = 0 -> s_opt p = Some r ->
    get_opt c1 r = Some o -> oflag o CFGF_DEPRECATED = false ->
    RESpi (PI g w1 c1 level p) (PI g w2 c2 level (st_opt p None)).

Hypothesis IHbr : BR f.

Lemma st0_bridge level p w1 w2 c1 c2 t v r o : WR w1 w2 -> ec c1 = ec c2 -> s_state p = 0 -> s_opt p = Some r ->
  get_opt c1 r = Some o -> oflag o CFGF_DEPRECATED = false ->
  RESpi (st0 strtod_o f level p w1 c1 t v) (st0 strtod_o f level (st_opt p None) w2 c2 t v).
Proof.
  intros HW HC Hs Hr Hg Hd. unfold st0, dep_w. cbn [s_opt st_opt]. rewrite Hr, (hd_nodep w1 c1 r o Hg Hd).
  destruct t as [| |x| |].
  - (* a string: the option variable is overwritten *)
    change (st_opt (st_opt p None)) with (st_opt p). unfold addopt. repeat rstep.
    all: match goal with H : ec ?a = ec ?b |- context [length (c_opts ?a)] => rewrite (ec_olen _ _ H) end; repeat rstep.
  - (* a comment: the mismatch persists *)
    rewrite (ec_cflag _ _ CFGF_COMMENTS HC). destruct (negb (cflag c2 CFGF_COMMENTS)).
    + eapply IHbr; eauto.
    + change (st_comment (st_opt p None) (Some (sval v))) with (st_opt (st_comment p (Some (sval v))) None).
      eapply IHbr; eauto.
  - repeat rstep.
  - repeat rstep.
  - repeat rstep.
Qed.

Lemma PI_S_bridge : BR (S f).
Proof.
  intros w1 w2 c1 c2 level p r o HW HC Hs Hr Hg Hd. rewrite !pi_unfold.
  pose proof (next_token_sim f w1 w2 c1 c2 HW HC) as H. cbv zeta in H.
  pose proof (next_token_ctx f w1 c1) as Hc1.
  destruct (next_token f w1 c1) as [[[w1' c1'] t1] v1], (next_token f w2 c2) as [[[w2' c2'] t2] v2]. cbn [fst snd] in H, Hc1.
  destruct H as [H|(-> & -> & HC' & HWc & HW')].
  - left. apply pi_bad_rest, H.
  - assert (Hg' : get_opt c1' r = Some o) by (destruct Hc1 as [pos ->]; rewrite get_opt_set_pos; exact Hg).
    unfold PP_Step.pi_body. cbn [s_state st_opt s_forced]. rewrite Hs. cbn [Nat.eqb negb].
    destruct t2 as [| |x| |].
    + unfold st_dispatch. cbn [s_state st_opt]. rewrite Hs. apply (st0_bridge level p w1' w2' c1' c2' TStr v2 r o); auto. apply HW'; discriminate.
    + unfold st_dispatch. cbn [s_state st_opt]. rewrite Hs. apply (st0_bridge level p w1' w2' c1' c2' TComment v2 r o); auto. apply HW'; discriminate.
    + unfold st_dispatch. cbn [s_state st_opt]. rewrite Hs. apply (st0_bridge level p w1' w2' c1' c2' (TPunct x) v2 r o); auto. apply HW'; discriminate.
    + assert (HW2 : WR w1' w2') by (apply HW'; discriminate).
      unfold dep_w. cbn [s_opt st_opt]. rewrite Hr, (hd_nodep w1' c1' r o Hg' Hd).
      destruct (negb (Nat.eqb level 0) && negb (s_forced p)); rleaf.
    + rleaf.
Qed.

End Sim.

(* ================================================================== *)
(* 6. all levels                                                        *)
(* ================================================================== *)
Theorem sim_all strtod_o N : forall f,
  (forall w1 w2 c1 c2 level p, WR N w1 w2 -> ec c1 = ec c2 ->
     RESpi N (parse_internal strtod_o f w1 c1 level p) (parse_internal strtod_o f w2 c2 level p)) /\
  (forall w1 w2 c1 c2 o1 o2 txt, WR N w1 w2 -> ec c1 = ec c2 -> eo o1 = eo o2 ->
     RESso N (setopt strtod_o f w1 c1 o1 txt) (setopt strtod_o f w2 c2 o2 txt)) /\
  (forall w1 w2 c1 c2, WR N w1 w2 -> ec c1 = ec c2 ->
     RESid N (init_defaults strtod_o f w1 c1) (init_defaults strtod_o f w2 c2)).
Proof.
  induction f as [|f (IHp & IHs & IHi)].
  - split; [|split]; intros; left; apply bad_set_oof.
  - split; [|split]; intros.
    + apply PI_S_sim; assumption.
    + apply SO_S_sim; assumption.
    + apply ID_S_sim; assumption.
Qed.

Theorem bridge_all strtod_o N : forall f, BR strtod_o N f.
Proof.
  induction f as [|f IH].
  - intros w1 w2 c1 c2 level p r o _ _ _ _ _ _. left. apply bad_set_oof.
  - destruct (sim_all strtod_o N f) as (A & B & C). apply PI_S_bridge; assumption.
Qed.

(* ================================================================== *)
(* 7. the include call itself, and the theorem                          *)
(* ================================================================== *)
Definition keep (w w' : pw) : Prop :=
  w_env w' = w_env w /\ w_fs w' = w_fs w /\ w_pw w' = w_pw w /\ w_path w' = w_path w /\ w_cbs w' = w_cbs w /\
  w_cnt w' = w_cnt w /\ w_failat w' = w_failat w /\ w_nextptr w' = w_nextptr w /\ w_diags w' = w_diags w /\
  w_crash w' = w_crash w /\ w_oof w' = w_oof w.

Lemma keep_refl w : keep w w. Proof. unfold keep; auto 12. Qed.
Lemma keep_trans a b c : keep a b -> keep b c -> keep a c.
Proof. unfold keep. intros (A1&A2&A3&A4&A5&A6&A7&A8&A9&A10&A11) (B1&B2&B3&B4&B5&B6&B7&B8&B9&B10&B11). repeat split; congruence. Qed.

Lemma next_token_step fl w c t v s' k : tok_step (w_env w) (w_lex w) t v s' k -> measure (w_lex w) < fl ->
  exists w' pos, next_token fl w c = (w', set_pos c pos, t, v) /\ w_lex w' = s' /\ keep w w' /\ w_open w' = w_open w - k.
Proof.
  intros H Hf. unfold next_token. destruct (H (c_pos c) fl Hf) as (A & B & C & D & E & F). cbv zeta in *.
  rewrite A, B, C, D, E, F. destruct (c_err c); eexists _, _; (split; [reflexivity|]); cbn; unfold keep; cbn; auto 15.
Qed.

Lemma next_token_add_nil fl w c w' c' t v :
  next_token fl w c = (w', c', t, v) -> next_token fl (add_diags w []) c = (add_diags w' [], c', t, v).
Proof.
  unfold next_token. cbv zeta. cbn [w_env w_lex add_diags].
  intros E. injection E as <- <- <- <-. destruct (r_fuel_out _), (c_err c); reflexivity.
Qed.

Lemma tok_step_facts e s t v s' k : tok_step e s t v s' k ->
  measure s' <= measure s /\ l_next s' = l_next s /\ (q_inv (l_q s) -> q_inv (l_q s')).
Proof.
  intros H. destruct (H pos0 (S (measure s)) (Nat.lt_succ_diag_r _)) as (_ & _ & C & _). cbv zeta in C. rewrite <- C.
  split; [apply yylex_measure_le|]. split; [apply yylex_next|apply yylex_qinv].
Qed.

Lemma getopt_set_pos c p name r : cfg_getopt c name = (Some r, []) -> cfg_getopt (set_pos c p) name = (Some r, []).
Proof.
  intros H. destruct (cfg_getopt_ec (set_pos c p) c name (ec_set_pos c p)) as [A B]. rewrite H in A, B. cbn [fst snd map] in A, B.
  destruct (cfg_getopt (set_pos c p) name) as [ro ds]. cbn [fst snd] in A, B. apply map_eq_nil in B. subst. reflexivity.
Qed.

Lemma get_opt_pos3 c p f l r : get_opt (set_line (set_file (set_pos c p) f) l) r = get_opt c r.
Proof. apply ceq_get. eapply ceq_trans; [apply ceq_set_line|]. eapply ceq_trans; [apply ceq_set_file|apply ceq_set_pos]. Qed.

Lemma delivers_cons_inv e s t ts n s'' : delivers e s (t :: ts) n s'' ->
  exists s' k n', n = k + n' /\ tok_step e s (lt_tok t) (lt_val t) s' k /\ delivers e s' ts n' s''.
Proof. intros H. inversion H; subst. eauto 8. Qed.
Lemma delivers_nil_inv e s n s'' : delivers e s [] n s'' -> n = 0 /\ s'' = s.
Proof. intros H. inversion H; subst. auto. Qed.

Section Top.
Variable strtod_o : str -> strtod_res.
Notation PI := (parse_internal strtod_o).

Variables (w : pw) (c : cfg) (fuel : nat) (id : nat) (post : str) (others : list (nat * str)).
Variables (iname fname x F : str) (r : optref) (o : opt) (L1 : lexst).
Variables (tn tl ta tr : ltok).

(* the scanner is at a token boundary *)
Hypothesis Hsc : l_sc (w_lex w) = INITIAL.
Hypothesis Hrd : l_rderr (w_lex w) = false.
Hypothesis Hq : q_inv (l_q (w_lex w)).
Hypothesis Hwf : lex_wf (w_lex w).
(* its next four tokens are  iname ( "fname" )  and then `post` is what is left of the current buffer *)
Hypothesis Hdel : delivers (w_env w) (w_lex w) [tn; tl; ta; tr] 0 L1.
Hypothesis Htn : lt_tok tn = TStr /\ lt_val tn = Some iname.
Hypothesis Htl : lt_tok tl = TPunct 40.
Hypothesis Hta : lt_tok ta = TStr /\ lt_val ta = Some fname.
Hypothesis Htr : lt_tok tr = TPunct 41.
Hypothesis Hb1 : l_bufs L1 = (id, post) :: others.
Hypothesis Hi1 : l_inc L1 = l_inc (w_lex w).
Hypothesis Hfuel : measure (w_lex w) < fuel.
(* iname is the include function *)
Hypothesis Hget : cfg_getopt c iname = (Some r, []).
Hypothesis Hopt : get_opt c r = Some o.
Hypothesis Hkind : o_kind o = KFunc.
Hypothesis Hfunc : cb_func (o_cbs o) = Some FInclude.
Hypothesis Hdep : oflag o CFGF_DEPRECATED = false.
(* the file can be included *)
Hypothesis Hdepth : S (length (l_inc (w_lex w))) < MAX_INCLUDE_DEPTH.
Hypothesis Hname : include_name w fname = Some x.
Hypothesis Hopen : open_input (w_fs w) x = Some F.
(* F's last match does not run into what follows *)
Hypothesis Hinl : InlOK post INITIAL F.

(* the same scanner with F's text in place of the include call *)
Definition inline_world : pw := upd_lex w (set_bufs (w_lex w) ((id, F ++ post) :: others)).

Lemma include_call_run :
  exists wS cS pS,
    PI (4 + fuel) w c 0 (pst0 0 None) = PI fuel wS cS 0 pS /\
    WR (S (l_next (w_lex w))) wS inline_world /\ ec cS = ec c /\
    s_state pS = 0 /\ s_opt pS = Some r /\ st_opt pS None = pst0 0 None /\ get_opt cS r = Some o.
Proof.
  destruct Htn as [Htn1 Htn2], Hta as [Hta1 Hta2].
  destruct (delivers_cons_inv _ _ _ _ _ _ Hdel) as (s1 & k1 & n1 & En1 & T1 & D1).
  destruct (delivers_cons_inv _ _ _ _ _ _ D1) as (s2 & k2 & n2 & En2 & T2 & D2).
  destruct (delivers_cons_inv _ _ _ _ _ _ D2) as (s3 & k3 & n3 & En3 & T3 & D3).
  destruct (delivers_cons_inv _ _ _ _ _ _ D3) as (s4 & k4 & n4 & En4 & T4 & D4).
  destruct (delivers_nil_inv _ _ _ _ D4) as (En5 & Es4).
  rewrite Htn1, Htn2 in T1. rewrite Htl in T2. rewrite Hta1, Hta2 in T3. rewrite Htr in T4.
  assert (k1 = 0 /\ k2 = 0 /\ k3 = 0 /\ k4 = 0) as (Ek1 & Ek2 & Ek3 & Ek4) by lia.
  rewrite Ek1 in T1. rewrite Ek2 in T2. rewrite Ek3 in T3. rewrite Ek4 in T4. rewrite <- Es4 in T4.
  clear D1 D2 D3 D4 En1 En2 En3 En4 En5 Ek1 Ek2 Ek3 Ek4 k1 k2 k3 k4 n1 n2 n3 n4 Es4 s4.
  destruct (tok_step_facts _ _ _ _ _ _ T1) as (M1 & N1 & Q1).
  destruct (tok_step_facts _ _ _ _ _ _ T2) as (M2 & N2 & Q2).
  destruct (tok_step_facts _ _ _ _ _ _ T3) as (M3 & N3 & Q3).
  destruct (tok_step_facts _ _ _ _ _ _ T4) as (M4 & N4 & Q4).
  (* token 1: the name *)
  destruct (next_token_step (3 + fuel) w c _ _ _ _ T1 ltac:(lia)) as (w1 & p1 & E1 & L1' & K1 & _).
  pose proof K1 as (Ke1 & _).
  rewrite <- L1', <- Ke1 in T2.
  destruct (next_token_step (2 + fuel) w1 (set_pos c p1) _ _ _ _ T2 ltac:(rewrite L1'; lia)) as (w2 & p2 & E2 & L2' & K2 & _).
  pose proof (keep_trans _ _ _ K1 K2) as K12. pose proof K12 as (Ke2 & _).
  rewrite <- L2', <- Ke2 in T3.
  destruct (next_token_step (1 + fuel) w2 (set_pos (set_pos c p1) p2) _ _ _ _ T3 ltac:(rewrite L2'; lia)) as (w3 & p3 & E3 & L3' & K3 & _).
  pose proof (keep_trans _ _ _ K12 K3) as K13. pose proof K13 as (Ke3 & _).
  rewrite <- L3', <- Ke3 in T4.
  destruct (next_token_step fuel w3 (set_pos (set_pos (set_pos c p1) p2) p3) _ _ _ _ T4 ltac:(rewrite L3'; lia)) as (w4 & p4 & E4 & L4' & K4 & _).
  pose proof (keep_trans _ _ _ K13 K4) as K14.
  set (c4 := set_pos (set_pos (set_pos (set_pos c p1) p2) p3) p4) in *.
  assert (G4 : get_opt c4 r = Some o) by (unfold c4; rewrite !get_opt_set_pos; exact Hopt).
  (* the include *)
  assert (HI : lexer_include w4 c4 fname =
               (set_open (upd_lex w4 (include_state (w_lex w4) (c_file c4) (c_line c4) F)) (S (w_open w4)),
                set_line (set_file c4 (Some x)) 1, false)).
  { apply lexer_include_ok.
    - rewrite L4', Hi1. lia.
    - unfold include_name in *. destruct K14 as (_ & A2 & A3 & A4 & _). rewrite A2, A3, A4. exact Hname.
    - destruct K14 as (_ & A2 & _). rewrite A2. exact Hopen. }
  eexists _, _, _. split; [|split; [|split; [|split; [|split; [|split]]]]].
  - change (4 + fuel) with (S (3 + fuel)). rewrite pi_unfold, E1. unfold PP_Step.pi_body, st_dispatch. cbn [pst0 s_state Nat.eqb negb].
    unfold st0, dep_w. cbn [pst0 s_opt sval]. rewrite (getopt_set_pos c p1 iname r Hget), get_opt_set_pos, Hopt, Hkind.
    change (3 + fuel) with (S (2 + fuel)). rewrite pi_unfold.
    assert (E2' : next_token (2 + fuel) (add_diags w1 []) (set_pos c p1) = (add_diags w2 [], set_pos (set_pos c p1) p2, TPunct 40, lt_val tl)).
    { apply next_token_add_nil, E2. }
    rewrite E2'. unfold PP_Step.pi_body, st_dispatch. cbn [st_state st_opt pst0 s_state Nat.eqb negb].
    unfold st7. cbn [tok_is N.eqb Pos.eqb negb].
    change (2 + fuel) with (S (1 + fuel)). rewrite pi_unfold.
    assert (E3' : next_token (1 + fuel) (add_diags w2 []) (set_pos (set_pos c p1) p2) =
                  (add_diags w3 [], set_pos (set_pos (set_pos c p1) p2) p3, TStr, Some fname)).
    { apply next_token_add_nil, E3. }
    rewrite E3'. unfold PP_Step.pi_body, st_dispatch. cbn [st_state st_opt pst0 s_state Nat.eqb negb].
    unfold st89. cbn [st_state st_opt pst0 s_state s_args Nat.eqb tok_is tok_is_str sval app].
    change (1 + fuel) with (S fuel). rewrite pi_unfold.
    assert (E4' : next_token fuel (add_diags w3 []) (set_pos (set_pos (set_pos c p1) p2) p3) = (add_diags w4 [], c4, TPunct 41, lt_val tr)).
    { apply next_token_add_nil, E4. }
    rewrite E4'. unfold PP_Step.pi_body, st_dispatch. cbn [st_state st_opt st_args pst0 s_state Nat.eqb negb].
    unfold st89, curopt_of. cbn [st_state st_opt st_args pst0 s_state s_opt s_args Nat.eqb tok_is N.eqb Pos.eqb].
    rewrite G4, Hfunc.
    assert (HI' : lexer_include (add_diags w4 []) c4 fname =
               (set_open (upd_lex (add_diags w4 []) (include_state (w_lex w4) (c_file c4) (c_line c4) F)) (S (w_open w4)),
                set_line (set_file c4 (Some x)) 1, false)).
    { apply (lexer_include_ok (add_diags w4 []) c4 fname x F).
      - cbn [w_lex add_diags]. rewrite L4', Hi1. lia.
      - unfold include_name in *. cbn [w_path w_pw w_fs add_diags]. destruct K14 as (_ & A2 & A3 & A4 & _). rewrite A2, A3, A4. exact Hname.
      - cbn [w_fs add_diags]. destruct K14 as (_ & A2 & _). rewrite A2. exact Hopen. }
    rewrite HI'. reflexivity.
  - (* the worlds at the synchronisation point *)
    destruct K14 as (A1 & A2 & A3 & A4 & A5 & A6 & A7 & A8 & A9 & A10 & A11).
    unfold WR, inline_world. cbn [w_oof w_crash w_env w_fs w_pw w_path w_cbs w_cnt w_failat w_nextptr w_diags w_lex set_open upd_lex add_diags rev app].
    rewrite A1, A2, A3, A4, A5, A6, A7, A8, A9, A10, A11, L4'.
    repeat (split; [reflexivity|]).
    assert (Hn4 : l_next L1 = l_next (w_lex w)).
    { rewrite N4, N3, N2, N1. reflexivity. }
    assert (Hq4 : q_inv (l_q L1)).
    { apply Q4, Q3, Q2, Q1, Hq. }
    split; [|split; [reflexivity|split; [cbn; rewrite Hn4; reflexivity|cbn [include_state scan_begin set_inc l_inc length]; rewrite Hi1; exact Hdepth]]].
    unfold LRs, Rq, include_state, scan_begin. cbn [set_inc set_bufs l_sc l_q l_rderr l_bufs l_inc l_next].
    rewrite Hsc, Hb1, Hi1.
    split; [split; [reflexivity|split; [exact Hq4|split; [exact Hq|intros K; contradiction K; reflexivity]]]|].
    split; [reflexivity|]. split; [exact Hrd|].
    split; [apply SR_inl; [exact Hinl|reflexivity]|].
    split; [|exact Hwf].
    unfold lex_wf in *. cbn [l_inc l_next i_buf]. constructor; [cbn [i_buf]; lia|].
    rewrite Hn4. eapply Forall_impl; [|exact Hwf]. cbv beta. intros; lia.
  - rewrite ec_set_line, ec_set_file. unfold c4. rewrite !ec_set_pos. reflexivity.
  - reflexivity.
  - reflexivity.
  - reflexivity.
  - unfold c4. rewrite get_opt_pos3, !get_opt_set_pos. exact Hopt.
Qed.

(* C13 (partial): include = text in place.  PARTIAL in that the include-side run must stay within fuel, meet no
   would-be crash, and push no flex buffer other than the one of this include (no nested include, no default text
   scanned by cfg_init_defaults on the way).  Accepted or rejected alike. *)
Theorem include_is_inline_partial :
  forall wA cA rcA wB cB rcB,
  PI (4 + fuel) w c 0 (pst0 0 None) = (wA, cA, rcA) ->
  PI fuel inline_world c 0 (pst0 0 None) = (wB, cB, rcB) ->
  w_oof wA = false -> w_crash wA = None -> l_next (w_lex wA) = S (l_next (w_lex w)) ->
  rcA = rcB /\ ec cA = ec cB /\ obs_c cA = obs_c cB /\
  w_cbs wA = w_cbs wB /\ w_cnt wA = w_cnt wB /\ w_nextptr wA = w_nextptr wB /\
  map d_fmt (w_diags wA) = map d_fmt (w_diags wB) /\ w_oof wB = false /\ w_crash wB = None.
Proof.
  intros wA cA rcA wB cB rcB EA EB Hoof Hcr Hnx.
  destruct include_call_run as (wS & cS & pS & Erun & HW & HC & Hs0 & Hsr & Hp0 & Hg).
  pose proof (bridge_all strtod_o (S (l_next (w_lex w))) fuel wS inline_world cS c 0 pS r o HW HC Hs0 Hsr Hg Hdep) as H.
  rewrite Hp0, <- Erun, EA, EB in H. unfold RESpi in H. cbn [fst snd] in H.
  destruct H as [H|(H1 & H2 & H3 & _)].
  - exfalso. unfold bad, badf, flags in H. cbn [fst snd] in H. rewrite Hoof, Hcr, Hnx in H.
    destruct H as [H|[H|H]]; [discriminate|contradiction H; reflexivity|lia].
  - destruct H3 as (X1 & X2 & _ & _ & _ & _ & A5 & A6 & _ & A8 & A9).
    split; [exact H1|]. split; [exact H2|]. split; [apply ec_obs, H2|].
    repeat (split; [assumption|]). split; congruence.
Qed.

End Top.
