(* Properties_C14b.v — C14, the registration part: "callback registration by schema path
   (cfg_set_validate_func, cfg_set_validate_func2, cfg_getopt_array)".
   Only statements here; proofs are in RegProofs.v.  What happens once an option HAS a callback is
   Properties_C14.v (C14_verdict_binds, C14_parse_callback_contract, C14_validate2_veto_and_rewrite, ...).

   MODEL  Api.array_upd fuel opts nocase name f   cfg_getopt_array(opts, flags, name) followed by an
            assignment f through the returned pointer.  A path  a|b|c  walks the live tree at the root and
            inside instance 0 of a SINGLE section, but through the option TEMPLATE o_sub of a MULTI
            section (and of a single section that has no instance yet).
          Api.cfg_set_validate_func c name k / cfg_set_validate_func2 c name k
            = array_upd (S (length name)) (c_opts c) (cflag c CFGF_NOCASE) name (set cb_valid / cb_valid2 := Some k);
            a NULL result of cfg_getopt_array leaves the tree as it is.
          Grammar.instance / open_instance (reference meaning) and Parser.setopt, KSec branch (model):
            a new section instance is built from the template of its section option.
   VOCABULARY (RegProofs.v)
     nobar s            no '|' in s;  strip_bars s: s without its leading '|'s
     set_sub o l        o with template l
     loc                LHere i | LInst k l | LTmpl k l: option i of this list / a place inside instance 0
                        of the single section at index k / a place inside the template of the section at k
     resolve fuel opts nocase name : option loc     cfg_getopt_array as a pure lookup
     resolve_path opts nocase name                  = resolve (S (length name)) ...
     upd_loc opts l f   apply f at place l, everything else as it is;  get_loc opts l  read place l
     loc_head l         the index, in this list, of the option at or under which l lies
     last_seg name      what follows the last '|'
     decl o             (o_name o, o_kind o, o_sub o, o_def o, o_cbs o): what o is declared as
     setv k / setv2 k   the two assignments;  reg f c name: array_upd with f on context c
     only_valid_changed k u u'    u' is u with cb_valid := Some k, the twelve other fields equal
     only_valid2_changed k u u'   likewise for cb_valid2
     only_template_changed m m'   o_vals, o_name, o_kind, o_flags, o_def, o_comment, o_cbs of m' are those of m
     keeps f            f leaves name, kind, flags, values and template of every option alone
   NOTHING REFUTED: every statement of the task holds in the model. *)
From Coq Require String.
Import String.StringSyntax.
From Coq Require Import List Arith NArith ZArith Bool.
From Coq.Strings Require Import Byte.
From LC Require Import Bytes Consts Conv Flex LexAct Lexer Files Store Parser Api Grammar
  HdrProofs ApiProofs CallbackProofs RegProofs.
Import ListNotations.
Local Open Scope string_scope.
Local Open Scope list_scope.

(* ================================================================== *)
(* 1. cfg_getopt_array on the basic path shapes                         *)
(* ================================================================== *)

(* 1a. a plain name: the FIRST option whose name matches under name_eqb nocase gets f; none: NULL *)
Theorem C14b_path_plain :
  forall (fuel : nat) (opts : list opt) (nocase : bool) (n : str) (f : opt -> opt),
  nobar n = true ->
  array_upd (S fuel) opts nocase n f =
  match find_idx (fun o => name_eqb nocase (o_name o) n) opts 0 with
  | Some i => Some (upd_nth opts i f)
  | None => None
  end.
Proof. exact array_upd_plain. Qed.
Print Assumptions C14b_path_plain.

Theorem C14b_first_match :
  forall (A : Type) (p : A -> bool) (l : list A) (i : nat),
  find_idx p l 0 = Some i ->
  (exists x, nth_error l i = Some x /\ p x = true) /\
  (forall j y, j < i -> nth_error l j = Some y -> p y = false).
Proof. exact @find_idx_first. Qed.
Print Assumptions C14b_first_match.

(* 1b. s|rest, s a section WITHOUT CFGF_MULTI that holds an instance: the walk goes on in that
   instance, whose option list is replaced by the result — and nothing else of s or of opts *)
Theorem C14b_path_single :
  forall (fuel : nat) (opts : list opt) (nocase : bool) (s rest : str) (f : opt -> opt)
         (k : nat) (so : opt) (inst : cfg),
  nobar s = true -> s <> [] ->
  find_idx (fun o => name_eqb nocase (o_name o) s) opts 0 = Some k ->
  nth_error opts k = Some so -> o_kind so = KSec ->
  oflag so CFGF_MULTI = false -> nth_sec so 0 = Some inst ->
  array_upd (S fuel) opts nocase (s ++ x7c :: rest) f =
  match array_upd fuel (c_opts inst) nocase (strip_bars rest) f with
  | Some opts' =>
      Some (upd_nth opts k (fun o => set_vals o (upd_nth (o_vals o) 0 (fun _ => VSec (Some (set_opts inst opts'))))))
  | None => None
  end.
Proof. exact array_upd_single. Qed.
Print Assumptions C14b_path_single.

(* 1c. m|rest, m a section WITH CFGF_MULTI, or a single section without instance: the walk goes on
   in the template; the live values o_vals of m are not touched (set_sub only replaces the template) *)
Theorem C14b_path_template :
  forall (fuel : nat) (opts : list opt) (nocase : bool) (s rest : str) (f : opt -> opt) (k : nat) (so : opt),
  nobar s = true -> s <> [] ->
  find_idx (fun o => name_eqb nocase (o_name o) s) opts 0 = Some k ->
  nth_error opts k = Some so -> o_kind so = KSec ->
  (oflag so CFGF_MULTI = true \/ nth_sec so 0 = None) ->
  array_upd (S fuel) opts nocase (s ++ x7c :: rest) f =
  match array_upd fuel (o_sub so) nocase (strip_bars rest) f with
  | Some sub' => Some (upd_nth opts k (fun o => set_sub o sub'))
  | None => None
  end.
Proof. exact array_upd_template. Qed.
Print Assumptions C14b_path_template.

(* 1d. the len = 0 branch: a leading separator is skipped together with the separators that follow it;
   repeated separators inside a path (a||b) are the strip_bars of 1b / 1c *)
Theorem C14b_path_separators :
  (forall fuel opts nocase rest f,
     array_upd (S fuel) opts nocase (x7c :: rest) f = array_upd fuel opts nocase (strip_bars rest) f) /\
  (forall rest, strip_bars (x7c :: rest) = strip_bars rest) /\
  (forall s, nobar s = true -> strip_bars s = s) /\
  strip_bars [] = [].
Proof. exact path_separators. Qed.
Print Assumptions C14b_path_separators.

(* the NULL results of a section step: no such option, or not a section (and no fuel at all) *)
Theorem C14b_path_failures :
  forall (fuel : nat) (opts : list opt) (nocase : bool) (s rest : str) (f : opt -> opt),
  nobar s = true -> s <> [] ->
  (forallb (fun o => negb (name_eqb nocase (o_name o) s)) opts = true ->
   array_upd (S fuel) opts nocase (s ++ x7c :: rest) f = None) /\
  (forall k so, find_idx (fun o => name_eqb nocase (o_name o) s) opts 0 = Some k ->
                nth_error opts k = Some so -> o_kind so <> KSec ->
                array_upd (S fuel) opts nocase (s ++ x7c :: rest) f = None) /\
  (array_upd 0 opts nocase (s ++ x7c :: rest) f = None).
Proof. exact path_failures. Qed.
Print Assumptions C14b_path_failures.

(* ================================================================== *)
(* 2. the general statement                                             *)
(* ================================================================== *)

(* cfg_getopt_array designates a place by a lookup that does not depend on f, and array_upd applies f at
   that place and nowhere else; two assignments succeed or fail together; any fuel above the length of
   the path gives the answer of S (length name): the model never runs out of fuel *)
Theorem C14b_path_general :
  forall (fuel : nat) (opts : list opt) (nocase : bool) (name : str) (f : opt -> opt),
  array_upd fuel opts nocase name f = option_map (fun l => upd_loc opts l f) (resolve fuel opts nocase name) /\
  (forall g, array_upd fuel opts nocase name f = None <-> array_upd fuel opts nocase name g = None) /\
  (length name < fuel ->
   array_upd fuel opts nocase name f = array_upd (S (length name)) opts nocase name f /\
   resolve fuel opts nocase name = resolve_path opts nocase name).
Proof. exact path_general. Qed.
Print Assumptions C14b_path_general.

(* the designated place holds an option named like the last segment of the path; afterwards it holds f of
   that option; the list keeps its length and every option not on the way to the place *)
Theorem C14b_place_read_back :
  forall (nocase : bool) (fuel : nat) (opts : list opt) (name : str) (l : loc) (f : opt -> opt),
  resolve fuel opts nocase name = Some l ->
  (exists o, get_loc opts l = Some o /\ name_eqb nocase (o_name o) (last_seg name) = true /\
             get_loc (upd_loc opts l f) l = Some (f o)) /\
  length (upd_loc opts l f) = length opts /\
  (forall j, j <> loc_head l -> nth_error (upd_loc opts l f) j = nth_error opts j).
Proof. exact place_read_back. Qed.
Print Assumptions C14b_place_read_back.

(* on the way to the place: a step into a template leaves the live values (and everything else) of the
   section option alone; a step into an instance leaves its template and its other instances alone *)
Theorem C14b_place_frame :
  forall (f : opt -> opt) (k : nat) (l : loc) (opts : list opt) (o : opt),
  nth_error opts k = Some o ->
  (exists o', nth_error (upd_loc opts (LTmpl k l) f) k = Some o' /\
              o_vals o' = o_vals o /\ o_sub o' = upd_loc (o_sub o) l f /\
              o_name o' = o_name o /\ o_kind o' = o_kind o /\ o_flags o' = o_flags o /\
              o_def o' = o_def o /\ o_comment o' = o_comment o /\ o_cbs o' = o_cbs o) /\
  (exists o', nth_error (upd_loc opts (LInst k l) f) k = Some o' /\
              o_sub o' = o_sub o /\
              o_name o' = o_name o /\ o_kind o' = o_kind o /\ o_flags o' = o_flags o /\
              o_def o' = o_def o /\ o_comment o' = o_comment o /\ o_cbs o' = o_cbs o /\
              (forall v, v <> 0 -> nth_error (o_vals o') v = nth_error (o_vals o) v)).
Proof. exact place_frame. Qed.
Print Assumptions C14b_place_frame.

(* ================================================================== *)
(* 3. callbacks are copied with the declarations                        *)
(* ================================================================== *)

(* cfg_setopt keeps the declaration of the option it works on; cfg_init_defaults and cfg_parse_internal
   keep, index by index, the declarations of the context they work on — whatever the fuel *)
Theorem C14b_declarations_survive :
  forall (sd : str -> strtod_res) (fuel : nat),
  (forall w c o t, decl (snd (fst (setopt sd fuel w c o t))) = decl o) /\
  (forall w c j u, nth_error (c_opts c) j = Some u ->
     exists u', nth_error (c_opts (snd (init_defaults sd fuel w c))) j = Some u' /\ decl u' = decl u) /\
  (forall w c l p j u, nth_error (c_opts c) j = Some u ->
     exists u', nth_error (c_opts (snd (fst (parse_internal sd fuel w c l p)))) j = Some u' /\ decl u' = decl u).
Proof. exact declarations_survive. Qed.
Print Assumptions C14b_declarations_survive.

(* a NEW instance of section option m — Grammar.instance; the instance Grammar.open_instance opens on a
   multi section; the instance cfg_setopt stores when it answers a slot of a multi section or of a single
   section without values — has, at index j, an option declared like sub-option j of m's template *)
Theorem C14b_new_instance_declared :
  forall (sd : str -> strtod_res) (m : opt) (j : nat) (u : opt),
  nth_error (o_sub m) j = Some u ->
  (forall fl title, exists u', nth_error (c_opts (instance sd fl m title)) j = Some u' /\
                               decl u' = decl u /\ o_flags u' = o_flags u /\ o_comment u' = o_comment u) /\
  (forall ctx nocase title vals' idx,
     oflag m CFGF_MULTI = true -> open_instance sd ctx nocase m title = Some (vals', idx) ->
     nth_error vals' idx = Some (VSec (Some (instance sd ctx m title))) /\
     (forall v, v <> idx -> v < length (o_vals m) -> nth_error vals' v = nth_error (o_vals m) v)) /\
  (forall fuel w c txt w' o' idx,
     o_kind m = KSec -> (oflag m CFGF_MULTI = true \/ o_vals m = []) ->
     setopt sd (S fuel) w c m txt = (w', o', Some idx) ->
     exists sec u', nth_sec o' idx = Some sec /\ c_title sec = txt /\
                    nth_error (c_opts sec) j = Some u' /\ decl u' = decl u).
Proof. exact new_instance_declared. Qed.
Print Assumptions C14b_new_instance_declared.

(* ================================================================== *)
(* 4. registration through a multi section binds the OPTION             *)
(* ================================================================== *)

(* cfg_set_validate_func(cfg, "m|u", k), m the first option named m, a multi section whose template
   declares u at index j.  Afterwards
   - the template sub-option is u with cb_valid = Some k and nothing else changed; the other sub-options
     of the template, the other fields of m (its live values!) and the other options are as before;
   - the instances of m that exist are the same contexts as before (get_sec), so every option in them —
     their u included — keeps the callbacks it had (get_opt);
   - every instance created afterwards from m has, at index j, an option declared like the new template
     sub-option, hence with cb_valid = Some k: Grammar.instance, the instance Grammar.open_instance opens
     (the other instances stay), and the instance cfg_setopt stores in the slot it answers. *)
Theorem C14b_validate_multi :
  forall (c : cfg) (mname uname : str) (i j : nat) (m u : opt) (k : N),
  nobar mname = true -> mname <> [] -> nobar uname = true ->
  find_idx (fun o => name_eqb (cflag c CFGF_NOCASE) (o_name o) mname) (c_opts c) 0 = Some i ->
  nth_error (c_opts c) i = Some m -> o_kind m = KSec -> oflag m CFGF_MULTI = true ->
  find_idx (fun o => name_eqb (cflag c CFGF_NOCASE) (o_name o) uname) (o_sub m) 0 = Some j ->
  nth_error (o_sub m) j = Some u ->
  let c' := cfg_set_validate_func c (mname ++ x7c :: uname) k in
  exists m' u',
    nth_error (c_opts c') i = Some m' /\ nth_error (o_sub m') j = Some u' /\
    only_valid_changed k u u' /\
    (forall j', j' <> j -> nth_error (o_sub m') j' = nth_error (o_sub m) j') /\
    length (o_sub m') = length (o_sub m) /\
    only_template_changed m m' /\
    (forall i', i' <> i -> nth_error (c_opts c') i' = nth_error (c_opts c) i') /\
    (forall v, nth_sec m' v = nth_sec m v) /\
    (forall v st, get_sec c' ((i, v) :: st) = get_sec c ((i, v) :: st)) /\
    (forall v st x, get_opt c' ((i, v) :: st, x) = get_opt c ((i, v) :: st, x)) /\
    (forall sd fl title, exists n,
       nth_error (c_opts (instance sd fl m' title)) j = Some n /\ decl n = decl u' /\ cb_valid (o_cbs n) = Some k) /\
    (forall sd ctx nocase title vals' idx,
       open_instance sd ctx nocase m' title = Some (vals', idx) ->
       exists sec n, nth_error vals' idx = Some (VSec (Some sec)) /\ sec = instance sd ctx m' title /\
                     nth_error (c_opts sec) j = Some n /\ decl n = decl u' /\ cb_valid (o_cbs n) = Some k /\
                     (forall v, v <> idx -> v < length (o_vals m) -> nth_error vals' v = nth_error (o_vals m) v)) /\
    (forall sd fuel w c0 txt w' o' idx,
       setopt sd (S fuel) w c0 m' txt = (w', o', Some idx) ->
       exists sec n, nth_sec o' idx = Some sec /\ c_title sec = txt /\
                     nth_error (c_opts sec) j = Some n /\ decl n = decl u' /\ cb_valid (o_cbs n) = Some k).
Proof. exact set_validate_func_multi. Qed.
Print Assumptions C14b_validate_multi.

Theorem C14b_validate2_multi :
  forall (c : cfg) (mname uname : str) (i j : nat) (m u : opt) (k : N),
  nobar mname = true -> mname <> [] -> nobar uname = true ->
  find_idx (fun o => name_eqb (cflag c CFGF_NOCASE) (o_name o) mname) (c_opts c) 0 = Some i ->
  nth_error (c_opts c) i = Some m -> o_kind m = KSec -> oflag m CFGF_MULTI = true ->
  find_idx (fun o => name_eqb (cflag c CFGF_NOCASE) (o_name o) uname) (o_sub m) 0 = Some j ->
  nth_error (o_sub m) j = Some u ->
  let c' := cfg_set_validate_func2 c (mname ++ x7c :: uname) k in
  exists m' u',
    nth_error (c_opts c') i = Some m' /\ nth_error (o_sub m') j = Some u' /\
    only_valid2_changed k u u' /\
    (forall j', j' <> j -> nth_error (o_sub m') j' = nth_error (o_sub m) j') /\
    length (o_sub m') = length (o_sub m) /\
    only_template_changed m m' /\
    (forall i', i' <> i -> nth_error (c_opts c') i' = nth_error (c_opts c) i') /\
    (forall v, nth_sec m' v = nth_sec m v) /\
    (forall v st, get_sec c' ((i, v) :: st) = get_sec c ((i, v) :: st)) /\
    (forall v st x, get_opt c' ((i, v) :: st, x) = get_opt c ((i, v) :: st, x)) /\
    (forall sd fl title, exists n,
       nth_error (c_opts (instance sd fl m' title)) j = Some n /\ decl n = decl u' /\ cb_valid2 (o_cbs n) = Some k) /\
    (forall sd ctx nocase title vals' idx,
       open_instance sd ctx nocase m' title = Some (vals', idx) ->
       exists sec n, nth_error vals' idx = Some (VSec (Some sec)) /\ sec = instance sd ctx m' title /\
                     nth_error (c_opts sec) j = Some n /\ decl n = decl u' /\ cb_valid2 (o_cbs n) = Some k /\
                     (forall v, v <> idx -> v < length (o_vals m) -> nth_error vals' v = nth_error (o_vals m) v)) /\
    (forall sd fuel w c0 txt w' o' idx,
       setopt sd (S fuel) w c0 m' txt = (w', o', Some idx) ->
       exists sec n, nth_sec o' idx = Some sec /\ c_title sec = txt /\
                     nth_error (c_opts sec) j = Some n /\ decl n = decl u' /\ cb_valid2 (o_cbs n) = Some k).
Proof. exact set_validate_func2_multi. Qed.
Print Assumptions C14b_validate2_multi.

(* ... hence the callback runs.  cfg_parse_internal in state 2 (a value is expected) reads a string for
   the current option o, which has validate callback k: after cfg_setopt has stored the value, k is
   invoked once — the entry CbValid k name size f, f the script's verdict — and the verdict decides between
   STATE_ERROR and going on.  (With cb_valid2 = Some k the corresponding fact about cfg_setnint is
   C14_validate2_veto_and_rewrite; the bookkeeping of every invocation is C14_verdict_binds.) *)
Theorem C14b_parsed_value_runs_callback :
  forall (sd : str -> strtod_res) (fuel : nat) (w : pw) (c : cfg) (level : nat) (p : pst)
         (w1 : pw) (c1 : cfg) (yylval : option str) (r : optref) (o : opt)
         (w2 : pw) (o1 : opt) (idx : nat) (k : N),
  next_token fuel w c = (w1, c1, TStr, yylval) ->
  s_state p = 2 -> s_opt p = Some r -> get_opt c1 r = Some o ->
  cb_valid (o_cbs o) = Some k ->
  setopt sd fuel w1 c1 o yylval = (w2, o1, Some idx) ->
  let f := snd (tick w2) in
  let w3 := add_cb (fst (tick w2)) (CbValid k (o_name o) (length (o_vals o1)) f) in
  let c2 := put_opt c1 r o1 in
  let o2 := match s_comment p with Some cm => opt_setcomment o1 cm | None => o1 end in
  let p1 := st_comment p None in
  parse_internal sd (S fuel) w c level p =
  if f then (w3, c2, PERR)
  else if oflag o2 CFGF_LIST
       then parse_internal sd fuel w3 (put_opt c2 r o2) level (st_state (st_num p1 (S (s_num p1))) 4)
       else parse_internal sd fuel w3 (put_opt c2 r o2) level (st_state p1 0).
Proof. exact parse_value_runs_validcb. Qed.
Print Assumptions C14b_parsed_value_runs_callback.

(* ================================================================== *)
(* 5. registration through a single section / by plain name: the live option *)
(* ================================================================== *)

(* "s|u", s a single section holding an instance that has u at index j: the LIVE option u of that
   instance (reference ([(i,0)], j)) gets the callback, nothing else in it changes; the section option
   keeps its template — cfg_getopt_array followed the instance — and its declaration; the other options
   of the instance and of the context are as before *)
Theorem C14b_validate_single :
  forall (c : cfg) (sname uname : str) (i j : nat) (s u : opt) (inst : cfg) (k : N),
  nobar sname = true -> sname <> [] -> nobar uname = true ->
  find_idx (fun o => name_eqb (cflag c CFGF_NOCASE) (o_name o) sname) (c_opts c) 0 = Some i ->
  nth_error (c_opts c) i = Some s -> o_kind s = KSec -> oflag s CFGF_MULTI = false ->
  nth_sec s 0 = Some inst ->
  find_idx (fun o => name_eqb (cflag c CFGF_NOCASE) (o_name o) uname) (c_opts inst) 0 = Some j ->
  nth_error (c_opts inst) j = Some u ->
  let c' := cfg_set_validate_func c (sname ++ x7c :: uname) k in
  get_opt c ([(i, 0)], j) = Some u /\
  (exists u', get_opt c' ([(i, 0)], j) = Some u' /\ only_valid_changed k u u') /\
  (exists s', nth_error (c_opts c') i = Some s' /\
     o_sub s' = o_sub s /\ decl s' = decl s /\ o_flags s' = o_flags s /\ o_comment s' = o_comment s /\
     (forall v, v <> 0 -> nth_error (o_vals s') v = nth_error (o_vals s) v)) /\
  (forall j', j' <> j -> get_opt c' ([(i, 0)], j') = get_opt c ([(i, 0)], j')) /\
  (forall i', i' <> i -> nth_error (c_opts c') i' = nth_error (c_opts c) i').
Proof. exact set_validate_func_single. Qed.
Print Assumptions C14b_validate_single.

Theorem C14b_validate2_single :
  forall (c : cfg) (sname uname : str) (i j : nat) (s u : opt) (inst : cfg) (k : N),
  nobar sname = true -> sname <> [] -> nobar uname = true ->
  find_idx (fun o => name_eqb (cflag c CFGF_NOCASE) (o_name o) sname) (c_opts c) 0 = Some i ->
  nth_error (c_opts c) i = Some s -> o_kind s = KSec -> oflag s CFGF_MULTI = false ->
  nth_sec s 0 = Some inst ->
  find_idx (fun o => name_eqb (cflag c CFGF_NOCASE) (o_name o) uname) (c_opts inst) 0 = Some j ->
  nth_error (c_opts inst) j = Some u ->
  let c' := cfg_set_validate_func2 c (sname ++ x7c :: uname) k in
  get_opt c ([(i, 0)], j) = Some u /\
  (exists u', get_opt c' ([(i, 0)], j) = Some u' /\ only_valid2_changed k u u') /\
  (exists s', nth_error (c_opts c') i = Some s' /\
     o_sub s' = o_sub s /\ decl s' = decl s /\ o_flags s' = o_flags s /\ o_comment s' = o_comment s /\
     (forall v, v <> 0 -> nth_error (o_vals s') v = nth_error (o_vals s) v)) /\
  (forall j', j' <> j -> get_opt c' ([(i, 0)], j') = get_opt c ([(i, 0)], j')) /\
  (forall i', i' <> i -> nth_error (c_opts c') i' = nth_error (c_opts c) i').
Proof. exact set_validate_func2_single. Qed.
Print Assumptions C14b_validate2_single.

(* a single section that has NO instance yet is walked through its template, like a multi section *)
Theorem C14b_single_without_instance :
  forall (f : opt -> opt) (c : cfg) (sname uname : str) (i j : nat) (s : opt),
  nobar sname = true -> sname <> [] -> nobar uname = true ->
  find_idx (fun o => name_eqb (cflag c CFGF_NOCASE) (o_name o) sname) (c_opts c) 0 = Some i ->
  nth_error (c_opts c) i = Some s -> o_kind s = KSec -> nth_sec s 0 = None ->
  find_idx (fun o => name_eqb (cflag c CFGF_NOCASE) (o_name o) uname) (o_sub s) 0 = Some j ->
  reg f c (sname ++ x7c :: uname) =
  set_opts c (upd_nth (c_opts c) i (fun o => set_sub o (upd_nth (o_sub o) j f))).
Proof. exact reg_single_no_instance. Qed.
Print Assumptions C14b_single_without_instance.

(* a plain name: exactly the live option at the root, the first one of that name *)
Theorem C14b_validate_plain :
  forall (c : cfg) (n : str) (i : nat) (o : opt) (k : N),
  nobar n = true ->
  find_idx (fun o => name_eqb (cflag c CFGF_NOCASE) (o_name o) n) (c_opts c) 0 = Some i ->
  nth_error (c_opts c) i = Some o ->
  let c' := cfg_set_validate_func c n k in
  c' = upd_opt c ([], i) (setv k) /\
  (exists o', nth_error (c_opts c') i = Some o' /\ only_valid_changed k o o') /\
  (forall i', i' <> i -> nth_error (c_opts c') i' = nth_error (c_opts c) i').
Proof. exact set_validate_func_plain. Qed.
Print Assumptions C14b_validate_plain.

Theorem C14b_validate2_plain :
  forall (c : cfg) (n : str) (i : nat) (o : opt) (k : N),
  nobar n = true ->
  find_idx (fun o => name_eqb (cflag c CFGF_NOCASE) (o_name o) n) (c_opts c) 0 = Some i ->
  nth_error (c_opts c) i = Some o ->
  let c' := cfg_set_validate_func2 c n k in
  c' = upd_opt c ([], i) (setv2 k) /\
  (exists o', nth_error (c_opts c') i = Some o' /\ only_valid2_changed k o o') /\
  (forall i', i' <> i -> nth_error (c_opts c') i' = nth_error (c_opts c) i').
Proof. exact set_validate_func2_plain. Qed.
Print Assumptions C14b_validate2_plain.

(* nothing designated — an undeclared name, an undeclared section, a path through a non-section, a
   sub-option the template does not declare: the tree is handed back unchanged *)
Theorem C14b_unresolved :
  forall (c : cfg) (k : N),
  (forall name, resolve_path (c_opts c) (cflag c CFGF_NOCASE) name = None ->
     cfg_set_validate_func c name k = c /\ cfg_set_validate_func2 c name k = c) /\
  (forall n, nobar n = true ->
     forallb (fun o => negb (name_eqb (cflag c CFGF_NOCASE) (o_name o) n)) (c_opts c) = true ->
     cfg_set_validate_func c n k = c /\ cfg_set_validate_func2 c n k = c) /\
  (forall s rest, nobar s = true -> s <> [] ->
     forallb (fun o => negb (name_eqb (cflag c CFGF_NOCASE) (o_name o) s)) (c_opts c) = true ->
     cfg_set_validate_func c (s ++ x7c :: rest) k = c /\ cfg_set_validate_func2 c (s ++ x7c :: rest) k = c) /\
  (forall s rest i o, nobar s = true -> s <> [] ->
     find_idx (fun o => name_eqb (cflag c CFGF_NOCASE) (o_name o) s) (c_opts c) 0 = Some i ->
     nth_error (c_opts c) i = Some o -> o_kind o <> KSec ->
     cfg_set_validate_func c (s ++ x7c :: rest) k = c /\ cfg_set_validate_func2 c (s ++ x7c :: rest) k = c) /\
  (forall s u i m, nobar s = true -> s <> [] -> nobar u = true ->
     find_idx (fun o => name_eqb (cflag c CFGF_NOCASE) (o_name o) s) (c_opts c) 0 = Some i ->
     nth_error (c_opts c) i = Some m -> o_kind m = KSec -> oflag m CFGF_MULTI = true ->
     forallb (fun o => negb (name_eqb (cflag c CFGF_NOCASE) (o_name o) u)) (o_sub m) = true ->
     cfg_set_validate_func c (s ++ x7c :: u) k = c /\ cfg_set_validate_func2 c (s ++ x7c :: u) k = c).
Proof. exact unresolved_all. Qed.
Print Assumptions C14b_unresolved.

(* in general: the place is found by the pure lookup and the tree is updated there; the header of the
   context (name, title, flags, position, error function, search path) and the number of its options
   never change *)
Theorem C14b_registration_general :
  forall (f : opt -> opt) (c : cfg) (name : str),
  reg f c name =
  match resolve_path (c_opts c) (cflag c CFGF_NOCASE) name with
  | Some l => set_opts c (upd_loc (c_opts c) l f)
  | None => c
  end.
Proof. exact reg_resolve. Qed.
Print Assumptions C14b_registration_general.

Theorem C14b_registration_is_reg :
  forall (c : cfg) (name : str) (k : N),
  cfg_set_validate_func c name k = reg (setv k) c name /\
  cfg_set_validate_func2 c name k = reg (setv2 k) c name.
Proof. exact registration_is_reg. Qed.
Print Assumptions C14b_registration_is_reg.

Theorem C14b_registration_header :
  forall (f : opt -> opt) (c : cfg) (name : str),
  c_name (reg f c name) = c_name c /\ c_title (reg f c name) = c_title c /\ c_flags (reg f c name) = c_flags c /\
  c_file (reg f c name) = c_file c /\ c_line (reg f c name) = c_line c /\ c_err (reg f c name) = c_err c /\
  c_pff (reg f c name) = c_pff c /\ length (c_opts (reg f c name)) = length (c_opts c).
Proof. exact reg_header. Qed.
Print Assumptions C14b_registration_header.

(* ================================================================== *)
(* 6. idempotence and independence                                      *)
(* ================================================================== *)

(* after a registration every path designates the place it designated before *)
Theorem C14b_lookup_blind :
  forall (c : cfg) (name name2 : str) (k : N),
  resolve_path (c_opts (cfg_set_validate_func c name k)) (cflag (cfg_set_validate_func c name k) CFGF_NOCASE) name2 =
    resolve_path (c_opts c) (cflag c CFGF_NOCASE) name2 /\
  resolve_path (c_opts (cfg_set_validate_func2 c name k)) (cflag (cfg_set_validate_func2 c name k) CFGF_NOCASE) name2 =
    resolve_path (c_opts c) (cflag c CFGF_NOCASE) name2.
Proof. exact lookup_blind. Qed.
Print Assumptions C14b_lookup_blind.

(* registering k1 and then k2 by the same path: k2 is left, as if k1 had never been registered *)
Theorem C14b_twice :
  forall (c : cfg) (name : str) (k1 k2 : N),
  cfg_set_validate_func (cfg_set_validate_func c name k1) name k2 = cfg_set_validate_func c name k2.
Proof. exact set_validate_func_twice. Qed.
Print Assumptions C14b_twice.

Theorem C14b_twice2 :
  forall (c : cfg) (name : str) (k1 k2 : N),
  cfg_set_validate_func2 (cfg_set_validate_func2 c name k1) name k2 = cfg_set_validate_func2 c name k2.
Proof. exact set_validate_func2_twice. Qed.
Print Assumptions C14b_twice2.

(* validate and validate2 are registered independently: the order is immaterial, and at the designated
   option each leaves the other's field as it was *)
Theorem C14b_valid_valid2_commute :
  forall (c : cfg) (name : str) (k1 k2 : N),
  cfg_set_validate_func2 (cfg_set_validate_func c name k1) name k2 =
  cfg_set_validate_func (cfg_set_validate_func2 c name k2) name k1.
Proof. exact set_validate_func_func2_commute. Qed.
Print Assumptions C14b_valid_valid2_commute.

Theorem C14b_valid_keeps_valid2 :
  forall (c : cfg) (name : str) (k : N) (l : loc),
  resolve_path (c_opts c) (cflag c CFGF_NOCASE) name = Some l ->
  exists o, get_loc (c_opts c) l = Some o /\
            get_loc (c_opts (cfg_set_validate_func c name k)) l = Some (setv k o) /\
            cb_valid (o_cbs (setv k o)) = Some k /\ cb_valid2 (o_cbs (setv k o)) = cb_valid2 (o_cbs o).
Proof. exact set_validate_func_at. Qed.
Print Assumptions C14b_valid_keeps_valid2.

Theorem C14b_valid2_keeps_valid :
  forall (c : cfg) (name : str) (k : N) (l : loc),
  resolve_path (c_opts c) (cflag c CFGF_NOCASE) name = Some l ->
  exists o, get_loc (c_opts c) l = Some o /\
            get_loc (c_opts (cfg_set_validate_func2 c name k)) l = Some (setv2 k o) /\
            cb_valid2 (o_cbs (setv2 k o)) = Some k /\ cb_valid (o_cbs (setv2 k o)) = cb_valid (o_cbs o).
Proof. exact set_validate_func2_at. Qed.
Print Assumptions C14b_valid2_keeps_valid.

(* "m|u" and then "m|v": the template has both, and the order is immaterial *)
Theorem C14b_two_suboptions :
  forall (c : cfg) (mname uname vname : str) (i j j2 : nat) (m u v : opt) (k1 k2 : N),
  nobar mname = true -> mname <> [] -> nobar uname = true -> nobar vname = true ->
  find_idx (fun o => name_eqb (cflag c CFGF_NOCASE) (o_name o) mname) (c_opts c) 0 = Some i ->
  nth_error (c_opts c) i = Some m -> o_kind m = KSec -> oflag m CFGF_MULTI = true ->
  find_idx (fun o => name_eqb (cflag c CFGF_NOCASE) (o_name o) uname) (o_sub m) 0 = Some j ->
  find_idx (fun o => name_eqb (cflag c CFGF_NOCASE) (o_name o) vname) (o_sub m) 0 = Some j2 ->
  nth_error (o_sub m) j = Some u -> nth_error (o_sub m) j2 = Some v -> j <> j2 ->
  let c2 := cfg_set_validate_func (cfg_set_validate_func c (mname ++ x7c :: uname) k1) (mname ++ x7c :: vname) k2 in
  c2 = cfg_set_validate_func (cfg_set_validate_func c (mname ++ x7c :: vname) k2) (mname ++ x7c :: uname) k1 /\
  exists m' u' v',
    nth_error (c_opts c2) i = Some m' /\ only_template_changed m m' /\
    nth_error (o_sub m') j = Some u' /\ only_valid_changed k1 u u' /\
    nth_error (o_sub m') j2 = Some v' /\ only_valid_changed k2 v v'.
Proof. exact set_validate_func_two. Qed.
Print Assumptions C14b_two_suboptions.

(* ================================================================== *)
(* 7. a concrete tree                                                   *)
(* ================================================================== *)
Module ExB.
Definition B := bs_of_string.
Definition sd := ex_sd.
Definition iopt (n : String.string) : opt := Opt (B n) KInt 0 [] [] defv0 None cbset0.
(* m: titled multi section with integers u, v; s: single section with integer u; x: integer *)
Definition decls : list opt :=
  [ Opt (B "m") KSec (N.lor CFGF_MULTI CFGF_TITLE) [] [iopt "u"; iopt "v"] defv0 None cbset0;
    Opt (B "s") KSec 0 [] [iopt "u"] defv0 None cbset0;
    iopt "x" ].
Definition w0 : pw :=
  {| w_lex := w_lex ex_w0; w_env := w_env ex_w0; w_fs := w_fs ex_w0; w_pw := w_pw ex_w0; w_path := w_path ex_w0;
     w_cbs := []; w_cnt := 0; w_failat := 0; w_nextptr := 1; w_diags := []; w_open := 0; w_crash := None; w_oof := false |}.
Definition c0 := snd (cfg_init sd 1000 w0 decls 0).
(* an instance of m exists before the registration *)
Definition c1 := snd (fst (parse_buf sd 5000 w0 c0 (Some (B "m a { u = 1 }")))).
(* validate2 script 1 (the rewriting one) on the sub-option u of m *)
Definition c2 := cfg_set_validate_func2 c1 (B "m|u") 1.
(* a second instance is parsed afterwards *)
Definition r3 := parse_buf sd 5000 w0 c2 (Some (B "m b { u = 2 }")).
Definition c3 := snd (fst r3).
Definition cbs_at (c : cfg) (r : optref) : option cbset := option_map o_cbs (get_opt c r).
Definition cbv2 (k : N) : cbset :=
  {| cb_parse := None; cb_valid := None; cb_valid2 := Some k; cb_print := None; cb_free := false; cb_func := None |}.

(* the places the paths designate in c1: the template of m, the live instance of s, the root; a leading
   and a doubled separator are skipped; a path through the integer x, a trailing separator and an
   undeclared section designate nothing *)
Example C14b_ex_places :
  map (fun n => resolve_path (c_opts c1) false (B n)) ["m|u"; "m|v"; "s|u"; "x"; "|m||v"; "x|u"; "m|"; "nope|u"; "m|w"] =
  [ Some (LTmpl 0 (LHere 0)); Some (LTmpl 0 (LHere 1)); Some (LInst 1 (LHere 0)); Some (LHere 2);
    Some (LTmpl 0 (LHere 1)); None; None; None; None ].
Proof. vm_compute. reflexivity. Qed.

(* the hypotheses of C14b_validate2_multi hold for "m|u" on c1 *)
Example C14b_ex_hypotheses :
  exists m u,
  nobar (B "m") = true /\ B "m" <> [] /\ nobar (B "u") = true /\ B "m|u" = B "m" ++ x7c :: B "u" /\
  find_idx (fun o => name_eqb (cflag c1 CFGF_NOCASE) (o_name o) (B "m")) (c_opts c1) 0 = Some 0 /\
  nth_error (c_opts c1) 0 = Some m /\ o_kind m = KSec /\ oflag m CFGF_MULTI = true /\
  find_idx (fun o => name_eqb (cflag c1 CFGF_NOCASE) (o_name o) (B "u")) (o_sub m) 0 = Some 0 /\
  nth_error (o_sub m) 0 = Some u /\ length (o_vals m) = 1.
Proof.
  eexists. eexists. vm_compute. repeat split; try reflexivity. discriminate.
Qed.

(* after the registration: the template sub-option has the callback, the existing instance "a" does not,
   and nothing else moved — registering on an undeclared path hands c1 back *)
Example C14b_ex_registered :
  option_map (fun o => map o_cbs (o_sub o)) (get_opt c2 ([], 0)) = Some [cbv2 1; cbset0] /\
  cbs_at c2 ([(0, 0)], 0) = Some cbset0 /\
  get_sec c2 [(0, 0)] = get_sec c1 [(0, 0)] /\
  option_map o_vals (get_opt c2 ([], 0)) = option_map o_vals (get_opt c1 ([], 0)) /\
  get_opt c2 ([], 1) = get_opt c1 ([], 1) /\ get_opt c2 ([], 2) = get_opt c1 ([], 2) /\
  cfg_set_validate_func2 c1 (B "m|w") 1 = c1 /\ cfg_set_validate_func2 c1 (B "x|u") 1 = c1 /\
  cfg_set_validate_func c1 (B "nope") 1 = c1.
Proof. vm_compute. repeat split; reflexivity. Qed.

(* Grammar.instance from the new template has the callback on u *)
Example C14b_ex_spec_instance :
  option_map (fun m' => map o_cbs (c_opts (instance sd 0 m' (Some (B "z"))))) (get_opt c2 ([], 0)) =
  Some [cbv2 1; cbset0].
Proof. vm_compute. reflexivity. Qed.

(* the instance "b" the parser creates afterwards has it; "a" still has not *)
Example C14b_ex_parsed_instance :
  snd r3 = CFG_SUCCESS /\ w_crash (fst (fst r3)) = None /\
  fst (cfg_getopt c3 (B "m=a|u")) = Some ([(0, 0)], 0) /\ fst (cfg_getopt c3 (B "m=b|u")) = Some ([(0, 1)], 0) /\
  cbs_at c3 ([(0, 0)], 0) = Some cbset0 /\ cbs_at c3 ([(0, 1)], 0) = Some (cbv2 1) /\
  option_map o_vals (get_opt c3 ([(0, 0)], 0)) = Some [VInt 1] /\
  option_map o_vals (get_opt c3 ([(0, 1)], 0)) = Some [VInt 2].
Proof. vm_compute. repeat split; reflexivity. Qed.

(* cfg_setnint with -5: in the new instance script 1 is shown -5 and 5 is stored; in the old instance
   no callback runs and -5 is stored *)
Example C14b_ex_setnint_new_vs_old :
  (let '(w, c', rc) := cfg_setnint w0 c3 (B "m=b|u") (-5) 0 in
   rc = OK /\ w_cbs w = [CbValid2 1 (B "u") (V2Int (-5)) false] /\
   option_map o_vals (get_opt c' ([(0, 1)], 0)) = Some [VInt 5]) /\
  (let '(w, c', rc) := cfg_setnint w0 c3 (B "m=a|u") (-5) 0 in
   rc = OK /\ w_cbs w = [] /\
   option_map o_vals (get_opt c' ([(0, 0)], 0)) = Some [VInt (-5)]).
Proof. vm_compute. repeat split; reflexivity. Qed.

(* cfg_set_validate_func(cfg, "m|u", 7): the instance parsed afterwards runs validate callback 7 on u
   (size 1) and on nothing else — not on v, not on the u of the single section s *)
Example C14b_ex_validate_runs_in_new_instance :
  let c4 := cfg_set_validate_func c1 (B "m|u") 7 in
  let r := parse_buf sd 5000 w0 c4 (Some (B "m b { u = 2 v = 3 } s { u = 4 }")) in
  snd r = CFG_SUCCESS /\ w_cbs (fst (fst r)) = [CbValid 7 (B "u") 1 false].
Proof. vm_compute. split; reflexivity. Qed.

(* through the single section s, which holds an instance: the LIVE u gets the callback (cfg_setnint
   rewrites -5 to 5), the template of s stays without *)
Example C14b_ex_single_section :
  let c6 := cfg_set_validate_func2 c1 (B "s|u") 1 in
  cbs_at c6 ([(1, 0)], 0) = Some (cbv2 1) /\
  option_map (fun o => map o_cbs (o_sub o)) (get_opt c6 ([], 1)) = Some [cbset0] /\
  (let '(w, c', rc) := cfg_setnint w0 c6 (B "s|u") (-5) 0 in
   rc = OK /\ w_cbs w = [CbValid2 1 (B "u") (V2Int (-5)) false] /\
   option_map o_vals (get_opt c' ([(1, 0)], 0)) = Some [VInt 5]).
Proof. vm_compute. repeat split; reflexivity. Qed.

(* twice, both kinds, two sub-options *)
Example C14b_ex_twice_and_both :
  cfg_set_validate_func2 (cfg_set_validate_func2 c1 (B "m|u") 9) (B "m|u") 1 = c2 /\
  (let c5 := cfg_set_validate_func (cfg_set_validate_func2 (cfg_set_validate_func c1 (B "m|u") 7) (B "m|u") 1) (B "m|v") 8 in
   option_map (fun o => map (fun x => (cb_valid (o_cbs x), cb_valid2 (o_cbs x))) (o_sub o)) (get_opt c5 ([], 0)) =
   Some [(Some 7%N, Some 1%N); (Some 8%N, None)]).
Proof. vm_compute. split; reflexivity. Qed.
End ExB.
