(* FlagProofs.v — every section instance carries the context flags of the root (C16 / C12 support).

   In confuse.c a section instance gets  section->flags = cfg->flags  (| CFGF_KEYSTRVAL when the section option is
   declared free-form) when cfg_setopt creates it, cfg being the context handed to cfg_setopt: the enclosing section
   when the parser creates it, the context cfg_addtsec was called on when the API creates it.  The model does exactly
   that (Parser.setopt, KSec branch; Grammar.instance): no bit is masked, no other bit is added.  So the flag word of
   every instance equals the root's up to the CFGF_KEYSTRVAL bit:

     inherits F c       N.lor (c_flags c) CFGF_KEYSTRVAL = N.lor F CFGF_KEYSTRVAL, and the same, recursively, for every
                        section instance held by any option of c
     flags_inherited c  inherits (c_flags c) c = true

   Contents: established by cfg_init; preserved by the reference meaning, by the parser model (through the C01
   refinement), by cfg_addtsec (also on a nested path, where the instance gets the flags of the context the call was
   made on, not of the enclosing section: equal up to the KEYSTRVAL bit only), by the setters and removers;
   consequences for the per-context flags NOCASE / COMMENTS / IGNORE_UNKNOWN and for SkipAnyProofs.ign_c. *)
From Coq Require String.
From Coq Require Import List Arith NArith ZArith Bool Lia.
From Coq.Strings Require Import Byte.
From LC Require Import Bytes Consts Conv Flex LexAct Lexer LexLemmas LexAll Files Store Parser Api Grammar
  PP_Base PP_Step PP_Tok PP_Setopt PP_Inv PP_Machine PP_Default PP_Inst PP_Spec PP_InvLemmas PP_GetoptObs PP_SpecLemmas PP_Loop
  PP_LexYields PP_LexFrame ParserProofs SkipProofs IncludeSim SkipAnyProofs.
Import ListNotations.
Import String.StringSyntax.
Delimit Scope string_scope with string.
Local Open Scope list_scope.
Local Open Scope nat_scope.

(* ====================================================================================================
   1. the definition
   ==================================================================================================== *)
(* a flag word with the free-form bit forced on *)
Definition upK (f : N) : N := N.lor f CFGF_KEYSTRVAL.
(* f is F up to the CFGF_KEYSTRVAL bit *)
Definition same_fl (F f : N) : bool := (upK f =? upK F)%N.

Fixpoint inh_v (F : N) (v : value) : bool :=
  match v with VSec (Some c) => inherits F c | _ => true end
with inh_o (F : N) (o : opt) : bool :=
  match o with
  | Opt _ _ _ vals _ _ _ _ => (fix go (l : list value) : bool := match l with [] => true | v :: r => inh_v F v && go r end) vals
  end
with inherits (F : N) (c : cfg) : bool :=
  match c with
  | Cfg _ _ f opts _ _ _ _ =>
      same_fl F f && (fix go (l : list opt) : bool := match l with [] => true | o :: r => inh_o F o && go r end) opts
  end.

Definition flags_inherited (c : cfg) : Prop := inherits (c_flags c) c = true.

Lemma inh_o_eq F o : inh_o F o = forallb (inh_v F) (o_vals o).
Proof. destruct o as [n k f vals sub d cm cb]. cbn [inh_o o_vals]. induction vals as [|v r IH]; [reflexivity|]. cbn [forallb]. rewrite IH. reflexivity. Qed.

Lemma inherits_eq F c : inherits F c = same_fl F (c_flags c) && forallb (inh_o F) (c_opts c).
Proof.
  destruct c as [n t f opts fi l e p]. reflexivity.
Qed.

(* ---- the relation on flag words ---- *)
Lemma same_fl_iff F f : same_fl F f = true <-> N.lor f CFGF_KEYSTRVAL = N.lor F CFGF_KEYSTRVAL.
Proof. unfold same_fl, upK. apply N.eqb_eq. Qed.

Lemma same_fl_refl F : same_fl F F = true.
Proof. apply N.eqb_refl. Qed.

Lemma upK_upK f : upK (upK f) = upK f.
Proof. unfold upK. rewrite <- N.lor_assoc, N.lor_diag. reflexivity. Qed.

Lemma same_fl_setK F f : same_fl F (setf f CFGF_KEYSTRVAL) = same_fl F f.
Proof. unfold same_fl, setf. fold (upK f). rewrite upK_upK. reflexivity. Qed.

Lemma same_fl_inst F fl d : same_fl F (inst_fl fl d) = same_fl F fl.
Proof. unfold inst_fl. destruct (oflag d CFGF_KEYSTRVAL); [apply same_fl_setK|reflexivity]. Qed.

(* every bit but CFGF_KEYSTRVAL is the root's *)
Lemma has_upK f m : N.land CFGF_KEYSTRVAL m = 0%N -> has (upK f) m = has f m.
Proof. intros H. unfold has, upK. rewrite N.land_lor_distr_l, H, N.lor_0_r. reflexivity. Qed.

Lemma same_fl_has F f m : same_fl F f = true -> N.land CFGF_KEYSTRVAL m = 0%N -> has f m = has F m.
Proof. intros S H. apply N.eqb_eq in S. rewrite <- (has_upK f m H), S. apply has_upK, H. Qed.

Lemma inh_fl F c : inherits F c = true -> same_fl F (c_flags c) = true.
Proof. rewrite inherits_eq. intros H. apply andb_prop in H. tauto. Qed.

Lemma inh_opts F c : inherits F c = true -> forallb (inh_o F) (c_opts c) = true.
Proof. rewrite inherits_eq. intros H. apply andb_prop in H. tauto. Qed.

(* ---- the root word only matters up to the bit ---- *)
Lemma inh_change_all F F' : upK F = upK F' ->
  (forall c, inherits F c = inherits F' c) /\ (forall o, inh_o F o = inh_o F' o) /\ (forall v, inh_v F v = inh_v F' v).
Proof.
  intros E. apply tree_ind_all.
  - intros c H. cbn [inh_v]. exact H.
  - intros v H. destruct v as [z|b|b|s|[c|]|i]; try reflexivity. exfalso. apply (H c). reflexivity.
  - intros n k f vals sub d cm cb H. rewrite !inh_o_eq. cbn [o_vals]. apply forallb_ext_Forall, H.
  - intros n t f opts fi l e p H. rewrite !inherits_eq. cbn [c_opts c_flags]. f_equal.
    + unfold same_fl. rewrite E. reflexivity.
    + apply forallb_ext_Forall, H.
Qed.

Lemma inh_change F F' c : same_fl F F' = true -> inherits F c = inherits F' c.
Proof. intros H. apply N.eqb_eq in H. destruct (inh_change_all F F' (eq_sym H)) as (A & _). apply A. Qed.

(* a tree that inherits some word inherits its own *)
Lemma inh_own F c : inherits F c = true -> flags_inherited c.
Proof. intros H. unfold flags_inherited. rewrite <- (inh_change F (c_flags c) c (inh_fl _ _ H)). exact H. Qed.

(* ---- field updates ---- *)
Lemma inh_set_vals F o vs : inh_o F (set_vals o vs) = forallb (inh_v F) vs.
Proof. rewrite inh_o_eq, o_vals_set_vals. reflexivity. Qed.

Lemma inh_set_opts F c os : inherits F (set_opts c os) = same_fl F (c_flags c) && forallb (inh_o F) os.
Proof. rewrite inherits_eq, c_opts_set_opts. destruct c; reflexivity. Qed.

Lemma inh_setf F o m : inh_o F (o_setf o m) = inh_o F o. Proof. rewrite !inh_o_eq, o_vals_setf. reflexivity. Qed.
Lemma inh_clrf F o m : inh_o F (o_clrf o m) = inh_o F o. Proof. rewrite !inh_o_eq, o_vals_clrf. reflexivity. Qed.
Lemma inh_set_comment F o m : inh_o F (set_comment o m) = inh_o F o. Proof. rewrite !inh_o_eq, o_vals_set_comment. reflexivity. Qed.
Lemma inh_set_cbs F o m : inh_o F (set_cbs o m) = inh_o F o. Proof. destruct o; reflexivity. Qed.
Lemma inh_set_flags F o m : inh_o F (set_flags o m) = inh_o F o. Proof. destruct o; reflexivity. Qed.
Lemma inh_set_err F c b : inherits F (set_err c b) = inherits F c. Proof. destruct c; reflexivity. Qed.
Lemma inh_set_line F c b : inherits F (set_line c b) = inherits F c. Proof. destruct c; reflexivity. Qed.
Lemma inh_set_file F c b : inherits F (set_file c b) = inherits F c. Proof. destruct c; reflexivity. Qed.

Lemma inh_after_item F o : inh_o F o = true -> inh_o F (after_item o) = true.
Proof. intros H. unfold after_item. destruct (_ && _); [rewrite inh_set_vals; reflexivity|exact H]. Qed.

(* values that are not sections *)
Lemma plain_inh F vs : forallb plainv vs = true -> forallb (inh_v F) vs = true.
Proof.
  induction vs as [|v r IH]; [reflexivity|]. cbn [forallb]. intros H. apply andb_prop in H as [A B].
  rewrite (IH B), andb_true_r. destruct v as [| | | |s|]; try reflexivity. discriminate A.
Qed.

Lemma inh_zero_value F k : inh_v F (zero_value k) = true.
Proof. destruct k; reflexivity. Qed.

(* ---- along references ---- *)
Lemma inh_nth_sec F o v s : inh_o F o = true -> nth_sec o v = Some s -> inherits F s = true.
Proof.
  rewrite inh_o_eq. unfold nth_sec. intros H N. destruct (nth_error (o_vals o) v) as [x|] eqn:E; [|discriminate].
  pose proof (forallb_nth_error _ _ _ _ H E) as P. destruct x as [| | | |[s'|]|]; try discriminate. injection N as <-. exact P.
Qed.

Lemma inh_get_sec F : forall steps c s, inherits F c = true -> get_sec c steps = Some s -> inherits F s = true.
Proof.
  induction steps as [|[i v] r IH]; intros c s H G; cbn [get_sec] in G; [injection G as <-; exact H|].
  destruct (nth_error (c_opts c) i) as [o|] eqn:E; [|discriminate].
  destruct (nth_sec o v) as [s0|] eqn:N; [|discriminate].
  eapply IH; [|exact G]. eapply inh_nth_sec; [|exact N]. eapply forallb_nth_error; [apply inh_opts, H|exact E].
Qed.

Lemma inh_get_opt F c r o : inherits F c = true -> get_opt c r = Some o -> inh_o F o = true.
Proof.
  unfold get_opt. intros H G. destruct (get_sec c (fst r)) as [s|] eqn:E; [|discriminate].
  eapply forallb_nth_error; [apply inh_opts; eapply inh_get_sec; eauto|exact G].
Qed.

Lemma inh_upd_sec F : forall steps c g, inherits F c = true -> (forall s, inherits F s = true -> inherits F (g s) = true) ->
  inherits F (upd_sec c steps g) = true.
Proof.
  induction steps as [|[i v] r IH]; intros c g H G; cbn [upd_sec]; [apply G, H|].
  rewrite inh_set_opts, (inh_fl _ _ H). cbn [andb].
  apply forallb_upd_nth; [apply inh_opts, H|]. intros o E.
  assert (IO : inh_o F o = true) by (eapply forallb_nth_error; [apply inh_opts, H|exact E]).
  rewrite inh_set_vals. rewrite inh_o_eq in IO. apply forallb_upd_nth; [exact IO|]. intros x X.
  pose proof (forallb_nth_error _ _ _ _ IO X) as P. destruct x as [| | | |[s|]|]; try exact P.
  cbn [inh_v] in *. apply IH; auto.
Qed.

(* replacing an option by one whose values inherit F keeps the tree: the generic step of every setter *)
Lemma inh_put_opt F c r o : inherits F c = true -> inh_o F o = true -> inherits F (put_opt c r o) = true.
Proof.
  intros H O. unfold put_opt, upd_opt. apply inh_upd_sec; [exact H|]. intros s S.
  rewrite inh_set_opts, (inh_fl _ _ S). cbn [andb]. apply forallb_upd_nth; [apply inh_opts, S|]. intros; exact O.
Qed.

(* ---- it only depends on the observation (obs_c keeps the whole flag word of every context) ---- *)
Lemma inh_obs_all F : (forall c, inherits F (obs_c c) = inherits F c) /\ (forall o, inh_o F (obs_o o) = inh_o F o) /\
  (forall v, inh_v F (obs_v v) = inh_v F v).
Proof.
  apply tree_ind_all.
  - intros c H. cbn [obs_v inh_v]. exact H.
  - intros v H. destruct v as [z|b|b|s|[c|]|i]; try reflexivity. exfalso. apply (H c). reflexivity.
  - intros n k f vals sub d cm cb H. rewrite obs_o_eq, !inh_o_eq. cbn [o_vals]. rewrite forallb_map. apply forallb_ext_Forall, H.
  - intros n t f opts fi l e p H. rewrite obs_c_eq, !inherits_eq. cbn [c_opts c_flags]. f_equal.
    rewrite forallb_map. apply forallb_ext_Forall, H.
Qed.

Lemma inh_obs F c c' : obs_c c = obs_c c' -> inherits F c = inherits F c'.
Proof. intros H. destruct (inh_obs_all F) as (A & _). rewrite <- (A c), H, A. reflexivity. Qed.

Lemma inh_obs_vals F vs vs' : map obs_v vs = map obs_v vs' -> forallb (inh_v F) vs = forallb (inh_v F) vs'.
Proof.
  intros H. destruct (inh_obs_all F) as (_ & _ & A).
  rewrite <- (forallb_ext_Forall (fun v => inh_v F (obs_v v)) (inh_v F) vs) by (apply Forall_forall; intros; apply A).
  rewrite <- (forallb_ext_Forall (fun v => inh_v F (obs_v v)) (inh_v F) vs') by (apply Forall_forall; intros; apply A).
  rewrite <- (forallb_map (inh_v F) obs_v vs), <- (forallb_map (inh_v F) obs_v vs'), H. reflexivity.
Qed.

Lemma inh_obs_opts F os os' : map obs_o os = map obs_o os' -> forallb (inh_o F) os = forallb (inh_o F) os'.
Proof.
  intros H. destruct (inh_obs_all F) as (_ & A & _).
  rewrite <- (forallb_ext_Forall (fun v => inh_o F (obs_o v)) (inh_o F) os) by (apply Forall_forall; intros; apply A).
  rewrite <- (forallb_ext_Forall (fun v => inh_o F (obs_o v)) (inh_o F) os') by (apply Forall_forall; intros; apply A).
  rewrite <- (forallb_map (inh_o F) obs_o os), <- (forallb_map (inh_o F) obs_o os'), H. reflexivity.
Qed.

Lemma flags_inherited_obs c c' : obs_c c = obs_c c' -> (flags_inherited c <-> flags_inherited c').
Proof.
  intros H. unfold flags_inherited. destruct (obs_c_inj_parts _ _ H) as (_ & _ & FL & _). rewrite FL, (inh_obs _ _ _ H). tauto.
Qed.

(* ====================================================================================================
   2. consequences: every reachable section has the root's context flags
   ==================================================================================================== *)
Lemma inherits_flag F c steps sec m :
  inherits F c = true -> get_sec c steps = Some sec -> N.land CFGF_KEYSTRVAL m = 0%N -> cflag sec m = has F m.
Proof. intros H G M. unfold cflag. apply same_fl_has; [|exact M]. eapply inh_fl, inh_get_sec; eauto. Qed.

Lemma flags_inherited_flag c steps sec m :
  flags_inherited c -> get_sec c steps = Some sec -> N.land CFGF_KEYSTRVAL m = 0%N -> cflag sec m = cflag c m.
Proof. intros H G M. apply (inherits_flag _ _ _ _ _ H G M). Qed.

Lemma flags_inherited_nocase c steps sec : flags_inherited c -> get_sec c steps = Some sec -> cflag sec CFGF_NOCASE = cflag c CFGF_NOCASE.
Proof. intros H G. apply (flags_inherited_flag _ _ _ _ H G). reflexivity. Qed.
Lemma flags_inherited_comments c steps sec : flags_inherited c -> get_sec c steps = Some sec -> cflag sec CFGF_COMMENTS = cflag c CFGF_COMMENTS.
Proof. intros H G. apply (flags_inherited_flag _ _ _ _ H G). reflexivity. Qed.
Lemma flags_inherited_ignore c steps sec : flags_inherited c -> get_sec c steps = Some sec -> cflag sec CFGF_IGNORE_UNKNOWN = cflag c CFGF_IGNORE_UNKNOWN.
Proof. intros H G. apply (flags_inherited_flag _ _ _ _ H G). reflexivity. Qed.

(* the instance an option holds at a value index *)
Lemma flags_inherited_nth_sec c r o v sec m :
  flags_inherited c -> get_opt c r = Some o -> nth_sec o v = Some sec -> N.land CFGF_KEYSTRVAL m = 0%N -> cflag sec m = cflag c m.
Proof.
  intros H G NS M. unfold cflag. apply same_fl_has; [|exact M]. eapply inh_fl, inh_nth_sec; [|exact NS]. eapply inh_get_opt; eauto.
Qed.

(* ---- SkipAnyProofs.ign_c is flags_inherited + the bit on the root ---- *)
Lemma forallb_impl_Forall {A} (P Q : A -> bool) l :
  Forall (fun x => P x = true -> Q x = true) l -> forallb P l = true -> forallb Q l = true.
Proof.
  induction 1 as [|x l H _ IH]; [reflexivity|]. cbn [forallb]. intros E. apply andb_prop in E as [E1 E2]. rewrite (H E1), (IH E2). reflexivity.
Qed.

Lemma inh_ign_all F : has F CFGF_IGNORE_UNKNOWN = true ->
  (forall c, inherits F c = true -> ign_c c = true) /\ (forall o, inh_o F o = true -> ign_o o = true) /\
  (forall v, inh_v F v = true -> ign_v v = true).
Proof.
  intros HF. apply tree_ind_all.
  - intros c H. cbn [inh_v ign_v]. exact H.
  - intros v H. destruct v as [z|b|b|s|[c|]|i]; try reflexivity. exfalso. apply (H c). reflexivity.
  - intros n k f vals sub d cm cb H. rewrite inh_o_eq, ign_o_eq. cbn [o_vals]. apply forallb_impl_Forall, H.
  - intros n t f opts fi l e p H. rewrite inherits_eq, ign_c_eq. cbn [c_opts c_flags]. intros E. apply andb_prop in E as [E1 E2].
    unfold cflag. cbn [c_flags]. rewrite (same_fl_has F f CFGF_IGNORE_UNKNOWN E1 eq_refl), HF. cbn [andb].
    revert E2. apply forallb_impl_Forall, H.
Qed.

Lemma inherited_ignoring c : flags_inherited c -> cflag c CFGF_IGNORE_UNKNOWN = true -> ign_c c = true.
Proof. intros H I. apply (inh_ign_all (c_flags c) I). exact H. Qed.

(* the converse fails: ign_c says nothing about the other bits *)
Lemma ignoring_not_inherited_refuted : exists c, ign_c c = true /\ cflag c CFGF_IGNORE_UNKNOWN = true /\ inherits (c_flags c) c = false.
Proof.
  exists (Cfg [x72] None 256 [Opt [x73] KSec 0 [VSec (Some (Cfg [x73] None 260 [] None 0 false None))] [] defv0 None cbset0] None 0 false None).
  vm_compute. repeat split; reflexivity.
Qed.


Lemma forallb_remove {A} (P : A -> bool) : forall l i, forallb P l = true -> forallb P (firstn i l ++ skipn (S i) l) = true.
Proof.
  induction l as [|x l IH]; intros [|i] H; try reflexivity.
  - cbn [forallb] in H. apply andb_prop in H. cbn [firstn skipn app]. tauto.
  - cbn [forallb] in H. apply andb_prop in H as [H1 H2]. cbn [firstn app forallb]. rewrite H1. cbn [andb]. apply (IH i H2).
Qed.

Section WithOracles.
Variable strtod_o : str -> strtod_res.
Notation meaning := (meaning strtod_o).
Notation instance := (instance strtod_o).
Notation open_instance := (open_instance strtod_o).
Notation PI := (parse_internal strtod_o).
Notation SO := (setopt strtod_o).
Notation ID := (init_defaults strtod_o).

(* ====================================================================================================
   3. fresh instances: Grammar.instance gives the new context the word it is handed (plus CFGF_KEYSTRVAL for a
      free-form section option), and hands that word on to the instances of its plain sub-sections
   ==================================================================================================== *)
Lemma instance_flags fl d t : c_flags (instance fl d t) = inst_fl fl d.
Proof. rewrite instance_eq. reflexivity. Qed.

Lemma instance_inh F : forall d fl t, same_fl F fl = true -> inherits F (instance fl d t) = true.
Proof.
  fix IH 1. intros [name k flags vals sub def cm cbs] fl t H.
  rewrite instance_eq, inherits_eq. cbn [c_opts c_flags o_sub].
  set (fl' := inst_fl fl (Opt name k flags vals sub def cm cbs)).
  assert (H' : same_fl F fl' = true) by (unfold fl'; rewrite same_fl_inst; exact H).
  rewrite H'. cbn [andb]. clearbody fl'. clear H.
  induction sub as [|a sub IHs]; [reflexivity|]. cbn [map forallb]. rewrite IHs, andb_true_r.
  unfold inst_opt. rewrite inh_set_vals. unfold inst_vals.
  destruct (oflag a CFGF_NODEFAULT); [reflexivity|].
  destruct (o_kind a); try reflexivity.
  1-4: destruct (oflag a CFGF_LIST);
       [destruct (_ && _); [reflexivity|apply plain_inh, default_list_plain]|apply plain_inh, default_scalar_plain].
  destruct (oflag a CFGF_MULTI); [reflexivity|]. cbn [forallb inh_v]. rewrite (IH a fl' None H'). reflexivity.
Qed.

Lemma inst_opt_inh F fl d : same_fl F fl = true -> inh_o F (inst_opt strtod_o fl d) = true.
Proof.
  intros H. unfold inst_opt. rewrite inh_set_vals. unfold inst_vals.
  destruct (oflag d CFGF_NODEFAULT); [reflexivity|].
  destruct (o_kind d); try reflexivity.
  1-4: destruct (oflag d CFGF_LIST);
       [destruct (_ && _); [reflexivity|apply plain_inh, default_list_plain]|apply plain_inh, default_scalar_plain].
  destruct (oflag d CFGF_MULTI); [reflexivity|]. cbn [forallb inh_v]. rewrite (instance_inh F d fl None H). reflexivity.
Qed.

Lemma open_instance_inh F ctx nocase o ti vals' idx :
  same_fl F ctx = true -> inh_o F o = true ->
  open_instance ctx nocase o ti = Some (vals', idx) -> forallb (inh_v F) vals' = true.
Proof.
  intros H O. rewrite inh_o_eq in O. unfold Grammar.open_instance.
  assert (FR : inh_v F (VSec (Some (instance ctx o ti))) = true) by (cbn [inh_v]; apply instance_inh, H).
  assert (APP : forallb (inh_v F) (o_vals o ++ [VSec (Some (instance ctx o ti))]) = true).
  { rewrite forallb_app, O. cbn [forallb]. rewrite FR. reflexivity. }
  destruct (negb (oflag o CFGF_MULTI)).
  - destruct (o_vals o) as [|x l] eqn:E; intros X; injection X as <- <-; [cbn [forallb]; rewrite FR; reflexivity|exact O].
  - destruct (negb (oflag o CFGF_TITLE)); [intros X; injection X as <- <-; exact APP|].
    destruct ti as [t|]; [|discriminate].
    destruct (find_idx _ (o_vals o) 0) as [i|].
    + destruct (oflag o CFGF_NO_TITLE_DUPES); [discriminate|]. intros X; injection X as <- <-.
      apply forallb_upd_nth; [exact O|]. intros; exact FR.
    + intros X; injection X as <- <-. exact APP.
Qed.

(* ====================================================================================================
   4. preserved by the reference meaning.  The root word F0 is fixed: nested calls run on section contexts,
      whose own word may differ from F0 in the KEYSTRVAL bit
   ==================================================================================================== *)
Lemma item_inh_gen F0 F c name r c1 r1 :
  (forall s g s' rest, meaning F s false g = Some (s', rest) -> inherits F0 s = true -> inherits F0 s' = true) ->
  item strtod_o F c name r = Some (c1, r1) -> inherits F0 c = true -> inherits F0 c1 = true.
Proof.
  intros BP. unfold item, item_with. destruct (fst (cfg_getopt c name)) as [ref|].
  - destruct (get_opt c ref) as [o|] eqn:GO; [|discriminate]. destruct (is_sec (o_kind o)).
    + destruct (sec_head o r) as [[ti r2]|]; [|discriminate].
      destruct (open_instance _ _ o ti) as [[vals' idx]|] eqn:OI; [|discriminate].
      destruct (nth_error vals' idx) as [[| | | |[sec|]|]|] eqn:NE; try discriminate.
      destruct (meaning F sec false r2) as [[sec' r3]|] eqn:M; [|discriminate].
      intros X IC; injection X as <- <-.
      pose proof (inh_get_opt _ _ _ _ IC GO) as IO.
      pose proof (open_instance_inh _ _ _ _ _ _ _ (inh_fl _ _ IC) IO OI) as IV.
      pose proof (forallb_nth_error _ _ _ _ IV NE) as IS. cbn [inh_v] in IS.
      apply inh_put_opt; [exact IC|]. apply inh_after_item. rewrite inh_set_vals.
      apply forallb_upd_nth; [exact IV|]. intros _ _. cbn [inh_v]. eapply BP; eauto.
    + destruct (scalar_kind (o_kind o)); [|discriminate].
      destruct (val_res _ _ _ r) as [[[app vs] r2]|] eqn:V; [|discriminate]. intros X IC; injection X as <- <-.
      pose proof (inh_get_opt _ _ _ _ IC GO) as IO.
      apply inh_put_opt; [exact IC|]. apply inh_after_item.
      rewrite inh_set_vals, forallb_app, (plain_inh F0 vs (val_res_plain _ _ _ _ _ _ _ V)), andb_true_r.
      destruct app; [rewrite <- inh_o_eq; exact IO|reflexivity].
  - destruct (cflag c CFGF_IGNORE_UNKNOWN).
    + destruct (skip_unknown r) as [r'|]; [|discriminate]. intros X IC; injection X as <- <-. exact IC.
    + destruct (cflag c CFGF_KEYSTRVAL); [|discriminate]. destruct (kv_item name r) as [[v r']|]; [|discriminate].
      intros X IC; injection X as <- <-. rewrite inh_set_opts, (inh_fl _ _ IC), forallb_app, (inh_opts _ _ IC). reflexivity.
Qed.

Theorem meaning_inh F0 : forall F c top g c' rest, meaning F c top g = Some (c', rest) -> inherits F0 c = true -> inherits F0 c' = true.
Proof.
  induction F as [|F IH]; intros c top g c' rest H IC; [discriminate|].
  destruct g as [|[name|x] r].
  - rewrite meaning_nil in H. destruct top; [|discriminate]. injection H as <- <-. exact IC.
  - rewrite meaning_item in H. destruct (item strtod_o F c name r) as [[c1 r1]|] eqn:I; [|discriminate].
    eapply IH; [exact H|]. eapply item_inh_gen; [|exact I|exact IC]. intros s g s' rest'. apply IH.
  - rewrite meaning_GP in H. destruct (x =? 125)%N; [|discriminate]. destruct top; [discriminate|]. injection H as <- <-. exact IC.
Qed.

Theorem meaning_flags_inherited F c top g c' rest : meaning F c top g = Some (c', rest) -> flags_inherited c -> flags_inherited c'.
Proof. intros M H. eapply inh_own, meaning_inh; eauto. Qed.

Lemma item_inh F0 F c name r c1 r1 : item strtod_o F c name r = Some (c1, r1) -> inherits F0 c = true -> inherits F0 c1 = true.
Proof. apply item_inh_gen. intros s g s' rest. apply meaning_inh. Qed.

(* the section an item header opens inherits the root word too *)
Lemma opens_inh F0 c name r ti sec r2 : opens strtod_o c name r = Some (ti, sec, r2) -> inherits F0 c = true -> inherits F0 sec = true.
Proof.
  unfold opens. destruct (fst (cfg_getopt c name)) as [ref|]; [|discriminate].
  destruct (get_opt c ref) as [o|] eqn:GO; [|discriminate]. destruct (is_sec (o_kind o)); [|discriminate].
  destruct (sec_head o r) as [[ti0 r20]|]; [|discriminate].
  destruct (open_instance _ _ o ti0) as [[vals' idx]|] eqn:OI; [|discriminate].
  destruct (nth_error vals' idx) as [[| | | |[sec0|]|]|] eqn:NE; try discriminate.
  intros X IC; injection X as -> -> ->.
  pose proof (open_instance_inh _ _ _ _ _ _ _ (inh_fl _ _ IC) (inh_get_opt _ _ _ _ IC GO) OI) as IV.
  exact (forallb_nth_error _ _ _ _ IV NE).
Qed.

(* ====================================================================================================
   5. established by cfg_init / cfg_init_defaults (hypotheses of the C01 refinement on the declarations)
   ==================================================================================================== *)
Section Scanned.
Variable sc : opt -> bool.
Variable env : envt.
Variable D : nat.
Hypothesis SCOK : forall d, sc d = true -> dtext_spec strtod_o env D d.

Lemma id_inh F k f e w L name title fl sub file line err pff :
  fst e = env -> wst w e L -> forallb (tmplO sc k) sub = true -> measure L + D + 2 * k + 1 <= f ->
  same_fl F fl = true ->
  exists w' c', ID f w (Cfg name title fl sub file line err pff) = (w', c') /\ wrel e w L w' /\
    c_flags c' = fl /\ inherits F c' = true /\ invC sc k c' = true.
Proof.
  intros He Hw Ht Hf HF.
  destruct (id_sim strtod_o sc env D SCOK k f e w L name title fl sub file line err pff He Hw Ht Hf)
    as (w' & c' & E & WR & _ & _ & FL & O & I).
  exists w', c'. spl; auto.
  rewrite inherits_eq, FL, HF. cbn [andb]. rewrite (inh_obs_opts F _ _ O).
  apply forallb_forall. intros d' IN. apply in_map_iff in IN as (d & <- & _). apply inst_opt_inh, HF.
Qed.

(* cfg_setopt on a section option: whatever slot it picks (the existing instance of a plain section, a re-opened
   title, a new value), every section value of the result inherits F.  No hypothesis on the title or on the values
   already there beyond inh_o. *)
Lemma so_sec_inh F k' f e w L c o ti w' o' res :
  fst e = env -> wst w e L -> o_kind o = KSec -> forallb (tmplO sc k') (o_sub o) = true ->
  measure L + D + 2 * k' + 2 <= f -> same_fl F (c_flags c) = true -> inh_o F o = true ->
  SO f w c o ti = (w', o', res) -> inh_o F o' = true /\ wrel e w L w'.
Proof.
  intros He Hw K TS Hf HF IO. destruct f as [|f']; [lia|]. rewrite so_unfold. unfold so_body.
  (* RESET *)
  destruct (so_reset w o) as [w0 o0] eqn:SR.
  assert (R0 : wkeep w w0 /\ o_kind o0 = KSec /\ o_sub o0 = o_sub o /\ inh_o F o0 = true).
  { unfold so_reset in SR. destruct (oflag o CFGF_RESET).
    - destruct (free_value o) as [x fr] eqn:FV. pose proof (free_value_props o) as (A & B & _). rewrite FV in A, B. cbn [fst] in A, B.
      injection SR as <- <-. spl.
      + apply wkeep_frees.
      + rewrite o_kind_clrf, (shape_kind _ _ B). exact K.
      + rewrite o_sub_clrf. apply (shape_sub _ _ B).
      + rewrite inh_clrf, inh_o_eq, A. reflexivity.
    - injection SR as <- <-. spl; auto. apply wkeep_refl. }
  destruct R0 as (W0 & K0 & S0 & I0).
  destruct (so_slot w0 c o0 ti) as [[[w1 o1] idx]|] eqn:SL.
  2:{ intros X; injection X as <- <- <-. split; [exact I0|]. apply wrel_keep; [exact Hw|].
      eapply wkeep_trans; [exact W0|]. destruct (_ && _); [apply wkeep_diags|apply wkeep_refl]. }
  assert (R1 : wkeep w0 w1 /\ (o1 = o0 \/ o1 = addval o0)).
  { assert (CR : forall m, wkeep w0 (set_crash w0 m)) by (intros m e' L' H'; unfold wst in *; cbn; exact H').
    unfold so_slot in SL. destruct (_ || _).
    - destruct (_ && _).
      + destruct (_ && _); [discriminate|].
        destruct (title_look _ _ _ _) as [[i|]|[]].
        * destruct (oflag o0 CFGF_NO_TITLE_DUPES); [discriminate|]. injection SL as <- <- <-. split; [apply wkeep_refl|auto].
        * injection SL as <- <- <-. split; [apply wkeep_refl|auto].
        * injection SL as <- <- <-. split; [apply CR|auto].
      + injection SL as <- <- <-. split; [apply wkeep_refl|auto].
    - injection SL as <- <- <-. split; [apply wkeep_refl|auto]. }
  destruct R1 as (W1 & O1).
  assert (P1 : o_kind o1 = KSec /\ o_sub o1 = o_sub o /\ inh_o F o1 = true).
  { destruct O1 as [->| ->]; [auto|]. unfold addval. rewrite o_kind_setf, o_kind_set_vals, o_sub_setf, o_sub_set_vals, inh_setf, inh_set_vals.
    spl; auto. rewrite forallb_app, <- inh_o_eq, I0. cbn [forallb]. rewrite inh_zero_value. reflexivity. }
  destruct P1 as (K1 & S1 & I1).
  assert (WW : wst w1 e L) by (apply W1, W0, Hw).
  unfold so_kind, so_store. rewrite K1, S1.
  set (existing := match nth_error (o_vals o1) idx with Some (VSec (Some s)) => Some s | _ => None end).
  assert (EX : forall s, existing = Some s -> inherits F s = true).
  { intros s. unfold existing. destruct (nth_error (o_vals o1) idx) as [[| | | |[s'|]|]|] eqn:NE; try discriminate.
    intros X; injection X as <-. rewrite inh_o_eq in I1. exact (forallb_nth_error _ _ _ _ I1 NE). }
  assert (STORE : forall sec', inherits F sec' = true ->
            inh_o F (o_setf (set_vals o1 (upd_nth (o_vals o1) idx (fun _ => VSec (Some sec')))) CFGF_MODIFIED) = true).
  { intros sec' IS. rewrite inh_setf, inh_set_vals. rewrite inh_o_eq in I1. apply forallb_upd_nth; [exact I1|]. intros; exact IS. }
  destruct (oflag o1 CFGF_MULTI || match existing with None => true | Some _ => false end) eqn:COND.
  - set (w1' := match existing with Some s => log_frees w1 (frees_c s) | None => w1 end).
    assert (W1' : wst w1' e L) by (unfold w1'; destruct existing; [apply wst_log_frees|]; exact WW).
    destruct (id_inh F k' f' e w1' L (o_name o1) ti (if oflag o1 CFGF_KEYSTRVAL then setf (c_flags c) CFGF_KEYSTRVAL else c_flags c)
                (o_sub o) (c_file c) (c_line c) (c_err c) None He W1' TS ltac:(lia))
      as (w3 & sec' & EID & WR & _ & IS & _).
    { destruct (oflag o1 CFGF_KEYSTRVAL); [rewrite same_fl_setK|]; exact HF. }
    rewrite EID. intros X; injection X as <- <- <-. split; [apply STORE, IS|].
    destruct WR as (L3 & W3 & M3 & Y3). exists L3. spl; auto.
  - destruct existing as [s|] eqn:EE; [|rewrite orb_true_r in COND; discriminate].
    intros X; injection X as <- <- <-. split; [apply STORE, EX; reflexivity|]. apply wrel_keep; [exact Hw|].
    eapply wkeep_trans; eauto.
Qed.

End Scanned.

Theorem cfg_init_inh e DC k w L decls flags fuel :
  wst w e L -> forallb (tmplO (dtext_okb strtod_o (fst e) DC) k) decls = true -> measure L + DC + 2 * k + 1 <= fuel ->
  flags_inherited (snd (cfg_init strtod_o fuel w decls flags)) /\
  c_flags (snd (cfg_init strtod_o fuel w decls flags)) = flags /\
  Inv strtod_o (fst e) DC k (snd (cfg_init strtod_o fuel w decls flags)).
Proof.
  intros Hw Ht Hf. unfold cfg_init.
  match goal with |- context [Cfg ?n None flags decls None 0%N false None] =>
    destruct (id_inh (dtext_okb strtod_o (fst e) DC) (fst e) DC (dtext_okb_spec strtod_o (fst e) DC) flags k fuel e w L
                n None flags decls None 0%N false None eq_refl Hw Ht Hf (same_fl_refl flags)) as (w' & c' & E & _ & FL & IH & I) end.
  rewrite E. cbn [snd].
  assert (FL' : c_flags (set_err c' true) = flags) by (destruct c'; exact FL).
  spl.
  - unfold flags_inherited. rewrite FL', inh_set_err. exact IH.
  - exact FL'.
  - unfold Inv, invC in *. destruct c'; exact I.
Qed.

(* the root word itself is never touched by the descent *)
Lemma c_flags_upd_sec steps c g : (forall s, c_flags (g s) = c_flags s) -> c_flags (upd_sec c steps g) = c_flags c.
Proof. intros H. destruct steps as [|[i v] r]; cbn [upd_sec]; [apply H|apply c_flags_set_opts]. Qed.

Lemma c_flags_put_opt c r o : c_flags (put_opt c r o) = c_flags c.
Proof. unfold put_opt, upd_opt. apply c_flags_upd_sec. intros s. apply c_flags_set_opts. Qed.

Lemma item_flags F c name r c1 r1 : item strtod_o F c name r = Some (c1, r1) -> c_flags c1 = c_flags c.
Proof.
  unfold item, item_with. destruct (fst (cfg_getopt c name)) as [ref|].
  - destruct (get_opt c ref) as [o|]; [|discriminate]. destruct (is_sec (o_kind o)).
    + destruct (sec_head o r) as [[ti r2]|]; [|discriminate].
      destruct (open_instance _ _ o ti) as [[vals' idx]|]; [|discriminate].
      destruct (nth_error vals' idx) as [[| | | |[sec|]|]|]; try discriminate.
      destruct (meaning F sec false r2) as [[sec' r3]|]; [|discriminate].
      intros X; injection X as <- <-. apply c_flags_put_opt.
    + destruct (scalar_kind (o_kind o)); [|discriminate].
      destruct (val_res _ _ _ r) as [[[app vs] r2]|]; [|discriminate]. intros X; injection X as <- <-. apply c_flags_put_opt.
  - destruct (cflag c CFGF_IGNORE_UNKNOWN).
    + destruct (skip_unknown r) as [r'|]; [|discriminate]. intros X; injection X as <- <-. reflexivity.
    + destruct (cflag c CFGF_KEYSTRVAL); [|discriminate]. destruct (kv_item name r) as [[v r']|]; [|discriminate].
      intros X; injection X as <- <-. apply c_flags_set_opts.
Qed.

Lemma meaning_flags : forall F c top g c' rest, meaning F c top g = Some (c', rest) -> c_flags c' = c_flags c.
Proof.
  induction F as [|F IH]; intros c top g c' rest H; [discriminate|].
  destruct g as [|[name|x] r].
  - rewrite meaning_nil in H. destruct top; [|discriminate]. injection H as <- <-. reflexivity.
  - rewrite meaning_item in H. destruct (item strtod_o F c name r) as [[c1 r1]|] eqn:I; [|discriminate].
    rewrite (IH _ _ _ _ _ H). eapply item_flags; eauto.
  - rewrite meaning_GP in H. destruct (x =? 125)%N; [|discriminate]. destruct top; [discriminate|]. injection H as <- <-. reflexivity.
Qed.

(* ====================================================================================================
   6. preserved by the parser model, through the C01 refinement (obs_c keeps c_flags of every context, so
      `inherits` is observational and nothing is lost)
   ==================================================================================================== *)
Theorem parse_internal_inh2 F e DC k ts L w cm cs fuel :
  wst w e L -> yieldsc e L ts -> Inv strtod_o (fst e) DC k cm -> obs_c cm = obs_c cs -> enough DC k L ts fuel ->
  inherits F cs = true ->
  exists w' c' rc, PI fuel w cm 0 (pst0 0 None) = (w', c', rc) /\ w_oof w' = false /\ (rc = PEOF \/ rc = PERR) /\
    (rc = PEOF -> inherits F c' = true /\ Inv strtod_o (fst e) DC k c' /\ exists L', wst w' e L').
Proof.
  intros Hw Hy HI HO Hf IC.
  destruct (c01_machine2 strtod_o e DC k ts L w cm cs fuel (S (length (gtoks ts))) Hw Hy HI HO Hf (le_n _)) as (w1 & c1 & rc1 & E1 & O1 & M1).
  exists w1, c1, rc1. split; [exact E1|]. split; [exact O1|].
  destruct (meaning (S (length (gtoks ts))) cs true (gtoks ts)) as [[c'' rest]|] eqn:MM.
  - destruct M1 as (-> & OB & I1 & WL). split; [auto|]. intros _. spl; auto.
    rewrite (inh_obs F _ _ OB). eapply meaning_inh; eauto.
  - subst rc1. split; [auto|]. discriminate.
Qed.

Theorem parse_internal_inh e DC k ts L w c fuel :
  wst w e L -> yieldsc e L ts -> Inv strtod_o (fst e) DC k c -> enough DC k L ts fuel -> flags_inherited c ->
  exists w' c' rc, PI fuel w c 0 (pst0 0 None) = (w', c', rc) /\ w_oof w' = false /\ (rc = PEOF \/ rc = PERR) /\
    (rc = PEOF -> flags_inherited c' /\ c_flags c' = c_flags c /\ Inv strtod_o (fst e) DC k c' /\ exists L', wst w' e L').
Proof.
  intros Hw Hy HI Hf IC.
  destruct (c01_machine2 strtod_o e DC k ts L w c c fuel (S (length (gtoks ts))) Hw Hy HI eq_refl Hf (le_n _)) as (w1 & c1 & rc1 & E1 & O1 & M1).
  exists w1, c1, rc1. split; [exact E1|]. split; [exact O1|].
  destruct (meaning (S (length (gtoks ts))) c true (gtoks ts)) as [[c'' rest]|] eqn:MM.
  - destruct M1 as (-> & OB & I1 & WL). split; [auto|]. intros _.
    assert (IH : inherits (c_flags c) c1 = true) by (rewrite (inh_obs _ _ _ OB); eapply meaning_inh; eauto).
    spl; auto; [eapply inh_own; eauto|].
    destruct (obs_c_inj_parts _ _ OB) as (_ & _ & FL & _). rewrite FL. eapply meaning_flags; eauto.
  - subst rc1. split; [auto|]. discriminate.
Qed.

Theorem parse_buf_inh DC k w c b ts lf p0 s' p' d fuel :
  wready w -> Inv strtod_o (w_env w) DC k c -> flags_inherited c ->
  lex_all (w_env w) lf (scan_begin lex_init (cstr b)) p0 [] [] = (ts, TEof, s', p', d) ->
  length (cstr b) + measure (w_lex w) + length ts + 2 * k + 4 + DC < fuel ->
  let '(w', c', rc) := parse_buf strtod_o fuel w c (Some b) in
  w_oof w' = false /\ (rc = CFG_SUCCESS \/ rc = CFG_PARSE_ERROR) /\
  (rc = CFG_SUCCESS -> flags_inherited c' /\ c_flags c' = c_flags c /\ Inv strtod_o (w_env w) DC k c' /\ wready w').
Proof.
  intros WR HI IC LX Hf.
  pose proof (c01_parse_buf2 strtod_o DC k w c c b ts lf p0 s' p' d fuel WR HI eq_refl LX Hf) as H1.
  destruct (parse_buf strtod_o fuel w c (Some b)) as [[w1 c1] rc1]. destruct H1 as (O1 & M1). split; [exact O1|].
  destruct (meaning (S (length (gtoks ts))) c true (gtoks ts)) as [[c'' rest]|] eqn:MM.
  - destruct M1 as (-> & OB & I1 & WR1 & _). split; [auto|]. intros _.
    assert (IH : inherits (c_flags c) c1 = true) by (rewrite (inh_obs _ _ _ OB); eapply meaning_inh; eauto).
    spl; auto; [eapply inh_own; eauto|].
    destruct (obs_c_inj_parts _ _ OB) as (_ & _ & FL & _). rewrite FL. eapply meaning_flags; eauto.
  - subst rc1. split; [auto|]. discriminate.
Qed.

(* a sequence of texts parsed into one context *)
Lemma meaning_all_inh F : forall tss c oc, meaning_all strtod_o c tss = Some oc -> inherits F c = true -> inherits F oc = true.
Proof.
  induction tss as [|ts tss IH]; intros c oc H IC; cbn [meaning_all] in H; [injection H as <-; exact IC|].
  destruct (meaning (S (length (gtoks ts))) c true (gtoks ts)) as [[c1 rest]|] eqn:M; [|discriminate].
  eapply IH; [exact H|]. eapply meaning_inh; eauto.
Qed.

Theorem parse_all_inh DC k fuel bs tss w c :
  wready w -> Inv strtod_o (w_env w) DC k c -> flags_inherited c ->
  Forall2 (text_ok (w_env w) DC k (measure (w_lex w)) fuel) bs tss ->
  let '(w', c', ok) := parse_all strtod_o fuel w c bs in
  w_oof w' = false /\ (ok = true -> flags_inherited c' /\ Inv strtod_o (w_env w) DC k c' /\ wready w').
Proof.
  intros WR HI IC HF.
  pose proof (c01_parse_all strtod_o DC k fuel bs tss w c c WR HI eq_refl HF) as H.
  destruct (parse_all strtod_o fuel w c bs) as [[w' c'] ok]. destruct H as (O & H). split; [exact O|].
  destruct (meaning_all strtod_o c tss) as [oc|] eqn:MA.
  - destruct H as (_ & OB & I1 & WR1). intros _. spl; auto.
    apply (inh_own (c_flags c)). rewrite (inh_obs _ _ _ OB). eapply meaning_all_inh; eauto.
  - subst ok. discriminate.
Qed.

(* ====================================================================================================
   7. preserved by the API
   ==================================================================================================== *)
(* ---- cfg_addtsec.  The new instance is created by cfg_setopt(cfg, opt, title) with cfg the context the call was
        made on, whatever path `name` spells: on "s|m" the instance of m gets cfg's word, not the word of the
        instance of s it lives in.  The two differ at most in the KEYSTRVAL bit, which `inherits` ignores.
        Holds whether or not a section is returned. ---- *)
Theorem cfg_addtsec_inh F e DC k w L c name title fuel w' c' b :
  wst w e L -> Inv strtod_o (fst e) DC k c -> measure L + DC + 2 * k + 2 <= fuel ->
  inherits F c = true ->
  cfg_addtsec strtod_o fuel w c name title = (w', c', b) -> inherits F c' = true.
Proof.
  intros Hw HI Hf IC. unfold cfg_addtsec. destruct (cfg_getopt c name) as [ro ds].
  destruct ro as [r|].
  2:{ destruct title; intros X; injection X as _ <- _; exact IC. }
  destruct (get_opt c r) as [o|] eqn:GO.
  2:{ destruct title; intros X; injection X as _ <- _; exact IC. }
  assert (BODY : forall w0, wst w0 e L -> forall X : pw * cfg * bool,
            (if negb (kind_eqb (o_kind o) KSec) then (w0, c, false)
             else let '(w1, o1, res) := SO fuel w0 c o title in
                  match res with
                  | None => (w1, put_opt c r o1, false)
                  | Some idx =>
                      match nth_error (o_vals o1) idx with
                      | Some (VSec (Some s)) =>
                          let s1 := set_err (set_line s 1) (c_err c) in
                          (w1, put_opt c r (set_vals o1 (upd_nth (o_vals o1) idx (fun _ => VSec (Some s1)))), true)
                      | _ => (set_crash w1 "wild-write:cfg_addtsec"%string, put_opt c r o1, false)
                      end
                  end) = X -> inherits F (snd (fst X)) = true).
  { intros w0 W0 X. destruct (kind_eqb (o_kind o) KSec) eqn:KE; cbn [negb]; [|intros <-; exact IC].
    assert (K : o_kind o = KSec) by (destruct (o_kind o); try discriminate KE; reflexivity).
    destruct (inv_get' _ _ _ _ _ HI GO) as (LE & IO).
    destruct (invO_sec_parts _ _ _ IO K) as (k' & EK & TS & _).
    destruct (SO fuel w0 c o title) as [[w1 o1] res] eqn:E.
    destruct (so_sec_inh (dtext_okb strtod_o (fst e) DC) (fst e) DC (dtext_okb_spec strtod_o (fst e) DC) F k' fuel e w0 L c o title
                w1 o1 res eq_refl W0 K TS ltac:(lia) (inh_fl _ _ IC) (inh_get_opt _ _ _ _ IC GO) E) as (I1 & _).
    destruct res as [idx|]; [|intros <-; cbn [fst snd]; apply inh_put_opt; auto].
    destruct (nth_error (o_vals o1) idx) as [[| | | |[s|]|]|] eqn:NE; try solve [intros <-; cbn [fst snd]; apply inh_put_opt; [exact IC|exact I1]].
    cbv zeta. intros <-. cbn [fst snd]. apply inh_put_opt; [exact IC|]. rewrite inh_set_vals. rewrite inh_o_eq in I1.
    apply forallb_upd_nth; [exact I1|]. intros _ _. cbn [inh_v]. rewrite inh_set_err, inh_set_line.
    exact (forallb_nth_error _ _ _ _ I1 NE). }
  match goal with |- context [if ?b then (_, c, false) else _] => destruct b end.
  - intros X; injection X as _ <- _; exact IC.
  - intros X. apply (BODY _ (wst_add_diags _ _ _ _ (wst_add_diags _ _ _ _ Hw))) in X. exact X.
Qed.

Corollary cfg_addtsec_flags_inherited e DC k w L c name title fuel w' c' b :
  wst w e L -> Inv strtod_o (fst e) DC k c -> measure L + DC + 2 * k + 2 <= fuel ->
  flags_inherited c -> cfg_addtsec strtod_o fuel w c name title = (w', c', b) -> flags_inherited c'.
Proof. intros Hw HI Hf IC E. eapply inh_own, cfg_addtsec_inh; eauto. Qed.

(* ---- the setters and removers: they replace one option by one whose values are old values or plain ones ---- *)
Lemma with_opt_inh F w c name f w' c' rc :
  (forall w0 r o w1 o1 rc1, f w0 r o = (w1, o1, rc1) -> inh_o F o = true -> inh_o F o1 = true) ->
  with_opt w c name f = (w', c', rc) -> inherits F c = true -> inherits F c' = true.
Proof.
  intros Hf. unfold with_opt. destruct (cfg_getopt c name) as [[r|] ds]; [|intros X IC; injection X as _ <- _; exact IC].
  destruct (get_opt c r) as [o|] eqn:GO; [|intros X IC; injection X as _ <- _; exact IC].
  destruct (f (add_diags w ds) r o) as [[w1 o1] rc1] eqn:E. intros X IC; injection X as _ <- _.
  apply inh_put_opt; [exact IC|]. eapply Hf; [exact E|]. eapply inh_get_opt; eauto.
Qed.

Lemma free_value_inh F o : inh_o F (fst (free_value o)) = true.
Proof. rewrite inh_o_eq. destruct (free_value_props o) as (V & _). rewrite V. reflexivity. Qed.

Lemma addval_inh F o : inh_o F o = true -> inh_o F (addval o) = true.
Proof.
  intros H. unfold addval. rewrite inh_setf, inh_set_vals, forallb_app, <- inh_o_eq, H. cbn [forallb].
  rewrite inh_zero_value. reflexivity.
Qed.

Lemma opt_getval_inh F o index o1 idx fr : opt_getval o index = Some (o1, idx, fr) -> inh_o F o = true -> inh_o F o1 = true.
Proof.
  unfold opt_getval. destruct (_ && _); [discriminate|]. intros X IO.
  destruct (oflag o CFGF_RESET).
  - pose proof (free_value_inh F o) as FV. destruct (free_value o) as [x fr0]. cbn [fst] in FV.
    destruct (_ <=? _)%N; injection X as <- _ _; [apply addval_inh|]; rewrite inh_clrf; exact FV.
  - destruct (_ <=? _)%N; injection X as <- _ _; [apply addval_inh|]; exact IO.
Qed.

Lemma opt_setn_inh F w o k v index w1 o1 rc : plainv v = true ->
  opt_setn w o k v index = (w1, o1, rc) -> inh_o F o = true -> inh_o F o1 = true.
Proof.
  intros PV. unfold opt_setn. destruct (negb _); [intros X IO; injection X as _ <- _; exact IO|].
  destruct (opt_getval o index) as [[[o2 idx] fr]|] eqn:G; [|intros X IO; injection X as _ <- _; exact IO].
  intros X IO; injection X as _ <- _. pose proof (opt_getval_inh F _ _ _ _ _ G IO) as I2.
  rewrite inh_setf, inh_set_vals. rewrite inh_o_eq in I2. apply forallb_upd_nth; [exact I2|]. intros _ _.
  destruct v; try reflexivity. discriminate PV.
Qed.

Theorem cfg_setnint_inh F w c name z index w' c' rc :
  cfg_setnint w c name z index = (w', c', rc) -> inherits F c = true -> inherits F c' = true.
Proof.
  apply with_opt_inh. intros w0 r o w1 o1 rc1. destruct (run_validcb2 w0 o (V2Int z)) as [[w2 a] f].
  destruct f; [intros X IO; injection X as _ <- _; exact IO|]. apply opt_setn_inh. reflexivity.
Qed.

Theorem cfg_setnfloat_inh F w c name z index w' c' rc :
  cfg_setnfloat w c name z index = (w', c', rc) -> inherits F c = true -> inherits F c' = true.
Proof.
  apply with_opt_inh. intros w0 r o w1 o1 rc1. destruct (run_validcb2 w0 o (V2Float z)) as [[w2 a] f].
  destruct f; [intros X IO; injection X as _ <- _; exact IO|]. apply opt_setn_inh. reflexivity.
Qed.

Theorem cfg_setnbool_inh F w c name z index w' c' rc :
  cfg_setnbool w c name z index = (w', c', rc) -> inherits F c = true -> inherits F c' = true.
Proof. apply with_opt_inh. intros w0 r o w1 o1 rc1. apply opt_setn_inh. reflexivity. Qed.

Theorem cfg_setnstr_inh F w c name z index w' c' rc :
  cfg_setnstr w c name z index = (w', c', rc) -> inherits F c = true -> inherits F c' = true.
Proof.
  apply with_opt_inh. intros w0 r o w1 o1 rc1. destruct (run_validcb2 w0 o (V2Str z)) as [[w2 a] f].
  destruct f; [intros X IO; injection X as _ <- _; exact IO|]. apply opt_setn_inh. reflexivity.
Qed.

Lemma addlist_internal_inh F : forall vs w o w1 o1, addlist_internal w o vs = (w1, o1) -> inh_o F o = true -> inh_o F o1 = true.
Proof.
  unfold addlist_internal. induction vs as [|v vs IH]; intros w o w1 o1; cbn [fold_left]; [intros X IO; injection X as _ <-; exact IO|].
  intros X IO. revert X.
  match goal with |- fold_left ?g vs ?st = _ -> _ => destruct st as [w2 o2] eqn:ST end.
  intros X. apply (IH _ _ _ _ X). revert ST.
  destruct (o_kind o) eqn:KO; try (intros Y; injection Y as _ <-; exact IO).
  all: destruct (opt_setn _ _ _ _ _) as [[w3 o3] rc3] eqn:SN; intros Y; injection Y as _ <-.
  all: destruct v; try (eapply opt_setn_inh; [|exact SN|exact IO]; reflexivity).
  all: unfold opt_setn in SN; rewrite KO in SN; cbn [kind_eqb negb] in SN; injection SN as _ <- _; exact IO.
Qed.

Theorem cfg_setlist_inh F w c name vs w' c' rc :
  cfg_setlist w c name vs = (w', c', rc) -> inherits F c = true -> inherits F c' = true.
Proof.
  apply with_opt_inh. intros w0 r o w1 o1 rc1. destruct (negb _); [intros X IO; injection X as _ <- _; exact IO|].
  pose proof (free_value_inh F o) as FV. destruct (free_value o) as [x fr]. cbn [fst] in FV.
  destruct (addlist_internal _ _ vs) as [w2 o2] eqn:AL. intros X _; injection X as _ <- _.
  eapply addlist_internal_inh; [exact AL|]. rewrite inh_setf. exact FV.
Qed.

Theorem cfg_addlist_inh F w c name vs w' c' rc :
  cfg_addlist w c name vs = (w', c', rc) -> inherits F c = true -> inherits F c' = true.
Proof.
  apply with_opt_inh. intros w0 r o w1 o1 rc1. destruct (negb _); [intros X IO; injection X as _ <- _; exact IO|].
  destruct (addlist_internal _ _ vs) as [w2 o2] eqn:AL. intros X IO; injection X as _ <- _.
  eapply addlist_internal_inh; [exact AL|]. rewrite inh_clrf. exact IO.
Qed.

Theorem cfg_setcomment_inh F w c name cm w' c' rc :
  cfg_setcomment w c name cm = (w', c', rc) -> inherits F c = true -> inherits F c' = true.
Proof.
  apply with_opt_inh. intros w0 r o w1 o1 rc1. destruct cm; intros X IO; injection X as _ <- _; [|exact IO].
  unfold opt_setcomment. rewrite !inh_setf, inh_set_comment. exact IO.
Qed.

Lemma opt_rmnsec_inh F w o index w1 o1 rc : opt_rmnsec w o index = (w1, o1, rc) -> inh_o F o = true -> inh_o F o1 = true.
Proof.
  unfold opt_rmnsec. destruct (negb _); [intros X IO; injection X as _ <- _; exact IO|].
  destruct (_ <=? _)%N; [intros X IO; injection X as _ <- _; exact IO|]. intros X IO; injection X as _ <- _.
  rewrite inh_set_vals. rewrite inh_o_eq in IO. apply forallb_remove, IO.
Qed.

Theorem cfg_rmnsec_inh F w c name index w' c' rc :
  cfg_rmnsec w c name index = (w', c', rc) -> inherits F c = true -> inherits F c' = true.
Proof. apply with_opt_inh. intros w0 r o w1 o1 rc1. apply opt_rmnsec_inh. Qed.

Theorem cfg_rmtsec_inh F w c name title w' c' rc :
  cfg_rmtsec w c name title = (w', c', rc) -> inherits F c = true -> inherits F c' = true.
Proof.
  apply with_opt_inh. intros w0 r o w1 o1 rc1. destruct title as [t|]; [|intros X IO; injection X as _ <- _; exact IO].
  destruct (negb _); [intros X IO; injection X as _ <- _; exact IO|].
  destruct (gettsecidx o t); [apply opt_rmnsec_inh|intros X IO; injection X as _ <- _; exact IO].
Qed.

Theorem cfg_rmsec_inh F w c name w' c' rc :
  cfg_rmsec w c name = (w', c', rc) -> inherits F c = true -> inherits F c' = true.
Proof.
  unfold cfg_rmsec. destruct (rs_opt (getopt_secidx c name true)) as [ref|]; [|intros X IC; injection X as _ <- _; exact IC].
  destruct (get_opt c ref) as [o|] eqn:GO; [|intros X IC; injection X as _ <- _; exact IC].
  destruct (opt_rmnsec _ o _) as [[w1 o1] rc1] eqn:E. intros X IC; injection X as _ <- _.
  apply inh_put_opt; [exact IC|]. eapply opt_rmnsec_inh; [exact E|]. eapply inh_get_opt; eauto.
Qed.

(* ---- cfg_setopt(cfg, cfg_getopt(cfg, name), value), the other public entry that can create a section ---- *)
Lemma so_nonsec_inh F f w c o ti w' o' res :
  o_kind o <> KSec -> inh_o F o = true -> SO f w c o ti = (w', o', res) -> inh_o F o' = true.
Proof.
  intros K IO. destruct f as [|f']; [rewrite so_zero; intros X; injection X as _ <- _; exact IO|].
  rewrite so_unfold. unfold so_body.
  destruct (so_reset w o) as [w0 o0] eqn:SR.
  assert (R0 : o_kind o0 = o_kind o /\ inh_o F o0 = true).
  { unfold so_reset in SR. destruct (oflag o CFGF_RESET).
    - destruct (free_value o) as [x fr] eqn:FV. pose proof (free_value_props o) as (A & B & _). rewrite FV in A, B. cbn [fst] in A, B.
      injection SR as _ <-. split; [rewrite o_kind_clrf; apply (shape_kind _ _ B)|rewrite inh_clrf, inh_o_eq, A; reflexivity].
    - injection SR as _ <-. auto. }
  destruct R0 as (K0 & I0).
  destruct (so_slot w0 c o0 ti) as [[[w1 o1] idx]|] eqn:SL; [|intros X; injection X as _ <- _; exact I0].
  assert (O1 : o1 = o0 \/ o1 = addval o0).
  { unfold so_slot in SL. destruct (_ || _).
    - destruct (_ && _).
      + destruct (_ && _); [discriminate|].
        destruct (title_look _ _ _ _) as [[i|]|[]].
        * destruct (oflag o0 CFGF_NO_TITLE_DUPES); [discriminate|]. injection SL as _ <- _. auto.
        * injection SL as _ <- _. auto.
        * injection SL as _ <- _. auto.
      + injection SL as _ <- _. auto.
    - injection SL as _ <- _. auto. }
  assert (P1 : o_kind o1 = o_kind o /\ inh_o F o1 = true).
  { destruct O1 as [->| ->]; [auto|]. split; [unfold addval; rewrite o_kind_setf, o_kind_set_vals; exact K0|apply addval_inh, I0]. }
  destruct P1 as (K1 & I1).
  assert (STORE : forall v, plainv v = true ->
            inh_o F (o_setf (set_vals o1 (upd_nth (o_vals o1) idx (fun _ => v))) CFGF_MODIFIED) = true).
  { intros v PV. rewrite inh_setf, inh_set_vals. rewrite inh_o_eq in I1. apply forallb_upd_nth; [exact I1|]. intros _ _.
    destruct v; try reflexivity. discriminate PV. }
  unfold so_kind, so_store. rewrite <- K1 in K.
  destruct (o_kind o1); try contradiction;
    repeat match goal with |- context [match ?x with _ => _ end] => destruct x end;
    intros X; injection X as _ <- _; first [exact I1|apply STORE; reflexivity].
Qed.

Theorem cfg_setopt_cmd_inh F e DC k w L c name v fuel w' c' b :
  wst w e L -> Inv strtod_o (fst e) DC k c -> measure L + DC + 2 * k + 2 <= fuel ->
  inherits F c = true ->
  cfg_setopt_cmd strtod_o fuel w c name v = (w', c', b) -> inherits F c' = true.
Proof.
  intros Hw HI Hf IC. unfold cfg_setopt_cmd. destruct (cfg_getopt c name) as [[r|] ds]; [|intros X; injection X as _ <- _; exact IC].
  destruct (get_opt c r) as [o|] eqn:GO; [|intros X; injection X as _ <- _; exact IC].
  destruct (SO fuel (add_diags w ds) c o v) as [[w1 o1] res] eqn:E. intros X; injection X as _ <- _.
  apply inh_put_opt; [exact IC|]. pose proof (inh_get_opt _ _ _ _ IC GO) as IO.
  destruct (kind_eqb (o_kind o) KSec) eqn:KE.
  - assert (K : o_kind o = KSec) by (destruct (o_kind o); try discriminate KE; reflexivity).
    destruct (inv_get' _ _ _ _ _ HI GO) as (LE & IV).
    destruct (invO_sec_parts _ _ _ IV K) as (k' & EK & TS & _).
    apply (so_sec_inh (dtext_okb strtod_o (fst e) DC) (fst e) DC (dtext_okb_spec strtod_o (fst e) DC) F k' fuel e (add_diags w ds) L c o v
                w1 o1 res eq_refl (wst_add_diags _ _ _ _ Hw) K TS ltac:(lia) (inh_fl _ _ IC) IO E).
  - eapply so_nonsec_inh; [|exact IO|exact E]. intros K. rewrite K in KE. discriminate.
Qed.

End WithOracles.
