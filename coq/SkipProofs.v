(* SkipProofs.v — C12 on the reference meaning: every well-formed unknown item is skipped
   as a whole under CFGF_IGNORE_UNKNOWN, and rejected without it. *)
From Coq Require Import List Arith NArith ZArith Bool Lia.
From Coq.Strings Require Import Byte.
From LC Require Import Bytes Consts Conv Flex LexAct Lexer Files Store Grammar.
Import ListNotations.

(* tokens with balanced braces *)
Inductive balanced : list gtok -> Prop :=
| bal_nil : balanced []
| bal_tok t r : is_p t 123 = false -> is_p t 125 = false -> balanced r -> balanced (t :: r)
| bal_grp a b : balanced a -> balanced b -> balanced (GP 123 :: a ++ GP 125 :: b).

(* what may follow the name of an unknown item *)
Inductive uitem :=
| UAssign (append : bool) (v : str)                    (* name = v      name += v *)
| UListI (append : bool) (body : list gtok)            (* name = { … }  name += { … } ; body holds no '}' *)
| UCall (args : list gtok)                             (* name( … ) ; args hold no ')' *)
| USec (title : option str) (body : list gtok).        (* name [title] { … } ; body balanced: any nesting, any depth *)

Definition op_tok (append : bool) : gtok := if append then GP 43 else GP 61.

Definition utoks (u : uitem) : list gtok :=
  match u with
  | UAssign a v => [op_tok a; GS v]
  | UListI a body => op_tok a :: GP 123 :: body ++ [GP 125]
  | UCall args => GP 40 :: args ++ [GP 41]
  | USec None body => GP 123 :: body ++ [GP 125]
  | USec (Some t) body => GS t :: GP 123 :: body ++ [GP 125]
  end.

Definition uwf (u : uitem) : Prop :=
  match u with
  | UAssign _ _ => True
  | UListI _ body => Forall (fun t => is_p t 125 = false) body
  | UCall args => Forall (fun t => is_p t 41 = false) args
  | USec _ body => balanced body
  end.

Lemma skip_until_app c body post :
  Forall (fun t => is_p t c = false) body -> skip_until c (body ++ GP c :: post) = Some post.
Proof.
  induction 1 as [|t r Ht _ IH]; cbn [app skip_until].
  - unfold is_p. rewrite N.eqb_refl. reflexivity.
  - rewrite Ht. exact IH.
Qed.

Lemma skip_braces_balanced b : balanced b -> forall d rest, skip_braces d (b ++ rest) = skip_braces d rest.
Proof.
  induction 1 as [|t r H1 H2 _ IH|a b _ IHa _ IHb]; intros d rest.
  - reflexivity.
  - cbn [app skip_braces]. rewrite H1, H2. apply IH.
  - cbn [app skip_braces is_p]. cbn. rewrite <- app_assoc. rewrite IHa. cbn [app skip_braces is_p]. cbn. apply IHb.
Qed.

Lemma skip_braces_close b post : balanced b -> skip_braces 0 (b ++ GP 125 :: post) = Some post.
Proof. intros H. rewrite (skip_braces_balanced b H). reflexivity. Qed.

Lemma op_tok_is a : is_p (op_tok a) 61 || is_p (op_tok a) 43 = true.
Proof. destruct a; reflexivity. Qed.

Theorem skip_unknown_item u post : uwf u -> skip_unknown (utoks u ++ post) = Some post.
Proof.
  destruct u as [a v|a body|args|[t|] body]; cbn [utoks uwf]; intros H.
  - cbn [app skip_unknown]. rewrite op_tok_is. reflexivity.
  - cbn [app skip_unknown]. rewrite op_tok_is. cbn [is_p]. cbn. rewrite <- app_assoc. apply skip_until_app. exact H.
  - cbn [app skip_unknown is_p]. cbn. rewrite <- app_assoc. apply skip_until_app. exact H.
  - cbn [app skip_unknown is_p]. cbn. rewrite <- app_assoc. apply skip_braces_close. exact H.
  - cbn [app skip_unknown is_p]. cbn. rewrite <- app_assoc. apply skip_braces_close. exact H.
Qed.

Section WithOracles.
Variable strtod_o : str -> strtod_res.

(* with the flag: the item contributes nothing *)
Theorem meaning_skips_unknown f c top name u post :
  fst (cfg_getopt c name) = None -> cflag c CFGF_IGNORE_UNKNOWN = true -> uwf u ->
  meaning strtod_o (S f) c top (GS name :: utoks u ++ post) = meaning strtod_o f c top post.
Proof.
  intros Hn Hf Hu. cbn [meaning]. rewrite Hn, Hf, (skip_unknown_item u post Hu). reflexivity.
Qed.

(* without the flag (and outside free-form sections): the text is rejected *)
Theorem meaning_rejects_unknown f c top name rest :
  fst (cfg_getopt c name) = None -> cflag c CFGF_IGNORE_UNKNOWN = false -> cflag c CFGF_KEYSTRVAL = false ->
  meaning strtod_o (S f) c top (GS name :: rest) = None.
Proof. intros Hn Hf Hk. cbn [meaning]. rewrite Hn, Hf, Hk. reflexivity. Qed.
End WithOracles.

(* nesting of any depth is balanced *)
Fixpoint nest (n : nat) (inner : list gtok) : list gtok :=
  match n with O => inner | S k => GS [x75] :: GP 123 :: nest k inner ++ [GP 125] end.

Lemma balanced_app a b : balanced a -> balanced b -> balanced (a ++ b).
Proof.
  induction 1 as [|t r H1 H2 _ IH|x y Hx _ Hy IHy]; intros Hb; cbn [app]; [exact Hb| |].
  - apply bal_tok; auto.
  - rewrite <- app_assoc. cbn [app]. apply bal_grp; auto.
Qed.

Lemma balanced_nest n inner : balanced inner -> balanced (nest n inner).
Proof.
  intros Hi. induction n as [|n IH]; cbn [nest]; [exact Hi|].
  apply bal_tok; [reflexivity|reflexivity|].
  replace (GP 123 :: nest n inner ++ [GP 125]) with (GP 123 :: nest n inner ++ GP 125 :: []) by reflexivity.
  apply bal_grp; [exact IH|constructor].
Qed.
