(* LineProofs.v — C06 at the scanner level: for EVERY input, every token returned by cfg_yylex
   leaves the line counter at its old value plus the number of newline bytes consumed.
   Method: for each start condition, the set of reachable (derivative vector, newlines so far capped
   at 2) pairs is computed and checked closed; in every pair where a rule is the first accepting one,
   the newline count equals the static line increment of that rule's action. *)
From Coq Require Import List Arith NArith Bool Lia.
From Coq.Strings Require Import Byte.
From LC Require Import Bytes Flex LexAct LexRules Consts Lexer LexLemmas LexAll.
Import ListNotations.

Definition nlb : byte := x0a.
Definition bump (k : nat) (c : byte) : nat := if Byte.eqb c nlb then Nat.min 2 (S k) else k.
Definition capcount (u : list byte) : nat := fold_left bump u 0%nat.

Definition lstate := (list re * nat)%type.
Definition ls_eqb (a b : lstate) : bool := vec_eqb (fst a) (fst b) && Nat.eqb (snd a) (snd b).
Definition ls_in (a : lstate) (l : list lstate) : bool := existsb (ls_eqb a) l.

Lemma ls_in_eq a l : ls_in a l = true -> In a l.
Proof.
  unfold ls_in. rewrite existsb_exists. intros (x & Hx & He). unfold ls_eqb in He.
  apply andb_prop in He as [H1 H2]. apply vec_eqb_eq in H1. apply Nat.eqb_eq in H2.
  destruct a, x; cbn in *; subst. exact Hx.
Qed.

(* static line increment of an action; None = the action counts the newlines of yytext itself *)
Definition act_delta (a : action) : option nat :=
  match a with
  | A_line | A_qput_nl | A_putc_nl_line => Some 1%nat
  | A_env_dq | A_env_initial => None
  | _ => Some 0%nat
  end.

Lemma firstn_S_skipn {T} (l : list T) n c r : skipn n l = c :: r -> firstn (S n) l = firstn n l ++ [c].
Proof.
  revert l. induction n as [|n IH]; intros l H; destruct l as [|x l]; cbn [skipn firstn app] in *; try discriminate.
  - inversion H; reflexivity.
  - rewrite (IH l H). reflexivity.
Qed.

Lemma skipn_S {T} (l : list T) n c r : skipn n l = c :: r -> skipn (S n) l = r.
Proof.
  revert l. induction n as [|n IH]; intros l H; destruct l as [|x l]; cbn [skipn firstn app] in *; try discriminate.
  - inversion H; reflexivity.
  - apply IH. exact H.
Qed.

Lemma capcount_snoc u c : capcount (u ++ [c]) = bump (capcount u) c.
Proof. unfold capcount. rewrite fold_left_app. reflexivity. Qed.


Section PerSc.
Variable R : list re.
Variable A : list rule.

Definition okc (i : nat) (k : nat) : bool :=
  match nth_error A i with
  | Some r => match act_delta (r_act r) with Some d => Nat.eqb k d | None => true end
  | None => true
  end.

Definition succs (s : lstate) : list lstate :=
  map (fun c => (map (deriv c) (fst s), bump (snd s) c)) all_bytes.

Definition alive (s : lstate) : bool := negb (forallb is_emp (fst s)).

Fixpoint dedup_ls (l : list lstate) : list lstate :=
  match l with [] => [] | x :: r => if ls_in x r then dedup_ls r else x :: dedup_ls r end.

Fixpoint explore (fuel : nat) (todo seen : list lstate) : list lstate :=
  match fuel with
  | O => seen
  | S f =>
    match todo with
    | [] => seen
    | s :: todo' =>
        if ls_in s seen then explore f todo' seen
        else explore f (dedup_ls (filter alive (succs s)) ++ todo') (s :: seen)
    end
  end.

Definition reach : list lstate := explore 4000 [(R, 0%nat)] [].

(* every alive successor of a state of S is in S, and satisfies the acceptance condition *)
Definition closed_ok (S : list lstate) : bool :=
  ls_in (R, 0%nat) S &&
  forallb (fun s =>
    forallb (fun c =>
      let t := (map (deriv c) (fst s), bump (snd s) c) in
      negb (alive t) ||
      (ls_in t S && match first_nullable (fst t) 0 with Some i => okc i (snd t) | None => true end)) all_bytes) S.

Lemma munch_line St : closed_ok St = true ->
  forall inp0 inp rs n best,
  In (rs, capcount (firstn n inp0)) St -> inp = skipn n inp0 ->
  (forall i m, best = Some (i, m) -> okc i (capcount (firstn m inp0)) = true) ->
  forall i m, munch rs inp n best = Some (i, m) -> okc i (capcount (firstn m inp0)) = true.
Proof.
  intros Hc inp0. unfold closed_ok in Hc. apply andb_prop in Hc as [_ Hc]. rewrite forallb_forall in Hc.
  induction inp as [|c inp IH]; intros rs n best Hin Hinp Hbest i m Hm; cbn [munch] in Hm.
  - apply Hbest. exact Hm.
  - specialize (Hc _ Hin). pose proof (sweep _ Hc c) as Hs. cbv beta zeta in Hs. cbn [fst snd] in Hs.
    unfold alive in Hs. cbn [fst] in Hs.
    destruct (forallb is_emp (map (deriv c) rs)) eqn:He.
    + apply Hbest. exact Hm.
    + cbn [negb orb] in Hs. apply andb_prop in Hs as [Hs1 Hs2]. apply ls_in_eq in Hs1.
      assert (Hcnt : bump (capcount (firstn n inp0)) c = capcount (firstn (S n) inp0)).
      { rewrite (firstn_S_skipn inp0 n c inp (eq_sym Hinp)), capcount_snoc. reflexivity. }
      rewrite Hcnt in Hs1, Hs2.
      eapply (IH _ (S n) _ Hs1); [symmetry; eapply skipn_S; symmetry; exact Hinp| |exact Hm].
      intros i' m' Hb'. destruct (first_nullable (map (deriv c) rs) 0) as [j|].
      * inversion Hb'; subst. exact Hs2.
      * apply Hbest. exact Hb'.
Qed.

End PerSc.

Lemma first_nullable_lt l : forall a j, first_nullable l a = Some j -> (j < a + length l)%nat.
Proof.
  induction l as [|x l IHl]; intros a j H; cbn [first_nullable] in H; [discriminate|].
  destruct (nullable x); [inversion H; subst; cbn [length]; lia|]. apply IHl in H. cbn [length]. lia.
Qed.

Lemma munch_idx_lt : forall inp rs k best i n, munch rs inp k best = Some (i, n) ->
  (forall j m, best = Some (j, m) -> (j < length rs)%nat) -> (i < length rs)%nat.
Proof.
  induction inp as [|c inp IH]; intros rs k best i n H Hb; cbn [munch] in H; [eapply Hb; exact H|].
  destruct (forallb is_emp (map (deriv c) rs)); [eapply Hb; exact H|].
  apply IH in H; [rewrite map_length in H; exact H|].
  intros j m Hj. rewrite map_length.
  destruct (first_nullable (map (deriv c) rs) 0) as [j'|] eqn:Hf; [|eapply Hb; exact Hj].
  inversion Hj; subst. apply first_nullable_lt in Hf. rewrite map_length in Hf. exact Hf.
Qed.

(* the generic consequence used below: the rule that wins has counted the newlines of its text *)
Lemma munch_delta (R : list re) (A : list rule) (St : list lstate) :
  closed_ok R A St = true -> length R = length A ->
  forall inp i n, munch R inp 0 None = Some (i, n) ->
  exists r, nth_error A i = Some r /\
            match act_delta (r_act r) with Some d => capcount (firstn n inp) = d | None => True end.
Proof.
  intros Hc Hlen inp i n Hm.
  assert (Hin : In (R, capcount (firstn 0 inp)) St).
  { pose proof Hc as Hc'. unfold closed_ok in Hc'. apply andb_prop in Hc' as [Hc' _]. apply ls_in_eq in Hc'. exact Hc'. }
  assert (Hok : okc A i (capcount (firstn n inp)) = true).
  { eapply (munch_line R A St Hc inp inp R 0%nat None Hin eq_refl); [intros ? ? H; discriminate|exact Hm]. }
  unfold okc in Hok.
  destruct (nth_error A i) as [r|] eqn:Hr.
  - exists r. split; [reflexivity|]. destruct (act_delta (r_act r)); [apply Nat.eqb_eq; exact Hok|exact I].
  - exfalso. apply nth_error_None in Hr. apply munch_idx_lt in Hm; [|intros ? ? H; discriminate]. lia.
Qed.

Definition reach_sc (c0 : sc) := reach (active_res c0).

Lemma closed_all : forallb (fun c0 => closed_ok (active_res c0) (active_rules c0) (reach_sc c0)) all_sc = true.
Proof. vm_compute. reflexivity. Qed.

(* ---- from the capped count to the real number of newlines ---- *)
Definition cnt (u : list byte) : nat := length (filter (fun c => Byte.eqb c nlb) u).

Lemma bump_nl k c : Byte.eqb c nlb = true -> (k <= 2)%nat -> bump k c = (if Nat.ltb k 2 then S k else 2)%nat.
Proof. intros H Hk. unfold bump. rewrite H. destruct (Nat.ltb_spec k 2); [apply Nat.min_r; lia|apply Nat.min_l; lia]. Qed.

Lemma fold_bump u : forall k, (k <= 2)%nat ->
  ((k + cnt u < 2)%nat -> fold_left bump u k = (k + cnt u)%nat) /\ ((2 <= k + cnt u)%nat -> fold_left bump u k = 2%nat).
Proof.
  induction u as [|c u IH]; intros k Hk; cbn [fold_left].
  - unfold cnt; cbn [filter length]. split; intros; lia.
  - unfold cnt. cbn [filter]. destruct (Byte.eqb c nlb) eqn:E.
    + rewrite (bump_nl k c E Hk). cbn [length]. fold (cnt u).
      destruct (Nat.ltb_spec k 2) as [Hlt|Hge].
      * destruct (IH (S k) ltac:(lia)) as [A B]. split; intros; [rewrite A; lia|rewrite B; lia].
      * destruct (IH 2%nat ltac:(lia)) as [A B]. split; intros; [lia|rewrite B; lia].
    + unfold bump. rewrite E. fold (cnt u). apply IH. exact Hk.
Qed.

Lemma capcount_exact u d : capcount u = d -> (d < 2)%nat -> cnt u = d.
Proof.
  unfold capcount. intros H Hd. destruct (fold_bump u 0%nat ltac:(lia)) as [A B]. cbn [Nat.add] in A, B.
  destruct (Nat.ltb_spec (cnt u) 2) as [Hlt|Hge]; [rewrite A in H by exact Hlt; exact H|rewrite B in H by exact Hge; lia].
Qed.

Lemma count_nl_cnt u : count_nl u = N.of_nat (cnt u).
Proof. reflexivity. Qed.

(* ---- the position after an action ---- *)
Definition out_pos (o : outcome) : pos := match o with Continue _ p => p | Return _ _ _ p _ => p end.

Definition delta_of (a : action) (y : str) : N :=
  match act_delta a with Some d => N.of_nat d | None => count_nl y end.

Lemma run_action_line e a y s p :
  p_file (out_pos (run_action e a y s p)) = p_file p /\
  p_line (out_pos (run_action e a y s p)) = (p_line p + delta_of a y)%N.
Proof.
  destruct a; cbn [run_action]; split_action e y; unfold delta_of; cbn [act_delta out_pos line_incr add_lines p_file p_line];
    split; try reflexivity; try (rewrite N.add_0_r; reflexivity).
Qed.

(* one scanning step, when no include frame is active: the bytes removed from the current buffer
   and the line increment agree *)
Definition step_pos (r : lstep) : pos := match r with LCont _ p _ => p | LRet _ _ _ p _ _ => p end.
Definition step_closed (r : lstep) : nat := match r with LCont _ _ k => k | LRet _ _ _ _ _ k => k end.

Lemma okc_all c0 : closed_ok (active_res c0) (active_rules c0) (reach_sc c0) = true.
Proof. pose proof closed_all as H. rewrite forallb_forall in H. apply (H c0). apply all_sc_complete. Qed.

Lemma active_len c0 : length (active_res c0) = length (active_rules c0).
Proof. unfold active_res. apply map_length. Qed.

Lemma lex_step_line e s p id inp others :
  l_bufs s = (id, inp) :: others -> l_inc s = [] ->
  exists u rest, inp = u ++ rest /\ l_bufs (step_state (lex_step e s p)) = (id, rest) :: others /\
    l_inc (step_state (lex_step e s p)) = [] /\
    p_file (step_pos (lex_step e s p)) = p_file p /\
    p_line (step_pos (lex_step e s p)) = (p_line p + count_nl u)%N /\
    step_closed (lex_step e s p) = 0%nat.
Proof.
  intros Hb Hi. unfold lex_step. rewrite Hb.
  destruct (munch (active_res (l_sc s)) inp 0 None) as [[i n]|] eqn:Hm.
  - exists (firstn n inp), (skipn n inp). split; [symmetry; apply firstn_skipn|].
    destruct (munch_delta _ _ _ (okc_all (l_sc s)) (active_len (l_sc s)) inp i n Hm) as (r & Hr & Hdelta).
    rewrite Hr.
    pose proof (run_action_frame e (r_act r) (firstn n inp) (set_bufs s ((id, skipn n inp) :: others)) p) as (F1 & F2 & _).
    pose proof (run_action_line e (r_act r) (firstn n inp) (set_bufs s ((id, skipn n inp) :: others)) p) as (L1 & L2).
    assert (Hd : delta_of (r_act r) (firstn n inp) = count_nl (firstn n inp)).
    { unfold delta_of. destruct (act_delta (r_act r)) as [d|] eqn:Hd; [|reflexivity].
      rewrite count_nl_cnt. f_equal. symmetry. apply capcount_exact; [exact Hdelta|].
      destruct (r_act r); cbn [act_delta] in Hd; inversion Hd; lia. }
    rewrite Hd in L2.
    destruct (run_action e (r_act r) (firstn n inp) (set_bufs s ((id, skipn n inp) :: others)) p);
      cbn [step_state step_pos step_closed out_state out_pos] in *;
      (split; [rewrite F1; reflexivity|]); (split; [rewrite F2; exact Hi|]); auto.
  - destruct inp as [|c rest].
    + exists [], []. split; [reflexivity|].
      unfold run_eof. destruct (eof_action_of (l_sc s)) as [[| | |k]|]; try destruct (l_rderr s);
        cbn [step_state step_pos step_closed clear_rderr l_bufs l_inc];
        rewrite ?Hb, ?Hi, ?N.add_0_r; auto 10.
    + exfalso. destruct (munch_covered (l_sc s) c rest) as [b Hb']. congruence.
Qed.

(* C06, scanner level: for every input, environment and scanner state without an active include *)
Theorem yylex_line_invariant e : forall fuel s p closed id inp others,
  l_bufs s = (id, inp) :: others -> l_inc s = [] ->
  let r := yylex e fuel s p closed in
  exists u rest, inp = u ++ rest /\ l_bufs (r_st r) = (id, rest) :: others /\ l_inc (r_st r) = [] /\
    p_file (r_pos r) = p_file p /\ p_line (r_pos r) = (p_line p + count_nl u)%N /\ r_closed r = closed.
Proof.
  induction fuel as [|fuel IH]; intros s p closed id inp others Hb Hi; cbn [yylex].
  - exists [], inp. cbn. rewrite N.add_0_r. auto 10.
  - destruct (lex_step_line e s p id inp others Hb Hi) as (u & rest & E & B & I & Fp & Lp & Ck).
    destruct (lex_step e s p) as [s2 p2 k|t v s2 p2 d k]; cbn [step_state step_pos step_closed] in *; subst k.
    + destruct (IH s2 p2 (0 + closed)%nat id rest others B I) as (u2 & rest2 & E2 & B2 & I2 & F2 & L2 & C2).
      exists (u ++ u2), rest2. cbn [Nat.add] in *. subst inp rest.
      rewrite <- app_assoc. repeat split; auto; try congruence.
      rewrite L2, Lp. unfold count_nl. rewrite filter_app, app_length, Nat2N.inj_add. lia.
    + exists u, rest. cbn. auto 10.
Qed.
