(* ====================================================================== *)
(*  OomProofs.v -- lemmas about the heap model of Oom.v                    *)
(* ====================================================================== *)
Require Import List Arith Bool Lia Permutation.
Import ListNotations.
Require Import LC.Oom.


(* ---------------------------------------------------------------------- *)
(*  lists                                                                  *)
(* ---------------------------------------------------------------------- *)
Lemma set_nth_length A (l : list A) i x : length (set_nth l i x) = length l.
Proof. revert i; induction l; intros [|i]; cbn; auto. Qed.

Lemma nth_set_nth_eq A (l : list A) i x d : i < length l -> nth i (set_nth l i x) d = x.
Proof. revert i; induction l; intros [|i] H; cbn in *; try lia; auto. apply IHl; lia. Qed.

Lemma nth_set_nth_ne A (l : list A) i j x d : i <> j -> nth j (set_nth l i x) d = nth j l d.
Proof. revert i j; induction l; intros [|i] [|j] H; cbn; auto; try congruence. Qed.

Lemma set_nth_app_len A (l1 l2 : list A) x y i :
  i = length l1 -> set_nth (l1 ++ x :: l2) i y = l1 ++ y :: l2.
Proof. intros ->. induction l1; cbn; congruence. Qed.

Lemma nth_error_app_len A (l1 l2 : list A) x i :
  i = length l1 -> nth_error (l1 ++ x :: l2) i = Some x.
Proof. intros ->. induction l1; cbn; auto. Qed.

Lemma firstn_app_len A (l1 l2 : list A) : firstn (length l1) (l1 ++ l2) = l1.
Proof. induction l1; cbn; [destruct l2|]; congruence. Qed.

(* ---------------------------------------------------------------------- *)
(*  heap                                                                   *)
(* ---------------------------------------------------------------------- *)
Lemma length_upd h a c : length (upd h a c) = length h.
Proof. apply set_nth_length. Qed.

Lemma get_app_lt h l a : a < length h -> get (h ++ l) a = get h a.
Proof. intros. unfold get. apply app_nth1; auto. Qed.

Lemma get_app_len h c l a : a = length h -> get (h ++ c :: l) a = c.
Proof. intros ->. unfold get. rewrite app_nth2, Nat.sub_diag; auto. Qed.

Lemma get_upd_eq h a c a' : a' = a -> a < length h -> get (upd h a c) a' = c.
Proof. intros ->. apply nth_set_nth_eq. Qed.

Lemma get_upd_ne h a c a' : a <> a' -> get (upd h a c) a' = get h a'.
Proof. apply nth_set_nth_ne. Qed.

Lemma get_ge h a : length h <= a -> get h a = Unalloc.
Proof. intros. unfold get. apply nth_overflow; auto. Qed.

Lemma get_live_lt h a b : get h a = Live b -> a < length h.
Proof.
  intros H. destruct (lt_dec a (length h)); auto.
  rewrite get_ge in H by lia. discriminate.
Qed.

Lemma live_lt h a : live h a -> a < length h.
Proof. intros [b H]. eapply get_live_lt; eauto. Qed.

(* ---------------------------------------------------------------------- *)
(*  counting occurrences of an address in a footprint                      *)
(* ---------------------------------------------------------------------- *)
Definition b2n (b : bool) : nat := if b then 1 else 0.

Fixpoint cnt (L : cells) (a : addr) : nat :=
  match L with [] => 0 | x :: t => b2n (fst x =? a) + cnt t a end.

Lemma cnt_nil a : cnt [] a = 0. Proof. reflexivity. Qed.
Lemma cnt_cons x b t a : cnt ((x, b) :: t) a = b2n (x =? a) + cnt t a. Proof. reflexivity. Qed.
Lemma cnt_app L1 L2 a : cnt (L1 ++ L2) a = cnt L1 a + cnt L2 a.
Proof. induction L1; cbn; auto. rewrite IHL1. lia. Qed.

Lemma cnt_In L a : In a (addrs L) <-> 1 <= cnt L a.
Proof.
  induction L as [|[x b] L IH]; cbn; [lia|].
  destruct (Nat.eqb_spec x a); cbn; rewrite IH; intuition lia.
Qed.

Lemma cnt_notIn L a : ~ In a (addrs L) <-> cnt L a = 0.
Proof. rewrite cnt_In. lia. Qed.

Lemma NoDup_cnt L : NoDup (addrs L) <-> forall a, cnt L a <= 1.
Proof.
  induction L as [|[x b] L IH]; cbn.
  - split; intros; [lia|constructor].
  - rewrite NoDup_cons_iff, IH. fold (addrs L). rewrite cnt_In. split.
    + intros [H1 H2] a. specialize (H2 a). destruct (Nat.eqb_spec x a); cbn; subst; lia.
    + intros H. split.
      * specialize (H x). rewrite Nat.eqb_refl in H. cbn in H. lia.
      * intros a. specialize (H a). lia.
Qed.

Lemma Holds_nil h : Holds h []. Proof. constructor. Qed.
Lemma Holds_cons h a b L : Holds h ((a, b) :: L) <-> get h a = Live b /\ Holds h L.
Proof. unfold Holds. rewrite Forall_cons_iff. reflexivity. Qed.
Lemma Holds_app h L1 L2 : Holds h (L1 ++ L2) <-> Holds h L1 /\ Holds h L2.
Proof. unfold Holds. apply Forall_app. Qed.

Lemma Holds_bound h L : Holds h L -> forall a, 1 <= cnt L a -> a < length h.
Proof.
  induction 1 as [|[x b] L H1 H2 IH]; cbn; intros a Ha; [lia|].
  destruct (Nat.eqb_spec x a); cbn in *.
  - subst. eapply get_live_lt; eauto.
  - apply IH. lia.
Qed.

Lemma Holds_frame h h' L :
  Holds h L -> (forall a, 1 <= cnt L a -> get h' a = get h a) -> Holds h' L.
Proof.
  induction 1 as [|[x b] L H1 H2 IH]; intros F; constructor.
  - cbn in *. rewrite F; auto. rewrite Nat.eqb_refl. cbn. lia.
  - apply IH. intros a Ha. apply F. cbn. lia.
Qed.

(* Sep / Post in counting form *)
Definition SepC (h : heap) (L : cells) : Prop := Holds h L /\ forall a, cnt L a <= 1.

Lemma Sep_SepC h L : Sep h L <-> SepC h L.
Proof. unfold Sep, SepC. rewrite NoDup_cnt. reflexivity. Qed.

Definition PostC (h : heap) (L : cells) (h' : heap) (L' : cells) : Prop :=
  length h <= length h' /\
  (forall a, a < length h -> cnt L a = 0 -> get h' a = get h a) /\
  (forall a, live h' a -> 1 <= cnt L' a \/ (a < length h /\ cnt L a = 0)) /\
  (forall a, 1 <= cnt L' a -> 1 <= cnt L a \/ length h <= a).

Lemma PostC_Post h L h' L' : PostC h L h' L' <-> Post h L h' L'.
Proof.
  unfold PostC, Post.
  split; intros (H1 & H2 & H3 & H4); (split; [|split; [|split]]); auto; intros a.
  - rewrite cnt_notIn. auto.
  - rewrite cnt_In, cnt_notIn. auto.
  - rewrite !cnt_In. auto.
  - rewrite <- cnt_notIn. auto.
  - rewrite <- cnt_In, <- cnt_notIn. auto.
  - rewrite <- !cnt_In. auto.
Qed.

Lemma PostC_refl h L : Holds h L -> PostC h L h L.
Proof.
  intros HL. split; [lia|]. split; [auto|]. split; [|auto].
  intros a Ha. destruct (Nat.eq_dec (cnt L a) 0); [right|left; lia].
  split; auto. apply live_lt; auto.
Qed.

(* the consequence announced in the task: live blocks = reachable blocks,
   relative to the starting heap *)
Lemma live_iff h L h' L' :
  Sep h' L' -> Post h L h' L' ->
  forall a, live h' a <-> In a (addrs L') \/ (live h a /\ ~ In a (addrs L)).
Proof.
  intros [HL' _] (H1 & H2 & H3 & H4) a. split.
  - intros Ha. destruct (H3 a Ha) as [|[Hlt Hn]]; auto.
    right. split; auto. destruct Ha as [b Hb]. exists b. rewrite <- H2; auto.
  - intros [Ha|[Ha Hn]].
    + unfold Holds in HL'. rewrite Forall_forall in HL'.
      unfold addrs in Ha. apply in_map_iff in Ha. destruct Ha as [[x b] [<- Hin]].
      exists b. apply (HL' _ Hin).
    + destruct Ha as [b Hb]. exists b. rewrite H2; auto. eapply get_live_lt; eauto.
Qed.

(* ---------------------------------------------------------------------- *)
(*  symbolic execution of the monad                                        *)
(* ---------------------------------------------------------------------- *)
Lemma bind_intro A B (m : M A) (f : A -> M B) s a s1 r :
  m s = Ok a s1 -> f a s1 = r -> bind m f s = r.
Proof. intros H1 H2. unfold bind. rewrite H1. exact H2. Qed.

Lemma load_ok h k a b : get h a = Live b -> load a (mkst h k) = Ok b (mkst h k).
Proof. intros H. unfold load. cbn [heap_of fault]. rewrite H. reflexivity. Qed.

Lemma store_ok h k a b0 b : get h a = Live b0 ->
  store a b (mkst h k) = Ok tt (mkst (upd h a (Live b)) k).
Proof. intros H. unfold store. cbn [heap_of fault]. rewrite H. reflexivity. Qed.

Lemma free_ok h k a b0 : get h a = Live b0 ->
  free a (mkst h k) = Ok tt (mkst (upd h a Freed) k).
Proof. intros H. unfold free. cbn [heap_of fault]. rewrite H. reflexivity. Qed.

Lemma touch_ok h k a b : get h a = Live b -> touch a (mkst h k) = Ok tt (mkst h k).
Proof. intros H. unfold touch, bind. rewrite (load_ok _ _ _ _ H). reflexivity. Qed.

Lemma malloc_fail h b : malloc b (mkst h 1) = Ok None (mkst h 0).
Proof. reflexivity. Qed.
Lemma malloc_ok0 h b : malloc b (mkst h 0) = Ok (Some (length h)) (mkst (h ++ [Live b]) 0).
Proof. reflexivity. Qed.
Lemma malloc_okS h b k :
  malloc b (mkst h (S (S k))) = Ok (Some (length h)) (mkst (h ++ [Live b]) (S k)).
Proof. reflexivity. Qed.

Lemma load_str_ok h k a s : get h a = Live (BStr s) -> load_str a (mkst h k) = Ok s (mkst h k).
Proof. intros H. unfold load_str, bind. rewrite (load_ok _ _ _ _ H). reflexivity. Qed.
Lemma load_val_ok h k a s : get h a = Live (BVal s) -> load_val a (mkst h k) = Ok s (mkst h k).
Proof. intros H. unfold load_val, bind. rewrite (load_ok _ _ _ _ H). reflexivity. Qed.
Lemma load_arr_ok h k a s : get h a = Live (BArr s) -> load_arr a (mkst h k) = Ok s (mkst h k).
Proof. intros H. unfold load_arr, bind. rewrite (load_ok _ _ _ _ H). reflexivity. Qed.
Lemma load_opts_ok h k a s : get h a = Live (BOpts s) -> load_opts a (mkst h k) = Ok s (mkst h k).
Proof. intros H. unfold load_opts, bind. rewrite (load_ok _ _ _ _ H). reflexivity. Qed.
Lemma load_cfg_ok h k a n o p :
  get h a = Live (BCfg n o p) -> load_cfg a (mkst h k) = Ok (n, o, p) (mkst h k).
Proof. intros H. unfold load_cfg, bind. rewrite (load_ok _ _ _ _ H). reflexivity. Qed.

Lemma load_word_ok h k arr ws i p :
  get h arr = Live (BArr ws) -> nth_error ws i = Some (WPtr p) ->
  load_word arr i (mkst h k) = Ok p (mkst h k).
Proof. intros H N. unfold load_word, bind. rewrite (load_arr_ok _ _ _ _ H), N. reflexivity. Qed.

Lemma store_word_ok h k arr ws i p :
  get h arr = Live (BArr ws) -> i < length ws ->
  store_word arr i p (mkst h k) = Ok tt (mkst (upd h arr (Live (BArr (set_nth ws i (WPtr p))))) k).
Proof.
  intros H N. unfold store_word, bind. rewrite (load_arr_ok _ _ _ _ H).
  apply Nat.ltb_lt in N. rewrite N. eapply store_ok; eauto.
Qed.

Lemma upd_slot_ok h k arr ss i o f :
  get h arr = Live (BOpts ss) -> nth_error ss i = Some (SOpt o) ->
  upd_slot arr i f (mkst h k) = Ok tt (mkst (upd h arr (Live (BOpts (set_nth ss i (SOpt (f o)))))) k).
Proof.
  intros H N. unfold upd_slot, bind. rewrite (load_opts_ok _ _ _ _ H), N. eapply store_ok; eauto.
Qed.

Lemma zero_slot_ok h k arr ss i :
  get h arr = Live (BOpts ss) -> i < length ss ->
  zero_slot arr i (mkst h k) = Ok tt (mkst (upd h arr (Live (BOpts (set_nth ss i (SOpt zero_opt))))) k).
Proof.
  intros H N. unfold zero_slot, bind. rewrite (load_opts_ok _ _ _ _ H).
  apply Nat.ltb_lt in N. rewrite N. eapply store_ok; eauto.
Qed.

Lemma realloc_fail h a b n e : get h a = Live b ->
  realloc (Some a) n e (mkst h 1) = Ok None (mkst h 0).
Proof. intros H. unfold realloc, bind. rewrite (load_ok _ _ _ _ H). reflexivity. Qed.

Lemma realloc_ok0 h a b n e : get h a = Live b ->
  realloc (Some a) n e (mkst h 0) =
  Ok (Some (length h)) (mkst (upd (h ++ [Live (resize_block n b)]) a Freed) 0).
Proof.
  intros H. unfold realloc, bind. rewrite (load_ok _ _ _ _ H).
  cbn [request fault heap_of alloc ret].
  erewrite free_ok; [reflexivity|].
  rewrite get_app_lt by (eapply get_live_lt; eauto). exact H.
Qed.

Lemma realloc_okS h a b n e k : get h a = Live b ->
  realloc (Some a) n e (mkst h (S (S k))) =
  Ok (Some (length h)) (mkst (upd (h ++ [Live (resize_block n b)]) a Freed) (S k)).
Proof.
  intros H. unfold realloc, bind. rewrite (load_ok _ _ _ _ H).
  cbn [request fault heap_of alloc ret].
  erewrite free_ok; [reflexivity|].
  rewrite get_app_lt by (eapply get_live_lt; eauto). exact H.
Qed.

Lemma free_ptr_none s : free_ptr None s = Ok tt s.
Proof. reflexivity. Qed.

(* ---------------------------------------------------------------------- *)
(*  tactics                                                                *)
(* ---------------------------------------------------------------------- *)
Lemma length_words_of vs : length (words_of vs) = length vs.
Proof. apply map_length. Qed.

Ltac len :=
  repeat first [ rewrite app_length | rewrite length_upd | rewrite length_words_of
               | rewrite map_length | rewrite repeat_length | rewrite set_nth_length ];
  cbn [length].

Ltac len_in H :=
  repeat first [ rewrite app_length in H | rewrite length_upd in H | rewrite length_words_of in H
               | rewrite map_length in H | rewrite repeat_length in H | rewrite set_nth_length in H ];
  cbn [length] in H.

Ltac arith := len; lia.

(* simplify [get] of a heap expression built with ++ and upd *)
Ltac sget1 :=
  match goal with
  | |- context [get (upd ?h ?x ?c) ?x] => rewrite (get_upd_eq h x c x eq_refl) by arith
  | |- context [get (upd ?h ?x ?c) ?a] =>
      first [ rewrite (get_upd_ne h x c a) by arith | rewrite (get_upd_eq h x c a) by arith ]
  | |- context [get (?h ++ ?c :: ?l) ?a] =>
      first [ rewrite (get_app_lt h (c :: l) a) by arith | rewrite (get_app_len h c l a) by arith ]
  end.
Ltac sget := repeat sget1.

Ltac sget_in1 H :=
  match type of H with
  | context [get (upd ?h ?x ?c) ?x] => rewrite (get_upd_eq h x c x eq_refl) in H by arith
  | context [get (upd ?h ?x ?c) ?a] =>
      first [ rewrite (get_upd_ne h x c a) in H by arith | rewrite (get_upd_eq h x c a) in H by arith ]
  | context [get (?h ++ ?c :: ?l) ?a] =>
      first [ rewrite (get_app_lt h (c :: l) a) in H by arith | rewrite (get_app_len h c l a) in H by arith ]
  end.
Ltac sget_in H := repeat sget_in1 H.

(* counting normal form *)
Ltac cnorm :=
  repeat first [ rewrite cnt_app | rewrite cnt_cons | rewrite cnt_nil
               | rewrite flat_map_app | rewrite app_nil_r ].
Ltac cnorm_in H :=
  repeat first [ rewrite cnt_app in H | rewrite cnt_cons in H | rewrite cnt_nil in H
               | rewrite flat_map_app in H | rewrite app_nil_r in H ].

Ltac eqb_cases :=
  repeat match goal with
         | H : context [?x =? ?y] |- _ => destruct (Nat.eqb_spec x y); cbn [b2n] in H
         | |- context [?x =? ?y] => destruct (Nat.eqb_spec x y); cbn [b2n]
         end.

(* specialise every counting hypothesis (forall a, ...cnt...) at the address a *)
Ltac at_addr a :=
  repeat match goal with
         | H : forall x : addr, cnt _ x <= 1 |- _ =>
             let H' := fresh "Hnd" in pose proof (H a) as H'; cnorm_in H'; revert H
         | H : forall x : addr, 1 <= cnt _ x -> x < _ |- _ =>
             let H' := fresh "Hbd" in pose proof (H a) as H'; cnorm_in H'; revert H
         end; intros.

Ltac noevar_arith := match goal with |- ?G => tryif has_evar G then fail else arith end.
Ltac side := try eassumption; try reflexivity; try (sget; first [eassumption | reflexivity]);
  try (rewrite nth_error_app_len by arith; reflexivity); try noevar_arith.
Ltac bounds :=
  repeat match goal with
         | H : get ?h ?a = Live _ |- _ =>
             lazymatch goal with
             | _ : a < length h |- _ => fail
             | _ => pose proof (get_live_lt _ _ _ H)
             end
         end.
Ltac bstep L := eapply bind_intro; [ eapply L; side | cbn beta iota ].

Lemma cells_gopt_mk nm gp gd gc v :
  cells_gopt (mkGOpt nm gp gd gc v) =
  (fst nm, BStr (snd nm)) :: cells_ostr gp ++ cells_ostr gd ++ cells_ostr gc ++ cells_ovals v.
Proof. reflexivity. Qed.
Lemma rec_of_gopt_mk nm gp gd gc v :
  rec_of_gopt (mkGOpt nm gp gd gc v) =
  mkOpt (Some (fst nm)) (ptr_of gc) (ptr_of gp) (ptr_of gd) None (vals_ptr v) (vals_len v).
Proof. reflexivity. Qed.
Lemma cells_gvals_mk a vs sp :
  cells_gvals (mkGVals a vs sp) = (a, BArr (words_of vs ++ sp)) :: flat_map cells_gval vs.
Proof. reflexivity. Qed.
Lemma cells_gval_mk a s : cells_gval (mkGVal a s) = (a, BVal (ptr_of s)) :: cells_ostr s.
Proof. reflexivity. Qed.

Lemma words_of_snoc vs v : words_of (vs ++ [v]) = words_of vs ++ [WPtr (Some (gv_addr v))].
Proof. unfold words_of. rewrite map_app. reflexivity. Qed.
Lemma words_of_app v1 v2 : words_of (v1 ++ v2) = words_of v1 ++ words_of v2.
Proof. apply map_app. Qed.
Lemma words_of_cons v vs : words_of (v :: vs) = WPtr (Some (gv_addr v)) :: words_of vs.
Proof. reflexivity. Qed.
Lemma words_of_nil : words_of [] = [].
Proof. reflexivity. Qed.
Lemma flat_map_single A B (f : A -> list B) x : flat_map f [x] = f x.
Proof. cbn. apply app_nil_r. Qed.

Ltac proj1 :=
  rewrite ?cells_gopt_mk, ?rec_of_gopt_mk, ?cells_gvals_mk, ?cells_gval_mk in *;
  unfold with_name, with_comment, with_parsed, with_dstring, with_subopts, with_values, with_nvalues, cells_str in *;
  cbn [g_name g_parsed g_dstring g_comment g_vals ga_addr ga_vals ga_spare gv_addr gv_str
       o_name o_comment o_parsed o_dstring o_subopts o_values o_nvalues
       vals_ptr vals_len vals_list cells_ovals cells_ostr ptr_of val_of fst snd
       gs_addr gs_opts gs_spare gc_addr gc_name gc_opts gc_path gp_addr gp_dir] in *;
  rewrite ?words_of_app, ?words_of_cons, ?words_of_nil, ?flat_map_app, ?flat_map_single, ?cells_gvals_mk, ?cells_gval_mk, ?app_nil_r in *;
  cbn [gv_addr gv_str cells_ostr ptr_of set_nth app flat_map] in *.
Ltac proj := repeat progress proj1.

Ltac kill := try (exfalso; lia).

Lemma b2n_spec x y : (x = y /\ b2n (x =? y) = 1) \/ (x <> y /\ b2n (x =? y) = 0).
Proof. destruct (Nat.eqb_spec x y); cbn; auto. Qed.
Lemma b2n_ne x y : b2n (x =? y) = 0 -> x <> y.
Proof. destruct (Nat.eqb_spec x y); cbn; auto. discriminate. Qed.

(* give lia the meaning of every atom  b2n (x =? y) *)
Ltac facts :=
  repeat match goal with
         | H : context [b2n (?x =? ?y)] |- _ =>
             lazymatch goal with
             | _ : (x = y /\ _) \/ _ |- _ => fail
             | _ => pose proof (b2n_spec x y)
             end
         | |- context [b2n (?x =? ?y)] =>
             lazymatch goal with
             | _ : (x = y /\ _) \/ _ |- _ => fail
             | _ => pose proof (b2n_spec x y)
             end
         end.

(* x <> a for every singleton x whose count at a is forced to be 0 *)
Ltac nes a :=
  repeat match goal with
         | H : context [b2n (?x =? a)] |- _ =>
             lazymatch goal with
             | _ : x <> a |- _ => fail
             | _ => assert (x <> a) by (apply b2n_ne; lia)
             end
         end.

(* Ltac-level case analysis on every atom x =? y (used for the no-leak clause only) *)
Ltac eqb_case x y :=
  let E := fresh "E" in
  destruct (Nat.eq_dec x y) as [E|E];
  [ rewrite (proj2 (Nat.eqb_eq x y) E) in * | rewrite (proj2 (Nat.eqb_neq x y) E) in * ];
  cbn [b2n] in *; kill.
Ltac eqbs :=
  rewrite ?Nat.eqb_refl in *; cbn [b2n] in *;
  repeat match goal with
         | E : ?x <> ?y |- _ => rewrite (proj2 (Nat.eqb_neq x y) E) in *; cbn [b2n] in *
         end;
  repeat match goal with
         | H : context [?x =? ?y] |- _ => eqb_case x y
         | |- context [?x =? ?y] => eqb_case x y
         end.

Ltac hgoal := repeat first [apply Holds_nil | rewrite Holds_app | rewrite Holds_cons | split].
(* convention: the counting hypotheses of the starting footprint are called HN and HB *)
Ltac piece :=
  eapply Holds_frame;
  [ eassumption
  | let a := fresh "a" in let Ha := fresh "Ha" in
    let Hnd := fresh "Hnd" in let Hbd := fresh "Hbd" in
    intros a Ha;
    match goal with HN : forall a : addr, cnt _ a <= 1, HB : forall x : addr, 1 <= cnt _ x -> x < _ |- _ =>
      pose proof (HN a) as Hnd; pose proof (HB a) as Hbd end;
    cnorm_in Hnd; cnorm_in Hbd; clear - Ha Hnd Hbd;
    nes a; sget; reflexivity ].
Ltac atom := cbn [fst snd]; sget; first [eassumption | reflexivity].

(* derive the pairwise distinctness of the explicitly known owned addresses *)
Ltac prove_ne HN x y :=
  let E := fresh "E" in let Hx := fresh "Hx" in
  intro E; pose proof (HN x) as Hx; cnorm_in Hx; rewrite E in Hx;
  rewrite ?Nat.eqb_refl in Hx; cbn [b2n] in Hx; lia.
Ltac distinct :=
  repeat match goal with
         | H1 : get ?h ?x = Live _, H2 : get ?h ?y = Live _, HN : forall a : addr, cnt _ a <= 1 |- _ =>
             lazymatch x with y => fail | _ => idtac end;
             lazymatch goal with | _ : x <> y |- _ => fail | _ => idtac end;
             assert (x <> y) by prove_ne HN x y
         end.

Ltac hsplit H := repeat first [rewrite Holds_app in H | rewrite Holds_cons in H].

Definition same_strs (g g' : gopt) : Prop :=
  g_name g' = g_name g /\ g_parsed g' = g_parsed g /\ g_dstring g' = g_dstring g /\ g_comment g' = g_comment g.

Lemma resize_words vs spare :
  exists x, firstn (length vs + 1) (words_of vs ++ spare)
            ++ repeat WUndef (length vs + 1 - length (words_of vs ++ spare)) = words_of vs ++ [x].
Proof.
  rewrite <- (length_words_of vs). generalize (words_of vs) as ws. intros ws.
  destruct spare as [|x sp].
  - exists WUndef. rewrite app_nil_r. rewrite firstn_all2 by lia.
    replace (length ws + 1 - length ws) with 1 by lia. reflexivity.
  - exists x. rewrite app_length. cbn [length].
    replace (length ws + 1 - (length ws + S (length sp))) with 0 by lia.
    cbn [repeat]. rewrite app_nil_r.
    replace (ws ++ x :: sp) with ((ws ++ [x]) ++ sp) by (rewrite <- app_assoc; reflexivity).
    replace (length ws + 1) with (length (ws ++ [x])) by (rewrite app_length; reflexivity).
    apply firstn_app_len.
Qed.


Ltac norm := len; rewrite ?Nat.add_1_r; rewrite ?set_nth_app_len by arith.

Ltac step0 :=
  lazymatch goal with
  | |- bind (realloc (Some _) _ _) _ _ = _ =>
      first [bstep realloc_ok0 | bstep realloc_okS | bstep realloc_fail]; cbn [resize_block]
  | |- bind (realloc None _ _) _ _ = _ =>
      unfold realloc at 1; cbn [resize_block firstn repeat app Nat.sub Nat.add length]
  | |- bind (malloc _) _ _ = _ => first [bstep malloc_ok0 | bstep malloc_okS | bstep malloc_fail]
  | |- bind (strdup _) _ _ = _ => unfold strdup at 1
  | |- bind (load_cfg _) _ _ = _ => bstep load_cfg_ok
  | |- bind (load_opts _) _ _ = _ => bstep load_opts_ok
  | |- bind (load_val _) _ _ = _ => bstep load_val_ok
  | |- bind (load_str _) _ _ = _ => bstep load_str_ok
  | |- bind (load_word _ _) _ _ = _ => bstep load_word_ok
  | |- bind (store_word _ _ _) _ _ = _ => bstep store_word_ok
  | |- bind (store _ _) _ _ = _ => bstep store_ok
  | |- bind (free _) _ _ = _ => bstep free_ok
  | |- bind (touch _) _ _ = _ => bstep touch_ok
  | |- bind (free_ptr (Some _)) _ _ = _ => unfold free_ptr at 1
  | |- bind (free_ptr None) _ _ = _ => bstep free_ptr_none
  | |- bind (upd_slot _ _ _) _ _ = _ => bstep upd_slot_ok
  | |- bind (zero_slot _ _) _ _ = _ => bstep zero_slot_ok
  end.
Ltac step := step0; norm.

Ltac finish := proj; len; rewrite ?Nat.add_1_r, ?Nat.sub_0_r; cbn [Nat.sub]; reflexivity.
Ltac steps := repeat step; try (unfold ret; finish).

Ltac nodup_tac :=
  let a := fresh "a" in let Hnd := fresh "Hnd" in let Hbd := fresh "Hbd" in
  intros a; proj; cnorm;
  match goal with HN : forall a : addr, cnt _ a <= 1, HB : forall x : addr, 1 <= cnt _ x -> x < _ |- _ =>
    pose proof (HN a) as Hnd; pose proof (HB a) as Hbd end;
  cnorm_in Hnd; cnorm_in Hbd; clear - Hnd Hbd; facts; lia.

Ltac sep_tac := split; [ proj; hgoal; first [atom | piece] | nodup_tac ].

Ltac post1 :=
  let a := fresh "a" in let Hlt := fresh "Hlt" in let Hz := fresh "Hz" in
  intros a Hlt Hz; cnorm_in Hz; clear - Hlt Hz; nes a; sget; reflexivity.
Ltac clear_big :=
  repeat match goal with
         | H : SepC _ _ |- _ => clear H
         | H : Holds _ _ |- _ => clear H
         | H : forall _ : addr, _ |- _ => clear H
         | H : get _ _ = Live _ |- _ => clear H
         end.
Ltac eq_branch Hb :=
  first [ exfalso; sget_in Hb; discriminate
        | rewrite ?Nat.eqb_refl in *; cbn [b2n] in *; facts; lia ].
Ltac post2 :=
  let a := fresh "a" in let Hl := fresh "Hl" in let Hb := fresh "Hb" in let Hlt := fresh "Hlt" in
  let Hnd := fresh "Hnd" in let Hbd := fresh "Hbd" in
  intros a Hl; pose proof (live_lt _ _ Hl) as Hlt; len_in Hlt; destruct Hl as [?b Hb];
  cnorm;
  match goal with HN : forall a : addr, cnt _ a <= 1, HB : forall x : addr, 1 <= cnt _ x -> x < _ |- _ =>
    pose proof (HN a) as Hnd; pose proof (HB a) as Hbd end;
  cnorm_in Hnd; cnorm_in Hbd; revert Hb; clear_big; intros Hb;
  repeat match goal with
         | |- context [b2n (?x =? a)] =>
             let E := fresh "E" in
             destruct (Nat.eq_dec x a) as [E|E];
             [ subst a; eq_branch Hb | rewrite (proj2 (Nat.eqb_neq x a) E) in *; cbn [b2n] in * ]
         | H : context [b2n (?x =? a)] |- _ =>
             let E := fresh "E" in
             destruct (Nat.eq_dec x a) as [E|E];
             [ subst a; eq_branch Hb | rewrite (proj2 (Nat.eqb_neq x a) E) in *; cbn [b2n] in * ]
         end;
  (* freed temporaries that belong to neither footprint *)
  repeat match type of Hb with
         | context [upd _ ?x Freed] =>
             lazymatch goal with
             | _ : x <> a |- _ => fail
             | _ => idtac
             end;
             let E := fresh "E" in
             destruct (Nat.eq_dec x a) as [E|E]; [ subst a; exfalso; sget_in Hb; discriminate | ]
         end;
  lia.
Ltac post3 :=
  let a := fresh "a" in let Ha := fresh "Ha" in
  intros a Ha; cnorm_in Ha; cnorm; clear - Ha; facts; lia.
Ltac post_tac :=
  proj; unfold PostC; split; [arith|]; split; [|split]; [post1 | post2 | post3].

Lemma addval_spec h k g :
  SepC h (cells_gopt g) ->
  exists h' g' out,
    cfg_addval (rec_of_gopt g) (mkst h k) = Ok (rec_of_gopt g', out) (mkst h' (k - 2)) /\
    SepC h' (cells_gopt g') /\ PostC h (cells_gopt g) h' (cells_gopt g') /\
    same_strs g g' /\
    match out with
    | Failed => hits k 2 /\ abs_vals (g_vals g') = abs_vals (g_vals g)
    | Done cv => ~ hits k 2 /\
                 exists arr, g_vals g' = Some (mkGVals arr (vals_list (g_vals g) ++ [mkGVal cv None]) [])
    end.
Proof.
  intros HS. pose proof HS as [HH HN].
  destruct g as [nm gp gd gc [[arr vs spare]|]].
  - pose proof (Holds_bound _ _ HH) as HB.
    proj. hsplit HH. destruct HH as (Hnm & Hp & Hd & Hc & Harr & Hvs). bounds. distinct.
    destruct (resize_words vs spare) as [x Hx].
    unfold cfg_addval; proj.
    destruct k as [|[|[|k]]].
    1,4: eexists;
      exists (mkGOpt nm gp gd gc (Some (mkGVals (length h) (vs ++ [mkGVal (S (length h)) None]) [])));
      eexists; (split; [step0; rewrite Hx; norm; steps|]);
      (split; [sep_tac|]); (split; [post_tac|]); (split; [repeat split|]);
      (split; [unfold hits; lia| eexists; reflexivity]).
    + exists h. exists (mkGOpt nm gp gd gc (Some (mkGVals arr vs spare))). exists Failed. split; [steps|].
      split; [proj; exact HS|]. split; [proj; apply PostC_refl; apply HS|]. split; [repeat split|].
      split; [unfold hits; lia|reflexivity].
    + eexists. exists (mkGOpt nm gp gd gc (Some (mkGVals (length h) vs [WPtr None]))).
      eexists; split; [step0; rewrite Hx; norm; steps|].
      split; [sep_tac|]; split; [post_tac|]; split; [repeat split|].
      split; [unfold hits; lia|reflexivity].
  - pose proof (Holds_bound _ _ HH) as HB.
    proj. hsplit HH. destruct HH as (Hnm & Hp & Hd & Hc). bounds. distinct.
    unfold cfg_addval; proj.
    destruct k as [|[|[|k]]].
    1,4: eexists;
      exists (mkGOpt nm gp gd gc (Some (mkGVals (length h) [mkGVal (S (length h)) None] [])));
      eexists; (split; [steps|]);
      (split; [sep_tac|]); (split; [post_tac|]); (split; [repeat split|]);
      (split; [unfold hits; lia| eexists; reflexivity]).
    + exists h. exists (mkGOpt nm gp gd gc None). exists Failed. split; [steps|].
      split; [proj; exact HS|]. split; [proj; apply PostC_refl; apply HS|]. split; [repeat split|].
      split; [unfold hits; lia|reflexivity].
    + eexists. exists (mkGOpt nm gp gd gc (Some (mkGVals (length h) [] [WPtr None]))).
      eexists; split; [steps|].
      split; [sep_tac|]; split; [post_tac|]; split; [repeat split|].
      split; [unfold hits; lia|reflexivity].
Qed.

(* ---------------------------------------------------------------------- *)
(*  (3) cfg_opt_setcomment, (2) cfg_opt_setnstr                            *)
(* ---------------------------------------------------------------------- *)
Lemma setcomment_spec h k g s :
  SepC h (cells_gopt g) ->
  exists h' g' out,
    cfg_opt_setcomment (rec_of_gopt g) s (mkst h k) = Ok (rec_of_gopt g', out) (mkst h' (k - 1)) /\
    SepC h' (cells_gopt g') /\ PostC h (cells_gopt g) h' (cells_gopt g') /\
    match out with
    | Failed => hits k 1 /\ g' = g
    | Done _ => ~ hits k 1 /\
                exists a, g' = mkGOpt (g_name g) (g_parsed g) (g_dstring g) (Some (a, s)) (g_vals g)
    end.
Proof.
  intros HS. pose proof HS as [HH HN].
  destruct g as [nm gp gd gc v].
  pose proof (Holds_bound _ _ HH) as HB.
  destruct gc as [[ca cs]|]; proj; hsplit HH.
  - destruct HH as (Hnm & Hp & Hd & Hc & Hv). bounds. distinct.
    unfold cfg_opt_setcomment; proj.
    destruct k as [|[|k]].
    1,3: eexists; exists (mkGOpt nm gp gd (Some (length h, s)) v); eexists;
      (split; [steps|]); (split; [sep_tac|]); (split; [post_tac|]);
      (split; [unfold hits; lia| eexists; reflexivity]).
    exists h, (mkGOpt nm gp gd (Some (ca, cs)) v), Failed. split; [steps|].
    split; [proj; exact HS|]. split; [proj; apply PostC_refl; apply HS|].
    split; [unfold hits; lia|reflexivity].
  - destruct HH as (Hnm & Hp & Hd & Hv). bounds. distinct.
    unfold cfg_opt_setcomment; proj.
    destruct k as [|[|k]].
    1,3: eexists; exists (mkGOpt nm gp gd (Some (length h, s)) v); eexists;
      (split; [steps|]); (split; [sep_tac|]); (split; [post_tac|]);
      (split; [unfold hits; lia| eexists; reflexivity]).
    exists h, (mkGOpt nm gp gd None v), Failed. split; [steps|].
    split; [proj; exact HS|]. split; [proj; apply PostC_refl; apply HS|].
    split; [unfold hits; lia|reflexivity].
Qed.


Lemma nth_error_words v1 v v2 spare :
  nth_error (words_of (v1 ++ v :: v2) ++ spare) (length v1) = Some (WPtr (Some (gv_addr v))).
Proof.
  unfold words_of. rewrite map_app. cbn [map]. rewrite <- app_assoc. cbn [app].
  apply nth_error_app_len. rewrite map_length. reflexivity.
Qed.

Lemma PostC_trans h L h1 L1 h2 L2 :
  PostC h L h1 L1 -> PostC h1 L1 h2 L2 -> PostC h L h2 L2.
Proof.
  intros (A1 & A2 & A3 & A4) (B1 & B2 & B3 & B4).
  assert (Hz : forall a, a < length h -> cnt L a = 0 -> cnt L1 a = 0).
  { intros a Hlt Hc. destruct (Nat.eq_dec (cnt L1 a) 0) as [|Hn]; auto.
    destruct (A4 a); lia. }
  split; [lia|]. split; [|split].
  - intros a Hlt Hc. rewrite B2; auto. lia.
  - intros a Hl. destruct (B3 a Hl) as [|[Hlt Hc]]; auto.
    assert (Hl1 : live h1 a). { destruct Hl as [b Hb]. exists b. rewrite <- B2; auto. }
    destruct (A3 a Hl1) as [|]; auto. lia.
  - intros a Ha. destruct (B4 a Ha) as [H1|H1]; [apply A4 in H1; tauto | right; lia].
Qed.

Lemma split_at A (l : list A) i : i < length l ->
  exists l1 x l2, l = l1 ++ x :: l2 /\ length l1 = i.
Proof.
  revert i; induction l as [|y l IH]; intros i Hi; cbn in Hi; [lia|].
  destruct i as [|i].
  - exists [], y, l. auto.
  - destruct (IH i) as (l1 & x & l2 & -> & <-); [lia|].
    exists (y :: l1), x, l2. auto.
Qed.

Lemma nth_error_words' v1 cv v2 (spare : list word) :
  nth_error ((words_of v1 ++ WPtr (Some cv) :: words_of v2) ++ spare) (length v1) = Some (WPtr (Some cv)).
Proof.
  rewrite <- app_assoc. cbn [app]. apply nth_error_app_len. rewrite length_words_of. reflexivity.
Qed.

Lemma set_nth_map_app A B (f : A -> B) l1 x l2 y :
  set_nth (map f (l1 ++ x :: l2)) (length l1) (f y) = map f (l1 ++ y :: l2).
Proof.
  rewrite !map_app. cbn [map]. apply set_nth_app_len. rewrite map_length. reflexivity.
Qed.


(* ---- three structural rules: frame, allocation, release ---------------- *)
Lemma SepC_app_l h L X : SepC h (L ++ X) -> SepC h L.
Proof.
  intros [HH HN]. apply Holds_app in HH. split; [apply HH|].
  intros a. specialize (HN a). rewrite cnt_app in HN. lia.
Qed.

(* a step that is specified on the footprint L leaves a disjoint owned part X alone *)
Lemma frame_rule_r h L h' L' X :
  SepC h (L ++ X) -> SepC h' L' -> PostC h L h' L' ->
  SepC h' (L' ++ X) /\ PostC h (L ++ X) h' (L' ++ X).
Proof.
  intros [HH HN] [HH' HN'] (P1 & P2 & P3 & P4).
  apply Holds_app in HH. destruct HH as [HL HX].
  pose proof (Holds_bound _ _ HX) as HBX.
  assert (HD : forall a, cnt L a + cnt X a <= 1)
    by (intros a; specialize (HN a); rewrite cnt_app in HN; exact HN).
  assert (HX' : Holds h' X).
  { eapply Holds_frame; [exact HX|]. intros a Ha. apply P2; [apply HBX; exact Ha|].
    specialize (HD a). lia. }
  split; [split|].
  - apply Holds_app. split; assumption.
  - intros a. rewrite cnt_app.
    specialize (HN' a). specialize (HD a). specialize (P4 a). specialize (HBX a). lia.
  - split; [lia|]. split; [|split]; intros a; rewrite ?cnt_app.
    + intros Hlt Hz. apply P2; lia.
    + intros Hl. specialize (P3 a Hl). lia.
    + intros Ha. specialize (P4 a). lia.
Qed.

(* a granted request: the new block is owned *)
Lemma alloc_rule h L b :
  SepC h L ->
  SepC (h ++ [Live b]) (L ++ [(length h, b)]) /\ PostC h L (h ++ [Live b]) (L ++ [(length h, b)]).
Proof.
  intros [HH HN]. pose proof (Holds_bound _ _ HH) as HB.
  split; [split|].
  - apply Holds_app. split.
    + eapply Holds_frame; [exact HH|]. intros a Ha. apply get_app_lt. apply HB; exact Ha.
    + apply Holds_cons. split; [apply get_app_len; reflexivity | apply Holds_nil].
  - intros a. rewrite cnt_app, cnt_cons, cnt_nil. specialize (HN a). specialize (HB a).
    pose proof (b2n_spec (length h) a). lia.
  - split; [rewrite app_length; cbn [length]; lia|]. split; [|split]; intros a.
    + intros Hlt Hz. apply get_app_lt; exact Hlt.
    + intros Hl. rewrite cnt_app, cnt_cons, cnt_nil.
      pose proof (live_lt _ _ Hl) as Hlt. rewrite app_length in Hlt; cbn [length] in Hlt.
      pose proof (b2n_spec (length h) a). lia.
    + rewrite cnt_app, cnt_cons, cnt_nil. intros Ha. pose proof (b2n_spec (length h) a). lia.
Qed.

(* free of an owned block: it leaves the footprint and is not live any more *)
Lemma free_rule h L a b :
  SepC h (L ++ [(a, b)]) ->
  get h a = Live b /\ SepC (upd h a Freed) L /\ PostC h (L ++ [(a, b)]) (upd h a Freed) L.
Proof.
  intros [HH HN]. apply Holds_app in HH. destruct HH as [HL Ha].
  apply Holds_cons in Ha. destruct Ha as [Ha _].
  pose proof (get_live_lt _ _ _ Ha) as Hlt.
  assert (HD : forall x, cnt L x + b2n (a =? x) <= 1).
  { intros x. specialize (HN x). rewrite cnt_app, cnt_cons, cnt_nil in HN. lia. }
  split; [exact Ha|]. split; [split|].
  - eapply Holds_frame; [exact HL|]. intros x Hx. apply get_upd_ne.
    specialize (HD x). pose proof (b2n_spec a x). lia.
  - intros x. specialize (HD x). lia.
  - split; [rewrite length_upd; lia|].
    split; [|split]; intros x; rewrite ?cnt_app, ?cnt_cons, ?cnt_nil.
    + intros Hx Hz. apply get_upd_ne. pose proof (b2n_spec a x). lia.
    + intros Hl. pose proof (live_lt _ _ Hl) as Hx. rewrite length_upd in Hx.
      destruct (Nat.eq_dec a x) as [E|E].
      * exfalso. subst x. destruct Hl as [b' Hb']. rewrite get_upd_eq in Hb' by auto. discriminate.
      * pose proof (b2n_spec a x). lia.
    + intros Hx. lia.
Qed.

(* store into an owned block: only its recorded contents change *)
Lemma store_rule h L a b b' :
  SepC h (L ++ [(a, b)]) ->
  get h a = Live b /\ SepC (upd h a (Live b')) (L ++ [(a, b')]) /\
  PostC h (L ++ [(a, b)]) (upd h a (Live b')) (L ++ [(a, b')]).
Proof.
  intros [HH HN]. apply Holds_app in HH. destruct HH as [HL Ha].
  apply Holds_cons in Ha. destruct Ha as [Ha _].
  pose proof (get_live_lt _ _ _ Ha) as Hlt.
  assert (HD : forall x, cnt L x + b2n (a =? x) <= 1).
  { intros x. specialize (HN x). rewrite cnt_app, cnt_cons, cnt_nil in HN. lia. }
  split; [exact Ha|]. split; [split|].
  - apply Holds_app. split.
    + eapply Holds_frame; [exact HL|]. intros x Hx. apply get_upd_ne.
      specialize (HD x). pose proof (b2n_spec a x). lia.
    + apply Holds_cons. split; [apply get_upd_eq; auto | apply Holds_nil].
  - intros x. rewrite cnt_app, cnt_cons, cnt_nil. specialize (HD x). lia.
  - split; [rewrite length_upd; lia|].
    split; [|split]; intros x; rewrite ?cnt_app, ?cnt_cons, ?cnt_nil.
    + intros Hx Hz. apply get_upd_ne. pose proof (b2n_spec a x). lia.
    + intros Hl. pose proof (live_lt _ _ Hl) as Hx. rewrite length_upd in Hx.
      pose proof (b2n_spec a x). lia.
    + intros Hx. lia.
Qed.

(* footprints that own the same blocks, listed in a different order *)
Definition Equiv (L L' : cells) : Prop :=
  (forall h, Holds h L <-> Holds h L') /\ (forall a, cnt L a = cnt L' a).

Lemma Equiv_sym L L' : Equiv L L' -> Equiv L' L.
Proof. intros [A B]. split; intros x; [symmetry; apply A | symmetry; apply B]. Qed.
Lemma Equiv_refl L : Equiv L L.
Proof. split; intros; reflexivity. Qed.

Lemma SepC_equiv h L L' : Equiv L L' -> SepC h L -> SepC h L'.
Proof. intros [A B] [HH HN]. split; [apply A; exact HH|]. intros a. rewrite <- B. apply HN. Qed.

Lemma PostC_equiv h L1 L1' h' L2 L2' :
  Equiv L1 L1' -> Equiv L2 L2' -> PostC h L1 h' L2 -> PostC h L1' h' L2'.
Proof.
  intros [_ B1] [_ B2] (P1 & P2 & P3 & P4).
  split; [exact P1|]. split; [|split]; intros a; rewrite <- ?B1, <- ?B2; auto.
Qed.

Lemma Holds_nil_iff h : Holds h [] <-> True.
Proof. split; [trivial | intros _; apply Holds_nil]. Qed.

Ltac equiv :=
  split;
  [ let h := fresh "h" in
    intros h; repeat first [rewrite Holds_app | rewrite Holds_cons | rewrite Holds_nil_iff]; tauto
  | let a := fresh "a" in intros a; cnorm; lia ].

(* the last three statements of cfg_opt_setnstr, on a footprint with the value
   cell cv in focus: the copy ns (owned, outside the option) becomes the string
   of cv; the old string os is released; no request is made *)
Lemma set_val_string_rule h k o1 A B cv (os ns : option gstr) :
  SepC h ((A ++ (cv, BVal (ptr_of os)) :: cells_ostr os ++ B) ++ cells_ostr ns) ->
  exists h',
    set_val_string o1 cv (ptr_of ns) (mkst h k) = Ok (o1, Done tt) (mkst h' k) /\
    SepC h' (A ++ (cv, BVal (ptr_of ns)) :: cells_ostr ns ++ B) /\
    PostC h ((A ++ (cv, BVal (ptr_of os)) :: cells_ostr os ++ B) ++ cells_ostr ns)
          h' (A ++ (cv, BVal (ptr_of ns)) :: cells_ostr ns ++ B).
Proof.
  intros HS.
  remember (A ++ B ++ cells_ostr ns) as R eqn:HR.
  assert (E0 : Equiv ((A ++ (cv, BVal (ptr_of os)) :: cells_ostr os ++ B) ++ cells_ostr ns)
                     ((R ++ cells_ostr os) ++ [(cv, BVal (ptr_of os))])) by (subst R; equiv).
  assert (E1 : Equiv ((R ++ cells_ostr os) ++ [(cv, BVal (ptr_of ns))])
                     ((R ++ [(cv, BVal (ptr_of ns))]) ++ cells_ostr os)) by equiv.
  assert (E2 : Equiv (R ++ [(cv, BVal (ptr_of ns))])
                     (A ++ (cv, BVal (ptr_of ns)) :: cells_ostr ns ++ B)) by (subst R; equiv).
  clear HR.
  pose proof (SepC_equiv _ _ _ E0 HS) as HS0.
  destruct (store_rule _ _ _ _ (BVal (ptr_of ns)) HS0) as (Hcv & HS1 & HP1).
  pose proof (SepC_equiv _ _ _ E1 HS1) as HS1'.
  pose proof (PostC_equiv _ _ _ _ _ _ (Equiv_sym _ _ E0) E1 HP1) as HP1'.
  destruct os as [[oa ost]|]; cbn [cells_ostr cells_str ptr_of fst snd] in *.
  - destruct (free_rule _ _ _ _ HS1') as (Hoa & HS2 & HP2).
    exists (upd (upd h cv (Live (BVal (ptr_of ns)))) oa Freed).
    split.
    { unfold set_val_string.
      eapply bind_intro; [eapply load_val_ok; exact Hcv|]. cbn beta iota.
      eapply bind_intro; [eapply store_ok; exact Hcv|]. cbn beta iota.
      unfold free_ptr. eapply bind_intro; [eapply free_ok; exact Hoa|]. reflexivity. }
    split; [eapply SepC_equiv; [exact E2|exact HS2]|].
    eapply PostC_trans; [exact HP1'|].
    eapply PostC_equiv; [apply Equiv_refl | exact E2 | exact HP2].
  - rewrite app_nil_r in HS1', HP1'.
    exists (upd h cv (Live (BVal (ptr_of ns)))).
    split.
    { unfold set_val_string.
      eapply bind_intro; [eapply load_val_ok; exact Hcv|]. cbn beta iota.
      eapply bind_intro; [eapply store_ok; exact Hcv|]. reflexivity. }
    split; [eapply SepC_equiv; [exact E2|exact HS1']|].
    eapply PostC_equiv; [apply Equiv_refl | exact E2 | exact HP1'].
Qed.

Lemma cells_gopt_focus nm gp gd gc arr v1 cv os v2 spare :
  cells_gopt (mkGOpt nm gp gd gc (Some (mkGVals arr (v1 ++ mkGVal cv os :: v2) spare))) =
  (cells_str nm ++ cells_ostr gp ++ cells_ostr gd ++ cells_ostr gc ++
   (arr, BArr ((words_of v1 ++ WPtr (Some cv) :: words_of v2) ++ spare)) :: flat_map cells_gval v1)
  ++ (cv, BVal (ptr_of os)) :: cells_ostr os ++ flat_map cells_gval v2.
Proof.
  unfold cells_gopt. cbn [g_name g_parsed g_dstring g_comment g_vals cells_ovals].
  rewrite cells_gvals_mk, words_of_app, words_of_cons, flat_map_app. cbn [flat_map gv_addr].
  rewrite cells_gval_mk. cbn [app]. rewrite <- !app_assoc. cbn [app]. reflexivity.
Qed.

Lemma set_val_string_spec h k nm gp gd gc arr v1 cv os v2 spare (ns : option gstr) :
  let g := mkGOpt nm gp gd gc (Some (mkGVals arr (v1 ++ mkGVal cv os :: v2) spare)) in
  SepC h (cells_gopt g ++ cells_ostr ns) ->
  exists h',
    let g' := mkGOpt nm gp gd gc (Some (mkGVals arr (v1 ++ mkGVal cv ns :: v2) spare)) in
    set_val_string (rec_of_gopt g) cv (ptr_of ns) (mkst h k) = Ok (rec_of_gopt g', Done tt) (mkst h' k) /\
    SepC h' (cells_gopt g') /\ PostC h (cells_gopt g ++ cells_ostr ns) h' (cells_gopt g').
Proof.
  intros g HS. subst g. cbn zeta.
  assert (Hrec : rec_of_gopt (mkGOpt nm gp gd gc (Some (mkGVals arr (v1 ++ mkGVal cv ns :: v2) spare))) =
                 rec_of_gopt (mkGOpt nm gp gd gc (Some (mkGVals arr (v1 ++ mkGVal cv os :: v2) spare)))).
  { rewrite !rec_of_gopt_mk. cbn [vals_ptr vals_len ga_addr ga_vals]. rewrite !app_length. reflexivity. }
  rewrite Hrec. rewrite !cells_gopt_focus in *.
  apply set_val_string_rule. exact HS.
Qed.

(* cfg_opt_setnstr after the copy: ns is the (owned) copy, or None when value == NULL.
   Requests: realloc, calloc when a new slot is needed.  When cfg_opt_getval fails
   the copy is released again. *)
Lemma setnstr_after_copy_spec h k g (ns : option gstr) index :
  SepC h (cells_gopt g ++ cells_ostr ns) ->
  let nv := length (vals_list (g_vals g)) in
  let n := if index <? nv then 0 else 2 in
  exists h' g' out,
    setnstr_after_copy (rec_of_gopt g) (ptr_of ns) index (mkst h k)
      = Ok (rec_of_gopt g', out) (mkst h' (k - n)) /\
    SepC h' (cells_gopt g') /\ PostC h (cells_gopt g ++ cells_ostr ns) h' (cells_gopt g') /\
    same_strs g g' /\
    match out with
    | Failed => hits k n /\ abs_vals (g_vals g') = abs_vals (g_vals g)
    | Done _ => ~ hits k n /\
                abs_vals (g_vals g') =
                if index <? nv then set_nth (abs_vals (g_vals g)) index (val_of ns)
                else abs_vals (g_vals g) ++ [val_of ns]
    end.
Proof.
  intros HS nv n. subst nv n.
  pose proof (SepC_app_l _ _ _ HS) as HSg.
  destruct (Nat.ltb_spec index (length (vals_list (g_vals g)))) as [Hlt|Hge].
  - (* existing slot: no request *)
    destruct g as [nm gp gd gc [[arr vs spare]|]]; cbn [g_vals vals_list length] in *; [|lia].
    destruct (split_at _ vs index Hlt) as (v1 & [cv os] & v2 & -> & <-).
    destruct (set_val_string_spec h k nm gp gd gc arr v1 cv os v2 spare ns HS)
      as (h' & Hrun & HS' & HP).
    cbn zeta in *.
    exists h', (mkGOpt nm gp gd gc (Some (mkGVals arr (v1 ++ mkGVal cv ns :: v2) spare))), (Done tt).
    split.
    { unfold setnstr_after_copy, cfg_opt_getval.
      rewrite rec_of_gopt_mk. cbn [o_nvalues o_values vals_len vals_ptr ga_vals ga_addr].
      replace (length (v1 ++ mkGVal cv os :: v2) <=? length v1) with false
        by (symmetry; apply Nat.leb_gt; rewrite app_length; cbn; lia).
      destruct HSg as [HH _]. rewrite cells_gopt_mk in HH. cbn [cells_ovals] in HH.
      rewrite cells_gvals_mk in HH. hsplit HH. destruct HH as (_ & _ & _ & _ & Harr & _).
      cbn [fst snd] in Harr. rewrite words_of_app, words_of_cons in Harr. cbn [gv_addr] in Harr.
      eapply bind_intro.
      { eapply bind_intro; [eapply load_word_ok; [exact Harr | apply nth_error_words']|].
        cbn beta iota. reflexivity. }
      cbn beta iota. rewrite Nat.sub_0_r. exact Hrun. }
    split; [exact HS'|]. split; [exact HP|]. split; [repeat split|].
    split; [unfold hits; lia|].
    cbn [g_vals abs_vals ga_vals].
    change (val_of ns) with ((fun x => val_of (gv_str x)) (mkGVal cv ns)).
    rewrite set_nth_map_app. reflexivity.
  - (* a new slot is needed: cfg_addval, with the copy framed out *)
    assert (Hleb : (o_nvalues (rec_of_gopt g) <=? index) = true)
      by (apply Nat.leb_le; destruct g as [? ? ? ? [[]|]]; cbn in *; lia).
    destruct (addval_spec h k g HSg) as (h1 & g1 & out1 & Hrun1 & HS1 & HP1 & Hsame1 & Hout1).
    destruct (frame_rule_r _ _ _ _ _ HS HS1 HP1) as [HS1x HP1x].
    destruct out1 as [cv|].
    + destruct Hout1 as [Hnh [arr1 Hv1]].
      destruct g1 as [nm1 gp1 gd1 gc1 vals1]. cbn [g_vals] in Hv1. subst vals1.
      destruct (set_val_string_spec h1 (k - 2) nm1 gp1 gd1 gc1 arr1 (vals_list (g_vals g)) cv None [] [] ns HS1x)
        as (h' & Hrun & HS' & HP).
      cbn zeta in *.
      exists h', (mkGOpt nm1 gp1 gd1 gc1 (Some (mkGVals arr1 (vals_list (g_vals g) ++ [mkGVal cv ns]) []))), (Done tt).
      split.
      { unfold setnstr_after_copy, cfg_opt_getval. rewrite Hleb.
        eapply bind_intro; [exact Hrun1|]. cbn beta iota. exact Hrun. }
      split; [exact HS'|]. split; [eapply PostC_trans; [exact HP1x|exact HP]|].
      split.
      { destruct Hsame1 as (A & B & C & D). cbn in *. repeat split; assumption. }
      split; [exact Hnh|].
      cbn [g_vals abs_vals ga_vals].
      assert (Habs : map (fun x => val_of (gv_str x)) (vals_list (g_vals g)) = abs_vals (g_vals g))
        by (destruct (g_vals g); reflexivity).
      rewrite map_app, Habs. reflexivity.
    + destruct Hout1 as [Hh Hv].
      destruct ns as [[na nst]|]; cbn [cells_ostr cells_str ptr_of fst snd] in *.
      * (* if (!val) { free(newstr); return CFG_FAIL; } *)
        destruct (free_rule _ _ _ _ HS1x) as (Hna & HS2 & HP2).
        exists (upd h1 na Freed), g1, Failed. split.
        { unfold setnstr_after_copy, cfg_opt_getval. rewrite Hleb.
          eapply bind_intro; [exact Hrun1|]. cbn beta iota.
          unfold free_ptr. eapply bind_intro; [eapply free_ok; exact Hna|]. reflexivity. }
        split; [exact HS2|]. split; [eapply PostC_trans; [exact HP1x|exact HP2]|].
        split; [exact Hsame1|]. split; [exact Hh|exact Hv].
      * rewrite app_nil_r in *.
        exists h1, g1, Failed. split.
        { unfold setnstr_after_copy, cfg_opt_getval. rewrite Hleb.
          eapply bind_intro; [exact Hrun1|]. reflexivity. }
        split; [exact HS1|]. split; [exact HP1|].
        split; [exact Hsame1|]. split; [exact Hh|exact Hv].
Qed.

Lemma malloc_any h k b : k <> 1 ->
  malloc b (mkst h k) = Ok (Some (length h)) (mkst (h ++ [Live b]) (k - 1)).
Proof.
  intros Hk. destruct k as [|[|k]]; [reflexivity | congruence | reflexivity].
Qed.

(* cfg_opt_setnstr: requests = [strdup if value], then [realloc, calloc if index >= nvalues] *)
Lemma setnstr_spec h k g value index :
  SepC h (cells_gopt g) ->
  let nv := length (vals_list (g_vals g)) in
  let n := nreq_setnstr nv index value in
  exists h' g' out,
    cfg_opt_setnstr (rec_of_gopt g) value index (mkst h k) = Ok (rec_of_gopt g', out) (mkst h' (k - n)) /\
    SepC h' (cells_gopt g') /\ PostC h (cells_gopt g) h' (cells_gopt g') /\
    same_strs g g' /\
    match out with
    | Failed => hits k n /\ abs_vals (g_vals g') = abs_vals (g_vals g)
    | Done _ => ~ hits k n /\
                abs_vals (g_vals g') =
                if index <? nv then set_nth (abs_vals (g_vals g)) index value
                else abs_vals (g_vals g) ++ [value]
    end.
Proof.
  intros HS nv n. subst nv n. unfold nreq_setnstr.
  destruct value as [s|]; cbn [nreq_value].
  - (* value != NULL : the copy is request 1 *)
    destruct (Nat.eq_dec k 1) as [Hk|Hk].
    + subst k. exists h, g, Failed. split.
      { unfold cfg_opt_setnstr, strdup.
        eapply bind_intro; [apply malloc_fail|]. cbn beta iota. unfold ret.
        replace (1 - _) with 0 by lia. reflexivity. }
      split; [exact HS|]. split; [apply PostC_refl; apply HS|]. split; [repeat split|].
      split; [unfold hits; lia|reflexivity].
    + destruct (alloc_rule h _ (BStr s) HS) as [HS0 HP0].
      destruct (setnstr_after_copy_spec (h ++ [Live (BStr s)]) (k - 1) g (Some (length h, s)) index HS0)
        as (h' & g' & out & Hrun & HS' & HP & Hsame & Hout).
      cbn zeta in Hrun, Hout. cbn [val_of snd ptr_of fst] in Hrun, Hout.
      set (n0 := if index <? length (vals_list (g_vals g)) then 0 else 2) in *.
      exists h', g', out. split.
      { unfold cfg_opt_setnstr, strdup.
        eapply bind_intro; [apply malloc_any; exact Hk|]. cbn beta iota.
        replace (k - (n0 + 1)) with (k - 1 - n0) by lia. exact Hrun. }
      split; [exact HS'|]. split; [eapply PostC_trans; [exact HP0|exact HP]|].
      split; [exact Hsame|].
      destruct out as [[]|]; destruct Hout as [Hh Hv]; (split; [unfold hits in *; lia|exact Hv]).
  - (* value == NULL : newstr = NULL, nothing to copy *)
    assert (HS0 : SepC h (cells_gopt g ++ cells_ostr None))
      by (cbn [cells_ostr]; rewrite app_nil_r; exact HS).
    destruct (setnstr_after_copy_spec h k g None index HS0)
      as (h' & g' & out & Hrun & HS' & HP & Hsame & Hout).
    cbn zeta in Hrun, Hout. cbn [val_of ptr_of cells_ostr] in Hrun, Hout, HP.
    rewrite app_nil_r in HP.
    set (n0 := if index <? length (vals_list (g_vals g)) then 0 else 2) in *.
    exists h', g', out. split.
    { unfold cfg_opt_setnstr. replace (k - (n0 + 0)) with (k - n0) by lia. exact Hrun. }
    split; [exact HS'|]. split; [exact HP|]. split; [exact Hsame|].
    destruct out as [[]|]; destruct Hout as [Hh Hv]; (split; [unfold hits in *; lia|exact Hv]).
Qed.
