(* Properties_C19.v — C19: cfg_print emits each unfiltered option once, in order, at its depth.
   Only statements here; proofs are in PrintProofs.v.  A print filter is modelled by the set of option
   names it suppresses; fmt is the printf("%f") oracle of Print.v. *)
From Coq Require String.
Import String.StringSyntax.
From Coq Require Import List Arith NArith ZArith Bool.
From Coq.Strings Require Import Byte.
From LC Require Import Bytes Consts Conv Lexer Store Print PrintProofs.
Import ListNotations.
Local Open Scope string_scope.
Local Open Scope list_scope.

(* (a) the output of a context is the concatenation, in declaration order, of the output of every option
   the effective filter does not suppress — each exactly once, all at the same depth, all under the
   same effective filter (the context's own filter if it has one, else the one handed down) *)
Theorem C19_print_is_ordered_concat :
  forall fmt c fb d,
  print_cfg fmt c fb d =
  concat (map (fun o => print_opt fmt o (eff_filter c fb) d)
              (filter (fun o => negb (suppressed (eff_filter c fb) o)) (c_opts c))).
Proof. exact C19_print_is_ordered_concat_pf. Qed.
Print Assumptions C19_print_is_ordered_concat.

(* (b) a section option prints its annotation, then for every section value in order:
   header at depth d, the sub-context at depth d+1 under the handed-down filter, closing brace at depth d *)
Theorem C19_section_body :
  forall fmt name flags vals sub def comment cbs pff d,
  print_opt fmt (Opt name KSec flags vals sub def comment cbs) pff d =
  annotation flags comment d ++ concat (map (sec_block fmt name flags pff d) vals).
Proof. exact C19_section_body_pf. Qed.
Print Assumptions C19_section_body.

(* (c) a sub-context without a filter of its own inherits the outer one ... *)
Theorem C19_inheritance_outer :
  forall fmt s f d,
  c_pff s = None ->
  print_cfg fmt s (Some f) d =
  concat (map (fun o => print_opt fmt o (Some f) d)
              (filter (fun o => negb (name_in (o_name o) f)) (c_opts s))).
Proof. exact C19_inherits_outer_pf. Qed.
Print Assumptions C19_inheritance_outer.

(* ... with no filter anywhere every option is printed ... *)
Theorem C19_inheritance_none :
  forall fmt s d,
  c_pff s = None ->
  print_cfg fmt s None d = concat (map (fun o => print_opt fmt o None d) (c_opts s)).
Proof. exact C19_no_filter_pf. Qed.
Print Assumptions C19_inheritance_none.

(* ... and an inner filter wins, whatever the outer one *)
Theorem C19_inheritance_inner :
  forall fmt s g fb d,
  c_pff s = Some g ->
  print_cfg fmt s fb d = print_cfg fmt s (Some g) d /\
  print_cfg fmt s fb d =
  concat (map (fun o => print_opt fmt o (Some g) d)
              (filter (fun o => negb (name_in (o_name o) g)) (c_opts s))).
Proof. exact C19_inner_wins_pf. Qed.
Print Assumptions C19_inheritance_inner.

(* (d) *)
Theorem C19_unset_scalar_commented :
  forall fmt name k flags sub def comment cbs pff d,
  scalar_kind k = true -> has flags CFGF_LIST = false ->
  let o := Opt name k flags [] sub def comment cbs in
  print_opt fmt o pff d =
  annotation flags comment d ++ indent_str d ++ M "# " ++ cstr name ++ M "=" ++ print_value fmt o 0 ++ [nl].
Proof. exact C19_unset_scalar_commented_pf. Qed.
Print Assumptions C19_unset_scalar_commented.

(* (e) only the option's own print callback decides how its values are rendered *)
Theorem C19_print_callback_local :
  forall fmt o i,
  (forall k, cb_print (o_cbs o) = Some k -> print_value fmt o i = pf_text o i) /\
  (cb_print (o_cbs o) = None -> print_value fmt o i = nprint_var fmt o i).
Proof. exact C19_print_callback_local_pf. Qed.
Print Assumptions C19_print_callback_local.

(* (f) a list option is ONE line at depth d: name = {v0, v1, ...} — every index exactly once, in order *)
Theorem C19_list_line :
  forall fmt name k flags vals sub def comment cbs pff d,
  scalar_kind k = true -> has flags CFGF_LIST = true ->
  let o := Opt name k flags vals sub def comment cbs in
  print_opt fmt o pff d =
  annotation flags comment d ++ indent_str d ++ cstr name ++ M " = {" ++
  sep_by (M ", ") (map (print_value fmt o) (seq 0 (length vals))) ++ M "}" ++ [nl].
Proof. exact C19_list_line_pf. Qed.
Print Assumptions C19_list_line.

(* (g) a scalar that has a value (and, for strings, a non-NULL one) is ONE uncommented line name=value;
   a string whose value is NULL is commented out like an unset option *)
Theorem C19_set_scalar_line :
  forall fmt name k flags v vals sub def comment cbs pff d,
  scalar_kind k = true -> has flags CFGF_LIST = false ->
  null_string_value k (v :: vals) = false ->
  let o := Opt name k flags (v :: vals) sub def comment cbs in
  print_opt fmt o pff d =
  annotation flags comment d ++ indent_str d ++ cstr name ++ M "=" ++ print_value fmt o 0 ++ [nl].
Proof. exact C19_set_scalar_line_pf. Qed.
Print Assumptions C19_set_scalar_line.

Theorem C19_null_string_commented :
  forall fmt name flags vals sub def comment cbs pff d,
  has flags CFGF_LIST = false ->
  null_string_value KStr vals = true ->
  let o := Opt name KStr flags vals sub def comment cbs in
  print_opt fmt o pff d =
  annotation flags comment d ++ indent_str d ++ M "# " ++ cstr name ++ M "=" ++ print_value fmt o 0 ++ [nl].
Proof. exact C19_null_string_commented_pf. Qed.
Print Assumptions C19_null_string_commented.

(* (h) functions and untyped options contribute nothing unless they carry a print callback *)
Theorem C19_func_line :
  forall fmt name k flags vals sub def comment cbs pff d,
  (k = KFunc \/ k = KNone) ->
  let o := Opt name k flags vals sub def comment cbs in
  print_opt fmt o pff d =
  annotation flags comment d ++
  match cb_print cbs with Some _ => indent_str d ++ pf_text o 0 ++ [nl] | None => [] end.
Proof. exact C19_func_line_pf. Qed.
Print Assumptions C19_func_line.

(* (i) "at its depth": the indentation at depth d is exactly 2*d spaces, one level adds two *)
Theorem C19_indent_is_depth :
  forall d, length (indent_str d) = 2 * d /\ Forall (fun b => b = x20) (indent_str d) /\
            indent_str (S d) = M "  " ++ indent_str d.
Proof. intro d. split; [apply indent_str_length | split; [apply indent_str_spaces | apply indent_str_S]]. Qed.
Print Assumptions C19_indent_is_depth.

(* (j) "each unfiltered option once, in order": cutting a context at any option — a suppressed option
   (with everything nested in it) leaves no trace in the output; an unsuppressed one contributes exactly
   one contiguous block, between the output of the options before it and of those after it *)
Theorem C19_suppressed_no_trace :
  forall fmt a b c0 l1 o l2 e f g pff fb d,
  let c := Cfg a b c0 (l1 ++ o :: l2) e f g pff in
  suppressed (eff_filter c fb) o = true ->
  print_cfg fmt c fb d = print_cfg fmt (Cfg a b c0 (l1 ++ l2) e f g pff) fb d.
Proof. exact C19_suppressed_no_trace_pf. Qed.
Print Assumptions C19_suppressed_no_trace.

Theorem C19_block_in_place :
  forall fmt a b c0 l1 o l2 e f g pff fb d,
  let c := Cfg a b c0 (l1 ++ o :: l2) e f g pff in
  suppressed (eff_filter c fb) o = false ->
  print_cfg fmt c fb d =
  print_cfg fmt (Cfg a b c0 l1 e f g pff) fb d ++
  print_opt fmt o (eff_filter c fb) d ++
  print_cfg fmt (Cfg a b c0 l2 e f g pff) fb d.
Proof. exact C19_block_in_place_pf. Qed.
Print Assumptions C19_block_in_place.

(* ---------------- non-vacuity ---------------- *)
(* three levels: root filters "hidden"; sec has no filter (inherits it); inner filters "b" instead,
   so its "hidden" is printed and its "b" is not *)
Definition ex_fmt (b : N) : str := M "0.000000".
Definition ex_mk (name : String.string) k flags vals comment cbs : opt :=
  Opt (M name) k flags vals [] defv0 comment cbs.
Definition ex_pcb : cbset :=
  {| cb_parse := None; cb_valid := None; cb_valid2 := None; cb_print := Some 7%N; cb_free := false; cb_func := None |}.
Definition ex_l3 : cfg :=
  Cfg (M "inner") None 0
    [ ex_mk "hidden" KInt 0 [VInt 5] None cbset0;
      ex_mk "b" KBool 0 [VBool true] None cbset0;
      ex_mk "s" KStr 0 [VStr (Some (M "q"))] None ex_pcb;
      ex_mk "f" KFloat 0 [] None cbset0 ]
    None 0 true (Some [M "b"]).
Definition ex_l2 : cfg :=
  Cfg (M "sec") (Some (M "t1")) 0
    [ ex_mk "hidden" KStr 0 [VStr (Some (M "no"))] None cbset0;
      ex_mk "b" KBool CFGF_COMMENTS [] (Some (M "unset bool")) cbset0;
      ex_mk "inner" KSec 0 [VSec (Some ex_l3); VSec None] None cbset0;
      ex_mk "l" KInt CFGF_LIST [VInt 1; VInt (-2)] None cbset0 ]
    None 0 true None.
Definition ex_root : cfg :=
  Cfg (M "root") None 0
    [ ex_mk "a" KInt CFGF_COMMENTS [VInt 1] (Some (M "the a")) cbset0;
      ex_mk "hidden" KInt 0 [VInt 9] None cbset0;
      ex_mk "sec" KSec (CFGF_TITLE + CFGF_MULTI) [VSec (Some ex_l2)] None cbset0;
      ex_mk "z" KStr 0 [] None cbset0 ]
    None 0 true (Some [M "hidden"]).
Definition ex_lines (l : list String.string) : str := flat_map (fun s => M s ++ [nl]) l.

Example C19_example :
  c_pff ex_root = Some [M "hidden"] /\ c_pff ex_l2 = None /\ c_pff ex_l3 = Some [M "b"] /\
  eff_filter ex_l2 (Some [M "hidden"]) = Some [M "hidden"] /\
  eff_filter ex_l3 (Some [M "hidden"]) = Some [M "b"] /\
  map o_name (filter (fun o => negb (suppressed (eff_filter ex_root None) o)) (c_opts ex_root)) = [M "a"; M "sec"; M "z"] /\
  suppressed (eff_filter ex_root None) (ex_mk "hidden" KInt 0 [VInt 9] None cbset0) = true /\
  suppressed (eff_filter ex_root None) (ex_mk "z" KStr 0 [] None cbset0) = false /\
  scalar_kind KStr = true /\ has 0 CFGF_LIST = false /\ has CFGF_LIST CFGF_LIST = true /\
  null_string_value KInt [VInt 5] = false /\ null_string_value KStr [VStr None] = true /\
  null_string_value KStr [VStr (Some (M "q"))] = false /\ cb_print (o_cbs (ex_mk "s" KStr 0 [] None ex_pcb)) = Some 7%N /\
  print_cfg ex_fmt ex_root None 0 =
  ex_lines [ "/* the a */";
             "a=1";
             "sec ""t1"" {";
             "  /* unset bool */";
             "  # b=false";
             "  inner {";
             "    hidden=5";
             "    s=<s#0>";
             "    # f=0.000000";
             "  }";
             "  l = {1, -2}";
             "}";
             "# z=""""" ].
Proof. vm_compute. repeat split; reflexivity. Qed.
