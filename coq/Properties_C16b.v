(* Properties_C16b.v — C16 / C12 support: every section instance, whenever and however created, carries the context
   flags of the root.  Only statements here; proofs are in FlagProofs.v.

   confuse.c, cfg_setopt, CFGT_SEC branch:   val->section->flags = cfg->flags;
                                             if (is_set(CFGF_KEYSTRVAL, opt->flags)) val->section->flags |= CFGF_KEYSTRVAL;
   where cfg is the context handed to cfg_setopt: the enclosing section when cfg_parse_internal / cfg_init_defaults
   create the instance, the context cfg_addtsec was called on when the API does (whatever path the name spells).
   The model does exactly this (Parser.setopt KSec branch, Grammar.instance): no bit masked, no other bit added.
   Hence the flag word of every instance is the root's up to the CFGF_KEYSTRVAL bit, and that is all one can say:
   Example C16b_ex_keystrval_bit_differs shows two sibling instances of one section option, one created by the
   parser inside a free-form section (bit set, inherited from the enclosing instance) and one created by
   cfg_addtsec through a path (bit clear, the root's word).

     FlagProofs.inherits F c       N.lor (c_flags c) CFGF_KEYSTRVAL = N.lor F CFGF_KEYSTRVAL, and recursively the same
                                   (same F) for every section instance held by any option of c
     FlagProofs.flags_inherited c  inherits (c_flags c) c = true

   Grammar.obs_c keeps c_flags of every context, so `inherits` is observational (statement 5) and the parser-level
   statements lose nothing with respect to the meaning-level ones.

   Side conditions: those of the C01 refinement (PP_Inv.tmplO on declarations for cfg_init; ParserProofs.Inv, wst,
   fuel for the parser and for cfg_addtsec, which runs cfg_init_defaults on the new instance).  Without the template
   condition cfg_init can keep a pre-set instance with foreign flags (Example C16b_cfg_init_needs_templates).
   ign_c (SkipAnyProofs, C12b) follows from flags_inherited + the bit on the root; the converse fails
   (C16b_ignoring_does_not_give_inherited). *)
From Coq Require String.
From Coq Require Import List Arith NArith ZArith Bool.
From Coq.Strings Require Import Byte.
From LC Require Import Bytes Consts Conv Lexer LexLemmas LexAll Files Store Parser Api Grammar
  PP_Tok PP_Inv PP_Inst PP_Spec PP_SpecLemmas PP_LexYields PP_LexFrame ParserProofs SkipProofs SkipAnyProofs Properties_C01 FlagProofs.
Import ListNotations.

(* 0. the definition, unfolded one level *)
Theorem C16b_inherits_unfold :
  forall F c, inherits F c = same_fl F (c_flags c) && forallb (fun o => forallb (inh_v F) (o_vals o)) (c_opts c).
Proof. intros F c. rewrite inherits_eq. f_equal. apply PP_Base.forallb_ext'. apply inh_o_eq. Qed.
Print Assumptions C16b_inherits_unfold.

Theorem C16b_same_flags_iff : forall F f, same_fl F f = true <-> N.lor f CFGF_KEYSTRVAL = N.lor F CFGF_KEYSTRVAL.
Proof. exact same_fl_iff. Qed.
Print Assumptions C16b_same_flags_iff.

Theorem C16b_inh_v_unfold : forall F v, inh_v F v = match v with VSec (Some c) => inherits F c | _ => true end.
Proof. intros F v. destruct v as [| | | |[c|]|]; reflexivity. Qed.

(* 1. what a fresh instance gets (SPEC side, Grammar.instance): the word it is handed, plus CFGF_KEYSTRVAL iff the
      section option is declared free-form; nothing masked.  And the whole instance inherits. *)
Theorem C16b_instance_flags :
  forall strtod_o fl d t, c_flags (instance strtod_o fl d t) = if oflag d CFGF_KEYSTRVAL then setf fl CFGF_KEYSTRVAL else fl.
Proof. exact instance_flags. Qed.
Print Assumptions C16b_instance_flags.

Theorem C16b_instance_inherits :
  forall strtod_o F d fl t, same_fl F fl = true -> inherits F (instance strtod_o fl d t) = true.
Proof. exact instance_inh. Qed.
Print Assumptions C16b_instance_inherits.

(* 2. established by cfg_init, for ANY flag word (hypotheses of C12b_ignoring_established / the C01 refinement) *)
Theorem C16b_established_by_cfg_init :
  forall (strtod_o : str -> strtod_res) (e : ctx) (DC k : nat) (w : pw) (L : lexst) (decls : list opt) (flags : N) (fuel : nat),
  wst w e L -> forallb (tmplO (dtext_okb strtod_o (fst e) DC) k) decls = true -> measure L + DC + 2 * k + 1 <= fuel ->
  flags_inherited (snd (cfg_init strtod_o fuel w decls flags)) /\
  c_flags (snd (cfg_init strtod_o fuel w decls flags)) = flags /\
  Inv strtod_o (fst e) DC k (snd (cfg_init strtod_o fuel w decls flags)).
Proof. exact cfg_init_inh. Qed.
Print Assumptions C16b_established_by_cfg_init.

(* 3. preserved by the reference meaning; the general form fixes the root word F0 (nested calls of meaning run on
      section contexts whose own word may differ from F0 in the KEYSTRVAL bit); the root word itself is untouched *)
Theorem C16b_preserved_by_meaning :
  forall strtod_o F c top g c' rest, meaning strtod_o F c top g = Some (c', rest) -> flags_inherited c -> flags_inherited c'.
Proof. exact meaning_flags_inherited. Qed.
Print Assumptions C16b_preserved_by_meaning.

Theorem C16b_preserved_by_meaning_gen :
  forall strtod_o F0 F c top g c' rest, meaning strtod_o F c top g = Some (c', rest) -> inherits F0 c = true -> inherits F0 c' = true.
Proof. exact meaning_inh. Qed.
Print Assumptions C16b_preserved_by_meaning_gen.

Theorem C16b_meaning_keeps_root_flags :
  forall strtod_o F c top g c' rest, meaning strtod_o F c top g = Some (c', rest) -> c_flags c' = c_flags c.
Proof. exact meaning_flags. Qed.
Print Assumptions C16b_meaning_keeps_root_flags.

(* the instance a section item opens (C12b's `opens`) inherits too: the descent only ever enters inheriting contexts *)
Theorem C16b_enters_inheriting_sections :
  forall strtod_o F0 c name r ti sec r2, opens strtod_o c name r = Some (ti, sec, r2) -> inherits F0 c = true -> inherits F0 sec = true.
Proof. exact opens_inh. Qed.
Print Assumptions C16b_enters_inheriting_sections.

(* 4. a tree that inherits any word inherits its own; the word only matters up to the bit *)
Theorem C16b_inherits_own : forall F c, inherits F c = true -> flags_inherited c.
Proof. exact inh_own. Qed.
Print Assumptions C16b_inherits_own.

Theorem C16b_inherits_word_up_to_bit : forall F F' c, same_fl F F' = true -> inherits F c = inherits F' c.
Proof. exact inh_change. Qed.
Print Assumptions C16b_inherits_word_up_to_bit.

(* 5. observational: obs_c keeps the flag word of every context *)
Theorem C16b_observational : forall F c c', obs_c c = obs_c c' -> inherits F c = inherits F c'.
Proof. exact inh_obs. Qed.
Print Assumptions C16b_observational.

Theorem C16b_flags_inherited_observational : forall c c', obs_c c = obs_c c' -> (flags_inherited c <-> flags_inherited c').
Proof. exact flags_inherited_obs. Qed.
Print Assumptions C16b_flags_inherited_observational.

(* 6. preserved by the parser model: cfg_parse_internal on a token stream (hypotheses of C01_machine), cfg_parse_buf
      on a text without lexical error (hypotheses of C01_parse_buf), a sequence of texts (C01_parse_all) *)
Theorem C16b_preserved_by_parse_internal :
  forall (strtod_o : str -> strtod_res) (e : ctx) (DC k : nat) (ts : list ltok) (L : lexst) (w : pw) (c : cfg) (fuel : nat),
  wst w e L -> yieldsc e L ts -> Inv strtod_o (fst e) DC k c -> enough DC k L ts fuel -> flags_inherited c ->
  exists w' c' rc, parse_internal strtod_o fuel w c 0 (pst0 0 None) = (w', c', rc) /\ w_oof w' = false /\ (rc = PEOF \/ rc = PERR) /\
    (rc = PEOF -> flags_inherited c' /\ c_flags c' = c_flags c /\ Inv strtod_o (fst e) DC k c' /\ exists L', wst w' e L').
Proof. exact parse_internal_inh. Qed.
Print Assumptions C16b_preserved_by_parse_internal.

(* the two-tree form: the machine runs on cm, the property is known of any cs with the same observation *)
Theorem C16b_preserved_by_parse_internal2 :
  forall (strtod_o : str -> strtod_res) (F : N) (e : ctx) (DC k : nat) (ts : list ltok) (L : lexst) (w : pw) (cm cs : cfg) (fuel : nat),
  wst w e L -> yieldsc e L ts -> Inv strtod_o (fst e) DC k cm -> obs_c cm = obs_c cs -> enough DC k L ts fuel ->
  inherits F cs = true ->
  exists w' c' rc, parse_internal strtod_o fuel w cm 0 (pst0 0 None) = (w', c', rc) /\ w_oof w' = false /\ (rc = PEOF \/ rc = PERR) /\
    (rc = PEOF -> inherits F c' = true /\ Inv strtod_o (fst e) DC k c' /\ exists L', wst w' e L').
Proof. exact parse_internal_inh2. Qed.
Print Assumptions C16b_preserved_by_parse_internal2.

Theorem C16b_preserved_by_parse_buf :
  forall (strtod_o : str -> strtod_res) (DC k : nat) (w : pw) (c : cfg) (b : str) (ts : list ltok) (lf : nat) (p0 : pos)
         (s' : lexst) (p' : pos) (d : list diag) (fuel : nat),
  wready w -> Inv strtod_o (w_env w) DC k c -> flags_inherited c ->
  lex_all (w_env w) lf (scan_begin lex_init (cstr b)) p0 [] [] = (ts, TEof, s', p', d) ->
  length (cstr b) + measure (w_lex w) + length ts + 2 * k + 4 + DC < fuel ->
  let '(w', c', rc) := parse_buf strtod_o fuel w c (Some b) in
  w_oof w' = false /\ (rc = CFG_SUCCESS \/ rc = CFG_PARSE_ERROR) /\
  (rc = CFG_SUCCESS -> flags_inherited c' /\ c_flags c' = c_flags c /\ Inv strtod_o (w_env w) DC k c' /\ wready w').
Proof. exact parse_buf_inh. Qed.
Print Assumptions C16b_preserved_by_parse_buf.

Theorem C16b_preserved_by_parse_all :
  forall (strtod_o : str -> strtod_res) (DC k fuel : nat) (bs : list str) (tss : list (list ltok)) (w : pw) (c : cfg),
  wready w -> Inv strtod_o (w_env w) DC k c -> flags_inherited c ->
  Forall2 (text_ok (w_env w) DC k (measure (w_lex w)) fuel) bs tss ->
  let '(w', c', ok) := parse_all strtod_o fuel w c bs in
  w_oof w' = false /\ (ok = true -> flags_inherited c' /\ Inv strtod_o (w_env w) DC k c' /\ wready w').
Proof. exact parse_all_inh. Qed.
Print Assumptions C16b_preserved_by_parse_all.

(* 7. preserved by the API.
      cfg_addtsec: whatever it returns (section created, title taken, unknown name, not a section, title missing).  On a
      path name such as "kvs|pm" the new instance gets the word of the context the call was made on (c), not the word
      of the instance of kvs it lives in; the two agree up to the KEYSTRVAL bit, see the Example below. *)
Theorem C16b_preserved_by_addtsec :
  forall (strtod_o : str -> strtod_res) (e : ctx) (DC k : nat) (w : pw) (L : lexst) (c : cfg) (name : str) (title : option str)
         (fuel : nat) (w' : pw) (c' : cfg) (b : bool),
  wst w e L -> Inv strtod_o (fst e) DC k c -> measure L + DC + 2 * k + 2 <= fuel ->
  flags_inherited c -> cfg_addtsec strtod_o fuel w c name title = (w', c', b) -> flags_inherited c'.
Proof. exact cfg_addtsec_flags_inherited. Qed.
Print Assumptions C16b_preserved_by_addtsec.

Theorem C16b_preserved_by_addtsec_gen :
  forall (strtod_o : str -> strtod_res) (F : N) (e : ctx) (DC k : nat) (w : pw) (L : lexst) (c : cfg) (name : str) (title : option str)
         (fuel : nat) (w' : pw) (c' : cfg) (b : bool),
  wst w e L -> Inv strtod_o (fst e) DC k c -> measure L + DC + 2 * k + 2 <= fuel ->
  inherits F c = true -> cfg_addtsec strtod_o fuel w c name title = (w', c', b) -> inherits F c' = true.
Proof. exact cfg_addtsec_inh. Qed.
Print Assumptions C16b_preserved_by_addtsec_gen.

(* cfg_setopt(cfg, cfg_getopt(cfg, name), value): the other public entry that creates a section when the option is one *)
Theorem C16b_preserved_by_setopt_cmd :
  forall (strtod_o : str -> strtod_res) (F : N) (e : ctx) (DC k : nat) (w : pw) (L : lexst) (c : cfg) (name : str) (v : option str)
         (fuel : nat) (w' : pw) (c' : cfg) (b : option bool),
  wst w e L -> Inv strtod_o (fst e) DC k c -> measure L + DC + 2 * k + 2 <= fuel ->
  inherits F c = true -> cfg_setopt_cmd strtod_o fuel w c name v = (w', c', b) -> inherits F c' = true.
Proof. exact cfg_setopt_cmd_inh. Qed.
Print Assumptions C16b_preserved_by_setopt_cmd.

(* cfg_setopt on a section option, the step underneath (any title, any values already there) *)
Theorem C16b_setopt_section :
  forall (strtod_o : str -> strtod_res) (sc : opt -> bool) (env : envt) (D : nat),
  (forall d, sc d = true -> dtext_spec strtod_o env D d) ->
  forall F k' f e w L c o ti w' o' res,
  fst e = env -> wst w e L -> o_kind o = KSec -> forallb (tmplO sc k') (o_sub o) = true ->
  measure L + D + 2 * k' + 2 <= f -> same_fl F (c_flags c) = true -> inh_o F o = true ->
  setopt strtod_o f w c o ti = (w', o', res) -> inh_o F o' = true /\ wrel e w L w'.
Proof. exact so_sec_inh. Qed.
Print Assumptions C16b_setopt_section.

(* the generic step of every setter: replacing an option by one whose section values inherit *)
Theorem C16b_put_opt : forall F c r o, inherits F c = true -> inh_o F o = true -> inherits F (put_opt c r o) = true.
Proof. exact inh_put_opt. Qed.
Print Assumptions C16b_put_opt.

Theorem C16b_with_opt :
  forall F w c name f w' c' rc,
  (forall w0 r o w1 o1 rc1, f w0 r o = (w1, o1, rc1) -> inh_o F o = true -> inh_o F o1 = true) ->
  with_opt w c name f = (w', c', rc) -> inherits F c = true -> inherits F c' = true.
Proof. exact with_opt_inh. Qed.
Print Assumptions C16b_with_opt.

Theorem C16b_preserved_by_setnint :
  forall F w c name z index w' c' rc, cfg_setnint w c name z index = (w', c', rc) -> inherits F c = true -> inherits F c' = true.
Proof. exact cfg_setnint_inh. Qed.
Print Assumptions C16b_preserved_by_setnint.
Theorem C16b_preserved_by_setnfloat :
  forall F w c name z index w' c' rc, cfg_setnfloat w c name z index = (w', c', rc) -> inherits F c = true -> inherits F c' = true.
Proof. exact cfg_setnfloat_inh. Qed.
Print Assumptions C16b_preserved_by_setnfloat.
Theorem C16b_preserved_by_setnbool :
  forall F w c name z index w' c' rc, cfg_setnbool w c name z index = (w', c', rc) -> inherits F c = true -> inherits F c' = true.
Proof. exact cfg_setnbool_inh. Qed.
Print Assumptions C16b_preserved_by_setnbool.
Theorem C16b_preserved_by_setnstr :
  forall F w c name z index w' c' rc, cfg_setnstr w c name z index = (w', c', rc) -> inherits F c = true -> inherits F c' = true.
Proof. exact cfg_setnstr_inh. Qed.
Print Assumptions C16b_preserved_by_setnstr.
Theorem C16b_preserved_by_setlist :
  forall F w c name vs w' c' rc, cfg_setlist w c name vs = (w', c', rc) -> inherits F c = true -> inherits F c' = true.
Proof. exact cfg_setlist_inh. Qed.
Print Assumptions C16b_preserved_by_setlist.
Theorem C16b_preserved_by_addlist :
  forall F w c name vs w' c' rc, cfg_addlist w c name vs = (w', c', rc) -> inherits F c = true -> inherits F c' = true.
Proof. exact cfg_addlist_inh. Qed.
Print Assumptions C16b_preserved_by_addlist.
Theorem C16b_preserved_by_setcomment :
  forall F w c name cm w' c' rc, cfg_setcomment w c name cm = (w', c', rc) -> inherits F c = true -> inherits F c' = true.
Proof. exact cfg_setcomment_inh. Qed.
Print Assumptions C16b_preserved_by_setcomment.
Theorem C16b_preserved_by_rmnsec :
  forall F w c name index w' c' rc, cfg_rmnsec w c name index = (w', c', rc) -> inherits F c = true -> inherits F c' = true.
Proof. exact cfg_rmnsec_inh. Qed.
Print Assumptions C16b_preserved_by_rmnsec.
Theorem C16b_preserved_by_rmtsec :
  forall F w c name title w' c' rc, cfg_rmtsec w c name title = (w', c', rc) -> inherits F c = true -> inherits F c' = true.
Proof. exact cfg_rmtsec_inh. Qed.
Print Assumptions C16b_preserved_by_rmtsec.
Theorem C16b_preserved_by_rmsec :
  forall F w c name w' c' rc, cfg_rmsec w c name = (w', c', rc) -> inherits F c = true -> inherits F c' = true.
Proof. exact cfg_rmsec_inh. Qed.
Print Assumptions C16b_preserved_by_rmsec.

(* 8. why it matters: every section reachable in an inheriting tree answers the per-context flags like the root, so
      name lookup (NOCASE), comment retention (COMMENTS) and unknown-item skipping (IGNORE_UNKNOWN) behave the same at
      every depth.  m is any mask that does not contain the KEYSTRVAL bit. *)
Theorem C16b_reachable_sections_have_root_flags :
  forall c steps sec m, flags_inherited c -> get_sec c steps = Some sec -> N.land CFGF_KEYSTRVAL m = 0%N -> cflag sec m = cflag c m.
Proof. exact flags_inherited_flag. Qed.
Print Assumptions C16b_reachable_sections_have_root_flags.

Theorem C16b_inherits_flag :
  forall F c steps sec m, inherits F c = true -> get_sec c steps = Some sec -> N.land CFGF_KEYSTRVAL m = 0%N -> cflag sec m = has F m.
Proof. exact inherits_flag. Qed.
Print Assumptions C16b_inherits_flag.

Theorem C16b_nocase_everywhere :
  forall c steps sec, flags_inherited c -> get_sec c steps = Some sec -> cflag sec CFGF_NOCASE = cflag c CFGF_NOCASE.
Proof. exact flags_inherited_nocase. Qed.
Print Assumptions C16b_nocase_everywhere.
Theorem C16b_comments_everywhere :
  forall c steps sec, flags_inherited c -> get_sec c steps = Some sec -> cflag sec CFGF_COMMENTS = cflag c CFGF_COMMENTS.
Proof. exact flags_inherited_comments. Qed.
Print Assumptions C16b_comments_everywhere.
Theorem C16b_ignore_unknown_everywhere :
  forall c steps sec, flags_inherited c -> get_sec c steps = Some sec -> cflag sec CFGF_IGNORE_UNKNOWN = cflag c CFGF_IGNORE_UNKNOWN.
Proof. exact flags_inherited_ignore. Qed.
Print Assumptions C16b_ignore_unknown_everywhere.

(* the instance held at value index v of the option at reference r *)
Theorem C16b_instance_of_option_has_root_flags :
  forall c r o v sec m, flags_inherited c -> get_opt c r = Some o -> nth_sec o v = Some sec -> N.land CFGF_KEYSTRVAL m = 0%N ->
  cflag sec m = cflag c m.
Proof. exact flags_inherited_nth_sec. Qed.
Print Assumptions C16b_instance_of_option_has_root_flags.

(* C12b's `ignoring` is a consequence; the converse fails (ign_c says nothing about the other bits) *)
Theorem C16b_inherited_gives_ignoring :
  forall c, flags_inherited c -> cflag c CFGF_IGNORE_UNKNOWN = true -> ignoring c.
Proof. exact inherited_ignoring. Qed.
Print Assumptions C16b_inherited_gives_ignoring.

Example C16b_ignoring_does_not_give_inherited :
  exists c, ign_c c = true /\ cflag c CFGF_IGNORE_UNKNOWN = true /\ inherits (c_flags c) c = false.
Proof. exact ignoring_not_inherited_refuted. Qed.

(* the template hypothesis of statement 2 is needed: a declaration that already holds an instance keeps it *)
Example C16b_cfg_init_needs_templates : exists sd w decls, inherits 4 (snd (cfg_init sd 100 w decls 4)) = false.
Proof.
  exists (fun _ => {| sd_bits := 0; sd_consumed := 0; sd_erange := false |}).
  exists {| w_lex := lex_init; w_env := []; w_fs := {| fs_root := []; fs_ents := [] |};
            w_pw := {| pw_tab := []; pw_self := None |}; w_path := []; w_cbs := []; w_cnt := 0; w_failat := 0; w_nextptr := 1;
            w_diags := []; w_open := 0; w_crash := None; w_oof := false |}.
  exists [Opt [x73] KSec 0 [VSec (Some (Cfg [x73] None 0 [] None 0 false None))] [] defv0 None cbset0].
  vm_compute. reflexivity.
Qed.

(* ---------------------------------------------------------------------------------------------
   Examples: the schema of Properties_C01.Ex created with CFGF_NOCASE | CFGF_COMMENTS (4 + 2048 = 2052) *)
Module Ex16.
Import String.StringSyntax.
Local Open Scope string_scope.
Local Open Scope list_scope.
Import Properties_C01.Ex.

Definition FL : N := 2052.
Definition c1 := snd (cfg_init sd 1000 w0 decls FL).
Definition e0 : ctx := (w_env w0, tl (l_bufs lex_init)).

(* the hypotheses of statement 2 hold, and so does its conclusion *)
Example C16b_ex_created :
  wst w0 e0 lex_init /\ forallb (tmplO (dtext_okb sd (fst e0) 30) 3) decls = true /\ (measure lex_init + 30 + 2 * 3 + 1 <=? 1000) = true /\
  inherits FL c1 = true /\ c_flags c1 = FL /\ invC (dtext_okb sd (w_env w0) 30) 3 c1 = true.
Proof.
  split; [unfold wst, tbs; repeat split; try reflexivity; apply q_inv_empty|]. vm_compute. repeat split; reflexivity.
Qed.

(* after Ex.txt (plain section with a nested plain section, multi and titled instances, a free-form section) *)
Example C16b_ex_parsed :
  let '(w', c', rc) := parse_buf sd 1000 w0 c1 (Some txt) in
  rc = CFG_SUCCESS /\ inherits FL c' = true /\ c_flags c' = FL /\
  (* s { in { } } : the nested instance *)
  option_map c_flags (get_sec c' [(6, 0); (1, 0)]) = Some FL /\
  (* m { } m { } and t one { } t 'two' { } *)
  option_map c_flags (get_sec c' [(7, 1)]) = Some FL /\ option_map c_flags (get_sec c' [(8, 1)]) = Some FL /\
  (* kv { } : the root's word plus CFGF_KEYSTRVAL *)
  option_map c_flags (get_sec c' [(9, 0)]) = Some (FL + 8192)%N.
Proof. vm_compute. repeat split; reflexivity. Qed.

(* a schema with multi / titled sections that hold plain sections two levels down, a multi section inside them, and a
   multi section inside a free-form section *)
Definition deep := [mk "p" KSec 0%N [mk "q" KSec 0%N [mkd "z" KInt 0%N 2]]; mk "pm" KSec 1%N [mkd "a" KInt 0%N 1]].
Definition decls2 : list opt :=
  decls ++ [ mk "mm" KSec 1%N deep; mk "tt" KSec 9%N deep; mk "kvs" KSec 8192%N [mk "pm" KSec 1%N [mkd "a" KInt 0%N 1]] ].
Definition c2 := snd (cfg_init sd 1000 w0 decls2 FL).
(* NOCASE: the section names may be spelled in any case, at any depth *)
Definition txt3 := B "mm { p { q { z = 1 } } }  MM { pm { a = 2 } PM { } }  tt 'a' { P { Q { Z = 2 } } }  TT b { }  tt 'a' { pm { } }
  kvs { pm { a = 3 } colour = red }".
Definition c3 := snd (fst (parse_buf sd 1000 w0 c2 (Some txt3))).

Example C16b_ex_created_deep :
  forallb (tmplO (dtext_okb sd (fst e0) 30) 3) decls2 = true /\ inherits FL c2 = true /\ c_flags c2 = FL /\
  invC (dtext_okb sd (w_env w0) 30) 3 c2 = true.
Proof. vm_compute. repeat split; reflexivity. Qed.

Example C16b_ex_parsed_deep :
  snd (parse_buf sd 1000 w0 c2 (Some txt3)) = CFG_SUCCESS /\ inherits FL c3 = true /\ c_flags c3 = FL /\
  invC (dtext_okb sd (w_env w0) 30) 3 c3 = true /\
  (* mm=0|p|q and tt=a|p|q : plain sections two levels below a multi / titled instance *)
  option_map c_flags (get_sec c3 [(10, 0); (0, 0); (0, 0)]) = Some FL /\
  option_map c_flags (get_sec c3 [(11, 0); (0, 0); (0, 0)]) = Some FL /\
  (* mm=1|pm=1, tt=b : multi inside multi, second titled instance *)
  option_map c_flags (get_sec c3 [(10, 1); (1, 1)]) = Some FL /\
  option_map c_flags (get_sec c3 [(11, 1)]) = Some FL /\
  (* kvs and kvs|pm=0 : the free-form bit is set on the section and handed on to the instance created inside it *)
  option_map c_flags (get_sec c3 [(12, 0)]) = Some (FL + 8192)%N /\
  option_map c_flags (get_sec c3 [(12, 0); (0, 0)]) = Some (FL + 8192)%N.
Proof. vm_compute. repeat split; reflexivity. Qed.

(* cfg_addtsec on paths, two levels down; the instance created through "kvs|pm" gets the ROOT's word (bit clear) while
   its sibling created by the parser got the word of the kvs instance (bit set): equal only up to CFGF_KEYSTRVAL *)
Definition c4 := snd (fst (cfg_addtsec sd 1000 w0 c3 (B "mm=1|pm") None)).
Definition c5 := snd (fst (cfg_addtsec sd 1000 w0 c4 (B "tt=b|PM") (Some (B "x")))).
Definition c6 := snd (fst (cfg_addtsec sd 1000 w0 c5 (B "kvs|pm") None)).
Example C16b_ex_keystrval_bit_differs :
  snd (cfg_addtsec sd 1000 w0 c3 (B "mm=1|pm") None) = true /\
  snd (cfg_addtsec sd 1000 w0 c4 (B "tt=b|PM") (Some (B "x"))) = true /\
  snd (cfg_addtsec sd 1000 w0 c5 (B "kvs|pm") None) = true /\
  inherits FL c6 = true /\ c_flags c6 = FL /\
  option_map c_flags (get_sec c6 [(10, 1); (1, 2)]) = Some FL /\
  option_map c_flags (get_sec c6 [(11, 1); (1, 0)]) = Some FL /\
  option_map c_flags (get_sec c6 [(12, 0); (0, 0)]) = Some (FL + 8192)%N /\      (* created by the parser inside kvs *)
  option_map c_flags (get_sec c6 [(12, 0); (0, 1)]) = Some FL.                    (* created by cfg_addtsec(root, "kvs|pm") *)
Proof. vm_compute. repeat split; reflexivity. Qed.

(* the hypotheses of statement 7 hold for these calls *)
Example C16b_ex_addtsec_hypotheses :
  wst w0 e0 lex_init /\ Inv sd (fst e0) 30 3 c3 /\ (measure lex_init + 30 + 2 * 3 + 2 <=? 1000) = true /\ flags_inherited c3.
Proof.
  split; [unfold wst, tbs; repeat split; try reflexivity; apply q_inv_empty|]. split; [vm_compute; reflexivity|].
  split; [vm_compute; reflexivity|]. vm_compute. reflexivity.
Qed.

(* the setters and removers on the result *)
Example C16b_ex_setters :
  let '(_, ca, ra) := cfg_setnint w0 c6 (B "mm=0|p|q|z") 42 0 in
  let '(_, cb, rb) := cfg_rmnsec w0 ca (B "mm=1|pm") 1 in
  let '(_, cc, rc) := cfg_rmsec w0 cb (B "tt=a") in
  ra = CFG_SUCCESS /\ rb = CFG_SUCCESS /\ rc = CFG_SUCCESS /\ inherits FL cc = true /\
  option_map (fun o => length (o_vals o)) (get_opt cc ([(10, 1)], 1)) = Some 2.
Proof. vm_compute. repeat split; reflexivity. Qed.

(* cfg_setopt on section options, at the root and through a path *)
Example C16b_ex_setopt_cmd :
  let '(_, ca, ra) := cfg_setopt_cmd sd 1000 w0 c6 (B "TT") (Some (B "viaSetopt")) in
  let '(_, cb, rb) := cfg_setopt_cmd sd 1000 w0 ca (B "kvs|pm") None in
  ra = Some true /\ rb = Some true /\ inherits FL cb = true /\
  option_map c_flags (get_sec cb [(11, 2)]) = Some FL /\ option_map c_flags (get_sec cb [(12, 0); (0, 2)]) = Some FL.
Proof. vm_compute. repeat split; reflexivity. Qed.

(* lookups: with NOCASE on the root, every reachable section has it (statement 8), here two levels down *)
Example C16b_ex_nocase_two_levels_down :
  option_map (fun s => cflag s CFGF_NOCASE && cflag s CFGF_COMMENTS && negb (cflag s CFGF_IGNORE_UNKNOWN))
             (get_sec c6 [(10, 0); (0, 0); (0, 0)]) = Some true.
Proof. vm_compute. reflexivity. Qed.
End Ex16.
