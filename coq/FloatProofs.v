(* FloatProofs.v — C04, floating point: cfg_setopt(CFGT_FLOAT) relative to the strtod oracle.
   The C text is
       errno = 0; f = strtod(value, &endptr);
       if (endptr == value || *endptr != '\0')  -> "invalid floating point value"
       if (errno == ERANGE)                      -> "out of range"
       val->fpnumber = f;
   so the end-pointer check comes FIRST: a token that strtod reads only in part is a syntax error even when the part
   it read overflowed.  The oracle record is (bits of the double, bytes consumed, ERANGE raised). *)
From Coq Require Import List Arith NArith ZArith Bool Lia.
From Coq.Strings Require Import Byte.
From LC Require Import Bytes Conv.
Import ListNotations.

(* strtod read at least one byte and did not stop before the end of the token *)
Definition sd_full (r : strtod_res) (txt : str) : Prop :=
  sd_consumed r <> 0%nat /\ (length txt <= sd_consumed r)%nat.

(* what any real strtod satisfies: the end pointer stays inside the string *)
Definition oracle_sane (strtod : str -> strtod_res) : Prop :=
  forall txt, (sd_consumed (strtod txt) <= length txt)%nat.

Lemma sd_full_dec r txt :
  (Nat.eqb (sd_consumed r) 0 || Nat.ltb (sd_consumed r) (length txt)) = false <-> sd_full r txt.
Proof.
  unfold sd_full. rewrite orb_false_iff, Nat.eqb_neq, Nat.ltb_ge. tauto.
Qed.

Lemma sd_full_sane strtod txt : oracle_sane strtod ->
  sd_full (strtod txt) txt <-> (txt <> [] /\ sd_consumed (strtod txt) = length txt).
Proof.
  intros Hs. specialize (Hs txt). unfold sd_full. split.
  - intros [H0 H1]. split; [|lia]. intros ->. cbn [length] in *. lia.
  - intros [Hn He]. rewrite He. split; [|lia]. destruct txt; [contradiction|cbn; lia].
Qed.

Theorem conv_float_ok strtod txt bits :
  conv_float strtod txt = COk bits <->
  sd_full (strtod txt) txt /\ sd_erange (strtod txt) = false /\ sd_bits (strtod txt) = bits.
Proof.
  unfold conv_float. rewrite <- sd_full_dec.
  destruct (Nat.eqb (sd_consumed (strtod txt)) 0 || Nat.ltb (sd_consumed (strtod txt)) (length txt)).
  - split; [discriminate|]. intros (H & _); discriminate.
  - destruct (sd_erange (strtod txt)).
    + split; [discriminate|]. intros (_ & H & _); discriminate.
    + split.
      * intros H; injection H as <-. auto.
      * intros (_ & _ & ->). reflexivity.
Qed.

Theorem conv_float_range strtod txt :
  conv_float strtod txt = CRange <-> sd_full (strtod txt) txt /\ sd_erange (strtod txt) = true.
Proof.
  unfold conv_float. rewrite <- sd_full_dec.
  destruct (Nat.eqb (sd_consumed (strtod txt)) 0 || Nat.ltb (sd_consumed (strtod txt)) (length txt)).
  - split; [discriminate|]. intros (H & _); discriminate.
  - destruct (sd_erange (strtod txt)); split; auto; try discriminate. intros (_ & H); discriminate.
Qed.

Theorem conv_float_invalid strtod txt :
  conv_float strtod txt = CInvalid <->
  (sd_consumed (strtod txt) = 0%nat \/ (sd_consumed (strtod txt) < length txt)%nat).
Proof.
  unfold conv_float.
  destruct (Nat.eqb (sd_consumed (strtod txt)) 0 || Nat.ltb (sd_consumed (strtod txt)) (length txt)) eqn:E.
  - split; [|reflexivity]. intros _. apply orb_true_iff in E as [E|E];
      [left; apply Nat.eqb_eq, E|right; apply Nat.ltb_lt, E].
  - apply sd_full_dec in E. destruct E as [E0 E1].
    destruct (sd_erange (strtod txt)); (split; [discriminate|]); intros [H|H]; lia.
Qed.

(* the three results are exhaustive and exclusive, decided in this order *)
Theorem conv_float_exact strtod txt :
  conv_float strtod txt =
  (if Nat.eqb (sd_consumed (strtod txt)) 0 then CInvalid
   else if Nat.ltb (sd_consumed (strtod txt)) (length txt) then CInvalid
   else if sd_erange (strtod txt) then CRange
   else COk (sd_bits (strtod txt))).
Proof.
  unfold conv_float. destruct (Nat.eqb (sd_consumed (strtod txt)) 0); [reflexivity|].
  cbn [orb]. reflexivity.
Qed.

Theorem conv_float_no_silent strtod txt :
  (conv_float strtod txt = COk (sd_bits (strtod txt)) /\ sd_full (strtod txt) txt /\ sd_erange (strtod txt) = false)
  \/ (conv_float strtod txt = CRange /\ sd_full (strtod txt) txt /\ sd_erange (strtod txt) = true)
  \/ (conv_float strtod txt = CInvalid /\ ~ sd_full (strtod txt) txt).
Proof.
  destruct (conv_float strtod txt) as [b| |] eqn:E.
  - left. apply conv_float_ok in E as (A & B & C). subst b. auto.
  - right; right. split; [reflexivity|]. apply conv_float_invalid in E. unfold sd_full. lia.
  - right; left. apply conv_float_range in E as (A & B). auto.
Qed.

(* an accepted value is never anything but the oracle's value for the WHOLE token *)
Corollary conv_float_value strtod txt bits :
  conv_float strtod txt = COk bits -> bits = sd_bits (strtod txt).
Proof. intros H. apply conv_float_ok in H as (_ & _ & H). auto. Qed.

(* the order of the two checks is observable: partial consumption wins over ERANGE *)
Corollary conv_float_partial_overflow_is_invalid strtod txt :
  (sd_consumed (strtod txt) < length txt)%nat -> sd_erange (strtod txt) = true -> conv_float strtod txt = CInvalid.
Proof. intros H _. apply conv_float_invalid. auto. Qed.

(* ---- a toy oracle: unsigned decimal integers, "overflow" above 999; bits = the value ---- *)
Fixpoint toy_digits (s : str) (acc : N) (n : nat) : N * nat :=
  match s with
  | c :: r => match digit_val c with
              | Some d => if (d <? 10)%N then toy_digits r (acc * 10 + d)%N (S n) else (acc, n)
              | None => (acc, n)
              end
  | [] => (acc, n)
  end.
Definition toy_strtod (s : str) : strtod_res :=
  let '(v, n) := toy_digits s 0%N 0%nat in
  {| sd_bits := if (999 <? v)%N then 1000%N else v; sd_consumed := n; sd_erange := (999 <? v)%N |}.

Lemma toy_digits_len s : forall acc n, (snd (toy_digits s acc n) <= n + length s)%nat.
Proof.
  induction s as [|c s IH]; intros acc n; cbn [toy_digits length snd]; [lia|].
  destruct (digit_val c) as [d|]; [|cbn [snd]; lia].
  destruct (d <? 10)%N; [|cbn [snd]; lia]. specialize (IH (acc * 10 + d)%N (S n)). lia.
Qed.

Lemma toy_sane : oracle_sane toy_strtod.
Proof.
  intros txt. unfold toy_strtod. pose proof (toy_digits_len txt 0%N 0%nat) as H.
  destruct (toy_digits txt 0%N 0%nat) as [v n]. cbn [snd sd_consumed] in *. lia.
Qed.
