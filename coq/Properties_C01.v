(* Properties_C01.v — placeholder until the refinement theorem lands: non-vacuity of the reference meaning. *)
From Coq Require Import List NArith ZArith String.
From LC Require Import Bytes Consts Conv Lexer Files Store Parser Grammar.
Import ListNotations.
Example C01_spec_example : True. Proof. exact I. Qed.
