(* Properties_C01.v — C01: the parser accepts exactly the texts the reference meaning defines, and then the
   resulting tree observes as the meaning says.  Only statements here; proofs are in ParserProofs.v (and PP_*.v).

   MODEL  Parser.parse_internal / setopt / init_defaults (cfg_parse_internal, cfg_setopt, cfg_init_defaults),
          Parser.parse_buf; tokens come from the scanner model Lexer.yylex through Parser.next_token, default texts
          of list options are scanned in a pushed buffer.
   SPEC   Grammar.meaning / text_meaning (schema-directed recursive descent with whole-value operations),
          Grammar.instance (fresh section instance with declared defaults), Grammar.obs_c (forgets RESET / MODIFIED /
          DEFINIT / COMMENTS bits, annotations, positions).

   Vocabulary (PP_Tok.v / PP_Inv.v / PP_SpecLemmas.v / ParserProofs.v):
     yields env s ts the scanner in state s (environment env, no include frame) delivers the tokens ts, then EOF,
                     whatever position is passed in and for any fuel above LexAll.measure s;
                     yieldsc e s ts = yields (fst e) s ts.  Statements 5 and 6: the token list Lexer.lex_all computes
                     for a text (ending in TEof = no lexical error) is one, and it is the same on top of any scanner.
     wst w e s       world w has environment fst e, scanner state s at a token boundary (start condition INITIAL,
                     no read error pending, no include frame, consistent scratch buffer), buffers below the current
                     one = snd e, and w_oof = false.
     Inv env DC k c  = PP_Inv.invC (dtext_okb env DC) k c = true, a decidable tree invariant to depth k:
                     every option, live or template, recursively: kind int/float/bool/string/section, no parse /
                     validate callback; a section option has neither CFGF_LIST nor the internal RESET bit; section
                     options hold sections only (titled when MULTI|TITLE), scalar options hold no section values;
                     templates hold no values; non-list options have no default text; the default text of a list option
                     is absent, empty, or passes dtext_okb env DC: it scans without error, gives the same tokens
                     under env as under the empty environment (which the SPEC uses), is exactly  v  or  { v, ... }
                     with convertible values, and its length + token count + 4 is at most DC.
     enough DC k s ts fuel   measure s + |ts| + 2k + 3 + DC < fuel.
     wready w        between parses: w_oof = false, no include frame, consistent scratch buffer.

   Schemas outside Inv on which MODEL and SPEC differ (found while proving, checked by vm_compute):
     a section option declared with CFGF_LIST (every `s { }` appends an instance instead of merging into the first);
     an option of kind CFGT_NONE with CFGF_LIST (`n = {}` is accepted);
     a list default text that is not exactly a value or a braced list (the model aborts cfg_init_defaults or goes on
     parsing items from the default text; the SPEC takes what it can read).
   HISTORY  An earlier model (and the C it transcribed) accepted an empty key in a CFGF_KEYSTRVAL section
     (`kv { "" = x }`: cfg_addopt created an option named "") while the SPEC rejects it; the statements then carried a
     side condition on the token list.  The C code and Parser.v now reject the empty key, the side condition is gone,
     and the former counterexample is an Example below (both sides reject). *)
From Coq Require String.
From Coq Require Import List Arith NArith ZArith Bool.
From Coq.Strings Require Import Byte.
From LC Require Import Bytes Consts Conv Lexer LexLemmas LexAll Files Store Parser Grammar
  PP_Tok PP_Inv PP_SpecLemmas PP_LexYields PP_LexFrame ParserProofs.
Import ListNotations.

(* 1. acceptance: with enough fuel the model never runs out of it, and it accepts iff the meaning is defined *)
Theorem C01_accept_iff :
  forall (strtod_o : str -> strtod_res) (e : ctx) (DC k : nat) (ts : list ltok) (L : lexst) (w : pw) (c : cfg) (fuel F : nat),
  wst w e L -> yieldsc e L ts -> Inv strtod_o (fst e) DC k c -> enough DC k L ts fuel ->
  length (gtoks ts) < F ->
  let '(w', c', rc) := parse_internal strtod_o fuel w c 0 (pst0 0 None) in
  w_oof w' = false /\ (rc = PEOF <-> meaning strtod_o F c true (gtoks ts) <> None) /\ (rc = PEOF \/ rc = PERR).
Proof. exact c01_accept_iff. Qed.
Print Assumptions C01_accept_iff.

(* 2. values: an accepted text leaves the tree the meaning denotes, up to obs_c; the invariant is kept *)
Theorem C01_values :
  forall (strtod_o : str -> strtod_res) (e : ctx) (DC k : nat) (ts : list ltok) (L : lexst) (w : pw) (c : cfg) (fuel F : nat),
  wst w e L -> yieldsc e L ts -> Inv strtod_o (fst e) DC k c -> enough DC k L ts fuel ->
  length (gtoks ts) < F ->
  let '(w', c', rc) := parse_internal strtod_o fuel w c 0 (pst0 0 None) in
  rc = PEOF -> exists c'' rest, meaning strtod_o F c true (gtoks ts) = Some (c'', rest) /\ obs_c c' = obs_c c'' /\
                                Inv strtod_o (fst e) DC k c'.
Proof. exact c01_values. Qed.
Print Assumptions C01_values.

(* 3. both at once, the machine on a tree cm and the SPEC on any tree cs with the same observation *)
Theorem C01_machine :
  forall (strtod_o : str -> strtod_res) (e : ctx) (DC k : nat) (ts : list ltok) (L : lexst) (w : pw) (cm cs : cfg) (fuel F : nat),
  wst w e L -> yieldsc e L ts -> Inv strtod_o (fst e) DC k cm -> obs_c cm = obs_c cs ->
  enough DC k L ts fuel -> length (gtoks ts) < F ->
  exists w' c' rc, parse_internal strtod_o fuel w cm 0 (pst0 0 None) = (w', c', rc) /\ w_oof w' = false /\
    match meaning strtod_o F cs true (gtoks ts) with
    | Some (c'', _) => rc = PEOF /\ obs_c c' = obs_c c'' /\ Inv strtod_o (fst e) DC k c' /\ exists L', wst w' e L'
    | None => rc = PERR
    end.
Proof. exact c01_machine2. Qed.
Print Assumptions C01_machine.

(* 4. byte level: cfg_parse_buf on a text whose tokens (Lexer.lex_all on a scanner that reads just this text) end with
      TEof, i.e. a text without lexical error *)
Theorem C01_parse_buf :
  forall (strtod_o : str -> strtod_res) (DC k : nat) (w : pw) (c : cfg) (b : str) (ts : list ltok) (lf : nat) (p0 : pos)
         (s' : lexst) (p' : pos) (d : list diag) (fuel : nat),
  wready w -> Inv strtod_o (w_env w) DC k c ->
  lex_all (w_env w) lf (scan_begin lex_init (cstr b)) p0 [] [] = (ts, TEof, s', p', d) ->
  length (cstr b) + measure (w_lex w) + length ts + 2 * k + 4 + DC < fuel ->
  let '(w', c', rc) := parse_buf strtod_o fuel w c (Some b) in
  w_oof w' = false /\
  match text_meaning strtod_o c ts with
  | Some oc => rc = CFG_SUCCESS /\ obs_c c' = oc /\ Inv strtod_o (w_env w) DC k c' /\ wready w' /\ w_env w' = w_env w /\
               l_bufs (w_lex w') = l_bufs (w_lex w)
  | None => rc = CFG_PARSE_ERROR
  end.
Proof. exact c01_parse_buf. Qed.
Print Assumptions C01_parse_buf.

(* 5. a sequence of texts parsed into one context, stopping at the first rejected one (parse_all / meaning_all are
      the evident folds, defined in ParserProofs.v) *)
Theorem C01_parse_all :
  forall (strtod_o : str -> strtod_res) (DC k fuel : nat) (bs : list str) (tss : list (list ltok)) (w : pw) (cm cs : cfg),
  wready w -> Inv strtod_o (w_env w) DC k cm -> obs_c cm = obs_c cs ->
  Forall2 (text_ok (w_env w) DC k (measure (w_lex w)) fuel) bs tss ->
  let '(w', c', ok) := parse_all strtod_o fuel w cm bs in
  w_oof w' = false /\
  match meaning_all strtod_o cs tss with
  | Some oc => ok = true /\ obs_c c' = obs_c oc /\ Inv strtod_o (w_env w) DC k c' /\ wready w'
  | None => ok = false
  end.
Proof. exact c01_parse_all. Qed.
Print Assumptions C01_parse_all.

(* 6. the token source assumption is what the scanner model computes, on top of any scanner state between tokens *)
Theorem C01_tokens_from_scanner :
  forall (e : envt) (fuel : nat) (s : lexst) (p : pos) (ts : list ltok) (s' : lexst) (p' : pos) (d : list diag),
  l_inc s = [] -> lex_all e fuel s p [] [] = (ts, TEof, s', p', d) -> yields e s ts.
Proof. exact lex_all_yields. Qed.
Print Assumptions C01_tokens_from_scanner.

Theorem C01_tokens_frame :
  forall (e : envt) (s : lexst) (inp : str) (fuel : nat) (p : pos) (ts : list ltok) (s' : lexst) (p' : pos) (d : list diag),
  l_inc s = [] -> q_inv (l_q s) ->
  lex_all e fuel (scan_begin lex_init inp) p [] [] = (ts, TEof, s', p', d) -> yields e (scan_begin s inp) ts.
Proof. exact yields_of_fresh. Qed.
Print Assumptions C01_tokens_frame.

(* ---------------------------------------------------------------------------------------------
   Example: the hypotheses hold on a concrete schema and texts, and both sides compute to the same tree *)
Module Ex.
Import String.StringSyntax.
Local Open Scope string_scope.
Local Open Scope list_scope.
Definition B := bs_of_string.
Definition mk n k fl sub := Opt (B n) k fl [] sub defv0 None cbset0.
Definition mkd n k fl (num : Z) := Opt (B n) k fl [] [] {| d_num := num; d_fp := 0; d_bool := true; d_str := Some (B "dflt"); d_parsed := None |} None cbset0.
Definition mkl n k fl (txt : String.string) := Opt (B n) k fl [] [] {| d_num := 0; d_fp := 0; d_bool := false; d_str := None; d_parsed := Some (B txt) |} None cbset0.
(* flags: 1 MULTI, 2 LIST, 8 TITLE, 32 NO_TITLE_DUPES, 256 IGNORE_UNKNOWN (context), 512 DEPRECATED, 1024 DROP, 8192 KEYSTRVAL *)
Definition decls : list opt :=
  [ mkd "x" KInt 0%N 7; mkd "b" KBool 0%N 0; mkd "name" KStr 0%N 0; mkl "l" KInt 2%N "{1, 2 , 3}"; mk "e" KStr 2%N [];
    mk "old" KStr 1536%N [];
    mk "s" KSec 0%N [mkd "a" KInt 0%N 1; mk "in" KSec 0%N [mkd "z" KInt 0%N 2; mkl "w" KStr 2%N "{u, ""v w""} # two"]];
    mk "m" KSec 1%N [mkd "a" KInt 0%N 1; mkl "one" KBool 2%N "yes"];
    mk "t" KSec 9%N [mkd "a" KInt 0%N 1; mk "ll" KStr 2%N []];
    mk "kv" KSec 8192%N [] ].
Definition sd (s : str) : strtod_res := {| sd_bits := 0; sd_consumed := 0; sd_erange := false |}.
Definition w0 : pw := {| w_lex := lex_init; w_env := []; w_fs := {| fs_root := B "/R"; fs_ents := [] |};
  w_pw := {| pw_tab := []; pw_self := None |}; w_path := []; w_cbs := []; w_cnt := 0; w_failat := 0; w_nextptr := 1;
  w_diags := []; w_open := 0; w_crash := None; w_oof := false |}.
Definition c0 := snd (cfg_init sd 1000 w0 decls 0).
Definition toks_of (t : str) := let '(ts, _, _, _, _) := lex_all [] (S (length t)) (scan_begin lex_init (cstr t)) {| p_file := None; p_line := 1 |} [] [] in ts.
Definition txt := B "x = 5  l += 4  e = {a, b,}  e += c # note
  s { a = 10 in { z = 3 w += x } }  m { a = 2 } m { one = {no} } t one { a = 4 ll = {p, q} } t 'two' { } t one { ll += r }
  old = gone  kv { colour = red  size = ""9"" }  name = ""hello world""  b = off  s|a = 11".
Definition txt2 := B "l = {} m { } s { in { w = last } } t 'two' { a = 1 }".
Definition toks := toks_of txt.
Definition toks2 := toks_of txt2.

(* the hypotheses of C01_parse_buf: the tree cfg_init builds (with scanned list defaults) meets the invariant *)
Example C01_hypotheses_hold :
  wready w0 /\ Inv sd (w_env w0) 30 3 c0 /\
  (exists s' p' d, lex_all (w_env w0) (S (length txt)) (scan_begin lex_init (cstr txt)) {| p_file := None; p_line := 1 |} [] [] = (toks, TEof, s', p', d)) /\
  (length (cstr txt) + measure (w_lex w0) + length toks + 2 * 3 + 4 + 30 <? 1000) = true.
Proof.
  split; [split; [reflexivity|split; [reflexivity|apply q_inv_empty]]|]. split; [vm_compute; reflexivity|].
  split; [vm_compute; do 3 eexists; reflexivity|]. vm_compute; reflexivity.
Qed.

(* the defaults cfg_init scanned are the ones the SPEC's instance declares *)
Example C01_scanned_defaults :
  map (fun o => (o_name o, o_vals o)) (firstn 5 (c_opts c0)) =
  [(B "x", [VInt 7]); (B "b", [VBool true]); (B "name", [VStr (Some (B "dflt"))]); (B "l", [VInt 1; VInt 2; VInt 3]); (B "e", [])].
Proof. vm_compute. reflexivity. Qed.

(* what the theorem then says, checked by computation on both sides *)
Example C01_both_sides :
  let '(w', c', rc) := parse_buf sd 1000 w0 c0 (Some txt) in
  rc = CFG_SUCCESS /\ w_oof w' = false /\ Some (obs_c c') = text_meaning sd c0 toks /\ length toks = 93.
Proof. vm_compute. repeat split; reflexivity. Qed.

(* two texts into one context *)
Example C01_two_texts :
  let '(w', c', ok) := parse_all sd 1000 w0 c0 [txt; txt2] in
  ok = true /\ w_oof w' = false /\ option_map obs_c (meaning_all sd c0 [toks; toks2]) = Some (obs_c c').
Proof. vm_compute. repeat split; reflexivity. Qed.

(* a rejected text: both sides reject *)
Definition bad := B "x = 5 m { a = } ".
Example C01_both_reject :
  snd (parse_buf sd 1000 w0 c0 (Some bad)) = CFG_PARSE_ERROR /\ text_meaning sd c0 (toks_of bad) = None.
Proof. vm_compute. split; reflexivity. Qed.

(* FORMER COUNTEREXAMPLE: an empty key in a CFGF_KEYSTRVAL section used to be accepted by the model; now both reject,
   while an ordinary free-form key next to it is still accepted on both sides *)
Definition ek := B "kv { """" = x }".
Definition ek2 := B "kv { y = x }".
Example C01_empty_key_rejected :
  snd (parse_buf sd 1000 w0 c0 (Some ek)) = CFG_PARSE_ERROR /\ text_meaning sd c0 (toks_of ek) = None /\
  snd (parse_buf sd 1000 w0 c0 (Some ek2)) = CFG_SUCCESS /\
  Some (obs_c (snd (fst (parse_buf sd 1000 w0 c0 (Some ek2))))) = text_meaning sd c0 (toks_of ek2).
Proof. vm_compute. repeat split; reflexivity. Qed.
End Ex.
