(* Properties_C02.v — C02: no input text can corrupt memory, hang or kill the host process.
   Scanner-level theorems, for EVERY byte string, start condition, buffer stack and environment,
   over the rule table regenerated from lexer.l.  (Parser-level facts: see the comments at the end.) *)
From Coq Require Import List Arith NArith Bool.
From Coq.Strings Require Import Byte.
From LC Require Import Bytes Flex LexAct LexRules Consts Lexer LexLemmas LexAll.
Import ListNotations.

(* In every start condition every byte value starts a match of some rule, so flex's default
   rule (ECHO the byte to stdout) is never the only candidate. *)
Theorem C02_total_coverage :
  forall (c0 : sc) (c : byte), exists i, first_nullable (map (deriv c) (active_res c0)) 0 = Some i.
Proof. exact coverage. Qed.
Print Assumptions C02_total_coverage.

(* Nothing is ever written to standard output: the echo channel is unchanged by any call of cfg_yylex. *)
Theorem C02_no_echo :
  forall e fuel s p closed, l_echo (r_st (yylex e fuel s p closed)) = l_echo s.
Proof. exact yylex_no_echo. Qed.
Print Assumptions C02_no_echo.

(* A call of cfg_yylex terminates: one iteration per input byte or popped buffer suffices. *)
Theorem C02_scanner_terminates :
  forall e s p closed, r_fuel_out (yylex e (lex_fuel s) s p closed) = false.
Proof. exact yylex_lex_fuel_suffices. Qed.
Print Assumptions C02_scanner_terminates.

Theorem C02_scanner_terminates_any_fuel :
  forall e fuel s p closed, (measure s < fuel)%nat -> r_fuel_out (yylex e fuel s p closed) = false.
Proof. exact yylex_terminates. Qed.
Print Assumptions C02_scanner_terminates_any_fuel.

(* The scratch-buffer index never exceeds the allocated length (and a NULL buffer has length 0),
   before and after every call: every access cfg_qstring[i], i <= qstring_index, is inside the
   qstring_len + 1 bytes that were allocated. *)
Theorem C02_scratch_in_bounds :
  forall e fuel s p closed, q_inv (l_q s) -> q_inv (l_q (r_st (yylex e fuel s p closed))).
Proof. exact yylex_qinv. Qed.
Print Assumptions C02_scratch_in_bounds.

Example C02_scratch_initial : q_inv (l_q lex_init).
Proof. exact q_inv_empty. Qed.

(* non-vacuity: a hostile input in each start condition is scanned without echo *)
Example C02_hostile_example :
  let inp := [x22; x5c] (* a string opened and a lone backslash at end of input *) in
  let r := yylex [] 10 (scan_begin lex_init inp) {| p_file := None; p_line := 1 |} 0 in
  r_tok r = TErr /\ l_echo (r_st r) = [] /\ r_fuel_out r = false.
Proof. vm_compute. repeat split. Qed.
