(* placeholder until the token-level transparency corollary of C01 lands *)
Example C15_placeholder : True. Proof. exact I. Qed.
