(* Properties_C15.v — C15: comments are transparent.
   Stated on the reference meaning (coq/Grammar.v): a comment token contributes nothing, wherever it is
   inserted.  The parser model is tied to that meaning by the C01 refinement and, for this property, by the
   metamorphic run on the library (every token boundary x every comment form x annotations on/off) and the
   annotation scenarios (attach, trim, print, re-read). *)
From Coq Require Import List Arith NArith ZArith Bool.
From Coq.Strings Require Import Byte.
From LC Require Import Bytes Consts Conv Flex LexAct Lexer Files Store Grammar.
Import ListNotations.

Definition is_comment (t : ltok) : bool := match lt_tok t with TComment => true | _ => false end.

Lemma gtoks_app a b : gtoks (a ++ b) = gtoks a ++ gtoks b.
Proof. unfold gtoks. apply flat_map_app. Qed.

Lemma gtoks_comment t : is_comment t = true -> gtoks [t] = [].
Proof. unfold gtoks, gtok_of, is_comment. cbn. destruct (lt_tok t); try discriminate; reflexivity. Qed.

(* removing all comment tokens does not change the grammar tokens *)
Lemma gtoks_filter ts : gtoks (filter (fun t => negb (is_comment t)) ts) = gtoks ts.
Proof.
  induction ts as [|t ts IH]; [reflexivity|]. cbn [filter].
  change (t :: ts) with ([t] ++ ts). rewrite (gtoks_app [t] ts).
  destruct (is_comment t) eqn:E; cbn [negb].
  - rewrite (gtoks_comment t E). exact IH.
  - change (t :: filter (fun t0 => negb (is_comment t0)) ts) with ([t] ++ filter (fun t0 => negb (is_comment t0)) ts).
    rewrite gtoks_app, IH. reflexivity.
Qed.

(* A comment of any style lexes to one TComment token (C03/C06 scanner theorems and the differential run);
   inserting such tokens anywhere, any number of them, leaves the meaning of the text unchanged —
   acceptance and every resulting value. *)
Theorem C15_comments_contribute_nothing :
  forall strtod_o c ts1 cm ts2, is_comment cm = true ->
  text_meaning strtod_o c (ts1 ++ cm :: ts2) = text_meaning strtod_o c (ts1 ++ ts2).
Proof.
  intros sd c ts1 cm ts2 H. unfold text_meaning.
  change (cm :: ts2) with ([cm] ++ ts2). rewrite !gtoks_app, (gtoks_comment cm H). reflexivity.
Qed.
Print Assumptions C15_comments_contribute_nothing.

Theorem C15_meaning_of_comment_free_text :
  forall strtod_o c ts, text_meaning strtod_o c ts = text_meaning strtod_o c (filter (fun t => negb (is_comment t)) ts).
Proof. intros sd c ts. unfold text_meaning. rewrite gtoks_filter. reflexivity. Qed.
Print Assumptions C15_meaning_of_comment_free_text.

Example C15_example :
  let cm := {| lt_tok := TComment; lt_val := Some [x63]; lt_line := 1 |} in
  let a := {| lt_tok := TStr; lt_val := Some [x69]; lt_line := 1 |} in
  let e := {| lt_tok := TPunct 61; lt_val := Some [x3d]; lt_line := 1 |} in
  gtoks [a; cm; e; cm; cm; a] = gtoks [a; e; a] /\ is_comment cm = true.
Proof. vm_compute. split; reflexivity. Qed.
