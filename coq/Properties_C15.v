(* Properties_C15.v — C15: comments are transparent.
   Stated on the reference meaning (coq/Grammar.v): a comment token contributes nothing, wherever it is
   inserted.  The parser model is tied to that meaning by the C01 refinement and, for this property, by the
   metamorphic run on the library (every token boundary x every comment form x annotations on/off) and the
   annotation scenarios (attach, trim, print, re-read). *)
From Coq Require Import List Arith NArith ZArith Bool.
From Coq.Strings Require Import Byte.
From LC Require Import Bytes Consts Conv Flex LexAct Lexer Files Store Grammar.
Import ListNotations.

Definition is_comment (t : ltok) : bool := match lt_tok t with TComment => true | _ => false end.

Lemma gtoks_app a b : gtoks (a ++ b) = gtoks a ++ gtoks b.
Proof. unfold gtoks. apply flat_map_app. Qed.

Lemma gtoks_comment t : is_comment t = true -> gtoks [t] = [].
Proof. unfold gtoks, gtok_of, is_comment. cbn. destruct (lt_tok t); try discriminate; reflexivity. Qed.

(* removing all comment tokens does not change the grammar tokens *)
Lemma gtoks_filter ts : gtoks (filter (fun t => negb (is_comment t)) ts) = gtoks ts.
Proof.
  induction ts as [|t ts IH]; [reflexivity|]. cbn [filter].
  change (t :: ts) with ([t] ++ ts). rewrite (gtoks_app [t] ts).
  destruct (is_comment t) eqn:E; cbn [negb].
  - rewrite (gtoks_comment t E). exact IH.
  - change (t :: filter (fun t0 => negb (is_comment t0)) ts) with ([t] ++ filter (fun t0 => negb (is_comment t0)) ts).
    rewrite gtoks_app, IH. reflexivity.
Qed.

(* A comment of any style lexes to one TComment token (C03/C06 scanner theorems and the differential run);
   inserting such tokens anywhere, any number of them, leaves the meaning of the text unchanged —
   acceptance and every resulting value. *)
Theorem C15_comments_contribute_nothing :
  forall strtod_o c ts1 cm ts2, is_comment cm = true ->
  text_meaning strtod_o c (ts1 ++ cm :: ts2) = text_meaning strtod_o c (ts1 ++ ts2).
Proof.
  intros sd c ts1 cm ts2 H. unfold text_meaning.
  change (cm :: ts2) with ([cm] ++ ts2). rewrite !gtoks_app, (gtoks_comment cm H). reflexivity.
Qed.
Print Assumptions C15_comments_contribute_nothing.

Theorem C15_meaning_of_comment_free_text :
  forall strtod_o c ts, text_meaning strtod_o c ts = text_meaning strtod_o c (filter (fun t => negb (is_comment t)) ts).
Proof. intros sd c ts. unfold text_meaning. rewrite gtoks_filter. reflexivity. Qed.
Print Assumptions C15_meaning_of_comment_free_text.

Example C15_example :
  let cm := {| lt_tok := TComment; lt_val := Some [x63]; lt_line := 1 |} in
  let a := {| lt_tok := TStr; lt_val := Some [x69]; lt_line := 1 |} in
  let e := {| lt_tok := TPunct 61; lt_val := Some [x3d]; lt_line := 1 |} in
  gtoks [a; cm; e; cm; cm; a] = gtoks [a; e; a] /\ is_comment cm = true.
Proof. vm_compute. split; reflexivity. Qed.

(* The same law on the PARSER: two texts without lexical error whose token lists differ only in comment tokens
   (any number, any style, at any token boundary) are accepted or rejected alike by cfg_parse_buf, and when accepted
   leave observably equal trees.  Composition of the C01 refinement (ParserProofs.v) with the statement above;
   obs_c forgets annotations, so this holds with annotation support on or off. *)
From LC Require Import Parser LexLemmas LexAll PP_Tok PP_Inv PP_SpecLemmas ParserProofs.

Theorem C15_parser_transparent :
  forall (strtod_o : str -> strtod_res) (DC k : nat) (w : pw) (c : cfg) (b1 b2 : str) (ts1 ts2 : list ltok)
         (lf1 lf2 : nat) (p1 p2 : pos) (s1 s2 : lexst) (q1 q2 : pos) (d1 d2 : list diag) (fuel : nat),
  wready w -> Inv strtod_o (w_env w) DC k c ->
  lex_all (w_env w) lf1 (scan_begin lex_init (cstr b1)) p1 [] [] = (ts1, TEof, s1, q1, d1) ->
  lex_all (w_env w) lf2 (scan_begin lex_init (cstr b2)) p2 [] [] = (ts2, TEof, s2, q2, d2) ->
  filter (fun t => negb (is_comment t)) ts1 = filter (fun t => negb (is_comment t)) ts2 ->
  length (cstr b1) + measure (w_lex w) + length ts1 + 2 * k + 4 + DC < fuel ->
  length (cstr b2) + measure (w_lex w) + length ts2 + 2 * k + 4 + DC < fuel ->
  let '(w1, c1, rc1) := parse_buf strtod_o fuel w c (Some b1) in
  let '(w2, c2, rc2) := parse_buf strtod_o fuel w c (Some b2) in
  rc1 = rc2 /\ (rc1 = CFG_SUCCESS -> obs_c c1 = obs_c c2).
Proof.
  intros sd DC k w c b1 b2 ts1 ts2 lf1 lf2 p1 p2 s1 s2 q1 q2 d1 d2 fuel Hw HI L1 L2 HF F1 F2.
  pose proof (c01_parse_buf sd DC k w c b1 ts1 lf1 p1 s1 q1 d1 fuel Hw HI L1 F1) as H1.
  pose proof (c01_parse_buf sd DC k w c b2 ts2 lf2 p2 s2 q2 d2 fuel Hw HI L2 F2) as H2.
  destruct (parse_buf sd fuel w c (Some b1)) as [[w1 c1] rc1].
  destruct (parse_buf sd fuel w c (Some b2)) as [[w2 c2] rc2].
  rewrite (C15_meaning_of_comment_free_text sd c ts1) in H1.
  rewrite (C15_meaning_of_comment_free_text sd c ts2) in H2.
  rewrite HF in H1.
  destruct H1 as [_ H1]. destruct H2 as [_ H2].
  destruct (text_meaning sd c (filter (fun t => negb (is_comment t)) ts2)) as [oc|].
  - destruct H1 as [R1 [O1 _]]. destruct H2 as [R2 [O2 _]]. split; [congruence|]. intros _. congruence.
  - split; [congruence|]. intros E. rewrite H1 in E. discriminate.
Qed.
Print Assumptions C15_parser_transparent.
