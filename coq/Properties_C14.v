Example C14_placeholder : True. Proof. exact I. Qed.
