(* Properties_C14.v — C14: user callbacks see exactly the parsed items, and their verdict binds.
   Only statements here; proofs are in CallbackProofs.v.

   MODEL  Parser.setopt (cfg_setopt), Parser.init_defaults (cfg_init_defaults), Parser.parse_internal
          (cfg_parse_internal) with the scripted callbacks run_parsecb / run_validcb / the FUser branch of
          states 8, 9; Api.run_validcb2 / cfg_setnint.  Every scripted invocation goes through `tick`
          (counter + 1; it fails iff the counter reaches w_failat) and is logged on w_cbs, most recent first.
   VOCABULARY (CallbackProofs.v)
     failed_entry e     the `failed` flag of a CbParse / CbValid / CbValid2 / CbFunc entry; false for CbFree
     is_call e          e is an invocation (anything but CbFree, which records a release)
     calls l            number of invocations in l
     fresh w w'         exists new, w_cbs w' = new ++ w_cbs w           (the log only grows)
     failed_is_last new forall pre e post, new = pre ++ e :: post -> failed_entry e = true -> pre = []
                        (a failed entry is the most recent one: NOTHING — no invocation and not even a
                         release — is logged after it; in particular at most one entry is failed)
     some_failed new    exists e, In e new /\ failed_entry e = true
     parses o           o is of kind int / float / string / bool / ptr and has a parse callback
     script_fails fa n  the script's verdict for invocation number n:  fa <> 0 and n = fa
     script_ok n fa l   the entries l (oldest first) carry, invocation by invocation, the verdicts
                        script_fails fa (n+1), script_fails fa (n+2), ...
     only_one_failed new  forall pre e post, new = pre ++ e :: post -> failed_entry e = true ->
                        clean pre /\ clean post        (clean l: no entry of l is failed)
     R w w' err         the induction invariant: w_failat unchanged, the crash marker is never reset,
                        w_cbs w' = new ++ w_cbs w, w_cnt w' = w_cnt w + calls new,
                        script_ok (w_cnt w) (w_failat w) (rev new), and — as long as the crash marker
                        is not set — no new entry failed, or err = true and the head of `new` is the
                        one failed entry
     Q w w'             w_failat, w_cbs, w_cnt unchanged, the crash marker is never reset
   SIDE CONDITION  (b) and (c) of C14_verdict_binds are stated for runs that end with w_crash = None.
     The reason is cfg_init_defaults: a callback that fails inside a default value makes it call abort();
     the model records the marker "abort:cfg_init_defaults" and goes on, so after that marker the log
     can contain invocations made by a process that no longer exists (C14_ex_abort_then_more). *)
From Coq Require String.
Import String.StringSyntax.
From Coq Require Import List Arith NArith ZArith Bool.
From Coq.Strings Require Import Byte.
From LC Require Import Bytes Consts Conv Flex LexAct Lexer Files Store Parser Api HdrProofs ApiProofs CallbackProofs.
Import ListNotations.
Local Open Scope string_scope.
Local Open Scope list_scope.

(* 1. the flagship.  For every run of cfg_parse_internal / cfg_setopt / cfg_init_defaults, whatever the
   fuel, the world, the tree and the parser state:
   (a) the log only grows;
   (b) a failed entry is the last thing logged: no callback is invoked (and nothing released) after a
       failed invocation;
   (c) a failed invocation makes cfg_parse_internal answer STATE_ERROR, cfg_setopt answer NULL (and the
       failed one was the parse callback of that very option), cfg_init_defaults abort. *)
Theorem C14_verdict_binds :
  forall (strtod_o : str -> strtod_res) (fuel : nat),
  (forall w c level p w' c' rc,
     parse_internal strtod_o fuel w c level p = (w', c', rc) ->
     exists new,
       w_cbs w' = new ++ w_cbs w /\
       (w_crash w' = None -> failed_is_last new) /\
       (w_crash w' = None -> some_failed new -> rc = PERR)) /\
  (forall w c o txt w' o' res,
     setopt strtod_o fuel w c o txt = (w', o', res) ->
     exists new,
       w_cbs w' = new ++ w_cbs w /\
       (w_crash w' = None -> failed_is_last new) /\
       (w_crash w' = None -> some_failed new -> res = None /\ parses o = true)) /\
  (forall w c w' c',
     init_defaults strtod_o fuel w c = (w', c') ->
     exists new,
       w_cbs w' = new ++ w_cbs w /\
       (some_failed new -> w_crash w' <> None)).
Proof. exact verdict_binds. Qed.
Print Assumptions C14_verdict_binds.

(* (a) on its own, with no side condition *)
Theorem C14_log_grows :
  forall (strtod_o : str -> strtod_res) (fuel : nat),
  (forall w c o txt, fresh w (fst (fst (setopt strtod_o fuel w c o txt)))) /\
  (forall w c, fresh w (fst (init_defaults strtod_o fuel w c))) /\
  (forall w c l p, fresh w (fst (fst (parse_internal strtod_o fuel w c l p)))).
Proof. exact log_grows. Qed.
Print Assumptions C14_log_grows.

(* the invariant itself, for the three functions (this is what the mutual induction on the fuel proves) *)
Theorem C14_invariant :
  forall (strtod_o : str -> strtod_res) (fuel : nat),
  (forall w c o txt,
     R w (fst (fst (setopt strtod_o fuel w c o txt)))
       (isnone (snd (setopt strtod_o fuel w c o txt)) && parses o)) /\
  (forall w c, R w (fst (init_defaults strtod_o fuel w c)) false) /\
  (forall w c l p,
     R w (fst (fst (parse_internal strtod_o fuel w c l p)))
       (isperr (snd (parse_internal strtod_o fuel w c l p)))).
Proof. exact setopt_init_parse_R. Qed.
Print Assumptions C14_invariant.

(* the one-step facts: each scripted callback is one tick and one entry whose flag is the verdict handed
   to the caller; releases and cfg_handle_deprecated only log CbFree; cfg_lexer_include and the lexer
   do not touch the callback state *)
Theorem C14_one_step :
  (forall w k o v, R w (fst (run_parsecb w k o v)) (snd (run_parsecb w k o v))) /\
  (forall w o, R w (fst (run_validcb w o)) (snd (run_validcb w o))) /\
  (forall w o a, R w (fst (fst (run_validcb2 w o a))) (snd (run_validcb2 w o a))) /\
  (forall w e, is_call e = true -> failed_entry e = snd (tick w) ->
               R w (add_cb (fst (tick w)) e) (snd (tick w))) /\
  (forall w ids, R w (log_frees w ids) false /\ w_cbs (log_frees w ids) = rev (map CbFree ids) ++ w_cbs w) /\
  (forall w c r, R w (fst (handle_deprecated w c r)) false) /\
  (forall w c a, Q w (fst (fst (lexer_include w c a)))) /\
  (forall fl w c, Q w (fst (fst (fst (next_token fl w c))))).
Proof. exact one_step_facts. Qed.
Print Assumptions C14_one_step.

(* 2. the invocation counter never decreases and advances by exactly the number of logged invocations
   (one tick per CbParse / CbValid / CbFunc entry, none for CbFree); the script position w_failat is
   never touched.  No side condition. *)
Theorem C14_counter_monotone :
  forall (strtod_o : str -> strtod_res) (fuel : nat),
  (forall w c o txt, let w' := fst (fst (setopt strtod_o fuel w c o txt)) in
     exists new, w_cbs w' = new ++ w_cbs w /\ w_cnt w' = (w_cnt w + N.of_nat (calls new))%N /\
                 (w_cnt w <= w_cnt w')%N /\ w_failat w' = w_failat w) /\
  (forall w c, let w' := fst (init_defaults strtod_o fuel w c) in
     exists new, w_cbs w' = new ++ w_cbs w /\ w_cnt w' = (w_cnt w + N.of_nat (calls new))%N /\
                 (w_cnt w <= w_cnt w')%N /\ w_failat w' = w_failat w) /\
  (forall w c l p, let w' := fst (fst (parse_internal strtod_o fuel w c l p)) in
     exists new, w_cbs w' = new ++ w_cbs w /\ w_cnt w' = (w_cnt w + N.of_nat (calls new))%N /\
                 (w_cnt w <= w_cnt w')%N /\ w_failat w' = w_failat w).
Proof. exact counter_monotone. Qed.
Print Assumptions C14_counter_monotone.

(* 2'. (b) without the side condition, in the weaker form that survives the abort marker: the logged
   verdicts are exactly what the script dictates for invocations w_cnt w + 1, w_cnt w + 2, ..., hence at
   most one new entry is failed in any run. *)
Theorem C14_verdicts_follow_script :
  forall (strtod_o : str -> strtod_res) (fuel : nat),
  (forall w c o txt, let w' := fst (fst (setopt strtod_o fuel w c o txt)) in
     exists new, w_cbs w' = new ++ w_cbs w /\
                 script_ok (w_cnt w) (w_failat w) (rev new) /\ only_one_failed new) /\
  (forall w c, let w' := fst (init_defaults strtod_o fuel w c) in
     exists new, w_cbs w' = new ++ w_cbs w /\
                 script_ok (w_cnt w) (w_failat w) (rev new) /\ only_one_failed new) /\
  (forall w c l p, let w' := fst (fst (parse_internal strtod_o fuel w c l p)) in
     exists new, w_cbs w' = new ++ w_cbs w /\
                 script_ok (w_cnt w) (w_failat w) (rev new) /\ only_one_failed new).
Proof. exact verdicts_follow_script. Qed.
Print Assumptions C14_verdicts_follow_script.

(* 3. one cfg_setopt call on an int / float / bool / string option with parse callback k.
   Exactly one entry CbParse k name txt f is logged, after the releases of the RESET drop; txt is the
   text handed in; f is what the script says for this invocation.
   f = false: the result is the slot index and the slot holds the scripted value.
   f = true : the result is NULL and the option handed back is o1 — NOT the option passed in: the RESET
              drop has happened (old values released, RESET cleared) and, when a slot had to be
              appended (no value yet, or LIST / MULTI), the zero slot is there and MODIFIED is set. *)
Theorem C14_parse_callback_contract :
  forall (strtod_o : str -> strtod_res) (fuel : nat) (w : pw) (c : cfg) (o : opt) (txt : option str) (k : N),
  scalar_kind (o_kind o) -> cb_parse (o_cbs o) = Some k ->
  let res := setopt strtod_o (S fuel) w c o txt in
  let w' := fst (fst res) in
  let o' := snd (fst res) in
  let o0 := reset_drop o in
  let n := length (o_vals o0) in
  let appended := Nat.eqb n 0 || oflag o0 CFGF_MULTI || oflag o0 CFGF_LIST in
  let o1 := if appended then addval o0 else o0 in
  let idx := if appended then n else 0 in
  let f := snd (tick w) in
  let v := scripted_value (o_kind o) k txt in
  w_cbs w' = CbParse k (o_name o) txt f :: rev (map CbFree (reset_frees o)) ++ w_cbs w /\
  w_cnt w' = (w_cnt w + 1)%N /\
  (f = true -> snd res = None /\ o' = o1) /\
  (f = false ->
     snd res = Some idx /\
     o' = o_setf (set_vals o1 (upd_nth (o_vals o1) idx (fun _ => v))) CFGF_MODIFIED /\
     nth_error (o_vals o') idx = Some v).
Proof. exact parse_callback_contract. Qed.
Print Assumptions C14_parse_callback_contract.

(* 4. cfg_setnint on a resolved integer option with validate2 callback k: exactly one CbValid2 entry,
   carrying the ORIGINAL value z; a veto gives CFG_FAIL and the tree passed in; otherwise cfg_opt_setnint
   stores z' = |z| when k = 1 (the rewriting script) and z for every other k. *)
Theorem C14_validate2_veto_and_rewrite :
  forall (w : pw) (c : cfg) (name : str) (z : Z) (index : N) (r : optref) (o : opt) (k : N),
  fst (cfg_getopt c name) = Some r -> get_opt c r = Some o ->
  o_kind o = KInt -> cb_valid2 (o_cbs o) = Some k ->
  let res := cfg_setnint w c name z index in
  let w' := fst (fst res) in
  let c' := snd (fst res) in
  let f := snd (tick w) in
  let z' := if (k =? 1)%N then Z.abs z else z in
  (exists frees, w_cbs w' = rev (map CbFree frees) ++ CbValid2 k (o_name o) (V2Int z) f :: w_cbs w /\
                 (f = true -> frees = [])) /\
  w_cnt w' = (w_cnt w + 1)%N /\
  (f = true -> snd res = FAIL /\ c' = c) /\
  (f = false ->
     c' = put_opt c r (snd (fst (opt_setn w o KInt (VInt z') index))) /\
     snd res = snd (opt_setn w o KInt (VInt z') index)) /\
  (f = false -> (index = 0%N \/ oflag o CFGF_LIST = true \/ oflag o CFGF_MULTI = true) ->
     snd res = OK /\
     exists o', c' = put_opt c r o' /\ o_vals o' = setn_vals o (VInt z') index).
Proof. exact validate2_contract. Qed.
Print Assumptions C14_validate2_veto_and_rewrite.

(* 5. the function callback.  States 8 / 9 of cfg_parse_internal: when the closing parenthesis arrives,
   the user function k of the current option is invoked once with the arguments collected so far, and
   its verdict decides between STATE_ERROR and going on (with the argument list emptied) ... *)
Theorem C14_function_arguments :
  forall (strtod_o : str -> strtod_res) (fuel : nat) (w : pw) (c : cfg) (level : nat) (p : pst)
         (w1 : pw) (c1 : cfg) (yylval : option str) (r : optref) (o : opt) (k : N),
  next_token fuel w c = (w1, c1, TPunct 41, yylval) ->
  (s_state p = 8 \/ s_state p = 9) ->
  s_opt p = Some r -> get_opt c1 r = Some o -> cb_func (o_cbs o) = Some (FUser k) ->
  let f := snd (tick w1) in
  let w2 := add_cb (fst (tick w1)) (CbFunc k (o_name o) (s_args p) f) in
  parse_internal strtod_o (S fuel) w c level p =
  if f then (w2, c1, PERR) else parse_internal strtod_o fuel w2 c1 level (st_state (st_args p []) 0).
Proof. exact function_arguments. Qed.
Print Assumptions C14_function_arguments.

(* ... and the arguments are collected in input order: in state 8 a string token is appended at the end *)
Theorem C14_function_argument_collected :
  forall (strtod_o : str -> strtod_res) (fuel : nat) (w : pw) (c : cfg) (level : nat) (p : pst)
         (w1 : pw) (c1 : cfg) (yylval : option str),
  next_token fuel w c = (w1, c1, TStr, yylval) ->
  s_state p = 8 ->
  parse_internal strtod_o (S fuel) w c level p =
  parse_internal strtod_o fuel w1 c1 level (st_state (st_args p (s_args p ++ [sval yylval])) 9).
Proof. exact function_argument_collected. Qed.
Print Assumptions C14_function_argument_collected.

(* ---------- a concrete schema with callbacks ---------- *)
Module Ex.
Definition B := bs_of_string.
Definition sd := ex_sd.
Definition cbs (p v v2 : option N) (fn : option funcid) : cbset :=
  {| cb_parse := p; cb_valid := v; cb_valid2 := v2; cb_print := None; cb_free := false; cb_func := fn |}.
(* i: integer, parse callback 3, validate 5, validate2 1 (the rewriting one); l: string list, validate 6;
   f: user function 7; s: section with validate 9 whose integer a has validate 8 *)
Definition decls : list opt :=
  [ Opt (B "i") KInt 0 [] [] defv0 None (cbs (Some 3%N) (Some 5%N) (Some 1%N) None);
    Opt (B "l") KStr CFGF_LIST [] [] defv0 None (cbs None (Some 6%N) None None);
    Opt (B "f") KFunc 0 [] [] defv0 None (cbs None None None (Some (FUser 7)));
    Opt (B "s") KSec 0 [] [Opt (B "a") KInt 0 [] [] defv0 None (cbs None (Some 8%N) None None)]
        defv0 None (cbs None (Some 9%N) None None) ].
(* a world whose n-th callback invocation fails (0: none does) *)
Definition wfail (n : N) : pw :=
  {| w_lex := w_lex ex_w0; w_env := w_env ex_w0; w_fs := w_fs ex_w0; w_pw := w_pw ex_w0; w_path := w_path ex_w0;
     w_cbs := []; w_cnt := 0; w_failat := n; w_nextptr := 1; w_diags := []; w_open := 0; w_crash := None; w_oof := false |}.
Definition c0 := snd (cfg_init sd 1000 ex_w0 decls 0).
Definition txt := B "i = 12 l = {x, yy} f(a, b, c) s { a = 1 }".
Definition run (n : N) := parse_buf sd 5000 (wfail n) c0 (Some txt).
Definition log (n : N) : list cbent := w_cbs (fst (fst (run n))).

(* the declarations have no scripted defaults: cfg_init invokes nothing *)
Example C14_ex_init_silent :
  let w := fst (cfg_init sd 1000 ex_w0 decls 0) in w_cbs w = [] /\ w_cnt w = 0%N /\ w_crash w = None.
Proof. vm_compute. repeat split; reflexivity. Qed.

(* nobody objects: eight invocations, in input order, each with the item just parsed — the text "12" for
   the parse callback, the sizes 1, 2 after each list element and 2 again at the closing brace, the three
   arguments a, b, c in order, the inner option before its section — and CFG_SUCCESS *)
Example C14_ex_all_pass :
  rev (log 0) =
    [ CbParse 3 (B "i") (Some (B "12")) false; CbValid 5 (B "i") 1 false;
      CbValid 6 (B "l") 1 false; CbValid 6 (B "l") 2 false; CbValid 6 (B "l") 2 false;
      CbFunc 7 (B "f") [B "a"; B "b"; B "c"] false;
      CbValid 8 (B "a") 1 false; CbValid 9 (B "s") 1 false ] /\
  snd (run 0) = CFG_SUCCESS /\ w_cnt (fst (fst (run 0))) = 8%N /\ w_crash (fst (fst (run 0))) = None.
Proof. vm_compute. repeat split; reflexivity. Qed.

(* the second invocation fails: the log has exactly two entries, the last one is the failed one, the
   result is CFG_PARSE_ERROR — and STATE_ERROR for cfg_parse_internal itself *)
Example C14_ex_fail_at_2 :
  log 2 = [ CbValid 5 (B "i") 1 true; CbParse 3 (B "i") (Some (B "12")) false ] /\
  length (log 2) = 2 /\ map failed_entry (log 2) = [true; false] /\
  snd (run 2) = CFG_PARSE_ERROR /\
  snd (parse_internal sd 5000 (upd_lex (wfail 2) (scan_begin (w_lex (wfail 2)) (cstr txt)))
                      (set_line (set_file c0 (Some (B "[buf]"))) 1) 0 (pst0 0 None)) = PERR.
Proof. vm_compute. repeat split; reflexivity. Qed.

(* whichever of the eight invocations fails: exactly that many entries, the most recent one failed and
   no other, CFG_PARSE_ERROR, no crash marker *)
Example C14_ex_fail_each :
  forallb (fun n =>
    let r := run (N.of_nat n) in
    let l := w_cbs (fst (fst r)) in
    Nat.eqb (length l) n &&
    match l with e :: rest => failed_entry e && forallb (fun x => negb (failed_entry x)) rest | [] => false end &&
    (snd r =? CFG_PARSE_ERROR)%Z && (w_cnt (fst (fst r)) =? N.of_nat n)%N &&
    match w_crash (fst (fst r)) with None => true | Some _ => false end)
    [1; 2; 3; 4; 5; 6; 7; 8] = true.
Proof. vm_compute. reflexivity. Qed.

(* 3 on the option i as cfg_init left it (one default value 0, RESET set): success stores
   strlen "12" + 3 = 5 in slot 0; a failing callback gives NULL — and the default value is gone, a zero
   slot in its place, RESET cleared *)
Definition oi : opt := nth 0 (c_opts c0) (Opt [] KNone 0 [] [] defv0 None cbset0).
Example C14_ex_parse_callback :
  o_vals oi = [VInt 0] /\ oflag oi CFGF_RESET = true /\
  (let '(w, o', res) := setopt sd 10 (wfail 0) c0 oi (Some (B "12")) in
   res = Some 0 /\ o_vals o' = [VInt 5] /\ w_cbs w = [CbParse 3 (B "i") (Some (B "12")) false]) /\
  (let '(w, o', res) := setopt sd 10 (wfail 1) c0 oi (Some (B "12")) in
   res = None /\ o_vals o' = [VInt 0] /\ oflag o' CFGF_RESET = false /\ oflag o' CFGF_MODIFIED = true /\
   w_cbs w = [CbParse 3 (B "i") (Some (B "12")) true]).
Proof. vm_compute. repeat split; reflexivity. Qed.

(* 4: validate2 script 1 sees -5 and has 5 stored; a veto leaves the tree alone *)
Example C14_ex_validate2 :
  (let '(w, c', rc) := cfg_setnint (wfail 0) c0 (B "i") (-5) 0 in
   rc = OK /\ w_cbs w = [CbValid2 1 (B "i") (V2Int (-5)) false] /\
   option_map o_vals (get_opt c' ([], 0)) = Some [VInt 5]) /\
  (let '(w, c', rc) := cfg_setnint (wfail 1) c0 (B "i") (-5) 0 in
   rc = FAIL /\ w_cbs w = [CbValid2 1 (B "i") (V2Int (-5)) true] /\ c' = c0).
Proof. vm_compute. repeat split; reflexivity. Qed.

(* why the side condition: defaults given as text go through the parse callback inside cfg_init.
   The section s holds a (default "5", parse callback 1); b (default "6", parse callback 2) follows.
   With the first invocation failing, cfg_init_defaults of s aborts — the model sets the marker and
   goes on, so the log shows an invocation AFTER the failed one, made by a process that is dead. *)
Definition dtxt (s : String.string) : defv :=
  {| d_num := 0; d_fp := 0; d_bool := false; d_str := None; d_parsed := Some (B s) |}.
Definition decls2 : list opt :=
  [ Opt (B "s") KSec 0 [] [Opt (B "a") KInt 0 [] [] (dtxt "5") None (cbs (Some 1%N) None None None)]
        defv0 None cbset0;
    Opt (B "b") KInt 0 [] [] (dtxt "6") None (cbs (Some 2%N) None None None) ].
Example C14_ex_abort_then_more :
  let w := fst (cfg_init sd 1000 (wfail 1) decls2 0) in
  w_cbs w = [ CbParse 2 (B "b") (Some (B "6")) false; CbParse 1 (B "a") (Some (B "5")) true ] /\
  w_crash w = Some (B "abort:cfg_init_defaults").
Proof. vm_compute. split; reflexivity. Qed.

(* without a failure the same declarations initialise quietly: two invocations, no marker *)
Example C14_ex_defaults_pass :
  let w := fst (cfg_init sd 1000 (wfail 0) decls2 0) in
  w_cbs w = [ CbParse 2 (B "b") (Some (B "6")) false; CbParse 1 (B "a") (Some (B "5")) false ] /\
  w_crash w = None.
Proof. vm_compute. split; reflexivity. Qed.
End Ex.
