(* FilesProofs.v — C17: file names resolve deterministically.
   Proofs about cfg_searchpath / cfg_add_searchpath / cfg_tilde_expand (Files.v) and the two places of
   Parser.v (cfg_parse, cfg_lexer_include) that resolve a file name. *)
From Coq Require String.
Import String.StringSyntax.
From Coq Require Import List Arith NArith ZArith Bool Lia.
From Coq.Strings Require Import Byte.
From LC Require Import Bytes Consts Lexer Files Store Parser.
Import ListNotations.
Local Open Scope string_scope.
Local Open Scope list_scope.

(* ------------------------------------------------------------------ *)
(* generic list facts                                                  *)
(* ------------------------------------------------------------------ *)
Lemma find_app_l {A} (P : A -> bool) l1 l2 :
  find P (l1 ++ l2) = match find P l1 with Some x => Some x | None => find P l2 end.
Proof.
  induction l1 as [|x l1 IH]; cbn [app find]; [reflexivity|].
  destruct (P x); [reflexivity|exact IH].
Qed.

(* ------------------------------------------------------------------ *)
(* relative / absolute names                                           *)
(* ------------------------------------------------------------------ *)
Definition is_abs (file : str) : bool :=
  match file with c :: _ => Byte.eqb c slash | [] => false end.

Lemma is_abs_true file : is_abs file = true <-> exists r, file = slash :: r.
Proof.
  split.
  - destruct file as [|c r]; cbn [is_abs]; [discriminate|]. intros H. apply byte_eqb_eq in H. subst c. exists r. reflexivity.
  - intros [r ->]. reflexivity.
Qed.

Lemma is_abs_false file : is_abs file = false <-> (forall r, file <> slash :: r).
Proof.
  split.
  - intros H r E. assert (is_abs file = true) by (apply is_abs_true; exists r; exact E). congruence.
  - intros H. destruct (is_abs file) eqn:E; [|reflexivity]. apply is_abs_true in E. destruct E as [r E]. elim (H r E).
Qed.

(* boolean test for "no slash inside", convenient on concrete data *)
Lemma no_slash_b user : existsb (Byte.eqb slash) user = false -> ~ In slash user.
Proof.
  intros H Hi. assert (E : existsb (Byte.eqb slash) user = true).
  { apply existsb_exists. exists slash. split; [exact Hi|apply byte_eqb_eq; reflexivity]. }
  congruence.
Qed.

(* one unfolding step of cfg_searchpath, with the two syntactic copies of the relative branch merged *)
Lemma cfg_searchpath_cons f dir next file :
  cfg_searchpath f (dir :: next) file =
  if is_abs file then (if is_regular f file then Some file else None)
  else match cfg_searchpath f next file with
       | Some r => Some r
       | None => if is_regular f (make_fullpath dir file) then Some (make_fullpath dir file) else None
       end.
Proof.
  destruct file as [|c r]; cbn [cfg_searchpath is_abs]; [reflexivity|].
  destruct (Byte.eqb c slash); reflexivity.
Qed.

Lemma resolve_spec_eq f dirs file :
  resolve_spec f dirs file =
  if is_abs file then (if is_regular f file then Some file else None)
  else option_map (fun d => make_fullpath d file)
         (find (fun d => is_regular f (make_fullpath d file)) dirs).
Proof.
  destruct file as [|c r]; cbn [resolve_spec is_abs]; [reflexivity|].
  destruct (Byte.eqb c slash); reflexivity.
Qed.

(* ------------------------------------------------------------------ *)
(* (d) absolute names bypass the path                                  *)
(* ------------------------------------------------------------------ *)
Lemma searchpath_abs f p file :
  p <> [] -> is_abs file = true ->
  cfg_searchpath f p file = if is_regular f file then Some file else None.
Proof.
  intros Hp Ha. destruct p as [|d n]; [contradiction|].
  rewrite cfg_searchpath_cons, Ha. reflexivity.
Qed.

Lemma C17_absolute_bypasses_pf : forall f p file,
  p <> [] -> (exists r, file = slash :: r) ->
  cfg_searchpath f p file = if is_regular f file then Some file else None.
Proof. intros f p file Hp Ha. apply searchpath_abs; [exact Hp|apply is_abs_true; exact Ha]. Qed.

(* ------------------------------------------------------------------ *)
(* (a) oldest directory first                                          *)
(* ------------------------------------------------------------------ *)
Lemma searchpath_rel f p file :
  is_abs file = false ->
  cfg_searchpath f p file =
  option_map (fun d => make_fullpath d file)
    (find (fun d => is_regular f (make_fullpath d file)) (rev p)).
Proof.
  intros Hr. induction p as [|d n IH]; [reflexivity|].
  rewrite cfg_searchpath_cons, Hr, IH. cbn [rev]. rewrite find_app_l.
  destruct (find (fun d0 => is_regular f (make_fullpath d0 file)) (rev n)); cbn [option_map find]; [reflexivity|].
  destruct (is_regular f (make_fullpath d file)); reflexivity.
Qed.

Lemma C17_first_in_add_order_pf : forall f dirs file,
  dirs <> [] -> cfg_searchpath f (rev dirs) file = resolve_spec f dirs file.
Proof.
  intros f dirs file Hd. rewrite resolve_spec_eq. destruct (is_abs file) eqn:Ha.
  - apply searchpath_abs; [|exact Ha]. intros E. apply Hd. rewrite <- (rev_involutive dirs), E. reflexivity.
  - rewrite (searchpath_rel _ _ _ Ha), rev_involutive. reflexivity.
Qed.

(* without the side condition the two sides differ exactly on absolute names:
   the C function returns EINVAL for an empty path before it looks at the name *)
Lemma searchpath_empty f file : cfg_searchpath f [] file = None.
Proof. reflexivity. Qed.

Lemma C17_first_in_add_order_rel_pf : forall f dirs file,
  (forall r, file <> slash :: r) -> cfg_searchpath f (rev dirs) file = resolve_spec f dirs file.
Proof.
  intros f dirs file Hr. apply is_abs_false in Hr.
  rewrite resolve_spec_eq, Hr, (searchpath_rel _ _ _ Hr), rev_involutive. reflexivity.
Qed.

(* ------------------------------------------------------------------ *)
(* (b) cfg_add_searchpath prepends                                     *)
(* ------------------------------------------------------------------ *)
Lemma add_prepends_gen pw dirs acc :
  fold_left (fun sp d => tilde_expand pw d :: sp) dirs acc = rev (map (tilde_expand pw) dirs) ++ acc.
Proof.
  revert acc. induction dirs as [|d r IH]; intros acc; [reflexivity|].
  cbn [fold_left map rev]. rewrite IH, <- app_assoc. reflexivity.
Qed.

Lemma C17_add_prepends_pf : forall pw dirs,
  fold_left (fun sp d => tilde_expand pw d :: sp) dirs [] = rev (map (tilde_expand pw) dirs).
Proof. intros. rewrite add_prepends_gen, app_nil_r. reflexivity. Qed.

(* ------------------------------------------------------------------ *)
(* (c) whatever is returned is a regular file                          *)
(* ------------------------------------------------------------------ *)
Lemma C17_result_is_regular_pf : forall f p file r,
  cfg_searchpath f p file = Some r -> is_regular f r = true.
Proof.
  intros f p file r. induction p as [|d n IH]; [discriminate|].
  rewrite cfg_searchpath_cons. destruct (is_abs file).
  - destruct (is_regular f file) eqn:E; [|discriminate]. intros H; injection H as <-. exact E.
  - destruct (cfg_searchpath f n file) as [r'|].
    + intros H; injection H as <-. apply IH. reflexivity.
    + destruct (is_regular f (make_fullpath d file)) eqn:E; [|discriminate]. intros H; injection H as <-. exact E.
Qed.

(* the result, when there is one, can be opened *)
Lemma regular_opens f r : is_regular f r = true -> exists content, open_input f r = Some content.
Proof.
  unfold is_regular, open_input. destruct (fs_lookup f r) as [c| |]; try discriminate. intros _. exists c. reflexivity.
Qed.

(* ------------------------------------------------------------------ *)
(* (e) directories and missing names never match                       *)
(* ------------------------------------------------------------------ *)
Definition not_a_file (e : fsent) : Prop := e = FDir \/ e = FMissing.

Lemma not_a_file_not_regular f p : not_a_file (fs_lookup f p) -> is_regular f p = false.
Proof. unfold is_regular. intros [-> | ->]; reflexivity. Qed.

Lemma C17_dirs_never_match_pf : forall f p file,
  (forall d, In d p -> fs_lookup f (make_fullpath d file) = FDir \/ fs_lookup f (make_fullpath d file) = FMissing) ->
  (forall r, file <> slash :: r) ->
  cfg_searchpath f p file = None.
Proof.
  intros f p file H Hr. apply is_abs_false in Hr. induction p as [|d n IH]; [reflexivity|].
  rewrite cfg_searchpath_cons, Hr, IH.
  - rewrite (not_a_file_not_regular f (make_fullpath d file)); [reflexivity|]. apply H. left; reflexivity.
  - intros d' Hd'. apply H. right; exact Hd'.
Qed.

(* ------------------------------------------------------------------ *)
(* (f) tilde expansion                                                 *)
(* ------------------------------------------------------------------ *)
Definition tilde : byte := x7e.

Lemma span_until_slash_spec : forall user file acc,
  ~ In slash user -> (file = [] \/ exists r, file = slash :: r) ->
  span_until_slash (user ++ file) acc = (rev acc ++ user, file).
Proof.
  induction user as [|c u IH]; intros file acc Hn Hf.
  - cbn [app]. rewrite app_nil_r. destruct Hf as [-> | [r ->]]; reflexivity.
  - cbn [app span_until_slash].
    assert (Hc : Byte.eqb c slash = false).
    { apply byte_eqb_neq. intros E. apply Hn. left. exact E. }
    rewrite Hc, IH; [|intros Hi; apply Hn; right; exact Hi|exact Hf].
    cbn [rev]. rewrite <- app_assoc. reflexivity.
Qed.

Lemma C17_tilde_plain_pf : forall pw name,
  (forall r, name <> tilde :: r) -> tilde_expand pw name = name.
Proof.
  intros pw [|c r] H; [reflexivity|]. cbn [tilde_expand].
  destruct (Byte.eqb c x7e) eqn:E; [|reflexivity].
  apply byte_eqb_eq in E. subst c. elim (H r). reflexivity.
Qed.

(* what "~" and "~/..." expand to *)
Definition self_home (pw : passwd) : option str :=
  match pw_self pw with Some u => assoc_str u (pw_tab pw) | None => None end.

Lemma tilde_self_eq pw rest :
  (rest = [] \/ exists r, rest = slash :: r) ->
  tilde_expand pw (tilde :: rest) = match self_home pw with Some h => h ++ rest | None => tilde :: rest end.
Proof.
  unfold self_home. intros [-> | [r ->]]; cbn [tilde_expand tilde];
    change (Byte.eqb x7e x7e) with true; cbv iota.
  - destruct (pw_self pw) as [u|]; [|reflexivity]. destruct (assoc_str u (pw_tab pw)); reflexivity.
  - change (Byte.eqb slash slash) with true. cbv iota.
    destruct (pw_self pw) as [u|]; [|reflexivity]. destruct (assoc_str u (pw_tab pw)); reflexivity.
Qed.

Lemma C17_tilde_self_pf : forall pw rest,
  (rest = [] \/ exists r, rest = slash :: r) ->
  (forall u h, pw_self pw = Some u -> assoc_str u (pw_tab pw) = Some h ->
     tilde_expand pw (tilde :: rest) = h ++ rest) /\
  ((pw_self pw = None \/ exists u, pw_self pw = Some u /\ assoc_str u (pw_tab pw) = None) ->
     tilde_expand pw (tilde :: rest) = tilde :: rest).
Proof.
  intros pw rest Hr. rewrite (tilde_self_eq pw rest Hr). unfold self_home. split.
  - intros u h -> ->. reflexivity.
  - intros [-> | [u [-> ->]]]; reflexivity.
Qed.

Lemma C17_tilde_user_pf : forall pw user file,
  user <> [] -> ~ In slash user -> (file = [] \/ exists r, file = slash :: r) ->
  tilde_expand pw (tilde :: user ++ file) =
  match assoc_str user (pw_tab pw) with Some h => h ++ file | None => tilde :: user ++ file end.
Proof.
  intros pw user file Hne Hn Hf. destruct user as [|c u]; [contradiction|].
  assert (Hc : Byte.eqb c slash = false).
  { apply byte_eqb_neq. intros E. apply Hn. left. exact E. }
  pose proof (span_until_slash_spec (c :: u) file [] Hn Hf) as Hs. cbn [rev app] in Hs.
  cbn [tilde_expand tilde app]. change (Byte.eqb x7e x7e) with true. cbv iota.
  rewrite Hc. cbn [app] in Hs. rewrite Hs. reflexivity.
Qed.

(* ------------------------------------------------------------------ *)
(* (g) cfg_parse and cfg_lexer_include resolve a name the same way     *)
(* ------------------------------------------------------------------ *)
Definition resolve_name (w : pw) (filename : str) : option str :=
  match w_path w with
  | [] => Some (tilde_expand (w_pw w) filename)
  | p => cfg_searchpath (w_fs w) p filename
  end.

Lemma parse_file_resolves : forall strtod_o fuel w c filename,
  parse_file strtod_o fuel w c filename =
  match resolve_name w filename with
  | None => (w, c, CFG_FILE_ERROR)
  | Some f =>
      match open_input (w_fs w) f with
      | None => (w, set_file c (Some f), CFG_FILE_ERROR)
      | Some content => parse_fp strtod_o fuel w (set_file c (Some f)) content
      end
  end.
Proof.
  intros. unfold parse_file, resolve_name. destruct (w_path w); reflexivity.
Qed.

Lemma lexer_include_resolves : forall w c filename,
  Nat.leb MAX_INCLUDE_DEPTH (length (l_inc (w_lex w))) = false ->
  lexer_include w c filename =
  match resolve_name w filename with
  | None => (add_diags w (cfg_diag c "%s: Not found in search path"), c, true)
  | Some f =>
      match open_input (w_fs w) f with
      | None => (add_diags w (cfg_diag c "%s: %s"), c, true)
      | Some content =>
          let l := w_lex w in
          let fr := {| i_file := c_file c; i_line := c_line c; i_buf := l_next l |} in
          let l1 := scan_begin (set_inc l (fr :: l_inc l)) content in
          (set_open (upd_lex w l1) (S (w_open w)), set_line (set_file c (Some f)) 1, false)
      end
  end.
Proof.
  intros w c filename Hd. unfold lexer_include, resolve_name. rewrite Hd. destruct (w_path w); reflexivity.
Qed.

(* the "exactly when" readings *)
Lemma C17_same_resolution_parse_pf : forall strtod_o fuel w c filename,
  (resolve_name w filename = None ->
     parse_file strtod_o fuel w c filename = (w, c, CFG_FILE_ERROR)) /\
  (forall f, resolve_name w filename = Some f ->
     parse_file strtod_o fuel w c filename =
     match open_input (w_fs w) f with
     | None => (w, set_file c (Some f), CFG_FILE_ERROR)
     | Some content => parse_fp strtod_o fuel w (set_file c (Some f)) content
     end) /\
  (* with a non-empty search path the resolved name is a regular file, so the open succeeds *)
  (forall f, w_path w <> [] -> resolve_name w filename = Some f ->
     exists content, open_input (w_fs w) f = Some content /\
       parse_file strtod_o fuel w c filename = parse_fp strtod_o fuel w (set_file c (Some f)) content).
Proof.
  intros. rewrite parse_file_resolves. split; [|split].
  - intros ->. reflexivity.
  - intros f ->. reflexivity.
  - intros f Hp Hr. rewrite Hr. unfold resolve_name in Hr.
    destruct (w_path w) as [|d n] eqn:E; [contradiction|].
    apply C17_result_is_regular_pf, regular_opens in Hr. destruct Hr as [content Hc].
    exists content. rewrite Hc. split; reflexivity.
Qed.

Lemma fmt_differs : M "%s: %s" <> M "%s: Not found in search path".
Proof. vm_compute. discriminate. Qed.

Lemma C17_same_resolution_include_pf : forall w c filename,
  Nat.leb MAX_INCLUDE_DEPTH (length (l_inc (w_lex w))) = false ->
  (resolve_name w filename = None ->
     lexer_include w c filename = (add_diags w (cfg_diag c "%s: Not found in search path"), c, true)) /\
  (* the converse needs the error function installed, otherwise no diagnostic is recorded at all *)
  (c_err c = true ->
     lexer_include w c filename = (add_diags w (cfg_diag c "%s: Not found in search path"), c, true) ->
     resolve_name w filename = None) /\
  (forall f, resolve_name w filename = Some f ->
     lexer_include w c filename =
     match open_input (w_fs w) f with
     | None => (add_diags w (cfg_diag c "%s: %s"), c, true)
     | Some content =>
         (set_open (upd_lex w (scan_begin (set_inc (w_lex w)
                      ({| i_file := c_file c; i_line := c_line c; i_buf := l_next (w_lex w) |} :: l_inc (w_lex w))) content))
                   (S (w_open w)),
          set_line (set_file c (Some f)) 1, false)
     end).
Proof.
  intros w c filename Hd. rewrite (lexer_include_resolves w c filename Hd). split; [|split].
  - intros ->. reflexivity.
  - intros He. destruct (resolve_name w filename) as [f|]; [|reflexivity].
    destruct (open_input (w_fs w) f) as [content|]; cbv zeta; intros H.
    + discriminate H.
    + exfalso. unfold cfg_diag in H. rewrite He in H.
      assert (H2 : w_diags (add_diags w [mkdiag (c_pos c) "%s: %s"]) =
                   w_diags (add_diags w [mkdiag (c_pos c) "%s: Not found in search path"])) by congruence.
      cbn [add_diags w_diags rev app] in H2. apply (f_equal (fun l => match l with x :: _ => d_fmt x | [] => [] end)) in H2.
      cbn [mkdiag d_fmt] in H2. exact (fmt_differs H2).
  - intros f ->. reflexivity.
Qed.
