(* Properties_C04b.v — C04, floating point values: "accepts what strtod accepts in full, rejects overflow and garbage".
   Statements only; proofs in FloatProofs.v.  Everything is RELATIVE to the strtod oracle (Conv.strtod_res: the bits of
   the double, the number of bytes consumed, whether ERANGE was raised); the driver binds it to libc. *)
From Coq Require String.
Import String.StringSyntax.
From Coq Require Import List Arith NArith ZArith Bool.
From Coq.Strings Require Import Byte.
From LC Require Import Bytes Conv FloatProofs.
Import ListNotations.
Local Open Scope string_scope.
Local Open Scope list_scope.

(* The conversion is exactly this decision list, in this order (confuse.c: the end pointer is tested before errno):
     nothing consumed            -> invalid
     stopped before the end      -> invalid   (even if the part read overflowed)
     ERANGE                      -> out of range
     otherwise                   -> the oracle's value. *)
Theorem C04_float_exact :
  forall (strtod : str -> strtod_res) (txt : str),
  conv_float strtod txt =
  (if Nat.eqb (sd_consumed (strtod txt)) 0 then CInvalid
   else if Nat.ltb (sd_consumed (strtod txt)) (length txt) then CInvalid
   else if sd_erange (strtod txt) then CRange
   else COk (sd_bits (strtod txt))).
Proof. exact conv_float_exact. Qed.
Print Assumptions C04_float_exact.

(* accepted  <->  the oracle consumed the whole, non-empty token without range error and returned these bits *)
Theorem C04_float_ok_iff :
  forall strtod txt bits,
  conv_float strtod txt = COk bits <->
  sd_full (strtod txt) txt /\ sd_erange (strtod txt) = false /\ sd_bits (strtod txt) = bits.
Proof. exact conv_float_ok. Qed.
Print Assumptions C04_float_ok_iff.

(* range error  <->  whole token consumed AND ERANGE *)
Theorem C04_float_range_iff :
  forall strtod txt,
  conv_float strtod txt = CRange <-> sd_full (strtod txt) txt /\ sd_erange (strtod txt) = true.
Proof. exact conv_float_range. Qed.
Print Assumptions C04_float_range_iff.

(* syntax error  <->  nothing consumed, or something left over *)
Theorem C04_float_invalid_iff :
  forall strtod txt,
  conv_float strtod txt = CInvalid <->
  (sd_consumed (strtod txt) = 0%nat \/ (sd_consumed (strtod txt) < length txt)%nat).
Proof. exact conv_float_invalid. Qed.
Print Assumptions C04_float_invalid_iff.

(* for an oracle whose end pointer stays inside the string (every real strtod), "in full" reads:
   the token is not empty and every byte of it was consumed *)
Theorem C04_float_full_means :
  forall strtod txt, oracle_sane strtod ->
  (sd_full (strtod txt) txt <-> txt <> [] /\ sd_consumed (strtod txt) = length txt).
Proof. exact sd_full_sane. Qed.
Print Assumptions C04_float_full_means.

(* nothing is accepted silently: every token is accepted with exactly the oracle's value for the whole token,
   or rejected as out of range, or rejected as invalid — and nothing else *)
Theorem C04_float_no_silent :
  forall strtod txt,
  (conv_float strtod txt = COk (sd_bits (strtod txt)) /\ sd_full (strtod txt) txt /\ sd_erange (strtod txt) = false)
  \/ (conv_float strtod txt = CRange /\ sd_full (strtod txt) txt /\ sd_erange (strtod txt) = true)
  \/ (conv_float strtod txt = CInvalid /\ ~ sd_full (strtod txt) txt).
Proof. exact conv_float_no_silent. Qed.
Print Assumptions C04_float_no_silent.

(* the order of the checks is observable *)
Theorem C04_float_partial_overflow_is_invalid :
  forall strtod txt,
  (sd_consumed (strtod txt) < length txt)%nat -> sd_erange (strtod txt) = true -> conv_float strtod txt = CInvalid.
Proof. exact conv_float_partial_overflow_is_invalid. Qed.
Print Assumptions C04_float_partial_overflow_is_invalid.

(* non-vacuity, with a toy oracle (unsigned decimal integers, ERANGE above 999) *)
Example C04b_toy_sane : oracle_sane toy_strtod.
Proof. exact toy_sane. Qed.
Example C04b_ex_ok : conv_float toy_strtod (bs_of_string "42") = COk 42%N.
Proof. vm_compute; reflexivity. Qed.
Example C04b_ex_range : conv_float toy_strtod (bs_of_string "1000") = CRange.
Proof. vm_compute; reflexivity. Qed.
Example C04b_ex_garbage : conv_float toy_strtod (bs_of_string "42x") = CInvalid
  /\ conv_float toy_strtod (bs_of_string "x") = CInvalid /\ conv_float toy_strtod [] = CInvalid.
Proof. vm_compute; repeat split; reflexivity. Qed.
Example C04b_ex_partial_overflow :
  conv_float toy_strtod (bs_of_string "1000x") = CInvalid /\ sd_erange (toy_strtod (bs_of_string "1000x")) = true.
Proof. vm_compute; split; reflexivity. Qed.
