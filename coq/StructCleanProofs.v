(* StructCleanProofs.v — C05: a tree without annotations and print filters stays so under cfg_setopt,
   cfg_init_defaults and cfg_parse_internal, as long as annotation support (CFGF_COMMENTS) is off in every context.
   "clean": no print filter and no CFGF_COMMENTS on any context, no comment on any option (live or template). *)
From Coq Require String.
Import String.StringSyntax.
From Coq Require Import List Arith NArith ZArith Bool Lia.
From Coq.Strings Require Import Byte.
From LC Require Import Bytes Consts Conv Flex LexAct Lexer Files Store Parser PP_Base PP_Step PP_Setopt PP_Inv.
Import ListNotations.
Local Open Scope string_scope.
Local Open Scope list_scope.

Fixpoint cleanV (v : value) : bool := match v with VSec (Some c) => cleanC c | _ => true end
with cleanO (o : opt) : bool :=
  match o with
  | Opt _ _ _ vals sub _ cm _ =>
      is_none cm &&
      (fix go (l : list value) : bool := match l with [] => true | v :: r => cleanV v && go r end) vals &&
      (fix go (l : list opt) : bool := match l with [] => true | d :: r => cleanO d && go r end) sub
  end
with cleanC (c : cfg) : bool :=
  match c with
  | Cfg _ _ fl opts _ _ _ pff =>
      is_none pff && negb (has fl CFGF_COMMENTS) &&
      (fix go (l : list opt) : bool := match l with [] => true | o :: r => cleanO o && go r end) opts
  end.

Lemma cleanO_eq o : cleanO o = is_none (o_comment o) && forallb cleanV (o_vals o) && forallb cleanO (o_sub o).
Proof.
  destruct o as [n k f vals sub d cm cb]. reflexivity.
Qed.

Lemma cleanC_eq c : cleanC c = is_none (c_pff c) && negb (cflag c CFGF_COMMENTS) && forallb cleanO (c_opts c).
Proof.
  destruct c as [n t f opts fi l e p]. reflexivity.
Qed.

Lemma cleanC_parts c : cleanC c = true -> c_pff c = None /\ cflag c CFGF_COMMENTS = false /\ forallb cleanO (c_opts c) = true.
Proof.
  rewrite cleanC_eq. intros H. apply andb_prop in H as [H H3]. apply andb_prop in H as [H1 H2].
  destruct (c_pff c); [discriminate|]. apply negb_true_iff in H2. auto.
Qed.

Lemma cleanO_parts o : cleanO o = true -> o_comment o = None /\ forallb cleanV (o_vals o) = true /\ forallb cleanO (o_sub o) = true.
Proof.
  rewrite cleanO_eq. intros H. apply andb_prop in H as [H H3]. apply andb_prop in H as [H1 H2].
  destruct (o_comment o); [discriminate|]. auto.
Qed.

Lemma cleanC_intro c : c_pff c = None -> cflag c CFGF_COMMENTS = false -> forallb cleanO (c_opts c) = true -> cleanC c = true.
Proof. intros A B C. rewrite cleanC_eq, A, B, C. reflexivity. Qed.

Lemma cleanO_intro o : o_comment o = None -> forallb cleanV (o_vals o) = true -> forallb cleanO (o_sub o) = true -> cleanO o = true.
Proof. intros A B C. rewrite cleanO_eq, A, B, C. reflexivity. Qed.

(* ---- header updates ---- *)
Lemma cleanC_ceq a b : c_pff a = c_pff b -> c_flags a = c_flags b -> c_opts a = c_opts b -> cleanC a = cleanC b.
Proof. intros A B C. rewrite !cleanC_eq. unfold cflag. rewrite A, B, C. reflexivity. Qed.

Lemma cleanC_set_line c l : cleanC (set_line c l) = cleanC c. Proof. destruct c; reflexivity. Qed.
Lemma cleanC_set_file c l : cleanC (set_file c l) = cleanC c. Proof. destruct c; reflexivity. Qed.
Lemma cleanC_set_err c l : cleanC (set_err c l) = cleanC c. Proof. destruct c; reflexivity. Qed.
Lemma cleanC_set_pos c p : cleanC (set_pos c p) = cleanC c. Proof. destruct c; reflexivity. Qed.

Lemma cleanC_set_opts c l : cleanC c = true -> forallb cleanO l = true -> cleanC (set_opts c l) = true.
Proof.
  intros H Hl. destruct (cleanC_parts c H) as (A & B & _). apply cleanC_intro.
  - destruct c; exact A.
  - destruct c; exact B.
  - rewrite c_opts_set_opts. exact Hl.
Qed.

(* ---- option updates ---- *)
Lemma cleanO_setf o m : cleanO (o_setf o m) = cleanO o. Proof. destruct o; reflexivity. Qed.
Lemma cleanO_clrf o m : cleanO (o_clrf o m) = cleanO o. Proof. destruct o; reflexivity. Qed.
Lemma cleanO_set_comment_none o : cleanO o = true -> cleanO (set_comment o None) = true.
Proof. intros H. destruct (cleanO_parts o H) as (_ & B & C). apply cleanO_intro; destruct o; auto. Qed.

Lemma cleanO_set_vals o v : cleanO o = true -> forallb cleanV v = true -> cleanO (set_vals o v) = true.
Proof.
  intros H Hv. destruct (cleanO_parts o H) as (A & _ & C). apply cleanO_intro.
  - destruct o; exact A.
  - rewrite o_vals_set_vals. exact Hv.
  - rewrite o_sub_set_vals. exact C.
Qed.

Lemma cleanO_free_value o : cleanO o = true -> cleanO (fst (free_value o)) = true.
Proof.
  intros H. unfold free_value. cbn [fst]. apply cleanO_set_vals; [|reflexivity].
  destruct (match o_comment o with Some _ => negb (oflag o CFGF_RESET) | None => false end); [apply cleanO_set_comment_none|]; exact H.
Qed.

Lemma cleanV_zero k : cleanV (zero_value k) = true.
Proof. destruct k; reflexivity. Qed.

Lemma cleanO_addval o : cleanO o = true -> cleanO (addval o) = true.
Proof.
  intros H. unfold addval. rewrite cleanO_setf. apply cleanO_set_vals; [exact H|].
  destruct (cleanO_parts o H) as (_ & B & _). rewrite forallb_app, B. cbn [forallb]. rewrite cleanV_zero. reflexivity.
Qed.

Lemma cleanO_store o idx v m :
  cleanO o = true -> cleanV v = true -> cleanO (o_setf (set_vals o (upd_nth (o_vals o) idx (fun _ => v))) m) = true.
Proof.
  intros H Hv. rewrite cleanO_setf. apply cleanO_set_vals; [exact H|].
  destruct (cleanO_parts o H) as (_ & B & _). apply forallb_upd_nth; [exact B|]. intros; exact Hv.
Qed.

(* ---- paths into the tree ---- *)
Lemma clean_nth_sec o v s : cleanO o = true -> nth_sec o v = Some s -> cleanC s = true.
Proof.
  intros H. unfold nth_sec. destruct (nth_error (o_vals o) v) as [[| | | |[s'|]|]|] eqn:E; try discriminate.
  intros H'; injection H' as <-. destruct (cleanO_parts o H) as (_ & B & _).
  exact (forallb_nth_error cleanV _ _ _ B E).
Qed.

Lemma clean_get_sec : forall steps c s, cleanC c = true -> get_sec c steps = Some s -> cleanC s = true.
Proof.
  induction steps as [|[i v] r IH]; intros c s H G; cbn [get_sec] in G.
  - injection G as <-. exact H.
  - destruct (nth_error (c_opts c) i) as [o|] eqn:E; [|discriminate].
    destruct (nth_sec o v) as [s1|] eqn:E1; [|discriminate].
    destruct (cleanC_parts c H) as (_ & _ & C).
    apply (IH s1 s); [|exact G]. eapply clean_nth_sec; [|exact E1]. exact (forallb_nth_error cleanO _ _ _ C E).
Qed.

Lemma clean_get_opt c r o : cleanC c = true -> get_opt c r = Some o -> cleanO o = true.
Proof.
  intros H G. unfold get_opt in G. destruct (get_sec c (fst r)) as [s|] eqn:E; [|discriminate].
  pose proof (clean_get_sec _ _ _ H E) as Hs. destruct (cleanC_parts s Hs) as (_ & _ & C).
  exact (forallb_nth_error cleanO _ _ _ C G).
Qed.

Lemma clean_upd_sec : forall steps c f, cleanC c = true -> (forall s, cleanC s = true -> cleanC (f s) = true) ->
  cleanC (upd_sec c steps f) = true.
Proof.
  induction steps as [|[i v] r IH]; intros c f H Hf; cbn [upd_sec]; [apply Hf, H|].
  destruct (cleanC_parts c H) as (_ & _ & C).
  apply cleanC_set_opts; [exact H|]. apply forallb_upd_nth; [exact C|]. intros o Eo.
  pose proof (forallb_nth_error cleanO _ _ _ C Eo) as Ho. destruct (cleanO_parts o Ho) as (_ & B & _).
  apply cleanO_set_vals; [exact Ho|]. apply forallb_upd_nth; [exact B|]. intros x Ex.
  pose proof (forallb_nth_error cleanV _ _ _ B Ex) as Hx.
  destruct x as [| | | |[s|]|]; try exact Hx. cbn [cleanV] in *. apply IH; assumption.
Qed.

Lemma clean_upd_opt c r f : cleanC c = true -> (forall o, cleanO o = true -> cleanO (f o) = true) -> cleanC (upd_opt c r f) = true.
Proof.
  intros H Hf. unfold upd_opt. apply clean_upd_sec; [exact H|]. intros s Hs.
  destruct (cleanC_parts s Hs) as (_ & _ & C). apply cleanC_set_opts; [exact Hs|].
  apply forallb_upd_nth; [exact C|]. intros o Eo. apply Hf. exact (forallb_nth_error cleanO _ _ _ C Eo).
Qed.

Lemma clean_put_opt c r o : cleanC c = true -> cleanO o = true -> cleanC (put_opt c r o) = true.
Proof. intros H Ho. unfold put_opt. apply clean_upd_opt; [exact H|]. intros; exact Ho. Qed.

Lemma clean_handle_deprecated w c r : cleanC c = true -> cleanC (snd (handle_deprecated w c r)) = true.
Proof.
  intros H. unfold handle_deprecated. destruct (get_opt c r) as [o|] eqn:E; [|exact H].
  destruct (oflag o CFGF_DEPRECATED); [|exact H]. destruct (oflag o CFGF_DROP); [|exact H].
  pose proof (cleanO_free_value o (clean_get_opt _ _ _ H E)) as Hf. destruct (free_value o) as [o1 fr]. cbn [fst snd] in *.
  apply clean_put_opt; assumption.
Qed.

Lemma clean_dep_w w c p : cleanC c = true -> cleanC (snd (dep_w w c p)) = true.
Proof. intros H. unfold dep_w. destruct (s_opt p); [apply clean_handle_deprecated|]; exact H. Qed.

Lemma clean_next_token fl w c : cleanC (snd (fst (fst (next_token fl w c)))) = cleanC c.
Proof. unfold next_token. cbv zeta. cbn [fst snd]. apply cleanC_set_pos. Qed.

Lemma clean_addopt c name : cleanC c = true -> cleanC (fst (addopt c name)) = true.
Proof.
  intros H. unfold addopt. cbn [fst]. destruct (cleanC_parts c H) as (_ & _ & C).
  apply cleanC_set_opts; [exact H|]. rewrite forallb_app, C. reflexivity.
Qed.

Lemma clean_lexer_include w c a : cleanC c = true -> cleanC (snd (fst (lexer_include w c a))) = true.
Proof.
  intros H. unfold lexer_include. destruct (Nat.leb _ _); [exact H|].
  destruct (match w_path w with [] => _ | _ => _ end); [|exact H].
  destruct (open_input _ _); [|exact H]. cbn [fst snd]. rewrite cleanC_set_line, cleanC_set_file. exact H.
Qed.

Lemma clean_sec_prep c1 sec : cleanC (sec_prep c1 sec) = cleanC sec.
Proof.
  unfold sec_prep. destruct (c_file c1); [|rewrite cleanC_set_err, cleanC_set_line; reflexivity].
  destruct (c_file (set_err (set_line sec (c_line c1)) (c_err c1))).
  - destruct (str_eqb _ _); rewrite ?cleanC_set_file, cleanC_set_err, cleanC_set_line; reflexivity.
  - rewrite cleanC_set_file, cleanC_set_err, cleanC_set_line. reflexivity.
Qed.

Section WithOracles.
Variable strtod_o : str -> strtod_res.
Notation PI := (parse_internal strtod_o).
Notation SO := (setopt strtod_o).
Notation ID := (init_defaults strtod_o).

Definition so_clean (f : nat) : Prop :=
  forall w c o txt, cleanC c = true -> cleanO o = true -> cleanO (snd (fst (SO f w c o txt))) = true.
Definition id_clean (f : nat) : Prop := forall w c, cleanC c = true -> cleanC (snd (ID f w c)) = true.
Definition pi_clean (f : nat) : Prop :=
  forall w c level p, cleanC c = true -> s_comment p = None -> cleanC (snd (fst (PI f w c level p))) = true.

(* ---- cfg_setopt ---- *)
Lemma so_kind_clean f c txt w1 o1 idx : id_clean f -> cleanC c = true -> cleanO o1 = true ->
  cleanO (snd (fst (so_kind strtod_o f c txt w1 o1 idx))) = true.
Proof.
  intros HID Hc Ho. unfold so_kind, so_store.
  destruct (o_kind o1) eqn:K.
  1-5,7-8: repeat match goal with
           | |- context [match ?x with _ => _ end] => destruct x
           | |- context [let '(_, _) := ?x in _] => destruct x
           end; cbn [fst snd]; try exact Ho; apply cleanO_store; try exact Ho; reflexivity.
  (* a section *)
  destruct (cleanC_parts c Hc) as (_ & Cc & _). destruct (cleanO_parts o1 Ho) as (_ & B & S).
  set (existing := match nth_error (o_vals o1) idx with Some (VSec (Some s)) => Some s | _ => None end).
  assert (forall s, existing = Some s -> cleanC s = true) as Hex.
  { intros s E. unfold existing in E. destruct (nth_error (o_vals o1) idx) as [[| | | |[s'|]|]|] eqn:En; try discriminate.
    injection E as <-. exact (forallb_nth_error cleanV _ _ _ B En). }
  assert (forall w' ti, cleanC (snd (ID f w' (Cfg (o_name o1) ti
            (if oflag o1 CFGF_KEYSTRVAL then setf (c_flags c) CFGF_KEYSTRVAL else c_flags c)
            (o_sub o1) (c_file c) (c_line c) (c_err c) None))) = true) as Hnew.
  { intros w' ti. apply HID. apply cleanC_intro; [reflexivity| |exact S].
    unfold cflag in *. cbn [c_flags]. destruct (oflag o1 CFGF_KEYSTRVAL); [|exact Cc].
    rewrite has_setf, Cc. reflexivity. }
  destruct (oflag o1 CFGF_MULTI || match existing with None => true | Some _ => false end).
  - match goal with |- context [ID f ?w' ?cc] => pose proof (Hnew w' txt) as H; destruct (ID f w' cc) as [w3 sec'] end.
    cbn [fst snd] in *. apply cleanO_store; [exact Ho|exact H].
  - cbn [fst snd]. apply cleanO_store; [exact Ho|]. cbn [cleanV].
    destruct existing as [s|]; [apply Hex; reflexivity|reflexivity].
Qed.

Lemma so_body_clean f w c o txt : id_clean f -> cleanC c = true -> cleanO o = true ->
  cleanO (snd (fst (so_body strtod_o f w c o txt))) = true.
Proof.
  intros HID Hc Ho. unfold so_body.
  assert (cleanO (snd (so_reset w o)) = true) as H0.
  { unfold so_reset. destruct (oflag o CFGF_RESET); [|exact Ho].
    pose proof (cleanO_free_value o Ho) as Hf. destruct (free_value o) as [x fr]. cbn [fst snd] in *. rewrite cleanO_clrf. exact Hf. }
  destruct (so_reset w o) as [w0 o0]. cbn [snd] in H0.
  destruct (so_slot w0 c o0 txt) as [[[w1 o1] idx]|] eqn:Es.
  - apply so_kind_clean; [exact HID|exact Hc|].
    unfold so_slot in Es.
    repeat match type of Es with
           | context [if ?x then _ else _] => destruct x
           | context [match ?x with _ => _ end] => destruct x
           end; try discriminate; injection Es as <- <- <-; try exact H0; apply cleanO_addval; exact H0.
  - cbn [fst snd]. exact H0.
Qed.

(* ---- cfg_init_defaults ---- *)
Lemma id_scalar_clean o1 : cleanO o1 = true -> cleanO (id_scalar o1) = true.
Proof.
  intros H.
  assert (forall v, cleanV v = true -> cleanO (id_setn o1 v) = true) as Hs.
  { intros v Hv. unfold id_setn, opt_getval. cbn [N.eqb negb andb].
    destruct (oflag o1 CFGF_RESET).
    - pose proof (cleanO_free_value o1 H) as Hf. destruct (free_value o1) as [x fr]. cbn [fst] in Hf.
      destruct (N.of_nat (length (o_vals (o_clrf x CFGF_RESET))) <=? 0)%N; apply cleanO_store; try exact Hv;
        try apply cleanO_addval; rewrite cleanO_clrf; exact Hf.
    - destruct (N.of_nat (length (o_vals o1)) <=? 0)%N; apply cleanO_store; try exact Hv; try apply cleanO_addval; exact H. }
  unfold id_scalar. rewrite cleanO_clrf, cleanO_setf.
  destruct (o_kind o1); try exact H; apply Hs; reflexivity.
Qed.

Lemma id_loop_clean f : so_clean f -> pi_clean f -> forall todo i w c, cleanC c = true ->
  cleanC (snd (id_loop strtod_o f todo i w c)) = true.
Proof.
  intros HSO HPI. induction todo as [|x todo IH]; intros i w c H; [exact H|].
  cbn [id_loop]. fold (id_loop strtod_o f).
  destruct (nth_error (c_opts c) i) as [o|] eqn:E; [|exact H].
  cbv zeta.
  match goal with |- context [if ?d then add_diags w ?x else w] => generalize (if d then add_diags w x else w) end.
  intro w1.
  assert (cleanO o = true) as Ho by (apply (clean_get_opt c ([], i) o H); exact E).
  destruct (oflag o CFGF_NODEFAULT); [apply IH, H|].
  destruct (negb (kind_eqb (o_kind o) KSec)).
  - assert (cleanC (put_opt c ([], i) (o_setf o CFGF_DEFINIT)) = true) as H1
      by (apply clean_put_opt; [exact H|rewrite cleanO_setf; exact Ho]).
    destruct (oflag (o_setf o CFGF_DEFINIT) CFGF_LIST || _).
    + destruct (d_parsed (o_def (o_setf o CFGF_DEFINIT))) as [[|b buf]|].
      * apply IH, H1.
      * match goal with |- context [PI f ?a ?b ?c ?d] =>
          pose proof (HPI a b c d H1 eq_refl) as H2; destruct (PI f a b c d) as [[w2 c2] rc] end.
        cbn [fst snd] in H2.
        destruct rc; try exact H2; apply IH; apply clean_upd_opt; try exact H2;
          intros o' Ho'; rewrite cleanO_clrf, cleanO_setf; exact Ho'.
      * apply IH, H1.
    + apply IH. apply clean_put_opt; [exact H|]. apply id_scalar_clean. rewrite cleanO_setf. exact Ho.
  - destruct (negb (oflag o CFGF_MULTI)); [|apply IH, H].
    pose proof (HSO w1 c o None H Ho) as H2. destruct (SO f w1 c o None) as [[w2 o1] res]. cbn [fst snd] in H2.
    apply IH. apply clean_put_opt; [exact H|]. rewrite cleanO_setf. exact H2.
Qed.

(* ---- cfg_parse_internal ---- *)
Section Steps.
Variable f : nat.
Hypothesis HSO : so_clean f.
Hypothesis HPI : pi_clean f.

Ltac fin :=
  cbn [fst snd perr errd];
  first [ assumption
        | apply HPI; [fin|cbn; first [assumption|reflexivity]]
        | apply clean_put_opt; fin
        | rewrite cleanO_setf; fin
        | rewrite cleanO_clrf; fin
        | rewrite cleanC_set_line; fin
        | apply cleanO_free_value; fin ].

Lemma st0_clean level p w c t v : cleanC c = true -> s_comment p = None -> cleanC (snd (fst (st0 strtod_o f level p w c t v))) = true.
Proof.
  intros H Hp. unfold st0.
  pose proof (clean_dep_w w c p H) as H1. destruct (dep_w w c p) as [w1 c1]. cbn [snd] in H1.
  destruct (cleanC_parts c1 H1) as (_ & Cc & _).
  destruct t as [| |x| |]; try (cbn [fst snd errd]; exact H1).
  - (* TStr *)
    destruct (cfg_getopt c1 (sval v)) as [ro ds]. destruct ro as [r|].
    + destruct (get_opt c1 r); [|exact H1]. apply HPI; [exact H1|exact Hp].
    + destruct (cflag c1 CFGF_IGNORE_UNKNOWN); [apply HPI; [exact H1|exact Hp]|].
      destruct (cflag c1 CFGF_KEYSTRVAL && _).
      * pose proof (clean_addopt c1 (sval v) H1) as H2. destruct (addopt c1 (sval v)) as [c2 r]. cbn [fst] in H2.
        apply HPI; [exact H2|exact Hp].
      * destruct (sval v); exact H1.
  - (* TComment *)
    rewrite Cc. cbn [negb]. apply HPI; [exact H1|exact Hp].
  - (* TPunct *)
    repeat match goal with |- context [match ?y with _ => _ end] => destruct y end; cbn [fst snd errd]; exact H1.
Qed.

Lemma st1_clean level p w c t v : cleanC c = true -> s_comment p = None -> cleanC (snd (fst (st1 strtod_o f level p w c t v))) = true.
Proof.
  intros H Hp. unfold st1, curopt_of. destruct (s_opt p) as [r|]; [|exact H].
  destruct (get_opt c r) as [o|] eqn:E; [|exact H].
  pose proof (clean_get_opt c r o H E) as Ho.
  repeat match goal with |- context [if ?y then _ else _] => destruct y end; fin.
Qed.

Lemma st2_clean level p w c t v : cleanC c = true -> s_comment p = None -> cleanC (snd (fst (st2 strtod_o f level p w c t v))) = true.
Proof.
  intros H Hp. unfold st2, curopt_of. destruct (s_opt p) as [r|]; [|exact H].
  destruct (get_opt c r) as [o|] eqn:E; [|exact H].
  pose proof (clean_get_opt c r o H E) as Ho.
  destruct (tok_is t 125 && oflag o CFGF_LIST).
  - destruct (Nat.eqb (s_num p) 0 && oflag o CFGF_RESET); [|fin].
    pose proof (cleanO_free_value o Ho) as Hf. destruct (free_value o) as [o1 fr]. cbn [fst] in Hf. fin.
  - destruct (negb (tok_is_str t)); [fin|].
    pose proof (HSO w c o v H Ho) as H1. destruct (SO f w c o v) as [[w1 o1] res]. cbn [fst snd] in H1.
    cbv zeta. destruct res; [|fin].
    destruct (run_validcb w1 o1) as [w2 fl]. destruct fl; [fin|].
    rewrite Hp. destruct (oflag o1 CFGF_LIST); fin.
Qed.

Lemma st3_clean level p w c t v : cleanC c = true -> s_comment p = None -> cleanC (snd (fst (st3 strtod_o f level p w c t v))) = true.
Proof.
  intros H Hp. unfold st3, curopt_of. destruct (s_opt p) as [r|]; [|exact H].
  destruct (get_opt c r) as [o|] eqn:E; [|exact H].
  pose proof (clean_get_opt c r o H E) as Ho.
  destruct (tok_is t 123); [fin|].
  destruct (negb (tok_is_str t)); [fin|].
  pose proof (HSO w c o v H Ho) as H1. destruct (SO f w c o v) as [[w1 o1] res]. cbn [fst snd] in H1.
  cbv zeta. destruct res; [|fin].
  destruct (run_validcb w1 o1) as [w2 fl]. destruct fl; [fin|].
  rewrite Hp. fin.
Qed.

Lemma st4_clean level p w c t v : cleanC c = true -> s_comment p = None -> cleanC (snd (fst (st4 strtod_o f level p w c t v))) = true.
Proof.
  intros H Hp. unfold st4, curopt_of. destruct (tok_is t 44); [fin|]. destruct (tok_is t 125); [|fin].
  destruct (match s_opt p with Some r => get_opt c r | None => None end) as [o|]; [|fin].
  destruct (run_validcb w o) as [w1 fl]. destruct fl; fin.
Qed.

Lemma st5_clean level p w c t v : cleanC c = true -> s_comment p = None -> cleanC (snd (fst (st5 strtod_o f level p w c t v))) = true.
Proof.
  intros H Hp. unfold st5, curopt_of. destruct (negb (tok_is t 123)); [fin|].
  destruct (s_opt p) as [r|]; [|exact H].
  destruct (get_opt c r) as [o|] eqn:E; [|exact H].
  pose proof (clean_get_opt c r o H E) as Ho.
  pose proof (HSO w c o (s_title p) H Ho) as H1. destruct (SO f w c o (s_title p)) as [[w1 o1] res]. cbn [fst snd] in H1.
  cbv zeta. destruct res as [idx|]; [|fin].
  destruct (nth_sec o1 idx) as [sec|] eqn:En; [|fin].
  pose proof (clean_nth_sec o1 idx sec H1 En) as Hsec.
  assert (cleanC (sec_prep (put_opt c r o1) sec) = true) as Hsp by (rewrite clean_sec_prep; exact Hsec).
  pose proof (HPI w1 _ (S level) (pst0 0 None) Hsp eq_refl) as H3.
  destruct (PI f w1 (sec_prep (put_opt c r o1) sec) (S level) (pst0 0 None)) as [[w2 sec3] rc]. cbn [fst snd] in H3.
  assert (cleanO (set_vals o1 (upd_nth (o_vals o1) idx (fun _ => VSec (Some sec3)))) = true) as Ho2.
  { apply cleanO_set_vals; [exact H1|]. destruct (cleanO_parts o1 H1) as (_ & B & _).
    apply forallb_upd_nth; [exact B|]. intros; exact H3. }
  destruct rc; try fin.
  destruct (run_validcb w2 _) as [w3 fl]. destruct fl; fin.
Qed.

Lemma st89_clean level p w c t v : cleanC c = true -> s_comment p = None -> cleanC (snd (fst (st89 strtod_o f level p w c t v))) = true.
Proof.
  intros H Hp. unfold st89, curopt_of.
  assert (cleanC (snd (fst (match match s_opt p with Some r => get_opt c r | None => None end with
     | Some o =>
         match cb_func (o_cbs o) with
         | Some FInclude =>
             match s_args p with
             | [a] => let '(w1, c1, failed) := lexer_include w c a in
                      if failed then perr w1 c1 else PI f w1 c1 level (st_state (st_args p []) 0)
             | _ => errd w c "wrong number of arguments to cfg_include()"
             end
         | Some (FUser k) =>
             let '(w1, fl) := tick w in
             let w2 := add_cb w1 (CbFunc k (o_name o) (s_args p) fl) in
             if fl then perr w2 c else PI f w2 c level (st_state (st_args p []) 0)
         | None => (set_crash w "null-call:call_function", c, PERR)
         end
     | None => (set_crash w "null-deref:call_function", c, PERR)
     end))) = true) as Hcall.
  { destruct (match s_opt p with Some r => get_opt c r | None => None end) as [o|]; [|exact H].
    destruct (cb_func (o_cbs o)) as [[|k]|]; [| |exact H].
    - destruct (s_args p) as [|a [|a2 l]]; try fin.
      pose proof (clean_lexer_include w c a H) as H1. destruct (lexer_include w c a) as [[w1 c1] failed]. cbn [fst snd] in H1.
      destruct failed; fin.
    - destruct (tick w) as [w1 fl]. cbv zeta. destruct fl; fin. }
  destruct (Nat.eqb (s_state p) 8).
  - destruct (tok_is t 41); [exact Hcall|]. destruct (tok_is_str t); fin.
  - destruct (tok_is t 41); [exact Hcall|]. destruct (tok_is t 44); fin.
Qed.

Lemma st_rest_clean level p w c t v : cleanC c = true -> s_comment p = None ->
  cleanC (snd (fst (st6 strtod_o f level p w c t v))) = true /\ cleanC (snd (fst (st7 strtod_o f level p w c t v))) = true /\
  cleanC (snd (fst (st10 strtod_o f level p w c t v))) = true /\ cleanC (snd (fst (st11 strtod_o f level p w c t v))) = true /\
  cleanC (snd (fst (st12 strtod_o f level p w c t v))) = true /\ cleanC (snd (fst (st13 strtod_o f level p w c t v))) = true /\
  cleanC (snd (fst (st14 strtod_o f level p w c t v))) = true.
Proof.
  intros H Hp. unfold st6, st7, st10, st11, st12, st13, st14.
  repeat split; repeat match goal with |- context [if ?y then _ else _] => destruct y end; fin.
Qed.

Lemma pi_body_clean level p w c t v : cleanC c = true -> s_comment p = None ->
  cleanC (snd (fst (pi_body strtod_o f level p w c t v))) = true.
Proof.
  intros H Hp. unfold pi_body.
  assert (cleanC (snd (fst (st_dispatch strtod_o f level p w c t v))) = true) as Hd.
  { unfold st_dispatch. destruct (st_rest_clean level p w c t v H Hp) as (A6 & A7 & A10 & A11 & A12 & A13 & A14).
    destruct (s_state p) as [|[|[|[|[|[|[|[|[|[|[|[|[|[|[|n]]]]]]]]]]]]]]].
    - apply st0_clean; assumption.
    - apply st1_clean; assumption.
    - apply st2_clean; assumption.
    - apply st3_clean; assumption.
    - apply st4_clean; assumption.
    - apply st5_clean; assumption.
    - exact A6.
    - exact A7.
    - apply st89_clean; assumption.
    - apply st89_clean; assumption.
    - exact A10.
    - exact A11.
    - exact A12.
    - exact A13.
    - exact A14.
    - fin. }
  destruct t; try exact Hd; try fin.
  - destruct (negb (Nat.eqb (s_state p) 0)); [fin|exact Hd].
  - destruct (negb (Nat.eqb (s_state p) 0)); [fin|].
    destruct (negb (Nat.eqb level 0) && negb (s_forced p)); [fin|].
    pose proof (clean_dep_w w c p H) as H1. destruct (dep_w w c p) as [w1 c1]. exact H1.
Qed.

End Steps.

(* the three functions keep a clean tree clean *)
Theorem clean_preserved : forall f, so_clean f /\ id_clean f /\ pi_clean f.
Proof.
  induction f as [|f (IHs & IHi & IHp)].
  - repeat split.
    + intros w c o txt _ Ho. exact Ho.
    + intros w c H. exact H.
    + intros w c level p H _. exact H.
  - repeat split.
    + intros w c o txt Hc Ho. rewrite so_unfold. apply so_body_clean; assumption.
    + intros w c H. rewrite id_unfold. apply id_loop_clean; assumption.
    + intros w c level p H Hp. rewrite pi_unfold.
      pose proof (clean_next_token f w c) as Hn. destruct (next_token f w c) as [[[w1 c1] t] v]. cbn [fst snd] in Hn.
      apply pi_body_clean; try assumption. rewrite Hn. exact H.
Qed.

(* cfg_parse_buf *)
Theorem parse_buf_clean fuel w c b : cleanC c = true -> cleanC (snd (fst (parse_buf strtod_o fuel w c b))) = true.
Proof.
  intros H. unfold parse_buf. destruct b as [b|]; [|exact H].
  unfold parse_fp, parse_fp_gen. cbv zeta.
  match goal with |- context [PI fuel ?a ?b ?c ?d] =>
    pose proof (proj2 (proj2 (clean_preserved fuel)) a b c d) as H2; destruct (PI fuel a b c d) as [[w2 c3] rc] end.
  cbn [fst snd] in *. apply H2; [|reflexivity].
  rewrite cleanC_set_line. destruct (c_file (set_file c (Some (M "[buf]")))); rewrite ?cleanC_set_file; exact H.
Qed.

End WithOracles.
